#!/bin/bash
# tools/confirm_seeded.sh Cxx  : independently confirm the change written in /tmp/mut-Cxx/OUT in a fresh scratch worktree,
# (second argument n: wave number, source /tmp/mut<n>-Cxx) then store it as /verif/seeded/Cxx-<n>/{patch.diff,demo.py,notes.md,meta.json}
set -u
pid="$1"; n="${2:-1}"; if [ "$n" = "1" ]; then mut=/tmp/mut-$pid; else mut=/tmp/mut$n-$pid; fi; src=$mut/OUT; w=/tmp/confirm-$pid-$n
[ -f $src/patch.diff ] || { echo "no patch for $pid"; exit 2; }
git -C /repo worktree remove --force $w 2>/dev/null
git -C /repo worktree add -q --detach $w HEAD || exit 2
export PYTHONPATH=$w/src JAX_PLATFORMS=cpu
mkdir -p $w/OUT; cp $src/demo.py $w/OUT/demo.py
sed -i "s#$mut#$w#g" $w/OUT/demo.py
( cd $w && timeout 600 /venv/bin/python OUT/demo.py > $w/OUT/demo_orig.log 2>&1 ); rc_orig=$?
( cd $w && git apply $src/patch.diff ) || { echo "patch does not apply"; git -C /repo worktree remove --force $w; exit 2; }
files=$(git -C $w diff --name-only | tr '\n' ' ')
( cd $w && timeout 600 /venv/bin/python OUT/demo.py > $w/OUT/demo_mut.log 2>&1 ); rc_mut=$?
tests=""
case "$files" in *algorithm/*|*buffer/*|*callback/*|*benchmark*) tests="tests/algorithm tests/integration/test_ppo_callbacks.py";; esac
case "$files" in *distribution/*|*policy/*) tests="$tests tests/distribution tests/algorithm/test_ppo.py tests/algorithm/test_dqn.py";; esac
case "$files" in *env/unitree*) tests="$tests tests/env";; esac
case "$files" in *env/*|*wrapper/*|*space/*|*compatibility/*) tests="$tests tests/integration/test_environment_stepping.py tests/integration/test_gym_wrapper.py tests/integration/test_gymnax_wrapper.py tests/algorithm/test_ppo.py";; esac
case "$files" in *utils.py*) tests="$tests tests/integration/test_serialization.py tests/algorithm/test_ppo.py";; esac
[ -z "$tests" ] && tests="tests/algorithm/test_ppo.py"
( cd $w && timeout 2400 /venv/bin/python -m pytest -q -p no:cacheprovider -p no:cov -o addopts="" --timeout=900 $tests > $w/OUT/tests.log 2>&1 ); rc_tests=$?
summary=$(grep -E "passed|failed|error" $w/OUT/tests.log | tail -1)
d=/verif/seeded/$pid-$n; mkdir -p $d
cp $src/patch.diff $d/patch.diff; cp $src/demo.py $d/demo.py; cp $src/notes.md $d/notes.md 2>/dev/null
python3 - <<PY
import json
json.dump({"property":"$pid","files":"$files".split(),"confirmed":{"demo_exit_on_original":$rc_orig,"demo_exit_with_change":$rc_mut,"tests_run":"$tests".split(),"tests_exit":$rc_tests,"tests_summary":"""$summary"""},
 "needs_to_manifest":"see notes.md","source":"written by an independent sub-agent given only the property text and a scratch worktree"},open("$d/meta.json","w"),indent=1)
PY
echo "$pid demo_orig=$rc_orig demo_mut=$rc_mut tests=$rc_tests ($summary) files=$files"
git -C /repo worktree remove --force $w
