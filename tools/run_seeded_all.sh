#!/bin/bash
# tools/run_seeded_all.sh [tier] : apply every seeded change in turn, run its property's check, undo it; summary in seeded/RESULTS.txt
tier="${1:-quick}"
cd "$(dirname "$0")/.."
: > seeded/RESULTS.txt
for d in seeded/C*-*; do
  [ -f "$d/patch.diff" ] || continue
  out=$(tools/run_seeded.sh "$d" "$tier" 2>&1)
  rc=$(echo "$out" | grep -o 'exit=[0-9]*' | tail -1)
  nv=$(echo "$out" | grep -c '^VIOLATION')
  nf=$(echo "$out" | grep -c 'no-failing-input-found')
  echo "$(basename $d) $rc violations=$nv without_concrete_input=$nf" | tee -a seeded/RESULTS.txt
done
git -C /repo status --short | head -3
