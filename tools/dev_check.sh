#!/bin/bash
# tools/dev_check.sh <lerax src dir> Cxx [tier]  (development only): run a check of THIS tree against a scratch copy of the lerax
# sources (e.g. /repo/src plus a seeded patch) without touching /repo.  Registered commands always use ./check (PYTHONPATH=/repo/src).
set -u
src="$(realpath "$1")"; pid="$2"; tier="${3:-quick}"
cd "$(dirname "$0")/.."; HERE="$(pwd)"
mod=$(ls harness/ | grep -i "^${pid,,}_.*\.py$" | head -1)
export PYTHONPATH=$src:$HERE PYTHONHASHSEED=0 JAX_PLATFORMS=cpu LERAX_VERIF=1 TF_CPP_MIN_LOG_LEVEL=3 WANDB_MODE=disabled LERAX_SRC=$src
export XLA_FLAGS="${XLA_FLAGS:-} --xla_cpu_multi_thread_eigen=false"
exec /venv/bin/python -m "harness.${mod%.py}" --tier "$tier"
