#!/bin/bash
# tools/check_links.sh : re-translate every kernel from /repo/src (or $LERAX_SRC) and re-check every link file (coq/link/*_link.v).
# Run after every edit of the translator; also part of setup.sh.  Exit 1 if a kernel no longer translates or a link no longer checks.
cd "$(dirname "$0")/.."
rc=0
PYTHONPATH=$(pwd) /venv/bin/python -c "
from harness.translate import kernels
from pathlib import Path
for p in sorted(kernels.KERNELS): kernels.generate(p, Path('coq'))
" || exit 1
cd coq
for f in link/*_link.v; do
  p=$(basename $f _link.v)
  if timeout 600 coqc -R theories Lerax -Q gen/$p LeraxGen -w -notation-overridden gen/$p/GenK_$p.v > /tmp/link_$p.log 2>&1 && \
     timeout 900 coqc -R theories Lerax -Q gen/$p LeraxGen -Q link LeraxLink -w -notation-overridden $f >> /tmp/link_$p.log 2>&1; then
    echo "link $p ok ($(grep -c '^ *Theorem' $f) theorems)"
  else
    echo "link $p FAILS"; tail -6 /tmp/link_$p.log; rc=1
  fi
done
exit $rc
