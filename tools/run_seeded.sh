#!/bin/bash
# tools/run_seeded.sh <seeded dir> [tier]  : apply the seeded change to /repo, run the property's check, undo it.
set -u
d="$(realpath "$1")"; tier="${2:-quick}"
pid=$(python3 -c "import json,sys; print(json.load(open('$d/meta.json'))['property'])")
cd /verif
git -C /repo diff --quiet || { echo "/repo has uncommitted changes"; exit 2; }
git -C /repo apply "$d/patch.diff" || exit 2
./check "$pid" --tier "$tier" > "/tmp/seeded_${pid}_$(basename $d).log" 2>&1
rc=$?
git -C /repo checkout -- .
grep -E "VIOLATION|KNOWN-FINDING|done:" "/tmp/seeded_${pid}_$(basename $d).log" | cut -c1-260
echo "exit=$rc"
