#!/bin/bash
# tools/run_all.sh <seed> [tier] : run every registered check once, print one summary line per check
seed="${1:-0}"; tier="${2:-quick}"
cd "$(dirname "$0")/.."
for id in $(python3 -c "import json; print(' '.join(c['property_id'] for c in json.load(open('MANIFEST.json'))['checks']))"); do
  t0=$(date +%s)
  VERIF_SEED=$seed ./check $id --tier $tier > /tmp/runall_${seed}_$id.log 2>&1; rc=$?
  t1=$(date +%s)
  echo "$id seed=$seed rc=$rc $((t1-t0))s $(grep -E 'done:' /tmp/runall_${seed}_$id.log | tail -1 | cut -c1-140) $(grep -c VIOLATION /tmp/runall_${seed}_$id.log) viol"
done
