#!/usr/bin/env python3
"""tools/link_vs_seeded.py [seeded ids ...] (development only): for every seeded change that touches a source file one of the kernel
translators reads, regenerate the Coq definitions from a scratch worktree with the change applied and re-check the link theorems,
WITHOUT running the numeric part of the checks.  Prints, per change and property: link still checks / translator fails closed /
link theorem broken.  Nothing in /repo or /verif/coq is modified (generated files and copies of the link files live in a temp dir)."""
import json
import os
import shutil
import subprocess
import sys
import tempfile
from pathlib import Path

VERIF = Path(__file__).resolve().parent.parent
sys.path.insert(0, str(VERIF))
from harness.translate import kernels  # noqa: E402
from harness.translate.ir import TranslateError  # noqa: E402


def files_of(pid):
    out = set()
    for k in kernels.KERNELS[pid]:
        for f in (k.file if isinstance(k.file, (list, tuple)) else [k.file]):
            out.add("src/lerax/" + f)
    return out


def main():
    ids = sys.argv[1:] or sorted(p.name for p in (VERIF / "seeded").iterdir() if (p / "patch.diff").exists())
    w = Path(tempfile.mkdtemp(prefix="linkseed-wt-"))
    tmp = Path(tempfile.mkdtemp(prefix="linkseed-coq-"))
    shutil.rmtree(w)
    subprocess.run(["git", "-C", "/repo", "worktree", "add", "-q", "--detach", str(w), "HEAD"], check=True)
    rows = []
    try:
        for sid in ids:
            d = VERIF / "seeded" / sid
            touched = set(json.load(open(d / "meta.json"))["files"])
            pids = [p for p in sorted(kernels.KERNELS) if files_of(p) & touched]
            if not pids:
                continue
            subprocess.run(["git", "-C", str(w), "checkout", "-q", "--", "."], check=True)
            if subprocess.run(["git", "-C", str(w), "apply", str(d / "patch.diff")]).returncode != 0:
                rows.append((sid, "-", "patch does not apply"))
                continue
            os.environ["LERAX_SRC"] = str(w / "src")
            for pid in pids:
                try:
                    gen = kernels.generate(pid, tmp)
                except TranslateError as e:
                    rows.append((sid, pid, "translator fails closed: " + str(e)[:140]))
                    continue
                link = tmp / f"{pid}_link.v"
                shutil.copy(VERIF / "coq" / "link" / f"{pid}_link.v", link)
                base = ["coqc", "-R", str(VERIF / "coq" / "theories"), "Lerax", "-Q", str(gen.parent), "LeraxGen", "-w", "-notation-overridden"]
                ok = True
                for f in (gen, link):
                    r = subprocess.run(base + [str(f)], capture_output=True, text=True, timeout=900)
                    if r.returncode != 0:
                        err = [l for l in (r.stdout + r.stderr).splitlines() if l.strip()][-3:]
                        rows.append((sid, pid, f"link theorem broken ({f.name}): " + " | ".join(err)[:200]))
                        ok = False
                        break
                if ok:
                    rows.append((sid, pid, "link still checks (the change is outside the translated functions or preserves them)"))
    finally:
        subprocess.run(["git", "-C", "/repo", "worktree", "remove", "--force", str(w)])
        shutil.rmtree(tmp, ignore_errors=True)
    for r in rows:
        print(" | ".join(r))
    (VERIF / "seeded" / "LINKS.txt").write_text("\n".join(" | ".join(r) for r in rows) + "\n")


if __name__ == "__main__":
    main()
