#!/bin/bash
# tools/wave_screen.sh Cxx n [tier] (development only): confirm the change written by a sub-agent in /tmp/mut<n>-Cxx/OUT
# (tools/confirm_seeded.sh), then run the property's check against a scratch worktree with the change applied (tools/dev_check.sh),
# without touching /repo.  Result in /tmp/w<n>/Cxx.result.  The registered procedure (tools/run_seeded.sh: apply to /repo, run
# ./check, undo) is used for the final record.
pid="$1"; n="$2"; tier="${3:-quick}"
cd "$(dirname "$0")/.."
mkdir -p /tmp/w$n
tools/confirm_seeded.sh "$pid" "$n" > /tmp/w$n/$pid.confirm 2>&1
w=/tmp/screen-$pid-$n
git -C /repo worktree remove --force $w 2>/dev/null
git -C /repo worktree add -q --detach $w HEAD
( cd $w && git apply /verif/seeded/$pid-$n/patch.diff ) || { echo "patch does not apply" > /tmp/w$n/$pid.result; exit 2; }
cp evidence/$pid.json /tmp/w$n/$pid.evidence.bak 2>/dev/null
tools/dev_check.sh $w/src "$pid" "$tier" > /tmp/w$n/$pid.log 2>&1
rc=$?
cp /tmp/w$n/$pid.evidence.bak evidence/$pid.json 2>/dev/null
git -C /repo worktree remove --force $w
{ tail -1 /tmp/w$n/$pid.confirm; grep -E "VIOLATION|KNOWN-FINDING|done:" /tmp/w$n/$pid.log | cut -c1-300; echo "exit=$rc"; } > /tmp/w$n/$pid.result
cat /tmp/w$n/$pid.result
