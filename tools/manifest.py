#!/usr/bin/env python3
"""Regenerates /verif/MANIFEST.json from the table below (keeps it schema-valid)."""
import json
from pathlib import Path

V = Path(__file__).resolve().parent.parent
PROPS = [json.loads(l) for l in (V / "properties.jsonl").read_text().splitlines() if l.strip()]

# pid -> (technique, level text, level_note, design_ref)
CHECKS = {
    "C03": (
        "Coq proof over R (induction on the rollout) + exact Q-model correspondence evaluated in Coq (vm_compute)",
        "Theorems for all rollout lengths, reward/value sequences over the reals, done patterns, gamma, lambda: the code-shaped reverse scan of rollout.py equals the GAE recursion; returns=A+V; cut at done; lambda=1 Monte-Carlo; lambda=0 TD; per-environment. "
        "The executable Q instance of the same definition is proved to be the restriction of the R model and is run against RolloutBuffer.compute_returns_and_advantages (scalar, vmapped) and the real collect_rollout on exact dyadic float64 data.",
        "Trusted: Coq kernel; Reals axioms (sig_forall_dec, functional_extensionality_dep); the hand-written model is tied to the code only by the exact differential check; float64 exactness filter; lax.scan modelled as fold_right.",
        "DESIGN.md §5 C03",
    ),
}

NOT_YET = "check not built yet in this round (planned: see DESIGN.md §5)"


def main():
    checks = []
    na = []
    for p in PROPS:
        pid = p["id"]
        if pid in CHECKS:
            tech, text, note, ref = CHECKS[pid]
            checks.append({
                "property_id": pid,
                "quick_cmd": f"./check {pid} --tier quick",
                "thorough_cmd": f"./check {pid} --tier thorough",
                "evidence_file": f"/verif/evidence/{pid}.json",
                "replay_cmd_template": f"./check {pid} --replay {{path}}",
                "engine": "coq-model+correspondence",
                "level_claimed": {"category": "proof", "text": text, "design_ref": ref},
                "level_note": note,
                "technique": tech,
            })
        else:
            na.append({"property_id": pid, "reason": NOT_YET})
    m = {
        "version": 1,
        "setup_cmd": "./setup.sh",
        "hooks": {
            "guard": "LERAX_VERIF",
            "enable": "no source hooks are needed: checks import lerax from /repo/src (PYTHONPATH) in a fresh process and drive it through its public abstract classes; LERAX_VERIF=1 is exported by ./check but nothing in /repo reads it",
            "baseline_off_cmd": "cd /repo && /venv/bin/python -m pytest -ra -q -p no:cacheprovider --timeout=900 --continue-on-collection-errors",
            "source_commits": [],
            "add_only": True,
        },
        "engines": [{
            "name": "coq-model+correspondence",
            "path": "/verif/coq, /verif/harness",
            "serves_properties": sorted(CHECKS),
            "kind_free_text": "hand-written executable Gallina models with theorems (Coq 8.16.1), tied to /repo by differential checks whose comparison runs inside Coq (vm_compute) on inputs and implementation outputs produced by the real lerax code",
        }],
        "checks": checks,
        "not_applicable": na,
        "notes": "See DESIGN.md. Known findings: /verif/known_findings.json.",
    }
    (V / "MANIFEST.json").write_text(json.dumps(m, indent=1) + "\n")
    print(f"{len(checks)} checks, {len(na)} not claimed")


if __name__ == "__main__":
    main()
