#!/usr/bin/env python3
"""Regenerates /verif/MANIFEST.json from the table below (keeps it schema-valid)."""
import json
from pathlib import Path

V = Path(__file__).resolve().parent.parent
PROPS = [json.loads(l) for l in (V / "properties.jsonl").read_text().splitlines() if l.strip()]

# pid -> (technique, level text, level_note, design_ref)
CHECKS = {
    "C03": (
        "Coq proof over R (induction on the rollout) + exact Q-model correspondence evaluated in Coq (vm_compute)",
        "Theorems for all rollout lengths, reward/value sequences over the reals, done patterns, gamma, lambda: the code-shaped reverse scan of rollout.py equals the GAE recursion; returns=A+V; cut at done; lambda=1 Monte-Carlo; lambda=0 TD; per-environment. "
        "The executable Q instance of the same definition is proved to be the restriction of the R model and is run against RolloutBuffer.compute_returns_and_advantages (scalar, vmapped) and the real collect_rollout on exact dyadic float64 data.",
        "Trusted: Coq kernel; Reals axioms (sig_forall_dec, functional_extensionality_dep); the hand-written model is tied to the code only by the exact differential check; float64 exactness filter; lax.scan modelled as fold_right.",
        "DESIGN.md §5 C03",
    ),
    "C01": (
        "Coq proof (refinement of the Gym-style API to an episodic interpreter, induction over action lists and wrapper stacks) + exact correspondence on finite MDPs evaluated in Coq",
        "Theorems for every environment record, wrapper stack, state, action and key path: one-step contract of step/reset, refinement of any finite API trace to concatenated episodes of an interpreter without auto-reset, only the last step of an episode is flagged, reset states have all TimeLimit counters at 0, reset key distinct from the other keys. "
        "Tie: real jitted env.reset/env.step on random finite MDPs under random stacks of all 11 wrappers vs the executable model, compared in Coq.",
        "Trusted: Coq kernel (closed under the global context); hand-written model of base_env.py:240-286 and wrapper/*.py tied by exact differential check; jr.split modelled as key paths with a tabulated draw oracle; built-in environments enter only through the polymorphic theorems (their components are arbitrary functions).",
        "DESIGN.md §5 C01",
    ),
    "C13": (
        "Coq proof (induction over arbitrary wrapper stacks; real-number algebra for rescale_box) + exact correspondence of every functional component on finite MDPs evaluated in Coq",
        "Theorems for all stacks/environments/states: complete characterisation of a wrapped environment (mapped action for dynamics, reward and info; only observation/reward post-processed; truncation = inner or some TimeLimit reached; masks/infos/unwrapped/space pass-through), TimeLimit exact for every N and history, counters restart, rescale affine and bound-exact over R, adapters = Gym API under their key schedule. "
        "Tie: all components of wrapped stub MDPs, truncate() along histories, constructibility of every documented wrapper, LeraxToGymEnv/LeraxToGymnaxEnv vs the model; GymToLeraxEnv/GymnaxToLeraxEnv by twin runs.",
        "Trusted: Coq kernel; Reals axioms for the rescale lemmas only; model tied by exact differential check; float rounding of the affine map and the foreign-environment adapters are explored, not proved.",
        "DESIGN.md §5 C13",
    ),
    "C04": (
        "Coq proof (contract of the collection step for all env/policy records, induction over the scan, map over environments) + exact correspondence with the real collect_rollout evaluated in Coq",
        "Theorems for every environment, actor-critic policy, state and key path: the row holds the observation seen, the action chosen with the policy's own value/log-prob, the mask offered; the env is driven and rewarded with the clipped action; done = terminal or truncated; gamma*V(successor) added iff truncated and not terminated; env and policy state restart after done; re-evaluation reproduces value/log-prob for coherent policies (ratio 1); row t of the scan comes from the state carried after t steps; N-env collection = N single collections; stored advantages are GAE of the rows. "
        "Tie: buffers and carried states of real PPO/A2C collect_rollout (scalar and vmapped as in iteration()) on finite MDPs with tabular stateful policies, out-of-bounds Box proposals, masks, time limits; key-free cases decide the property independently of key routing.",
        "Trusted: Coq kernel; Reals axioms only for the GAE link; hand-written model of on_policy.py:185-217,340-449 tied by exact differential check; jr.split as key paths with tabulated draws; filter_scan/filter_cond/filter_vmap assumed to be scan/cond/map.",
        "DESIGN.md §5 C04",
    ),
    "C05": (
        "Coq proof (step contract for all env/policy records; scan = append of the transition log; position arithmetic; link to the ring invariant) + exact correspondence with a real DQN learner's buffers evaluated in Coq",
        "Theorems for every environment, behaviour policy, state, buffer and key path: a step stores observation acted on, chosen action, reward and PRE-reset successor observation for the executed (clipped) action, done = terminal or truncated, timeout = truncated and not terminated, policy states before/after, and restarts env and policy state after done; a scan of n steps appends the log of what happened; warm-up stores exactly learning_starts; each collection adds num_steps to every environment's own buffer; the buffer after warm-up satisfies the C06 ring invariant over that log. "
        "Tie: buffers after real reset() and after collections executed as iteration() does (scalar / vmapped) on finite MDPs with tabular stateful policies; key-free cases decide the property independently of key routing.",
        "Trusted: Coq kernel (closed under the global context); model of off_policy.py tied by exact differential check; train() not exercised (it never writes the buffer); jr.split as key paths with tabulated draws.",
        "DESIGN.md §5 C05",
    ),
    "C06": (
        "Coq proof (ring-buffer invariant by induction over arbitrary insertion histories; sampler-interface soundness incl. env-major flattening) + exact correspondence with real ReplayBuffer.add/sample evaluated in Coq",
        "Theorems for all capacities C>0, all histories, all field types: slot j mod C holds ALL fields of insertion j for each of the most recent min(n,C) insertions; every written slot is one of them; current_size = min(n,C); for any index vector the sampler interface allows (distinct, non-zero probability under the valid mask), over one or several per-environment buffers with different fill levels, every returned row is a stored intact transition and none repeats. "
        "Tie: real add histories wrapping up to 5 times, stacked per-env buffers with mixed fill, sample() for all batch sizes <= stored.",
        "Trusted: Coq kernel (closed under the global context); jr.choice(replace=False,p) interface (distinct indices of non-zero probability) assumed by the theorem and checked on every batch; uniformity not proved.",
        "DESIGN.md §5 C06",
    ),
    "C19": (
        "Coq proof (invariant of the logging step state over arbitrary histories; evaluation scan = rewards up to the first done) + exact correspondence with next(), the benchmark helpers and a recording backend evaluated in Coq",
        "Theorems for all reward/done histories and smoothing factors: at a done step the averages are blended with exactly the sum of rewards and number of steps since the previous episode end, unchanged otherwise; per environment; the reported step is the cumulative number of environment steps; rollout_scan returns the rewards up to and including the first terminal/truncated step or the cap; a finished while-loop is independent of fuel; average_reward is the mean over independent keys. "
        "Tie: next() along histories; reward/done handed to step callbacks by real collect_rollout; scalars received by a recording backend from real PPO.learn; rollout_scan/rollout_while/average_reward on finite MDPs.",
        "Trusted: Coq kernel (closed under the global context); models of callback.py:138-176,501-531 and benchmark/__init__.py tied by exact differential checks; PPO.train assumed not to alter the integer action tables of the stub policy.",
        "DESIGN.md §5 C19",
    ),
    "C12": (
        "Coq proof (vectorised collection = map of single collections, on- and off-policy; per-stream GAE) + real-vs-real bitwise and model correspondence; jit/vmap transparency explored numerically",
        "Theorems: for every env/policy/N the i-th result of the vectorised on-policy (off-policy) collection is exactly the single-environment collection from state i with key split(k,N)[i]; each environment's advantages are GAE of its own stream. "
        "Tie: vmapped vs N single real collections bitwise (PPO, DQN), vmapped rollouts vs the Coq model; eager/jit/vmap of the components of built-in environments and wrappers within float tolerance.",
        "Trusted: Coq kernel; the transparency of jit/vmap and purity of equinox modules are properties of JAX/XLA: observed, not proved (named in evidence.not_proved).",
        "DESIGN.md §5 C12",
    ),
    "C02": (
        "Coq proof over R (clip/observation of the classic-control environments lands in the declared Box for every solver output; bounded observation wrappers land in the advertised space) + exact correspondence of clip()/observation() + membership exploration of all built-in environments",
        "Theorems for all real inputs and parameters: MountainCar/ContinuousMountainCar clip keeps position and velocity inside the Box (with or without the wall rule); Acrobot and Pendulum observations (cos, sin, clipped velocities) lie in their Box for every angle; wrapped angles lie in [-pi,pi); ClipObservation/RescaleObservation map into the advertised bounds. "
        "Tie: real clip()/observation() on arbitrary y compared exactly in Coq; rollouts of all built-in environments x options x wrappers with corner actions checking contains(), dtype/shape of reward and flags.",
        "Trusted: Coq kernel; Reals axioms; hand-written clip models tied by exact differential check. NOT proved, explored only: CartPole margin between termination threshold and bound, finiteness of diffrax/MJX outputs, MuJoCo/G1 membership, independence from Python-side state.",
        "DESIGN.md §5 C02",
    ),
    "C14": (
        "Coq proof (nested induction over Dict/Tuple spaces: contains <-> member, samples/canonical are members, flatten size and injectivity, structural equality <-> eqb, eq -> equal hash keys, Gymnasium round trip) + exact differential check of real lerax spaces evaluated in Coq",
        "20 theorems, all closed under the global context, for all space constructions incl. infinite bounds and arbitrary nesting and all candidate values incl. NaN, foreign and malformed ones; sample() is proved a member for every draw satisfying the primitive samplers' interface and the masked choice is proved never to pick a masked-out index for a model of cumsum+searchsorted. "
        "Tie: ~4000 contains/sample/canonical/flatten/==/hash/round-trip observations on random nested spaces per run.",
        "Trusted: Coq kernel; hand-written model tied by exact differential check; PRNG primitives staying inside their interface, float rounding in Box.sample/canonical and Gymnasium's float32 cast of bounds are explored, not proved.",
        "DESIGN.md §5 C14",
    ),
    "C09": (
        "Coq proof (index bijection for flattening; partition theorem for chunks of ANY permutation; gather alignment on struct-of-arrays; distinct epoch key paths; train as fold over index rows) + exact correspondence with the real buffer API and PPO.train (gradient tagging) evaluated in Coq",
        "29 theorems, closed under the global context, for all N, T, B >= 1 and every permutation: rows disjoint, in range, exactly floor(N/B)*B samples used, fewer than B dropped; every field of a minibatch row comes from one sample; flatten neither loses nor duplicates; per-epoch shuffle keys pairwise distinct; each sample visited at most num_epochs times (exactly, when B divides N). "
        "Tie: real flatten_axes/batch_indices/gather/batches/sample on id-carrying pytree buffers; PPO.train end to end with per-sample visit counts recovered by gradient tagging.",
        "Trusted: Coq kernel; jr.permutation returns a permutation / jr.choice(replace=False) distinct indices (oracles in the theorems, checked on every case); moveaxis/reshape/take semantics tied by id comparison; the end-to-end part swaps Adam for SGD(1.0) to decode visits.",
        "DESIGN.md §5 C09",
    ),
    "C10": (
        "Coq proof (induction over iterations with ARBITRARY gradient-step functions; closed form of Polyak averaging over R; gating lemma) + observation of real DQN/SAC learner states and learn() records decided in Coq",
        "Theorems: floor division budget; counter = number of iterations; DQN target = online network as of the most recent multiple of the interval, unchanged in between; SAC target follows tau*theta+(1-tau)*theta' exactly once per iteration with closed form; actor/temperature change only when the pre-increment counter is a multiple of policy_frequency, temperature only with autotune. "
        "Tie: real DQN and SAC reset()+iteration() with small networks: counter, bitwise copy/unchanged pattern of the target, Polyak identity in float32, changed-pattern of actor and log_alpha; number and cumulative steps of records from learn() for PPO/DQN(/SAC).",
        "Trusted: Coq kernel; Reals axioms for the Polyak closed form; optimiser steps are abstract functions (their content is irrelevant to the schedule); bitwise equality used to observe copies.",
        "DESIGN.md §5 C10",
    ),
    "C15": (
        "Coq proof over R (discrete laws: mass 1, prob=exp log_prob, Shannon entropy, product-law sums by induction over components, flat=sequence parameterisation; squashing bijector: range, derivative (Coquelicot), log-det-Jacobian, change of variables; diagonal normal sums) + oracle-assisted correspondence with the real lerax distributions evaluated in Coq",
        "28 theorems for all valid parameters of the seven distribution classes. Tie: real Bernoulli/Categorical/MultiCategorical/Normal/MultivariateNormalDiag/SquashedNormal/SquashedMultivariateNormalDiag on rational parameters with exp/log supplied as oracle values (tolerance), exhaustive sums for discrete laws.",
        "Trusted: Coq kernel; Reals axioms + Classical_Prop.classic (Coquelicot). NOT proved, explored numerically with false-alarm probability <= 1e-9: Gaussian integral = 1 and squashed mass = 1 (quadrature), samples follow the density (KS/Hoeffding), normal entropy = -E[log p]; distreqx internals modelled from their formulas and tied by the check.",
        "DESIGN.md §5 C15",
    ),
    "C16": (
        "Coq proof over R with extended logits (masked probability 0, proportional renormalisation, mode and Gumbel-arg-max sample allowed for EVERY noise vector, Bernoulli and per-component MultiCategorical analogues, greedy without key, epsilon-greedy departs only below epsilon) + exhaustive-mask correspondence with real distributions and policies evaluated in Coq",
        "26 theorems for all logits and all masks with at least one allowed action. Tie: all non-empty masks for n<=5 (thorough: n<=6) x random logits x many keys through real masked distributions, MLPActorCriticPolicy (Discrete, MultiDiscrete, MultiBinary) and MLPQPolicy (stochastic, deterministic, epsilon-greedy); network outputs treated as oracle logits.",
        "Trusted: Coq kernel; Reals axioms + classic; jax.random.categorical = arg-max of logits + Gumbel noise and jax.random.bernoulli = (u < p) are tied on every case, not proved; the epsilon bound on the departure probability is a statement about the uniform draw (explored with Hoeffding slack).",
        "DESIGN.md §5 C16",
    ),
    "C11": (
        "Coq proof (non-interference of observers for ARBITRARY core and callback functions; freshness of callback key paths) + metamorphic runs of the real learn() of all five algorithms",
        "Theorems: for any collection/training functions and any two observers of any state types the trained state after learn() is the same; every key handed to an observer (training start/end, reset, iteration, step) differs from the keys the core uses. "
        "Tie/search: PPO, A2C, REINFORCE, DQN, SAC learn(): same inputs twice bit-identical, different key differs, {LoggingCallback+recording backend, ProgressBar, list} bit-identical to no observer, input policy untouched; keys received by step callbacks of the real collect_rollout equal the model's callback key paths.",
        "Trusted: Coq kernel (closed under the global context). NOT proved: bit-reproducibility of XLA and 'different keys give different runs' (runtime/statistical facts, observed); that the real core functions take no callback state as input is the architecture assumption the theorem is about (observed by the metamorphic runs).",
        "DESIGN.md §5 C11",
    ),
    "C17": (
        "Fail-closed Python-ast translator regenerating Coq definitions from /repo on every run + Coq proofs over R that lerax's formulas equal hand-transcribed Gymnasium references (validated against the installed Gymnasium each run) + numeric differential against Gymnasium v5 MuJoCo",
        "32 theorems for all states/actions: CartPole, MountainCar, ContinuousMountainCar, Acrobot vector fields, limits/clip, reward for every transition incl. the goal step, termination predicate, spaces and initial ranges equal Gymnasium's; one explicit-Euler step of the lerax CartPole field is Gymnasium's euler update. "
        "Tie: the translator's IR is evaluated against the real lerax methods; Q twins vs lerax and vs Gymnasium.step in Coq; MuJoCo: lerax reward/terminal/observation/info on (qpos,qvel) pairs produced by Gymnasium v5 (3 envs quick, 11 thorough).",
        "Trusted: Coq kernel; Reals axioms; the translator (front end validated numerically each run, printer trusted); the Gymnasium transcription (validated numerically each run). NOT proved: closeness of trajectories under different integrators, float rounding, MuJoCo/MJX physics agreement (tolerances).",
        "DESIGN.md §5 C17",
    ),
    "C18": (
        "Coq proof (round trip, mismatch => error, never a partial load, path rule, file-system frame) on a leaf-record model + bitwise differential check of real save/load over policy classes x spaces x architectures x path spellings evaluated in Coq",
        "22 theorems closed under the global context for all leaf lists, shapes, payloads, paths and file systems. Tie: serialize/deserialize of MLPActorCriticPolicy/MLPQPolicy/MLPSACPolicy over all supported space kinds, 14 path spellings incl. not-yet-existing directories, 70 mismatching architecture pairs; every leaf and output compared bitwise.",
        "Trusted: Coq kernel; the .npy byte format and per-leaf shape/dtype check are equinox's (modelled as the interface, tied by the check). One known finding (Python float fields rounded to float32 by the debug callback) is listed in known_findings.json.",
        "DESIGN.md §5 C18",
    ),
    "C07": (
        "Coq proof (the stored-flag mask equals 'not terminated' for all flag combinations; target formulas over R) + exact correspondence of dqn_loss, sac_train's q_loss and actor_loss on crafted batches evaluated in Coq",
        "Theorems: with done = terminated or truncated and timeout = truncated and not terminated, the code's mask ~done|timeout is exactly not-terminated; y = r + gamma*(1-terminated)*V'; never bootstraps on termination, bootstraps through time-outs; behaviour on the flag pair the collector can never store stated separately; SAC V' = min(Q1',Q2') - alpha*log pi. "
        "Tie: DQN.dqn_loss (Double-DQN selection with tabular online/target Q), the q_loss reported by the real SAC.sac_train with a deterministic stub policy and tabular critics, SAC.actor_loss; gradient trees returned by the value-and-grad wrappers cover the first argument only.",
        "Trusted: Coq kernel; Reals axioms; 'no gradient reaches the targets' is a fact about eqx.filter_value_and_grad: modelled as data flow, confirmed numerically (named in not_proved).",
        "DESIGN.md §5 C07",
    ),
    "C08": (
        "Coq proof over R (clipped surrogate: identity inside the clip interval, constant with zero derivative (Coquelicot is_derive) outside in the favoured direction; ratio 1 => KL 0 and loss = -mean A; value clipping takes the larger error; global-norm clipping bounded and direction-preserving) + oracle-assisted correspondence of the static loss functions evaluated in Coq",
        "The published objectives are the definitions of Lerax.Losses; theorems are their consequences for all buffers and coefficients. Tie: PPO.ppo_loss / A2C.a2c_loss / REINFORCE.reinforce_loss values and statistics on generated buffers with a tabular policy for all flag combinations (exp and std as float64 oracle inputs, 1e-9), exact-zero gradients for out-of-clip samples, global-norm clipping of the optimiser chain.",
        "Trusted: Coq kernel; Reals axioms + classic (Coquelicot); Adam internals not modelled.",
        "DESIGN.md §5 C08",
    ),
    "C20": (
        "Coq proof over R (fmod-based phase advance: range, congruence, half-cycle separation along arbitrary histories by induction; Bezier foot-height bounds; scale lemmas; frame lemmas on a record model of the MJX model) + exact rational tie of gait.py's source and float ties of the real functions, G1 initial states compared leaf-by-leaf with the nominal model",
        "34 theorems for all phases, frequencies with non-negative increments, arbitrarily long step histories, all ranges. Tie: gait.py executed with an exact Fraction shim vs the Coq model (Qeq), the real jnp functions on grids and 10^4-step histories, randomize_model and initial() of the G1 tasks over many keys: randomised fields in range, all 124 other array leaves bitwise nominal, commands/frequencies in range, mjx.forward consistency.",
        "Trusted: Coq kernel; Reals axioms. NOT proved: that MJX's model differs from nominal only in the named fields and forward consistency (observed leaf-by-leaf), jr.uniform staying in range, float rounding at the wrap.",
        "DESIGN.md §5 C20",
    ),
}

NOT_YET = "check not built yet in this round (planned: see DESIGN.md §5)"


# properties whose anchored code is ALSO regenerated from the lerax source on every run (harness/translate/kernel.py, kernels.py) and
# proved equal to the model / specification (coq/link/<pid>_link.v): what is regenerated
KERNEL_LINKS = {
    "C01": "AbstractEnvLike.step and .reset (env/base_env.py) = Env.gym_step / gym_reset for every environment record",
    "C03": "RolloutBuffer.compute_returns_and_advantages (buffer/rollout.py) = the GAE recursion for every rollout",
    "C04": "AbstractActorCriticOnPolicyAlgorithm.step (algorithm/on_policy.py) = OnPolicy.op_step for every environment / policy record, incl. what the step callback is handed; collect_rollout with step and post_collect inlined = OnPolicy.collect (scan over split keys, rows in order, bootstrap value from the final state)",
    "C05": "AbstractOffPolicyAlgorithm.step (algorithm/off_policy.py) = OffPolicy.off_step for every environment / policy record and buffer; collect_learning_starts and collect_rollout with step inlined = OffPolicy.off_scan over learning_starts / num_steps keys",
    "C06": "ReplayBuffer.add and .current_size (buffer/replay.py) = Replay.soa_add / current_size for every buffer of positive capacity; ReplayBuffer.sample on a single buffer: population = capacity, replace = False, probability exactly zero on the unwritten slots and positive on the written ones",
    "C07": "DQN.dqn_loss (algorithm/dqn.py) and compute_target inside SAC.sac_train (algorithm/sac.py) = Losses.dqn_loss / td_target with sac_vnext, incl. which network sees which inputs",
    "C08": "PPO.ppo_loss (algorithm/ppo.py) = clipped surrogate (Losses.surrogate) / value / entropy / approx-KL terms and their weighted sum",
    "C09": "AbstractBuffer.batch_indices (buffer/base_buffer.py) = Batching.batch_indices for every index vector the shuffle may return and every batch size > 0; PPO.train with train_epoch inlined = Batching.train (epoch e shuffles with its own key split(key, num_epochs)[e]; every row of batch_indices is used once, in order, gathered from the flattened buffer)",
    "C10": "num_iterations (on_policy.py, off_policy.py), DQN.per_iteration (dqn.py), _soft_update_targets (sac.py) = Schedule.num_iterations / the copy rule of dqn_iter / polyak; SAC.sac_train executed symbolically = Schedule.gated for actor and temperature, critics every iteration; AbstractAlgorithm.learn = reset, start observer, exactly floor(total/(N*T)) iterations over split(learn_key), end observer; DQN.iteration with per_iteration inlined = one step of Schedule.dqn_iter; SAC.iteration with per_iteration / _soft_update_targets inlined: sac_train is handed the pre-increment count and the new buffer, each target critic moves exactly once towards the new online critic",
    "C11": "AbstractOnPolicyAlgorithm.iteration (with AbstractAlgorithmState.next / with_callback_states inlined) = Observers.iteration; the training part does not depend on the observer or its state",
    "C12": "AbstractOnPolicyAlgorithm.iteration for N > 1 environments: environment i = a single-environment collection from its own state and key split(rollout_key, N)[i]; AbstractOffPolicyAlgorithm.reset for N > 1 = OffPolicy.off_reset (per-environment buffers of capacity buffer_size // N, keys, warm-up)",
    "C13": "every method of TimeLimit (wrapper/misc.py), of AbstractPureObservationWrapper and AbstractPureTransformRewardWrapper, the action-wrapper methods of AbstractPureTransformActionWrapper (with base-class fallback) = Env.wrap1 layers; rescale_box (wrapper/utils.py) on bounded components = rs_forward / rs_backward",
    "C14": "Discrete.contains, Box.contains, MultiDiscrete.contains in their per-component view on finite rational entries = Spaces.in_rangeb / in_boxb",
    "C18": "the file name Serializable.serialize writes to (utils.py) = Serial.resolve_name ('.eqx' appended unless already the suffix; literal name under no_suffix; parents created)",
    "C19": "LoggingCallbackStepState.next (callback/logging/callback.py) = Logging.l_next field by field; rollout_scan (benchmark/__init__.py) with its scanned step = Logging.rollout_scan (return up to the first terminal or truncated state or the step cap); LoggingCallback.on_iteration = Logging.iter_record (sum of step counters, means of the statistics, one ordered record per backend)",
    "C20": "initial_gait_phase, advance_gait_phase, desired_foot_height (env/unitree/g1/gait.py, per-foot view) = Gait.initial_phase / advance1 / foot_height at half period PI",
}


def main():
    checks = []
    na = []
    for p in PROPS:
        pid = p["id"]
        if pid in CHECKS:
            tech, text, note, ref = CHECKS[pid]
            if pid in KERNEL_LINKS:
                tech += " + Coq definitions regenerated from the lerax source on every run by a fail-closed symbolic-execution translator and proved equal to the model (link theorems re-checked by the check)"
                text += f" Regenerated from the source and linked by theorem on every run (coq/link/{pid}_link.v): {KERNEL_LINKS[pid]}."
                note += " The translator (harness/translate/kernel.py: executor; kernels.py: what each parameter of the translated function stands for) is trusted as a printer; a source that no longer translates or a link theorem that no longer checks is reported as a broken proof obligation."
            checks.append({
                "property_id": pid,
                "quick_cmd": f"./check {pid} --tier quick",
                "thorough_cmd": f"./check {pid} --tier thorough",
                "evidence_file": f"/verif/evidence/{pid}.json",
                "replay_cmd_template": f"./check {pid} --replay {{path}}",
                "engine": "coq-model+correspondence",
                "level_claimed": {"category": "proof", "text": text, "design_ref": ref},
                "level_note": note,
                "technique": tech,
            })
        else:
            na.append({"property_id": pid, "reason": NOT_YET})
    m = {
        "version": 1,
        "setup_cmd": "./setup.sh",
        "hooks": {
            "guard": "LERAX_VERIF",
            "enable": "no source hooks are needed: checks import lerax from /repo/src (PYTHONPATH) in a fresh process and drive it through its public abstract classes; LERAX_VERIF=1 is exported by ./check but nothing in /repo reads it",
            "baseline_off_cmd": "cd /repo && /venv/bin/python -m pytest -ra -q -p no:cacheprovider --timeout=900 --continue-on-collection-errors",
            "source_commits": [],
            "add_only": True,
        },
        "engines": [{
            "name": "coq-model+correspondence",
            "path": "/verif/coq, /verif/harness",
            "serves_properties": sorted(CHECKS),
            "kind_free_text": "kernel definitions regenerated from the lerax source by a symbolic-execution translator and linked by theorem to hand-written executable Gallina models with theorems (Coq 8.16.1), tied to /repo by differential checks whose comparison runs inside Coq (vm_compute) on inputs and implementation outputs produced by the real lerax code",
        }],
        "checks": checks,
        "not_applicable": na,
        "notes": "See DESIGN.md. Known findings: /verif/known_findings.json.",
    }
    (V / "MANIFEST.json").write_text(json.dumps(m, indent=1) + "\n")
    print(f"{len(checks)} checks, {len(na)} not claimed")


if __name__ == "__main__":
    main()
