#!/bin/bash
# tools/run_lanes.sh <seed> <tier> : every registered check once, in four parallel lanes (the three checks that share the built-in
# environment exerciser run one after the other in the same lane); one summary line per check
seed="${1:-0}"; tier="${2:-thorough}"
cd "$(dirname "$0")/.."
lane() {
  for id in "$@"; do
    t0=$(date +%s)
    VERIF_SEED=$seed ./check $id --tier $tier > /tmp/lanes_${seed}_${tier}_$id.log 2>&1; rc=$?
    echo "$id seed=$seed tier=$tier rc=$rc $(( $(date +%s)-t0 ))s $(grep -E 'done:' /tmp/lanes_${seed}_${tier}_$id.log | tail -1 | cut -c1-140) $(grep -c VIOLATION /tmp/lanes_${seed}_${tier}_$id.log) viol"
  done
}
lane C01 C02 C12 &
lane C06 C07 C08 C09 C10 C11 &
lane C13 C14 C15 C16 C03 &
lane C17 C18 C19 C20 C04 C05 &
wait
