(* C11 — Training is reproducible, pure, and unaffected by observers.
   Proved part: for ARBITRARY collection/training functions and ARBITRARY observers of arbitrary state types the trained
   state does not depend on the observers; observers are handed keys that the core never uses.
   Bit-reproducibility of XLA and "different keys give different runs" are runtime/statistical facts: explored by the check. *)
From Coq Require Import List Arith.
From Coq Require Import QArith.
From Lerax Require Import Common Env OnPolicy Replay OffPolicy Observers ObserversProofs.
Import ListNotations.

Theorem C11_noninterference : forall (St : Type) core_reset core_iter (CB1 CB2 : Type)
    (r1 : kpath -> CB1) (s1 i1 e1 : CB1 -> St -> kpath -> CB1)
    (r2 : kpath -> CB2) (s2 i2 e2 : CB2 -> St -> kpath -> CB2) n k,
  fst (learn St core_reset core_iter CB1 r1 s1 i1 e1 n k) = fst (learn St core_reset core_iter CB2 r2 s2 i2 e2 n k).
Proof. exact noninterference. Qed.
Print Assumptions C11_noninterference.

Theorem C11_callback_keys_fresh : forall k : kpath,
  ks k 4 0 <> ks k 4 1 /\ ks k 4 0 <> ks k 4 2 /\ ks k 4 3 <> ks k 4 1 /\ ks k 4 3 <> ks k 4 2 /\
  ks k 2 1 <> ks k 2 0 /\
  ks k 3 2 <> ks k 3 0 /\ ks k 3 2 <> ks k 3 1 /\
  (forall i, (i < 8)%nat -> ks k 9 8 <> ks k 9 i).
Proof. exact callback_keys_fresh. Qed.
Print Assumptions C11_callback_keys_fresh.

(* the same statement for the CONCRETE collection models that the C04 / C05 checks validate against the real collect_rollout:
   whatever a step observer does with what it is shown (row, reward, done, its own key), the collected rows, buffers and
   carried environment / policy states are those of the observer-free collection *)
Theorem C11_onpolicy_collection_ignores_observer : forall (S PS O CS : Type) gamma (E : env S Q O) (P : acpol PS Q O)
    (cb : CS -> @orow PS O -> kpath -> CS) keys st c,
  let '(st', _, rows) := scan_steps_cb gamma E P cb st c keys in
  (st', rows) = scan_steps gamma E P st keys.
Proof. intros S PS O CS gamma E P. exact (onpolicy_collection_ignores_observer gamma E P). Qed.
Print Assumptions C11_onpolicy_collection_ignores_observer.

Theorem C11_offpolicy_collection_ignores_observer : forall (S PS O CS : Type) (E : env S Q O) (P : acpol PS Q O)
    (cb : CS -> trow O Q PS -> kpath -> CS) keys st c,
  fst (off_scan_cb E P cb st c keys) = off_scan E P st keys.
Proof. intros S PS O CS E P. exact (offpolicy_collection_ignores_observer E P). Qed.
Print Assumptions C11_offpolicy_collection_ignores_observer.
