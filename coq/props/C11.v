(* C11 — Training is reproducible, pure, and unaffected by observers.
   Proved part: for ARBITRARY collection/training functions and ARBITRARY observers of arbitrary state types the trained
   state does not depend on the observers; observers are handed keys that the core never uses.
   Bit-reproducibility of XLA and "different keys give different runs" are runtime/statistical facts: explored by the check. *)
From Coq Require Import List Arith.
From Lerax Require Import Common Env OnPolicy Observers ObserversProofs.
Import ListNotations.

Theorem C11_noninterference : forall (St : Type) core_reset core_iter (CB1 CB2 : Type)
    (r1 : kpath -> CB1) (s1 i1 e1 : CB1 -> St -> kpath -> CB1)
    (r2 : kpath -> CB2) (s2 i2 e2 : CB2 -> St -> kpath -> CB2) n k,
  fst (learn St core_reset core_iter CB1 r1 s1 i1 e1 n k) = fst (learn St core_reset core_iter CB2 r2 s2 i2 e2 n k).
Proof. exact noninterference. Qed.
Print Assumptions C11_noninterference.

Theorem C11_callback_keys_fresh : forall k : kpath,
  ks k 4 0 <> ks k 4 1 /\ ks k 4 0 <> ks k 4 2 /\ ks k 4 3 <> ks k 4 1 /\ ks k 4 3 <> ks k 4 2 /\
  ks k 2 1 <> ks k 2 0 /\
  ks k 3 2 <> ks k 3 0 /\ ks k 3 2 <> ks k 3 1 /\
  (forall i, (i < 8)%nat -> ks k 9 8 <> ks k 9 i).
Proof. exact callback_keys_fresh. Qed.
Print Assumptions C11_callback_keys_fresh.
