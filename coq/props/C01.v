(* C01 — Gym-style step/reset honours episode boundaries (auto-reset contract).
   Property theorems only; proofs in Lerax.EnvProofs / Lerax.C01Check. *)
From Coq Require Import List ZArith QArith Bool.
From Lerax Require Import Common Env EnvProofs Tab C01Check.
Import ListNotations.

(* for EVERY environment E (in particular E = wrap stack e for any stack), state, action and key:
   reward and flags are those of the transition taken; a raised flag yields a freshly drawn initial
   state (reset key = 4th split output) and its observation; otherwise the successor and its observation *)
Theorem C01_step_contract : forall (S A O : Type) (E : env S A O) s a k,
    let o := gym_step E s a k in
    let s' := e_trans E s a (ks k 4 0) in
    so_rew o = e_rew E s a s' (ks k 4 1) /\
    so_term o = e_term E s' (ks k 4 2) /\
    so_trunc o = e_trunc E s' /\
    so_info o = e_tinfo E s a s' /\
    (so_term o || so_trunc o = true -> so_state o = e_init E (ks k 4 3)) /\
    (so_term o || so_trunc o = false -> so_state o = s') /\
    so_obs o = e_obs E (so_state o) k.
Proof. intros S A O E. exact (step_contract E). Qed.
Print Assumptions C01_step_contract.

Theorem C01_reset_contract : forall (S A O : Type) (E : env S A O) k,
    let '(s, o, i) := gym_reset E k in
    s = e_init E (ks k 2 0) /\ o = e_obs E s (ks k 2 1) /\ i = e_sinfo E s.
Proof. intros S A O E. exact (reset_contract E). Qed.
Print Assumptions C01_reset_contract.

(* the state an auto-reset returns has every wrapper counter restarted, for every wrapper stack *)
Theorem C01_initial_counters_zero : forall (S A O : Type) (e : env S A O) stack k,
    Forall (fun c => c = 0%Z) (fst (e_init (wrap stack e) k)) /\ wf stack (e_init (wrap stack e) k).
Proof. intros S A O e. exact (init_counters_zero e). Qed.
Print Assumptions C01_initial_counters_zero.

(* the reset key differs from every other key the step hands out *)
Theorem C01_reset_key_fresh : forall k : kpath,
    ks k 4 3 <> ks k 4 0 /\ ks k 4 3 <> ks k 4 1 /\ ks k 4 3 <> ks k 4 2 /\ ks k 4 3 <> k.
Proof. exact reset_key_fresh. Qed.
Print Assumptions C01_reset_key_fresh.

(* headline: for every state and every finite (action, key) sequence the API trace is the concatenation
   of episodes of an interpreter that knows nothing about auto-reset (follow transitions until the first
   raised flag; start the next episode from a fresh initial state) *)
Theorem C01_refines_episodes : forall (S A O : Type) (E : env S A O) s ak,
    run_gym E s ak = map (emit E) (concat (episodes E (length ak) s ak)).
Proof. intros S A O E. exact (refines_episodes E). Qed.
Print Assumptions C01_refines_episodes.

Theorem C01_episode_flags : forall (S A O : Type) (E : env S A O) s ak,
    let '(steps, rest) := episode E s ak in
    Forall (fun b => b_done b = false) (removelast steps) /\
    match rest with
    | Some _ => exists pre b, steps = pre ++ [b] /\ b_done b = true
    | None => Forall (fun b => b_done b = false) steps
    end.
Proof. intros S A O E. exact (episode_flags E). Qed.
Print Assumptions C01_episode_flags.

(* the predicate evaluated on implementation outputs holds whenever the implementation reproduces the model *)
Theorem C01_agree_holds : forall c, agree c = true -> holds c = true.
Proof. exact agree_holds. Qed.
Print Assumptions C01_agree_holds.
