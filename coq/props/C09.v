(* C09 — Each epoch partitions the rollout into disjoint, intact minibatches.
   Property theorems only; proofs live in Lerax.BatchingProofs / Lerax.C09Check. *)
From Coq Require Import List Arith Permutation.
From Lerax Require Import Common Env Batching BatchingProofs C09Check.
Import ListNotations.

(* ---- flattening the (environment, step) axes neither loses nor duplicates a sample ---- *)
(* every flat index below E*T comes from exactly one (e,t); all E, T *)
Theorem C09_flatten_bijection : forall E T i, i < E * T ->
  exists e t, e < E /\ t < T /\ flat_index T e t = i /\
    forall e' t', t' < T -> flat_index T e' t' = i -> e' = e /\ t' = t.
Proof. exact flatten_bijection. Qed.
Print Assumptions C09_flatten_bijection.

Theorem C09_unflatten_inverse : forall T e t, t < T -> unflat_index T (flat_index T e t) = (e, t).
Proof. exact unflat_flat. Qed.
Print Assumptions C09_unflatten_inverse.

(* reshape (base_buffer.py:54-60) puts element (e,t) of any leaf at position e*T+t *)
Theorem C09_flatten_reshape : forall (A : Type) T (x : list (list A)) e t d,
  Forall (fun r => length r = T) x -> e < length x -> t < T ->
  nth (flat_index T e t) (flatten2 x) d = nth t (nth e x []) d.
Proof. exact @nth_flatten2. Qed.
Print Assumptions C09_flatten_reshape.

Theorem C09_flatten_ids : forall E T, flatten2 (id_grid E T) = seq 0 (E * T).
Proof. exact flatten_id_grid. Qed.
Print Assumptions C09_flatten_ids.

(* every array leaf (all leaves of pytree-structured fields) is flattened by the same map:
   flattening the struct-of-arrays = struct-of-arrays of the flattened samples *)
Theorem C09_flatten_keeps_fields_together : forall (S A : Type) (fields : list (S -> A)) (grid : list (list S)),
  flatten_soa (soa2_of fields grid) = soa_of fields (flatten2 grid).
Proof. exact @flatten_soa_of. Qed.
Print Assumptions C09_flatten_keeps_fields_together.

(* ---- one epoch: batch_indices for ANY permutation p of 0..N-1 (the PRNG is an oracle), any B >= 1 ---- *)
Theorem C09_partition : forall N B p, 1 <= B -> Permutation p (seq 0 N) ->
  let rows := batch_indices B p in
  NoDup (concat rows)
  /\ (forall i, In i (concat rows) -> i < N)
  /\ length (concat rows) = N / B * B
  /\ Forall (fun r => length r = B) rows
  /\ length rows = N / B
  /\ N - length (concat rows) = N mod B /\ N mod B < B.
Proof. exact batch_indices_partition. Qed.
Print Assumptions C09_partition.

Theorem C09_sample_used_at_most_once : forall N B p s, 1 <= B -> Permutation p (seq 0 N) ->
  count_occ Nat.eq_dec (concat (batch_indices B p)) s <= 1.
Proof. exact sample_used_at_most_once. Qed.
Print Assumptions C09_sample_used_at_most_once.

Theorem C09_rows_disjoint : forall N B p i j x, 1 <= B -> Permutation p (seq 0 N) -> i < j -> j < N / B ->
  In x (nth i (batch_indices B p) []) -> ~ In x (nth j (batch_indices B p) []).
Proof. exact rows_disjoint. Qed.
Print Assumptions C09_rows_disjoint.

Theorem C09_divisible_epoch_uses_every_sample_once : forall N B p, 1 <= B -> N mod B = 0 ->
  Permutation p (seq 0 N) -> Permutation (concat (batch_indices B p)) (seq 0 N).
Proof. exact divisible_epoch_is_permutation. Qed.
Print Assumptions C09_divisible_epoch_uses_every_sample_once.

(* trim + reshape(-1,B): entry j of row i is p[i*B+j] *)
Theorem C09_rows_are_reshape : forall (A : Type) B (p : list A) i j d, B <> 0 -> i < length p / B -> j < B ->
  nth j (nth i (batch_indices B p) []) d = nth (i * B + j) p d.
Proof. exact @batch_indices_nth. Qed.
Print Assumptions C09_rows_are_reshape.

(* key=None: sequential *)
Theorem C09_sequential : forall N B i j, 1 <= B -> i < N / B -> j < B ->
  nth j (nth i (batch_indices B (sequential N)) []) 0 = i * B + j.
Proof. exact sequential_rows. Qed.
Print Assumptions C09_sequential.

(* ---- gather / batches / sample: a minibatch row is one sample with all of its fields ---- *)
Theorem C09_gather_project : forall (S A : Type) (f : S -> A) ds samples idx,
  gather (f ds) (map f samples) idx = map f (gather ds samples idx).
Proof. exact @gather_map. Qed.
Print Assumptions C09_gather_project.

Theorem C09_gather_aligned : forall (S A : Type) (fields : list (S -> A)) (d : A) (ds : S) samples idx,
  Forall (fun i => i < length samples) idx ->
  gather_soa d (soa_of fields samples) idx = soa_of fields (gather ds samples idx).
Proof. exact @gather_soa_aligned. Qed.
Print Assumptions C09_gather_aligned.

Theorem C09_batches_rows : forall (A : Type) (d : A) B p (x : list A) k,
  nth k (map (gather d x) (batch_indices B p)) [] = gather d x (nth k (batch_indices B p) []).
Proof. exact @batches_nth. Qed.
Print Assumptions C09_batches_rows.

(* flatten then gather: row j of every leaf is the field of the sample collected at divmod(idx[j], T) *)
Theorem C09_minibatch_row_is_one_sample : forall (S A : Type) (fields : list (S -> A)) (d : A) (ds : S) grid T idx,
  Forall (fun r => length r = T) grid ->
  Forall (fun i => i < length grid * T) idx ->
  gather_soa d (flatten_soa (soa2_of fields grid)) idx =
  soa_of fields (map (fun i => nth (snd (unflat_index T i)) (nth (fst (unflat_index T i)) grid []) ds) idx).
Proof. exact @flatten_gather_sample. Qed.
Print Assumptions C09_minibatch_row_is_one_sample.

Theorem C09_sample_without_replacement : forall N idx, NoDup idx -> Forall (fun i => i < N) idx ->
  gather 0 (seq 0 N) idx = idx /\ NoDup (gather 0 (seq 0 N) idx).
Proof. exact sample_distinct. Qed.
Print Assumptions C09_sample_without_replacement.

(* ---- epochs of an update: fresh shuffle keys ---- *)
Theorem C09_epoch_keys_distinct : forall key E i j, i < E -> j < E -> i <> j ->
  nth i (epoch_keys key E) [] <> nth j (epoch_keys key E) [].
Proof. exact epoch_keys_distinct. Qed.
Print Assumptions C09_epoch_keys_distinct.

Theorem C09_epoch_keys_NoDup : forall key E, NoDup (epoch_keys key E) /\ length (epoch_keys key E) = E.
Proof. intros. split; [apply epoch_keys_NoDup | apply epoch_keys_length]. Qed.
Print Assumptions C09_epoch_keys_NoDup.

Theorem C09_shuffle_key_injective : forall key M E j i j' i',
  shuffle_key key M E j i = shuffle_key key M E j' i' -> j = j' /\ i = i'.
Proof. exact shuffle_key_inj. Qed.
Print Assumptions C09_shuffle_key_injective.

Theorem C09_shuffle_key_not_a_rollout_key : forall key M E j i j',
  shuffle_key key M E j i <> rollout_key (iteration_key key M j').
Proof. exact shuffle_key_not_rollout. Qed.
Print Assumptions C09_shuffle_key_not_a_rollout_key.

(* ---- PPO.train: scans epochs over split keys, each epoch scans the index rows ---- *)
Theorem C09_train_is_fold_over_rows : forall (perm : kpath -> nat -> list nat) (C A : Type)
  (step : C -> soa A -> C) (d : A) B E buf c key,
  train perm step d B E buf c key =
  fold_left (fun c row => step c (gather_soa d (flatten_soa buf) row))
            (concat (train_rows perm B (soa_len (flatten_soa buf)) E key)) c.
Proof. exact @train_is_fold_over_rows. Qed.
Print Assumptions C09_train_is_fold_over_rows.

Theorem C09_train_epoch_partition : forall perm : kpath -> nat -> list nat,
  (forall k n, Permutation (perm k n) (seq 0 n)) ->
  forall B N E key i, 1 <= B -> i < E ->
  let rows := nth i (train_rows perm B N E key) [] in
  rows = batch_indices B (perm (ks key E i) N)
  /\ NoDup (concat rows) /\ (forall s, In s (concat rows) -> s < N)
  /\ length (concat rows) = N / B * B
  /\ Forall (fun r => length r = B) rows /\ length rows = N / B.
Proof. exact train_epoch_partition. Qed.
Print Assumptions C09_train_epoch_partition.

Theorem C09_train_visits_at_most_num_epochs : forall perm : kpath -> nat -> list nat,
  (forall k n, Permutation (perm k n) (seq 0 n)) ->
  forall B N E key s, 1 <= B ->
  count_occ Nat.eq_dec (concat (map (@concat nat) (train_rows perm B N E key))) s <= E.
Proof. exact train_visits_le. Qed.
Print Assumptions C09_train_visits_at_most_num_epochs.

Theorem C09_train_visits_divisible : forall perm : kpath -> nat -> list nat,
  (forall k n, Permutation (perm k n) (seq 0 n)) ->
  forall B N E key s, 1 <= B -> N mod B = 0 -> s < N ->
  count_occ Nat.eq_dec (concat (map (@concat nat) (train_rows perm B N E key))) s = E.
Proof. exact train_visits_divisible. Qed.
Print Assumptions C09_train_visits_divisible.

(* ---- the boolean predicates evaluated on implementation outputs ---- *)
Theorem C09_model_holds : forall sampling E T B perm F,
  1 <= F -> oracle_ok sampling (E * T) B perm = true -> holds (model_case sampling E T B perm F) = true.
Proof. exact model_holds. Qed.
Print Assumptions C09_model_holds.

(* model output == implementation output implies the property predicate on the implementation output *)
Theorem C09_agree_implies_holds : forall c, agree c = true -> holds c = true.
Proof. exact agree_holds. Qed.
Print Assumptions C09_agree_implies_holds.

Theorem C09_holds_sound : forall c, holds c = true -> c_sampling c = false ->
  let n := to_ncase c in
  Partition (nN n) (n_B n) (n_rows n)
  /\ Partition (nN n) (n_B n) (map (hd []) (n_gath n))
  /\ Forall (fun leaf => Permutation leaf (seq 0 (nN n))) (n_flat n)
  /\ Forall (fun g => exists ids, g <> [] /\ Forall (fun leaf => leaf = ids) g) (n_gath n).
Proof. exact holds_sound. Qed.
Print Assumptions C09_holds_sound.

Theorem C09_model_eholds : forall N B perms,
  1 <= B -> forallb (is_permb N) perms = true -> eholds (model_ecase N B perms) = true.
Proof. exact model_eholds. Qed.
Print Assumptions C09_model_eholds.

Theorem C09_eholds_sound : forall c, eholds c = true ->
  let n := to_necase c in
  length (ne_visits n) = ne_E n
  /\ Forall (Partition (ne_N n) (ne_B n)) (ne_visits n)
  /\ ne_aligned n = ne_visits n.
Proof. exact eholds_sound. Qed.
Print Assumptions C09_eholds_sound.
