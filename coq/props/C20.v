(* C20 — Unitree G1 episodes are randomised within range and gait phase stays coherent.
   Property theorems only; proofs live in Lerax.GaitProofs / Lerax.C20Check.
   The model (Lerax.Gait) is stated for a half period hp; gait.py uses hp = pi, so every
   theorem below is the instance at Coq's PI.  A history is an arbitrary list of
   (frequency, dt) control steps; the sign condition the code needs is 0 <= frequency*dt. *)
From Coq Require Import Reals List ZArith QArith Qreals.
From Lerax Require Import Common Gait GaitProofs C20Check.
Import ListNotations.
Open Scope R_scope.

(* advance_gait_phase (gait.py:26-43): the new phase is the old one plus 2*pi*f*dt modulo 2*pi,
   for ALL real phases, frequencies and time steps *)
Theorem C20_advance_congruent : forall ph f dt,
  exists k : Z, advance1 PI ph f dt = ph + 2 * PI * f * dt + 2 * PI * IZR k.
Proof. intros ph f dt. exact (advance1_congr PI ph f dt). Qed.
Print Assumptions C20_advance_congruent.

(* ... and lies in [-pi, pi) (the exact interval C fmod guarantees) whenever the phase it starts
   from is in [-pi, pi] and the increment is non-negative *)
Theorem C20_advance_in_range : forall ph f dt,
  - PI <= ph <= PI -> 0 <= f * dt -> - PI <= advance1 PI ph f dt < PI.
Proof. intros ph f dt H G. exact (advance1_in_range PI ph f dt PI_RGT_0 H G). Qed.
Print Assumptions C20_advance_in_range.

(* the sign condition is needed: C fmod keeps the sign of the dividend, so a negative increment
   can take the phase below -pi (here from -pi to -3*pi/2) *)
Theorem C20_negative_increment_escapes : advance1 PI (- PI) (- (1 / 4)) 1 = - PI - PI / 2.
Proof. exact (advance1_negative_escapes PI PI_RGT_0). Qed.
Print Assumptions C20_negative_increment_escapes.

(* the episode start [0, pi] (gait.py:15-23) is coherent *)
Theorem C20_initial_coherent : coherent PI (initial_phase PI).
Proof. exact (initial_coherent PI PI_RGT_0). Qed.
Print Assumptions C20_initial_coherent.

(* arbitrarily long histories: after every control step both phases are in [-pi, pi) and the two
   feet are congruent to half a cycle apart *)
Theorem C20_history_coherent : forall steps p,
  coherent PI p -> Forall (fun s => 0 <= fst s * snd s) steps ->
  Forall (fun q => coherent PI q /\ (- PI <= fst q < PI) /\ (- PI <= snd q < PI)) (trajectory PI p steps).
Proof. intros steps p H G. exact (trajectory_coherent PI steps p PI_RGT_0 H G). Qed.
Print Assumptions C20_history_coherent.

(* coherent phases are exactly half a cycle apart: | right - left | = pi *)
Theorem C20_half_cycle_apart : forall p, coherent PI p -> Rabs (snd p - fst p) = PI.
Proof. intros p (A & B & C). exact (half_apart_abs PI p PI_RGT_0 A B C). Qed.
Print Assumptions C20_half_cycle_apart.

(* every recorded state is one advance of its predecessor with that step's frequency and dt *)
Theorem C20_history_step : forall steps p n q f dt,
  nth_error (trajectory PI p steps) n = Some q -> nth_error steps n = Some (f, dt) ->
  let prev := match n with O => p | S m => nth m (trajectory PI p steps) p end in
  q = advance PI prev f dt.
Proof. exact (trajectory_step PI). Qed.
Print Assumptions C20_history_step.

(* along a whole history the phase is the start phase plus the total 2*pi*f*dt travelled, modulo 2*pi *)
Theorem C20_history_congruent : forall steps p,
  (exists k : Z, fst (run PI p steps) = fst p + travelled PI steps + 2 * PI * IZR k)
  /\ (exists k : Z, snd (run PI p steps) = snd p + travelled PI steps + 2 * PI * IZR k).
Proof. intros steps p. exact (run_congr PI steps p). Qed.
Print Assumptions C20_history_congruent.

Theorem C20_history_nth_is_run : forall steps p n q,
  nth_error (trajectory PI p steps) n = Some q -> q = run PI p (firstn (S n) steps).
Proof. exact (trajectory_nth PI). Qed.
Print Assumptions C20_history_nth_is_run.

(* the environment (base_g1.py:209): one frequency per episode, constant dt, n control steps *)
Theorem C20_episode_phase : forall f dt n,
  (exists k : Z, fst (run PI (initial_phase PI) (repeat (f, dt) n)) = INR n * (2 * PI * f * dt) + 2 * PI * IZR k)
  /\ (exists k : Z, snd (run PI (initial_phase PI) (repeat (f, dt) n)) = PI + INR n * (2 * PI * f * dt) + 2 * PI * IZR k).
Proof. intros f dt n. exact (run_congr_const PI f dt n). Qed.
Print Assumptions C20_episode_phase.

(* desired_foot_height (gait.py:58-88): within [0, swing height] on the whole phase range *)
Theorem C20_foot_height_range : forall ph h, 0 <= h -> - PI <= ph <= PI -> 0 <= foot_height PI ph h <= h.
Proof. intros ph h H G. exact (foot_height_range PI PI_RGT_0 ph h H G). Qed.
Print Assumptions C20_foot_height_range.

Theorem C20_foot_height_vanishes_at_minus_pi : forall h, foot_height PI (- PI) h = 0.
Proof. exact (foot_height_at_minus PI PI_RGT_0). Qed.
Print Assumptions C20_foot_height_vanishes_at_minus_pi.

Theorem C20_foot_height_vanishes_at_pi : forall h, foot_height PI PI h = 0.
Proof. exact (foot_height_at_plus PI PI_RGT_0). Qed.
Print Assumptions C20_foot_height_vanishes_at_pi.

Theorem C20_foot_height_peaks_at_zero : forall h, foot_height PI 0 h = h.
Proof. exact (foot_height_at_zero PI PI_RGT_0). Qed.
Print Assumptions C20_foot_height_peaks_at_zero.

(* rising towards phase 0 and falling after it *)
Theorem C20_foot_height_rising : forall a b h, 0 <= h -> - PI <= a -> a <= b -> b <= 0 ->
  foot_height PI a h <= foot_height PI b h.
Proof. exact (foot_height_rising PI PI_RGT_0). Qed.
Print Assumptions C20_foot_height_rising.

Theorem C20_foot_height_falling : forall a b h, 0 <= h -> 0 < a -> a <= b -> b <= PI ->
  foot_height PI b h <= foot_height PI a h.
Proof. exact (foot_height_falling PI PI_RGT_0). Qed.
Print Assumptions C20_foot_height_falling.

(* randomisation: a uniform factor in [lo, hi) keeps nominal*u between the scaled ends *)
Theorem C20_scale_nonneg_nominal : forall n lo hi u, 0 <= n -> lo <= u < hi -> n * lo <= n * u <= n * hi.
Proof. exact scale_pos. Qed.
Print Assumptions C20_scale_nonneg_nominal.

Theorem C20_scale_nonpos_nominal : forall n lo hi u, n <= 0 -> lo <= u < hi -> n * hi <= n * u <= n * lo.
Proof. exact scale_neg. Qed.
Print Assumptions C20_scale_nonpos_nominal.

Theorem C20_scale_either_sign : forall n lo hi u, lo <= u <= hi -> between_scaled n lo hi (n * u).
Proof. exact scale_between. Qed.
Print Assumptions C20_scale_either_sign.

(* randomize_model (randomize.py:135-190) on the record model: every other field is kept and each
   of the four fields is computed from the nominal field and its own draws only *)
Theorem C20_randomize_model_frame : forall (Rest : Type) (m : mjmodel Rest) nf na nm torso d,
  let m' := randomize_model m nf na nm torso d in
  rest m' = rest m
  /\ pair_friction m' = set_block22 (d_friction d) (pair_friction m)
  /\ dof_frictionloss m' = set_from6 (dof_frictionloss m) (map2 Rmult nf (d_floss d))
  /\ dof_armature m' = set_from6 (dof_armature m) (map2 Rmult na (d_armature d))
  /\ body_mass m' = add_at torso (d_torso d) (map2 Rmult nm (d_mass d)).
Proof. intros Rest. exact (@randomize_model_frame Rest). Qed.
Print Assumptions C20_randomize_model_frame.

Theorem C20_randomize_friction_frame : forall (Rest : Type) (m : mjmodel Rest) v,
  let m' := randomize_friction m v in
  dof_frictionloss m' = dof_frictionloss m /\ dof_armature m' = dof_armature m
  /\ body_mass m' = body_mass m /\ rest m' = rest m.
Proof. intros Rest. exact (@randomize_friction_frame Rest). Qed.
Print Assumptions C20_randomize_friction_frame.

Theorem C20_randomize_friction_loss_frame : forall (Rest : Type) (m : mjmodel Rest) nominal scales,
  let m' := randomize_friction_loss m nominal scales in
  pair_friction m' = pair_friction m /\ dof_armature m' = dof_armature m
  /\ body_mass m' = body_mass m /\ rest m' = rest m.
Proof. intros Rest. exact (@randomize_friction_loss_frame Rest). Qed.
Print Assumptions C20_randomize_friction_loss_frame.

Theorem C20_randomize_armature_frame : forall (Rest : Type) (m : mjmodel Rest) nominal scales,
  let m' := randomize_armature m nominal scales in
  pair_friction m' = pair_friction m /\ dof_frictionloss m' = dof_frictionloss m
  /\ body_mass m' = body_mass m /\ rest m' = rest m.
Proof. intros Rest. exact (@randomize_armature_frame Rest). Qed.
Print Assumptions C20_randomize_armature_frame.

Theorem C20_randomize_body_mass_frame : forall (Rest : Type) (m : mjmodel Rest) nominal scales torso off,
  let m' := randomize_body_mass m nominal scales torso off in
  pair_friction m' = pair_friction m /\ dof_frictionloss m' = dof_frictionloss m
  /\ dof_armature m' = dof_armature m /\ rest m' = rest m.
Proof. intros Rest. exact (@randomize_body_mass_frame Rest). Qed.
Print Assumptions C20_randomize_body_mass_frame.

(* inside the fields: contact pairs other than the first two, and coefficients other than the
   first two, keep their friction *)
Theorem C20_friction_other_pairs : forall v (m : list (list R)) i, (2 <= i)%nat ->
  nth_error (set_block22 v m) i = nth_error m i.
Proof. exact set_block22_other_rows. Qed.
Print Assumptions C20_friction_other_pairs.

Theorem C20_friction_first_pairs : forall v (m : list (list R)) i row, (i < 2)%nat ->
  nth_error m i = Some row -> nth_error (set_block22 v m) i = Some (set_prefix 2 v row).
Proof. exact set_block22_rows. Qed.
Print Assumptions C20_friction_first_pairs.

Theorem C20_friction_other_coefficients : forall v (l : list R) j, (2 <= j)%nat ->
  nth_error (set_prefix 2 v l) j = nth_error l j.
Proof. exact set_prefix2_other_cols. Qed.
Print Assumptions C20_friction_other_coefficients.

(* joint friction loss / armature: free-joint DOFs kept, actuated DOFs scaled within range *)
Theorem C20_friction_loss_in_range : forall (Rest : Type) (m : mjmodel Rest) nominal scales lo hi,
  (6 <= length (dof_frictionloss m))%nat -> length scales = length nominal ->
  Forall (fun u => lo <= u <= hi) scales ->
  let m' := randomize_friction_loss m nominal scales in
  firstn 6 (dof_frictionloss m') = firstn 6 (dof_frictionloss m)
  /\ Forall2 (fun n v => between_scaled n lo hi v) nominal (skipn 6 (dof_frictionloss m')).
Proof. intros Rest. exact (@friction_loss_spec Rest). Qed.
Print Assumptions C20_friction_loss_in_range.

Theorem C20_armature_in_range : forall (Rest : Type) (m : mjmodel Rest) nominal scales lo hi,
  (6 <= length (dof_armature m))%nat -> length scales = length nominal ->
  Forall (fun u => lo <= u <= hi) scales ->
  let m' := randomize_armature m nominal scales in
  firstn 6 (dof_armature m') = firstn 6 (dof_armature m)
  /\ Forall2 (fun n v => between_scaled n lo hi v) nominal (skipn 6 (dof_armature m')).
Proof. intros Rest. exact (@armature_spec Rest). Qed.
Print Assumptions C20_armature_in_range.

(* body masses scaled within range; the torso additionally carries the payload offset *)
Theorem C20_body_mass_in_range : forall (Rest : Type) (m : mjmodel Rest) nominal scales torso off lo hi olo ohi j n u,
  nth_error nominal j = Some n -> nth_error scales j = Some u ->
  lo <= u <= hi -> olo <= off <= ohi ->
  exists v, nth_error (body_mass (randomize_body_mass m nominal scales torso off)) j = Some v
    /\ (j <> torso -> between_scaled n lo hi v)
    /\ (j = torso -> between_scaled n lo hi (v - off) /\ olo <= v - n * u <= ohi).
Proof. intros Rest. exact (@body_mass_spec Rest). Qed.
Print Assumptions C20_body_mass_in_range.

(* the executable rational model run against lerax is the restriction of the real-number model *)
Theorem C20_advance_model_is_restriction : forall hp ph f dt, (0 < hp)%Q ->
  Q2R (advance1Q hp ph f dt) = advance1 (Q2R hp) (Q2R ph) (Q2R f) (Q2R dt).
Proof. exact advance1Q_restricts. Qed.
Print Assumptions C20_advance_model_is_restriction.

Theorem C20_foot_model_is_restriction : forall hp ph h, (0 < hp)%Q ->
  Q2R (foot_heightQ hp ph h) = foot_height (Q2R hp) (Q2R ph) (Q2R h).
Proof. exact foot_heightQ_restricts. Qed.
Print Assumptions C20_foot_model_is_restriction.

(* the boolean predicates evaluated on implementation outputs: sound for the real-number reading,
   and satisfied by the model *)
Theorem C20_step_predicate_sound : forall pi tol dtol prev s cur, step_holds pi tol dtol prev s cur = true ->
  let inc := (2 * Q2R pi * Q2R (fst s) * Q2R (snd s))%R in
  (- Q2R pi - Q2R tol <= Q2R (fst cur) <= Q2R pi + Q2R tol)%R
  /\ (- Q2R pi - Q2R tol <= Q2R (snd cur) <= Q2R pi + Q2R tol)%R
  /\ (exists k : Z, (Rabs (Q2R (fst cur) - (Q2R (fst prev) + inc) - 2 * Q2R pi * IZR k)
                     <= Q2R (tol * mag (fst prev + phase_incrementQ pi (fst s) (snd s))))%R)
  /\ (exists k : Z, (Rabs (Q2R (snd cur) - (Q2R (snd prev) + inc) - 2 * Q2R pi * IZR k)
                     <= Q2R (tol * mag (snd prev + phase_incrementQ pi (fst s) (snd s))))%R)
  /\ (Rabs (Rabs (Q2R (snd cur) - Q2R (fst cur)) - Q2R pi)
      <= Q2R (dtol * mag (fst prev + phase_incrementQ pi (fst s) (snd s))))%R.
Proof. exact step_holds_sound. Qed.
Print Assumptions C20_step_predicate_sound.

Theorem C20_foot_model_holds : forall pi tol ph h,
  (0 < pi)%Q -> (0 <= tol)%Q -> (0 <= h)%Q -> (- pi <= ph)%Q -> (ph <= pi)%Q ->
  foot_holds tol ph h (foot_heightQ pi ph h) 0 = true.
Proof. exact foot_model_holds. Qed.
Print Assumptions C20_foot_model_holds.
