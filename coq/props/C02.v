(* C02 — Environments stay inside their declared spaces with well-typed signals.
   Proved part: for EVERY output y of the ODE solver the clipped state's observation lies in the declared Box
   (MountainCar, ContinuousMountainCar, Acrobot, Pendulum), and bounded-Box observation wrappers land in the
   advertised space.  Explored only: CartPole reachability margin, finiteness of diffrax / MJX outputs, MuJoCo / G1
   observation membership, independence from Python-side state. *)
From Coq Require Import Reals List.
From Lerax Require Import EnvBounds.
Import ListNotations.
Open Scope R_scope.

Theorem C02_mountain_car_in_box : forall lo hi ms x v b, lo <= hi -> 0 <= ms ->
  let '(x1, v1) := mc_clip lo hi ms x v b in lo <= x1 <= hi /\ - ms <= v1 <= ms.
Proof. exact mc_in_box. Qed.
Print Assumptions C02_mountain_car_in_box.

Theorem C02_acrobot_in_box : forall a1 a2 v1 v2 m1 m2, 0 <= m1 -> 0 <= m2 ->
  Forall2 (fun o b => - b <= o <= b)
    [cos a1; sin a1; cos a2; sin a2; clipR v1 (- m1) m1; clipR v2 (- m2) m2] [1; 1; 1; 1; m1; m2].
Proof. exact acrobot_in_box. Qed.
Print Assumptions C02_acrobot_in_box.

Theorem C02_pendulum_in_box : forall theta w ms, 0 <= ms ->
  Forall2 (fun o b => - b <= o <= b) [cos theta; sin theta; clipR w (- ms) ms] [1; 1; ms].
Proof. exact pendulum_in_box. Qed.
Print Assumptions C02_pendulum_in_box.

Theorem C02_angle_wrap : forall x (k : Z),
  0 <= x + PI - 2 * PI * IZR k < 2 * PI -> - PI <= x - 2 * PI * IZR k < PI.
Proof. exact wrap_range. Qed.
Print Assumptions C02_angle_wrap.

Theorem C02_clip_observation_member : forall o lo hi, lo <= hi -> lo <= clipR o lo hi <= hi.
Proof. exact clip_obs_member. Qed.
Print Assumptions C02_clip_observation_member.

Theorem C02_rescale_observation_member : forall lo hi mn mx x, lo < hi -> mn < mx -> lo <= x <= hi ->
  let g := (mx - mn) / (hi - lo) in mn <= g * x + (mn - lo * g) <= mx.
Proof. exact rescale_obs_member. Qed.
Print Assumptions C02_rescale_observation_member.
