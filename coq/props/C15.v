(* C15 — Action distributions are coherent probability laws.
   Property theorems only; proofs live in Lerax.DistributionsProofs / DistributionsDeriv / C15Check.
   Extended logits: option R, None = -inf; "valid parameters" for a categorical = at least one finite logit
   (exists k x, nth_error ls k = Some (Some x)); for normals = positive scales; for squashed laws low < high. *)
From Coq Require Import Reals List Bool ZArith QArith.
From Lerax Require Import Common Distributions DistributionsProofs DistributionsDeriv C15Check.
Import ListNotations.
Open Scope R_scope.

(* ---- discrete laws ---- *)
Theorem C15_categorical_total_mass : forall ls : list (option R),
  (exists k x, nth_error ls k = Some (Some x)) -> rsum (cat_probs ls) = 1.
Proof. exact cat_total_mass. Qed.
Print Assumptions C15_categorical_total_mass.

Theorem C15_categorical_probs_nonneg : forall ls : list (option R),
  (exists k x, nth_error ls k = Some (Some x)) -> Forall (fun p => 0 <= p) (cat_probs ls).
Proof. exact cat_probs_nonneg. Qed.
Print Assumptions C15_categorical_probs_nonneg.

(* prob = exp(log_prob), exp(-inf) = 0 *)
Theorem C15_categorical_prob_exp_logprob : forall (ls : list (option R)) i,
  (exists k x, nth_error ls k = Some (Some x)) -> ew (cat_logprob ls i) = cat_prob ls i.
Proof. exact prob_exp_logprob. Qed.
Print Assumptions C15_categorical_prob_exp_logprob.

(* mode and every Gumbel-max sample (any noise vector, hence any key) lie in the support *)
Theorem C15_categorical_mode_in_support : forall ls : list (option R),
  (exists k x, nth_error ls k = Some (Some x)) -> 0 < cat_prob ls (Rcat_mode ls).
Proof. exact mode_in_support. Qed.
Print Assumptions C15_categorical_mode_in_support.

Theorem C15_categorical_sample_in_support : forall (ls : list (option R)) (noise : list R),
  length noise = length ls -> (exists k x, nth_error ls k = Some (Some x)) ->
  0 < cat_prob ls (Rcat_sample ls noise).
Proof. exact sample_positive_prob. Qed.
Print Assumptions C15_categorical_sample_in_support.

(* the coded entropy -sum(lp * exp lp) is -E[log p] = -sum p ln p of the pmf *)
Theorem C15_categorical_entropy : forall ls : list (option R),
  (exists k x, nth_error ls k = Some (Some x)) -> cat_entropy ls = shannon (cat_probs ls).
Proof. exact entropy_is_shannon. Qed.
Print Assumptions C15_categorical_entropy.

(* Bernoulli: a law on {0,1}; prob = exp(log_prob); it is the two-class categorical [0; l] *)
Theorem C15_bernoulli_law : forall l : option R,
  bern_p0 l + bern_p1 l = 1 /\ 0 <= bern_p1 l <= 1 /\
  ew (bern_lp1 l) = bern_p1 l /\ ew (bern_lp0 l) = bern_p0 l /\
  bern_p1 l = cat_prob [Some 0; l] 1 /\ bern_p0 l = cat_prob [Some 0; l] 0.
Proof.
  intros l. pose proof (bern_prob_exp_logprob l) as [H1 H2]. pose proof (bern_as_categorical l) as [H3 H4].
  repeat split; try assumption; try apply bern_total; apply bern_range.
Qed.
Print Assumptions C15_bernoulli_law.

(* ---- product law (MultiCategorical) ---- *)
(* exp(sum of component log-probs) = product of the component masses = joint mass *)
Theorem C15_product_logprob : forall (cs : list (list (option R))) (xs : list nat),
  length cs = length xs ->
  Forall (fun c => exists k x, nth_error c k = Some (Some x)) cs ->
  ew (mc_logprob cs xs) = mc_joint cs xs.
Proof. exact mc_logprob_joint. Qed.
Print Assumptions C15_product_logprob.

Theorem C15_product_logprob_is_sum : forall lps : list R, esum (map Some lps) = Some (rsum lps).
Proof. exact mc_logprob_sum. Qed.
Print Assumptions C15_product_logprob_is_sum.

(* the joint pmf sums to one over the whole product space *)
Theorem C15_product_total_mass : forall cs : list (list (option R)),
  Forall (fun c => exists k x, nth_error c k = Some (Some x)) cs ->
  rsum (map (mc_joint cs) (outcomes (map (@length _) cs))) = 1.
Proof. exact mc_joint_total_mass. Qed.
Print Assumptions C15_product_total_mass.

(* coded entropy (sum of component entropies) = Shannon entropy of the joint pmf, derived from the joint
   pmf by induction over the components *)
Theorem C15_product_entropy : forall cs : list (list (option R)),
  Forall (fun c => exists k x, nth_error c k = Some (Some x)) cs ->
  mc_entropy cs = shannon (joint_masses (map cat_probs cs)).
Proof. exact mc_entropy_joint. Qed.
Print Assumptions C15_product_entropy.

Theorem C15_joint_masses_enumerate : forall pss : list (list R),
  joint_masses pss = map (joint_prob pss) (outcomes (map (@length R) pss)).
Proof. exact joint_masses_enumerate. Qed.
Print Assumptions C15_joint_masses_enumerate.

Theorem C15_joint_entropy_additive : forall pss : list (list R),
  Forall (fun ps => Forall (fun p => 0 <= p) ps /\ rsum ps = 1) pss ->
  shannon (joint_masses pss) = rsum (map shannon pss).
Proof. exact joint_entropy. Qed.
Print Assumptions C15_joint_entropy_additive.

(* flat and sequence parameterisations coincide (multi_categorical.py:74-123) *)
Theorem C15_flat_is_sequence : forall (A : Type) (ps : list (list A)),
  split_dims (concat ps) (map (@length A) ps) = ps.
Proof. intros A. exact split_concat. Qed.
Print Assumptions C15_flat_is_sequence.

(* ---- continuous laws ---- *)
Theorem C15_normal_prob_exp_logprob : forall mu s x, 0 < s -> exp (normal_logpdf mu s x) = normal_pdf mu s x.
Proof. exact normal_pdf_exp. Qed.
Print Assumptions C15_normal_prob_exp_logprob.

(* diagonal normal: log-density and entropy are sums over the components *)
Theorem C15_diag_normal_sum_law : forall mus sigmas xs,
  Forall (fun s => 0 < s) sigmas -> mvn_logpdf mus sigmas xs = mvn_logpdf_sum mus sigmas xs.
Proof. exact mvn_sum_law. Qed.
Print Assumptions C15_diag_normal_sum_law.

Theorem C15_diag_normal_entropy_sum : forall sigmas,
  Forall (fun s => 0 < s) sigmas -> mvn_entropy_code sigmas = mvn_entropy sigmas.
Proof. exact mvn_entropy_sum. Qed.
Print Assumptions C15_diag_normal_entropy_sum.

(* squashing bijector g(x) = low + (high-low) * sigmoid(x): range strictly inside (low, high) for ALL real x *)
Theorem C15_squash_range : forall low high x, low < high -> low < squash low high x < high.
Proof. exact squash_range. Qed.
Print Assumptions C15_squash_range.

Theorem C15_squash_derivative : forall low high x,
  derivable_pt_lim (squash low high) x (squash_deriv low high x).
Proof. exact squash_derivative. Qed.
Print Assumptions C15_squash_derivative.

(* the coded log-det-Jacobian is ln of that derivative *)
Theorem C15_squash_logdet : forall low high x,
  low < high -> squash_fldj low high x = ln (squash_deriv low high x).
Proof. exact squash_fldj_is_ln_deriv. Qed.
Print Assumptions C15_squash_logdet.

Theorem C15_squash_bijection : forall low high,
  low < high ->
  (forall x, squash_inv low high (squash low high x) = x) /\
  (forall y, low < y < high -> squash low high (squash_inv low high y) = y).
Proof. intros low high H. split; intros; [apply squash_inv_left | apply squash_inv_right]; assumption. Qed.
Print Assumptions C15_squash_bijection.

(* change of variables: exp(log_prob_Y y) = p_X(g^-1 y) / g'(g^-1 y); and p_Y(g x) g'(x) = p_X(x) *)
Theorem C15_squashed_change_of_variables : forall mu s low high y,
  0 < s -> low < high -> exp (squashed_logpdf mu s low high y) = squashed_pdf mu s low high y.
Proof. exact squashed_change_of_variables. Qed.
Print Assumptions C15_squashed_change_of_variables.

Theorem C15_squashed_pushforward : forall mu s low high x,
  low < high -> squashed_pdf mu s low high (squash low high x) * squash_deriv low high x = normal_pdf mu s x.
Proof. exact squashed_pdf_pushforward. Qed.
Print Assumptions C15_squashed_pushforward.

(* events are transported by the strictly increasing bijector: P(Y <= g b) = P(X <= b) for any base law *)
Theorem C15_squash_event_transport : forall low high x b,
  low < high -> (squash low high x <= squash low high b <-> x <= b).
Proof. exact squash_event_iff. Qed.
Print Assumptions C15_squash_event_transport.

(* sample_and_log_prob returns the log-probability of the sample it returns; the sample is inside (low, high) *)
Theorem C15_squashed_sample_and_log_prob : forall mu s low high x,
  low < high ->
  snd (squashed_sample_lp mu s low high x) = squashed_logpdf mu s low high (fst (squashed_sample_lp mu s low high x))
  /\ low < fst (squashed_sample_lp mu s low high x) < high.
Proof. exact squashed_sample_lp_consistent. Qed.
Print Assumptions C15_squashed_sample_and_log_prob.

(* squashed diagonal normal: log-density is the sum of the scalar squashed log-densities *)
Theorem C15_squashed_diag_sum_law : forall mus sigmas lows highs ys,
  Forall (fun s => 0 < s) sigmas ->
  sq_mvn_logpdf mus sigmas lows highs ys = sq_mvn_logpdf_sum mus sigmas lows highs ys.
Proof. exact sq_mvn_sum_law. Qed.
Print Assumptions C15_squashed_diag_sum_law.

(* ---- executable model / predicate ---- *)
Theorem C15_model_total_mass : forall ews, ~ (Qsum ews == 0)%Q -> (Qsum (Qnormalise ews) == 1)%Q.
Proof. exact model_total_mass. Qed.
Print Assumptions C15_model_total_mass.

Theorem C15_squash_holds_sound : forall lo hi d m,
  squash_holds lo hi d m = true ->
  (lo <= m <= hi)%Q /\ forall x sg a b y lp lpy, In (x, sg, a, b, y, lp, lpy) d -> (lo <= y <= hi)%Q.
Proof. exact squash_holds_sound. Qed.
Print Assumptions C15_squash_holds_sound.
