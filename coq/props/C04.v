(* C04 — An on-policy rollout is a faithful record of the interaction. *)
From Coq Require Import List ZArith QArith Bool Reals Qreals.
From Lerax Require Import Common Env Tab Gae GaeProofs OnPolicy OnPolicyProofs.
Import ListNotations.
Open Scope Q_scope.

Theorem C04_step_faithful : forall (S PS O : Type) gamma (E : env S Q O) (P : acpol PS Q O) es ps k,
    let '(st', row) := op_step gamma E P (es, ps) k in
    let obs := e_obs E es (ks k 9 2) in
    let mask := e_mask E es (ks k 9 2) in
    let '(ps1, a, v, lp) := p_act P ps obs (ks k 9 0) mask in
    let ca := clip_action E a in
    let es1 := e_trans E es ca (ks k 9 1) in
    r_obs row = obs /\ r_mask row = mask /\ r_act row = a /\ r_val row = v /\ r_logp row = lp /\ r_pstate row = ps /\
    r_exec row = ca /\ r_env_rew row = e_rew E es ca es1 (ks k 9 3) /\
    r_term row = e_term E es1 (ks k 9 4) /\ r_trunc row = e_trunc E es1 /\
    r_done row = r_term row || r_trunc row /\
    r_rew row = (if r_trunc row && negb (r_term row)
                 then r_env_rew row + gamma * p_value P ps1 (e_obs E es1 (ks k 9 5)) else r_env_rew row) /\
    st' = if r_done row then (e_init E (ks k 9 6), p_reset P (ks k 9 7)) else (es1, ps1).
Proof. intros S PS O gamma E P. exact (step_faithful gamma E P). Qed.
Print Assumptions C04_step_faithful.

Theorem C04_termination_never_bootstraps : forall (S PS O : Type) gamma (E : env S Q O) (P : acpol PS Q O) es ps k,
    let row := snd (op_step gamma E P (es, ps) k) in
    r_term row = true -> r_rew row = r_env_rew row.
Proof. intros S PS O gamma E P. exact (termination_never_bootstraps gamma E P). Qed.
Print Assumptions C04_termination_never_bootstraps.

Theorem C04_ratio_one : forall (S PS O : Type) gamma (E : env S Q O) (P : acpol PS Q O) es ps k,
    coherent P ->
    let row := snd (op_step gamma E P (es, ps) k) in
    p_eval P (r_pstate row) (r_obs row) (r_act row) (r_mask row) = (r_val row, r_logp row).
Proof. intros S PS O gamma E P. exact (ratio_one gamma E P). Qed.
Print Assumptions C04_ratio_one.

Theorem C04_coherent_satisfiable : forall p rw, coherent (tab_pol p rw).
Proof. exact tab_pol_coherent. Qed.
Print Assumptions C04_coherent_satisfiable.

Theorem C04_collect_length : forall (S PS O : Type) gamma (E : env S Q O) (P : acpol PS Q O) T st k,
    length (snd (fst (collect gamma E P T st k))) = T.
Proof. intros S PS O gamma E P. exact (collect_length gamma E P). Qed.
Print Assumptions C04_collect_length.

(* row t of the scan is the step taken from the state carried after t steps *)
Theorem C04_scan_rows : forall (S PS O : Type) gamma (E : env S Q O) (P : acpol PS Q O) st keys t k,
    nth_error keys t = Some k ->
    nth_error (snd (scan_steps gamma E P st keys)) t = Some (snd (op_step gamma E P (state_after gamma E P st (firstn t keys)) k)) /\
    fst (scan_steps gamma E P st keys) = state_after gamma E P st keys.
Proof. intros S PS O gamma E P. exact (scan_steps_row gamma E P). Qed.
Print Assumptions C04_scan_rows.

(* all numbers of parallel environments: each environment's rollout is its own single-environment rollout *)
Theorem C04_vectorised : forall (S PS O : Type) gamma (E : env S Q O) (P : acpol PS Q O) T sts k i st,
    nth_error sts i = Some st ->
    nth_error (collect_vec gamma E P T sts k) i = Some (collect gamma E P T st (ks k (length sts) i)).
Proof. intros S PS O gamma E P. exact (collect_vec_independent gamma E P). Qed.
Print Assumptions C04_vectorised.

(* the advantages stored with the rollout are GAE over exactly these rows with the post-rollout bootstrap value *)
Theorem C04_advantages_are_gae : forall (S PS O : Type) gamma (E : env S Q O) (P : acpol PS Q O) lam T st k,
    let '(_, rows, last) := collect gamma E P T st k in
    map Q2R (collect_adv gamma E P lam T st k) =
    specR (Q2R gamma) (Q2R lam) (Q2R last) (map (map_row Q2R) (gae_rows rows)).
Proof. intros S PS O gamma E P. exact (collect_adv_is_gae gamma E P). Qed.
Print Assumptions C04_advantages_are_gae.
