(* C05 — Off-policy collection stores exactly the transitions that happened. *)
From Coq Require Import List Arith ZArith QArith Bool.
From Lerax Require Import Common Env Tab OnPolicy Replay ReplayProofs OffPolicy OffPolicyProofs.
Import ListNotations.

(* one step stores: the observation acted on, the action chosen, the reward and successor observation the environment
   produced for the executed (clipped) action - the successor observation of the PRE-reset successor -, done, timeout,
   policy states before/after; and restarts environment and policy state after a done step *)
Theorem C05_step_faithful : forall (S PS O : Type) (E : env S Q O) (P : acpol PS Q O) es ps buf k,
    off_step E P ((es, ps), buf) k = (snd (off_row E P es ps k), soa_add buf (fst (off_row E P es ps k))).
Proof. intros S PS O E P. exact (off_step_faithful E P). Qed.
Print Assumptions C05_step_faithful.

Theorem C05_timeout_iff : forall (S PS O : Type) (E : env S Q O) (P : acpol PS Q O) es ps k,
    let row := fst (off_row E P es ps k) in
    let obs := e_obs E es (ks k 9 2) in
    let a := snd (fst (fst (p_act P ps obs (ks k 9 0) None))) in
    let es1 := e_trans E es (clip_action E a) (ks k 9 1) in
    t_timeout row = (e_trunc E es1 && negb (e_term E es1 (ks k 9 4))) /\
    t_done row = (e_term E es1 (ks k 9 4) || e_trunc E es1).
Proof. intros S PS O E P. exact (timeout_iff E P). Qed.
Print Assumptions C05_timeout_iff.

(* a scan appends the log of what happened, in order *)
Theorem C05_scan_is_log : forall (S PS O : Type) (E : env S Q O) (P : acpol PS Q O) st buf keys,
    off_scan E P (st, buf) keys = (snd (off_log E P st keys), fold_left soa_add (fst (off_log E P st keys)) buf).
Proof. intros S PS O E P. exact (off_scan_log E P). Qed.
Print Assumptions C05_scan_is_log.

Theorem C05_warmup_count : forall (S PS O : Type) (E : env S Q O) (P : acpol PS Q O) size L co ca ik sk,
    b_pos (snd (off_reset_env E P size L co ca ik sk)) = L.
Proof. intros S PS O E P. exact (warmup_count E P). Qed.
Print Assumptions C05_warmup_count.

Theorem C05_warmup_is_ring : forall (S PS O : Type) (E : env S Q O) (P : acpol PS Q O) size, (0 < size)%nat ->
    forall d L co ca ik sk,
    let st0 := (e_init E (ks ik 2 0), p_reset P (ks ik 2 1)) in
    Inv size d (fst (off_log E P st0 (split_keys sk L))) (snd (off_reset_env E P size L co ca ik sk)).
Proof. intros S PS O E P. exact (warmup_is_ring E P). Qed.
Print Assumptions C05_warmup_is_ring.

(* every iteration adds num_steps per environment to that environment's own buffer *)
Theorem C05_collect_counts : forall (S PS O : Type) (E : env S Q O) (P : acpol PS Q O) T sts k i st,
    nth_error sts i = Some st ->
    exists st', nth_error (off_collect E P T sts k) i = Some st' /\
                b_pos (snd st') = (b_pos (snd st) + T)%nat /\
                (exists keys, length keys = T /\ st' = off_scan E P st keys).
Proof. intros S PS O E P. exact (collect_counts E P). Qed.
Print Assumptions C05_collect_counts.
