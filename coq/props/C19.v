(* C19 — Reported performance numbers are faithful to what happened. *)
From Coq Require Import List ZArith QArith Bool.
From Lerax Require Import Common Env Tab OnPolicy Logging LoggingProofs.
Import ListNotations.

(* for every reward/done history and smoothing factor: at a done step the averages are blended with exactly the sum of rewards
   and the number of steps since the previous episode end, unchanged otherwise; the step counter counts steps *)
Theorem C19_next_spec : forall alpha h r d,
  let s := l_run alpha h in
  let s' := l_next alpha s r d in
  l_avg_ret s' == (if d then alpha * (tail_sum h 0 + r) + (1 - alpha) * l_avg_ret s else l_avg_ret s) /\
  l_avg_len s' == (if d then alpha * inject_Z (tail_len h 0 + 1) + (1 - alpha) * l_avg_len s else l_avg_len s) /\
  l_step s' = Z.of_nat (length h + 1).
Proof. exact next_spec. Qed.
Print Assumptions C19_next_spec.

(* separately per environment *)
Theorem C19_per_env : forall alpha (hs : list (list (Q * bool))) i h,
  nth_error hs i = Some h -> nth_error (map (l_run alpha) hs) i = Some (l_run alpha h).
Proof. exact per_env. Qed.
Print Assumptions C19_per_env.

(* the step reported with a log record is the cumulative number of environment steps over all environments *)
Theorem C19_cumulative_steps : forall alpha (hs : list (list (Q * bool))),
  fst (fst (iter_record (map (l_run alpha) hs))) = Z.of_nat (length (concat hs)).
Proof. exact iter_steps. Qed.
Print Assumptions C19_cumulative_steps.

(* evaluation helper: the scan accumulates exactly the rewards up to and including the first terminal/truncated step or the cap *)
Theorem C19_rollout_scan : forall (S PS O : Type) (E : env S Q O) (P : acpol PS Q O) det k max_steps,
  rollout_scan E P det k max_steps ==
  qsum (until_done (traj E P det (e_init E k, p_reset P k) (split_keys k max_steps))).
Proof. intros S PS O E P. exact (rollout_scan_spec E P). Qed.
Print Assumptions C19_rollout_scan.

Theorem C19_while_fuel_irrelevant : forall (S PS O : Type) (E : env S Q O) (P : acpol PS Q O) det f st k acc v,
  while_loop E P det f st k acc = Some v -> while_loop E P det (Datatypes.S f) st k acc = Some v.
Proof. intros S PS O E P det. exact (while_fuel_monotone E P det). Qed.
Print Assumptions C19_while_fuel_irrelevant.

(* average_reward is the mean over num_episodes independent keys (definitional in the model; tied by the check) *)
Theorem C19_average_reward : forall (S PS O : Type) (E : env S Q O) (P : acpol PS Q O) det k n m,
  average_reward E P det k n m = qmean (map (fun i => rollout_scan E P det (ks k n i) m) (seq 0 n)).
Proof. reflexivity. Qed.
Print Assumptions C19_average_reward.

(* log records reach the backend in iteration order with the cumulative number of environment steps:
   the model of learn() that the check ties to real PPO runs emits, for iteration j = 1..iters, the step count j * N * T *)
From Lerax Require Import C19Check C19LearnProofs.
Theorem C19_log_records_in_order : forall (E : env (ws Z) Q (list Q)) (P : acpol Z Q (list Q)) gamma alpha N T iters k,
  map (fun r => fst (fst r)) (learn_records E P gamma alpha N T iters k) = map (fun j => Z.of_nat (j * N * T)) (seq 1 iters).
Proof. exact learn_records_steps. Qed.
Print Assumptions C19_log_records_in_order.

(* any learner, warm-up steps included: the j-th record carries N * (learning_starts + j * num_steps) environment steps *)
Theorem C19_records_count_warmup : forall alpha T L iters (hist : list (list (Q * bool))),
  Forall (fun h => (L + iters * T <= length h)%nat) hist ->
  map (fun r => fst (fst r)) (hist_records alpha T L iters hist) =
  map (fun j => Z.of_nat (length hist * (L + j * T))) (seq 1 iters).
Proof. exact hist_records_steps. Qed.
Print Assumptions C19_records_count_warmup.
