(* C07 — TD targets bootstrap through truncation, never through termination. *)
From Coq Require Import Reals List Bool.
From Lerax Require Import Losses LossesProofs.
Import ListNotations.
Open Scope R_scope.

(* with what the collector stores (done = terminated or truncated, timeout = truncated and not terminated) the code's
   mask ~done | timeout is exactly "not terminated", for all four flag combinations *)
Theorem C07_mask_is_not_terminated : forall term trunc, not_terminal (term || trunc) (trunc && negb term) = negb term.
Proof. exact mask_is_not_terminated. Qed.
Print Assumptions C07_mask_is_not_terminated.

Theorem C07_target_formula : forall gamma r v term trunc,
  td_targetR gamma r v (term || trunc) (trunc && negb term) = r + gamma * (1 - (if term then 1 else 0)) * v.
Proof. exact target_formula. Qed.
Print Assumptions C07_target_formula.

Theorem C07_no_bootstrap_on_termination : forall gamma r v trunc,
  td_targetR gamma r v (true || trunc) (trunc && negb true) = r.
Proof. exact target_no_bootstrap_on_termination. Qed.
Print Assumptions C07_no_bootstrap_on_termination.

Theorem C07_bootstrap_on_timeout : forall gamma r v,
  td_targetR gamma r v (false || true) (true && negb false) = r + gamma * v.
Proof. exact target_bootstraps_through_timeout. Qed.
Print Assumptions C07_bootstrap_on_timeout.

Theorem C07_mask_on_unreachable_pair : not_terminal false true = true.
Proof. exact mask_on_unreachable_pair. Qed.
Print Assumptions C07_mask_on_unreachable_pair.

Theorem C07_sac_vnext : forall alpha q1 q2 lp, sac_vnextR alpha q1 q2 lp = Rmin q1 q2 - alpha * lp.
Proof. exact sac_vnext_formula. Qed.
Print Assumptions C07_sac_vnext.
