(* C10 — Training schedule: step budget, iteration counter, target-network updates.
   The gradient updates are ARBITRARY functions: the theorems hold for every optimiser, loss and data. *)
From Coq Require Import List Arith ZArith QArith Bool Reals.
From Lerax Require Import Schedule ScheduleProofs.
Import ListNotations.

Theorem C10_num_iterations : forall total N T, (0 < N * T)%Z -> (0 <= total)%Z ->
  (num_iterations total N T * (N * T) <= total < (num_iterations total N T + 1) * (N * T))%Z.
Proof. exact num_iterations_spec. Qed.
Print Assumptions C10_num_iterations.

Theorem C10_counter : forall (X : Type) train interval k x0,
  d_count X (dqn_run X train interval k (dqn_reset X x0)) = k.
Proof. exact run_count. Qed.
Print Assumptions C10_counter.

(* DQN target = online network as of the most recent iteration whose count is a multiple of the interval *)
Theorem C10_dqn_target : forall (X : Type) train interval, (0 < interval)%nat -> forall k x0,
  d_target X (dqn_run X train interval k (dqn_reset X x0)) = online_at X train x0 (interval * (k / interval)).
Proof. exact dqn_target. Qed.
Print Assumptions C10_dqn_target.

Theorem C10_dqn_unchanged_between : forall (X : Type) train interval k x0, (S k mod interval <> 0)%nat ->
  d_target X (dqn_run X train interval (S k) (dqn_reset X x0)) = d_target X (dqn_run X train interval k (dqn_reset X x0)).
Proof. exact dqn_unchanged_between. Qed.
Print Assumptions C10_dqn_unchanged_between.

(* SAC: theta' <- tau*theta + (1-tau)*theta' exactly once per iteration; closed form over the reals *)
Theorem C10_sac_polyak_closed_form : forall tau onlines target0,
  polyak_run tau target0 onlines = ((1 - tau) ^ length onlines * target0 + weighted tau onlines)%R.
Proof. exact polyak_closed_form. Qed.
Print Assumptions C10_sac_polyak_closed_form.

Theorem C10_sac_polyak_once_per_iteration : forall tau onlines target0 o,
  polyak_run tau target0 (onlines ++ [o]) = polyak tau o (polyak_run tau target0 onlines).
Proof. exact polyak_step_count. Qed.
Print Assumptions C10_sac_polyak_once_per_iteration.

(* actor / temperature change only on every policy_frequency-th iteration, the temperature only with autotune *)
Theorem C10_sac_gating : forall (A : Type) upd freq autotune (a0 : A) k,
  gated_run A upd freq autotune a0 (S k) <> gated_run A upd freq autotune a0 k ->
  autotune = true /\ (k mod freq = 0)%nat.
Proof. exact gated_only_on_multiples. Qed.
Print Assumptions C10_sac_gating.

Theorem C10_sac_no_autotune_constant : forall (A : Type) upd freq (a0 : A) k, gated_run A upd freq false a0 k = a0.
Proof. exact no_autotune_constant. Qed.
Print Assumptions C10_sac_no_autotune_constant.

(* each iteration of learn() consumes exactly num_envs * num_steps environment steps (model of learn() over the on-policy
   collection model validated by C04/C19): the cumulative step count after iteration j is j * N * T *)
From Lerax Require Import Common Env Tab OnPolicy C19Check C19LearnProofs.
Theorem C10_steps_per_iteration : forall (E : env (ws Z) Q (list Q)) (P : acpol Z Q (list Q)) gamma alpha N T iters k,
  map (fun r => fst (fst r)) (learn_records E P gamma alpha N T iters k) = map (fun j => Z.of_nat (j * N * T)) (seq 1 iters).
Proof. exact learn_records_steps. Qed.
Print Assumptions C10_steps_per_iteration.
