(* C12 — JAX transformations are transparent; parallel environments never mix.
   Proved part: the vectorised collection IS the N independent single-environment collections (on- and off-policy),
   and each environment's advantages are a function of its own stream only.
   jit/vmap transparency of XLA itself is a runtime fact: explored by the check, not proved. *)
From Coq Require Import List Arith ZArith QArith Bool Reals.
From Lerax Require Import Common Env Tab Gae GaeProofs OnPolicy OnPolicyProofs Replay OffPolicy OffPolicyProofs.
Import ListNotations.

Theorem C12_onpolicy_no_mixing : forall (S PS O : Type) gamma (E : env S Q O) (P : acpol PS Q O) T sts k i st,
    nth_error sts i = Some st ->
    nth_error (collect_vec gamma E P T sts k) i = Some (collect gamma E P T st (ks k (length sts) i)).
Proof. intros S PS O gamma E P. exact (collect_vec_independent gamma E P). Qed.
Print Assumptions C12_onpolicy_no_mixing.

Theorem C12_offpolicy_no_mixing : forall (S PS O : Type) (E : env S Q O) (P : acpol PS Q O) T sts k i st,
    nth_error sts i = Some st ->
    exists st', nth_error (off_collect E P T sts k) i = Some st' /\
                b_pos (snd st') = (b_pos (snd st) + T)%nat /\
                (exists keys, length keys = T /\ st' = off_scan E P st keys).
Proof. intros S PS O E P. exact (collect_counts E P). Qed.
Print Assumptions C12_offpolicy_no_mixing.

Theorem C12_advantages_own_stream : forall g l streams i xs last,
    nth_error streams i = Some (xs, last) ->
    nth_error (gae_vec R 0%R 1%R Rplus Rmult Rminus g l streams) i = Some (specR g l last xs).
Proof. exact per_env. Qed.
Print Assumptions C12_advantages_own_stream.
