(* C13 — Wrappers and adapters change only what they declare; TimeLimit is exact. *)
From Coq Require Import List ZArith QArith Bool Reals.
From Lerax Require Import Common Env EnvProofs Tab C13Check.
Import ListNotations.

(* complete characterisation of an ARBITRARY wrapper stack over an ARBITRARY environment:
   the wrapped components are the inner environment's at the mapped action (dynamics, reward and info alike),
   with only observation / reward post-processed, truncation = inner || some TimeLimit reached,
   mask, infos and the unwrapped state passing through, and the advertised spaces those of the outermost layer *)
Theorem C13_stack_char : forall (S A O : Type) (e : env S A O) stack s, wf stack s ->
    let W := wrap stack e in
    (forall a k, e_trans W s a k = (map (fun c => c + 1)%Z (fst s), e_trans e (snd s) (act_map stack a) k)) /\
    (forall k, e_obs W s k = obs_map stack (e_obs e (snd s) k)) /\
    (forall a s' k, wf stack s' -> e_rew W s a s' k = rew_map stack (e_rew e (snd s) (act_map stack a) (snd s') k)) /\
    (forall k, e_term W s k = e_term e (snd s) k) /\
    (e_trunc W s = e_trunc e (snd s) || any_limit (limits stack) (fst s)) /\
    (forall k, e_mask W s k = e_mask e (snd s) k) /\
    (e_sinfo W s = e_sinfo e (snd s)) /\
    (forall a s', wf stack s' -> e_tinfo W s a s' = e_tinfo e (snd s) (act_map stack a) (snd s')) /\
    e_asp W = asp_of stack (e_asp e) /\ e_osp W = osp_of stack (e_osp e).
Proof. intros S A O e. exact (stack_char e). Qed.
Print Assumptions C13_stack_char.

Theorem C13_wf_preserved : forall (S A O : Type) (e : env S A O) stack s a k,
    wf stack s -> wf stack (e_trans (wrap stack e) s a k).
Proof. intros S A O e. exact (trans_wf e). Qed.
Print Assumptions C13_wf_preserved.

(* along any history every TimeLimit counter equals the number of transitions since initial() *)
Theorem C13_run_char : forall (S A O : Type) (e : env S A O) stack k0 acts,
    let W := wrap stack e in
    run_trans W (e_init W k0) acts =
      (repeat (Z.of_nat (length acts)) (length (limits stack)),
       run_trans e (e_init e k0) (map (fun ak => (act_map stack (fst ak), snd ak)) acts)).
Proof. intros S A O e. exact (run_char e). Qed.
Print Assumptions C13_run_char.

(* TimeLimit(N) raises truncation at exactly the N-th step: never earlier (unless the inner env truncates), never later; all N, all stacks *)
Theorem C13_timelimit_exact : forall (S A O : Type) (e : env S A O) stack k0 acts,
    let W := wrap stack e in
    e_trunc W (run_trans W (e_init W k0) acts) =
      e_trunc e (run_trans e (e_init e k0) (map (fun ak => (act_map stack (fst ak), snd ak)) acts))
      || existsb (fun n => (n <=? Z.of_nat (length acts))%Z) (limits stack).
Proof. intros S A O e. exact (timelimit_exact e). Qed.
Print Assumptions C13_timelimit_exact.

Theorem C13_timelimit_single : forall (S A O : Type) (e : env S A O) n k0 acts,
    (forall s, e_trunc e s = false) ->
    let W := wrap [WTimeLimit n] e in
    e_trunc W (run_trans W (e_init W k0) acts) = (n <=? Z.of_nat (length acts))%Z.
Proof. intros S A O e. exact (timelimit_single e). Qed.
Print Assumptions C13_timelimit_single.

(* the count restarts on reset *)
Theorem C13_counters_restart : forall (S A O : Type) (e : env S A O) stack k,
    Forall (fun c => c = 0%Z) (fst (e_init (wrap stack e) k)) /\ wf stack (e_init (wrap stack e) k).
Proof. intros S A O e. exact (init_counters_zero e). Qed.
Print Assumptions C13_counters_restart.

(* rescale_box over the reals: affine, new bounds exactly onto the original bounds, inverse of forward *)
Theorem C13_rescale_affine : forall lo hi mn mx y, (lo < hi)%R -> (mn < mx)%R ->
    rsR_backward lo hi mn mx y = (lo + (y - mn) * ((hi - lo) / (mx - mn)))%R.
Proof. exact rescale_backward_affine. Qed.
Print Assumptions C13_rescale_affine.

Theorem C13_rescale_bounds : forall lo hi mn mx, (lo < hi)%R -> (mn < mx)%R ->
    rsR_backward lo hi mn mx mn = lo /\ rsR_backward lo hi mn mx mx = hi.
Proof. exact rescale_backward_bounds. Qed.
Print Assumptions C13_rescale_bounds.

Theorem C13_rescale_range : forall lo hi mn mx y, (lo < hi)%R -> (mn < mx)%R ->
    (mn <= y <= mx)%R -> (lo <= rsR_backward lo hi mn mx y <= hi)%R.
Proof. exact rescale_backward_range. Qed.
Print Assumptions C13_rescale_range.

Theorem C13_rescale_obs_bounds : forall lo hi mn mx, (lo < hi)%R -> (mn < mx)%R ->
    rsR_forward lo hi mn mx lo = mn /\ rsR_forward lo hi mn mx hi = mx.
Proof. exact rescale_forward_bounds. Qed.
Print Assumptions C13_rescale_obs_bounds.

(* adapters *)
Theorem C13_gym_adapter : forall (S A O : Type) (E : env S A O) acts key s,
    l2g_run E key s acts = run_gym E s (combine acts (l2g_keys key (length acts))).
Proof. intros S A O E. exact (l2g_run_is_run_gym E). Qed.
Print Assumptions C13_gym_adapter.

Theorem C13_gymnax_adapter : forall (S A O : Type) (E : env S A O) key st a,
    let o := gym_step E (fst st) a key in
    l2x_step E key st a = (so_obs o, (so_state o, (snd st + 1)%Z), so_rew o, so_term o || so_trunc o, so_info o).
Proof. intros S A O E. exact (l2x_step_is_gym_step E). Qed.
Print Assumptions C13_gymnax_adapter.

(* the executable comparison: on well-formed states the model of the wrapped env IS the declared-change spec *)
Theorem C13_agree_eq_holds : forall c,
    length (fst (c_state c)) = length (limits (denote_stack (c_stack c) (tab_env (c_tab c) (c_raw c)))) ->
    agree c = holds c.
Proof. exact agree_eq_holds. Qed.
Print Assumptions C13_agree_eq_holds.

(* ClipAction: whatever the agent proposes, the inner environment receives a member of its (bounded) action space,
   and members are passed unchanged *)
Theorem C13_clip_action_member : forall lo hi a, (lo <= hi)%Q -> (lo <= clipQ (Fin lo) (Fin hi) a <= hi)%Q.
Proof. exact clipQ_range. Qed.
Print Assumptions C13_clip_action_member.

Theorem C13_clip_action_identity_on_members : forall lo hi a, (lo <= a <= hi)%Q -> clipQ (Fin lo) (Fin hi) a == a.
Proof. exact clipQ_member_fixed. Qed.
Print Assumptions C13_clip_action_identity_on_members.

(* LeraxToGymEnv as an object: the episode after reset(seed=r) does not depend on what the adapter did before, and it is the
   native Gym-style trajectory of the adapted environment under the key chain of r; reset() without a seed continues the chain *)
From Lerax Require Import AdapterSM AdapterSMProofs.
Theorem C13_reseed_forgets_history : forall (S A O : Type) (E : env S A O) (g : l2g_obj) before r ops key0,
  l2g_trace E (l2g_after E g before) (OReset (Some r) :: ops) = l2g_trace E (l2g_new key0) (OReset (Some r) :: ops).
Proof. exact (@reseed_after_any_use). Qed.
Print Assumptions C13_reseed_forgets_history.

Theorem C13_episode_after_reseed : forall (S A O : Type) (E : env S A O) (g : l2g_obj) r acts,
  let '(s, o, i) := gym_reset E (ks r 2 1) in
  l2g_trace E g (OReset (Some r) :: map (@OStep A) acts) =
  OutReset s o i :: map (@OutStep S O) (run_gym E s (combine acts (l2g_keys (ks r 2 0) (length acts)))).
Proof. exact (@episode_after_reseed). Qed.
Print Assumptions C13_episode_after_reseed.
