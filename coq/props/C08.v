(* C08 — On-policy losses equal the published objectives (PPO clip, A2C, REINFORCE).
   The objectives themselves are the definitions in Lerax.Losses (instantiated at R); the theorems are their consequences. *)
From Coq Require Import Reals List.
From Coquelicot Require Import Coquelicot.
From Lerax Require Import Losses LossesProofs.
Import ListNotations.
Open Scope R_scope.

Theorem C08_surrogate_inside_clip : forall eps r A, 0 <= eps -> 1 - eps <= r <= 1 + eps -> surrogateR eps r A = A * r.
Proof. exact surrogate_inside. Qed.
Print Assumptions C08_surrogate_inside_clip.

(* a sample whose ratio has left the clip interval in the direction its advantage favours contributes no policy gradient *)
Theorem C08_no_gradient_above_clip : forall eps r A, 0 <= eps -> 1 + eps < r -> 0 < A ->
  is_derive (fun x => surrogateR eps x A) r 0.
Proof. exact no_gradient_above. Qed.
Print Assumptions C08_no_gradient_above_clip.

Theorem C08_no_gradient_below_clip : forall eps r A, 0 <= eps -> r < 1 - eps -> A < 0 ->
  is_derive (fun x => surrogateR eps x A) r 0.
Proof. exact no_gradient_below. Qed.
Print Assumptions C08_no_gradient_below_clip.

(* on data collected by the current policy every ratio is 1: approximate KL 0, policy loss = -mean advantage *)
Theorem C08_ratio_one_kl_zero : forall n, (0 < n)%nat -> approx_klR (repeat 1 n) (repeat 0 n) = 0.
Proof. exact ratio_one_kl_zero. Qed.
Print Assumptions C08_ratio_one_kl_zero.

Theorem C08_ratio_one_policy_loss : forall eps advs, 0 <= eps ->
  ppo_policy_lossR eps (repeat 1 (length advs)) advs = - meanR advs.
Proof. exact ratio_one_policy_loss. Qed.
Print Assumptions C08_ratio_one_policy_loss.

(* value clipping takes the larger of the clipped and unclipped errors *)
Theorem C08_value_clip_is_larger : forall a b, a <= Rmax a b /\ b <= Rmax a b.
Proof. exact value_clip_is_larger. Qed.
Print Assumptions C08_value_clip_is_larger.

(* global-norm clipping: bounded norm, direction preserved *)
Theorem C08_clip_norm_bounded : forall c g, 0 < c -> gnorm (clip_by_global_norm c g) <= c.
Proof. exact clip_norm_bounded. Qed.
Print Assumptions C08_clip_norm_bounded.

Theorem C08_clip_direction : forall c g, 0 < c -> exists s, 0 < s <= 1 /\ clip_by_global_norm c g = map (fun x => x * s) g.
Proof. exact clip_direction. Qed.
Print Assumptions C08_clip_direction.
