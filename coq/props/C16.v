(* C16 — Masked actions are never chosen; key-less policies act greedily.
   Property theorems only; proofs live in Lerax.DistributionsProofs / Lerax.C16Check.
   Extended logits: option R, None = -inf.  "allowed finite logit" = the hypothesis
   exists k x, nth_error ls k = Some (Some x) /\ nth_error m k = Some true. *)
From Coq Require Import Reals List Bool ZArith QArith.
From Lerax Require Import Common Distributions DistributionsProofs C16Check.
Import ListNotations.
Open Scope R_scope.

(* a masked action has probability exactly zero (categorical.py:45-47) *)
Theorem C16_masked_zero : forall (ls : list (option R)) (m : list bool) i,
  nth_error m i = Some false -> (i < length ls)%nat -> cat_prob (mask_e R ls m) i = 0.
Proof. exact masked_zero. Qed.
Print Assumptions C16_masked_zero.

(* the remaining probabilities are the original ones divided by the allowed mass *)
Theorem C16_renormalised : forall (ls : list (option R)) (m : list bool) i,
  (exists k x, nth_error ls k = Some (Some x) /\ nth_error m k = Some true) ->
  nth_error m i = Some true ->
  cat_prob (mask_e R ls m) i = cat_prob ls i / allowed_mass ls m.
Proof. exact renormalised. Qed.
Print Assumptions C16_renormalised.

Theorem C16_allowed_mass_positive : forall ls m,
  (exists k x, nth_error ls k = Some (Some x) /\ nth_error m k = Some true) -> 0 < allowed_mass ls m.
Proof. exact allowed_mass_pos. Qed.
Print Assumptions C16_allowed_mass_positive.

(* under a mask with at least one allowed finite logit the masked law has total mass one *)
Theorem C16_total_mass : forall (ls : list (option R)) (m : list bool),
  (exists k x, nth_error ls k = Some (Some x) /\ nth_error m k = Some true) ->
  rsum (cat_probs (mask_e R ls m)) = 1.
Proof. exact masked_total_mass. Qed.
Print Assumptions C16_total_mass.

(* the mode is never a masked action *)
Theorem C16_mode_allowed : forall (ls : list (option R)) (m : list bool),
  (exists k x, nth_error ls k = Some (Some x) /\ nth_error m k = Some true) ->
  let a := Rcat_mode (mask_e R ls m) in
  nth_error m a = Some true /\ exists x, nth_error ls a = Some (Some x).
Proof. exact (mode_allowed Rltb). Qed.
Print Assumptions C16_mode_allowed.

(* the mode is the greedy action: it carries the largest (masked) logit and the largest probability *)
Theorem C16_mode_is_greedy : forall (ls : list (option R)) k x,
  nth_error ls k = Some (Some x) ->
  exists v, nth_error ls (Rcat_mode ls) = Some (Some v) /\ x <= v.
Proof. exact mode_is_greedy. Qed.
Print Assumptions C16_mode_is_greedy.

Theorem C16_mode_most_probable : forall (ls : list (option R)) j,
  (exists k x, nth_error ls k = Some (Some x)) -> cat_prob ls j <= cat_prob ls (Rcat_mode ls).
Proof. exact mode_most_probable. Qed.
Print Assumptions C16_mode_most_probable.

(* for EVERY noise vector (hence every key) the Gumbel-max sample is an allowed action *)
Theorem C16_sample_allowed : forall (ls : list (option R)) (m : list bool) (noise : list R),
  length ls = length m -> length noise = length ls ->
  (exists k x, nth_error ls k = Some (Some x) /\ nth_error m k = Some true) ->
  let a := Rcat_sample (mask_e R ls m) noise in
  nth_error m a = Some true /\ exists x, nth_error ls a = Some (Some x).
Proof. exact (sample_allowed Rplus Rltb). Qed.
Print Assumptions C16_sample_allowed.

(* the same over any carrier and any comparison function (the executable model run against lerax is the Q instance) *)
Theorem C16_sample_allowed_any_carrier : forall (T : Type) (add : T -> T -> T) (ltb : T -> T -> bool)
    (ls : list (option T)) (m : list bool) (noise : list T),
  length ls = length m -> length noise = length ls ->
  (exists k x, nth_error ls k = Some (Some x) /\ nth_error m k = Some true) ->
  let a := cat_sample T add ltb (mask_e T ls m) noise in
  nth_error m a = Some true /\ exists x, nth_error ls a = Some (Some x).
Proof. intros T add ltb. exact (sample_allowed add ltb). Qed.
Print Assumptions C16_sample_allowed_any_carrier.

(* Bernoulli (bernoulli.py:44-46): a masked component has probability zero of being 1, is never sampled
   as 1 whatever the uniform draw u >= 0, and its mode is 0; allowed components are untouched *)
Theorem C16_bernoulli_masked_zero : forall (ls : list (option R)) (m : list bool) i,
  nth_error m i = Some false -> (i < length ls)%nat -> nth i (map bern_p1 (mask_e R ls m)) 0 = 0.
Proof. exact bern_masked_zero. Qed.
Print Assumptions C16_bernoulli_masked_zero.

Theorem C16_bernoulli_sample_masked : forall (ls : list (option R)) (m : list bool) (us : list R) i u,
  nth_error m i = Some false -> (i < length ls)%nat -> nth_error us i = Some u -> 0 <= u ->
  nth_error (bern_sample R Rltb (map bern_p1 (mask_e R ls m)) us) i = Some false.
Proof. exact bern_sample_masked. Qed.
Print Assumptions C16_bernoulli_sample_masked.

Theorem C16_bernoulli_mode_masked : forall (ls : list (option R)) (m : list bool) i,
  nth_error m i = Some false -> (i < length ls)%nat ->
  nth_error (bern_mode R Rltb (1 / 2) (map bern_p1 (mask_e R ls m))) i = Some false.
Proof. exact bern_mode_masked. Qed.
Print Assumptions C16_bernoulli_mode_masked.

Theorem C16_bernoulli_allowed_unchanged : forall (ls : list (option R)) (m : list bool) i,
  nth_error m i = Some true -> nth_error (mask_e R ls m) i = nth_error ls i.
Proof. exact bern_allowed_unchanged. Qed.
Print Assumptions C16_bernoulli_allowed_unchanged.

Theorem C16_bernoulli_total_mass : forall l, bern_p0 l + bern_p1 l = 1 /\ 0 <= bern_p1 l <= 1.
Proof. intros l. split; [apply bern_total | apply bern_range]. Qed.
Print Assumptions C16_bernoulli_total_mass.

(* MultiCategorical (multi_categorical.py:132-142): every component of the mode and of every sample obeys
   its own piece of the mask; flat masks are split like flat logits (see C15_flat_is_sequence) *)
Theorem C16_multi_mode_allowed : forall (cs : list (list (option R))) (ms : list (list bool)) i c mk,
  nth_error cs i = Some c -> nth_error ms i = Some mk ->
  (exists k x, nth_error c k = Some (Some x) /\ nth_error mk k = Some true) ->
  exists a, nth_error (mc_mode R Rltb (mc_mask R cs ms)) i = Some a /\
            nth_error mk a = Some true /\ exists x, nth_error c a = Some (Some x).
Proof. exact (mc_mode_allowed Rltb). Qed.
Print Assumptions C16_multi_mode_allowed.

Theorem C16_multi_sample_allowed : forall (cs : list (list (option R))) (ms : list (list bool)) (noises : list (list R)) i c mk g,
  nth_error cs i = Some c -> nth_error ms i = Some mk -> nth_error noises i = Some g ->
  length c = length mk -> length g = length c ->
  (exists k x, nth_error c k = Some (Some x) /\ nth_error mk k = Some true) ->
  exists a, nth_error (mc_sample R Rplus Rltb (mc_mask R cs ms) noises) i = Some a /\
            nth_error mk a = Some true /\ exists x, nth_error c a = Some (Some x).
Proof. exact (mc_sample_allowed Rplus Rltb). Qed.
Print Assumptions C16_multi_sample_allowed.

(* actor-critic / SAC policy call (actor_critic/mlp.py:117-134): no key -> the mode of the (masked) law;
   with a key and a mask -> an allowed action for every noise *)
Theorem C16_policy_greedy_without_key : forall (ls : list (option R)) (m : option (list bool)),
  ac_act R Rplus Rltb ls m None = Rcat_mode (apply_mask R ls m).
Proof. exact (ac_act_greedy_without_key Rplus Rltb). Qed.
Print Assumptions C16_policy_greedy_without_key.

Theorem C16_policy_action_allowed : forall (ls : list (option R)) (m : list bool) (noise : option (list R)),
  length ls = length m -> (forall g, noise = Some g -> length g = length ls) ->
  (exists k x, nth_error ls k = Some (Some x) /\ nth_error m k = Some true) ->
  let a := ac_act R Rplus Rltb ls (Some m) noise in
  nth_error m a = Some true /\ exists x, nth_error ls a = Some (Some x).
Proof. exact (ac_act_allowed Rplus Rltb). Qed.
Print Assumptions C16_policy_action_allowed.

(* with a key the policy samples from the law whose log-probability it reports, and that sample has positive probability *)
Theorem C16_sample_has_reported_logprob : forall (ls : list (option R)) (noise : list R),
  length noise = length ls -> (exists k x, nth_error ls k = Some (Some x)) ->
  let a := Rcat_sample ls noise in
  ew (cat_logprob ls a) = cat_prob ls a /\ 0 < cat_prob ls a.
Proof. intros ls noise Hn H a. split; [apply prob_exp_logprob, H | apply sample_positive_prob; assumption]. Qed.
Print Assumptions C16_sample_has_reported_logprob.

(* Q policy (q/base_q.py:54-92): greedy without a key; allowed under a mask in every mode; departs from the
   greedy action only inside the branch  key given /\ 0 < epsilon /\ u < epsilon  (probability <= epsilon for uniform u) *)
Theorem C16_q_greedy_without_key : forall (qs : list (option R)) (m : option (list bool)) eps,
  q_act R 0 Rplus Rltb qs m eps None = Rcat_mode (apply_mask R qs m).
Proof. exact (q_act_greedy_without_key 0 Rplus Rltb). Qed.
Print Assumptions C16_q_greedy_without_key.

Theorem C16_q_action_allowed : forall (qs : list (option R)) (m : list bool) eps (draw : option (R * list R)),
  length qs = length m ->
  (forall u g, draw = Some (u, g) -> length g = length qs) ->
  (exists k x, nth_error qs k = Some (Some x) /\ nth_error m k = Some true) ->
  let a := q_act R 0 Rplus Rltb qs (Some m) eps draw in
  nth_error m a = Some true /\ exists x, nth_error qs a = Some (Some x).
Proof. exact (q_act_allowed 0 Rplus Rltb). Qed.
Print Assumptions C16_q_action_allowed.

Theorem C16_q_departs_only_below_epsilon : forall (qs : list (option R)) (m : option (list bool)) eps (draw : option (R * list R)),
  q_act R 0 Rplus Rltb qs m eps draw <> Rcat_mode (apply_mask R qs m) ->
  exists u g, draw = Some (u, g) /\ 0 < eps /\ u < eps.
Proof.
  intros qs m eps draw H. destruct (q_act_departs 0 Rplus Rltb qs m eps draw H) as (u & g & Hd & H0 & H1).
  exists u, g. split; [exact Hd|]. unfold Rltb in *.
  destruct (Rlt_dec 0 eps); [|discriminate]. destruct (Rlt_dec u eps); [|discriminate]. auto.
Qed.
Print Assumptions C16_q_departs_only_below_epsilon.

(* the executable (rational) model run against lerax satisfies the support part of the predicate, and the boolean
   predicate evaluated on lerax's outputs is sound for the statements above *)
Theorem C16_model_sample_allowed : forall ls m noise,
  length ls = length m -> length noise = length ls ->
  (exists k x, nth_error ls k = Some (Some x) /\ nth_error m k = Some true) ->
  allowedZ m (Z.of_nat (Qcat_sample (Qmask_e ls m) noise)) = true.
Proof. exact model_sample_allowed. Qed.
Print Assumptions C16_model_sample_allowed.

Theorem C16_model_q_allowed : forall qs m eps dr,
  length qs = length m -> (forall u g, dr = Some (u, g) -> length g = length qs) ->
  (exists k, nth_error m k = Some true /\ (k < length qs)%nat) ->
  allowedZ m (Z.of_nat (Qq_act (map Some qs) (Some m) eps dr)) = true.
Proof. exact model_q_allowed. Qed.
Print Assumptions C16_model_q_allowed.

Theorem C16_holds_sound : forall e m pu ml pm g d,
  cat_holds e m pu ml pm g d = true ->
  (forall i p, nth_error m i = Some false -> nth_error pm i = Some p -> (p == 0)%Q) /\
  allowedZ m g = true /\
  (forall noise s lp, In (noise, s, lp) d -> allowedZ m s = true).
Proof. exact cat_holds_sound. Qed.
Print Assumptions C16_holds_sound.

Theorem C16_q_holds_sound : forall qs m eps dr a,
  q_holds qs m eps dr a = true ->
  allowedZ (q_maskv qs m) a = true /\
  (is_argmax (q_mlogits qs m) a = true \/ exists u g, dr = Some (u, g) /\ Qltb 0 eps = true /\ Qltb u eps = true).
Proof. exact q_holds_sound. Qed.
Print Assumptions C16_q_holds_sound.
