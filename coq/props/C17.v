(* C17 — Built-in environments realise their Gymnasium reference MDPs (classic control, over the reals).
   Property theorems only; proofs live in Lerax.ClassicControlProofs.  The lerax side (CP/MC/CMC/AC = Gen_*.v) is
   generated from the lerax source by harness/translate on every run of the check; the Gymnasium side
   (modules GymCartPole etc.) is the hand transcription in Lerax.ClassicControl.
   The three ContinuousMountainCar statements that only hold of a repaired lerax (goal-step reward, left-wall
   rule, goal position) are in coq/pending/C17_cmc_*.v and are compiled by the check, not by the build. *)
From Coq Require Import Reals List Bool QArith Qreals.
From Lerax Require Import CCBase ClassicControl Gen_CartPole Gen_MountainCar Gen_ContinuousMountainCar Gen_Acrobot
  ClassicControlProofs C17Check C17CheckProofs.
Import ListNotations.
Open Scope R_scope.

(* ---------------------------------------------------------------- CartPole *)
(* same vector field, every state, both actions; denominators shown non-zero, not assumed *)
Theorem C17_cartpole_field : forall y0 y1 y2 y3 a, (a < CP.n_actions)%nat ->
  CP.dynamics y0 y1 y2 y3 a = GymCartPole.field y0 y1 y2 y3 a.
Proof. exact cartpole_field. Qed.
Print Assumptions C17_cartpole_field.

(* one explicit-Euler step of the lerax field with lerax's dt (= tau) is Gymnasium's "euler" update *)
Theorem C17_cartpole_euler : forall y0 y1 y2 y3 a, (a < CP.n_actions)%nat ->
  euler_step CP.c_dt [y0; y1; y2; y3] (CP.dynamics y0 y1 y2 y3 a) = GymCartPole.step_euler y0 y1 y2 y3 a.
Proof. exact cartpole_euler. Qed.
Print Assumptions C17_cartpole_euler.

Theorem C17_cartpole_terminal : forall s0 s1 s2 s3, CP.terminal s0 s1 s2 s3 = GymCartPole.terminated s0 s2.
Proof. exact cartpole_terminal. Qed.
Print Assumptions C17_cartpole_terminal.

Theorem C17_cartpole_reward : forall s0 s1 s2 s3 a n0 n1 n2 n3,
  CP.reward s0 s1 s2 s3 a n0 n1 n2 n3 = GymCartPole.reward.
Proof. exact cartpole_reward. Qed.
Print Assumptions C17_cartpole_reward.

Theorem C17_cartpole_limits : forall y0 y1 y2 y3, CP.clip y0 y1 y2 y3 = GymCartPole.limits y0 y1 y2 y3.
Proof. exact cartpole_limits. Qed.
Print Assumptions C17_cartpole_limits.

Theorem C17_cartpole_spaces :
  CP.n_actions = GymCartPole.n_actions /\ CP.obs_low = GymCartPole.obs_low /\ CP.obs_high = GymCartPole.obs_high.
Proof. exact (conj cartpole_n_actions cartpole_obs_bounds). Qed.
Print Assumptions C17_cartpole_spaces.

Theorem C17_cartpole_initial : CP.init_low = GymCartPole.init_low /\ CP.init_high = GymCartPole.init_high.
Proof. exact cartpole_initial. Qed.
Print Assumptions C17_cartpole_initial.

(* ---------------------------------------------------------------- MountainCar *)
(* Gymnasium's MountainCar is a discrete map; lerax integrates an ODE.  Proved: lerax's vector field is
   (velocity, Gymnasium's velocity increment) ... *)
Theorem C17_mountaincar_field : forall x v a, MC.dynamics x v a = GymMountainCar.field x v a.
Proof. exact mountaincar_field. Qed.
Print Assumptions C17_mountaincar_field.

(* ... lerax's clip is exactly Gymnasium's limit rule (speed clip, position clip, inelastic left wall) ... *)
Theorem C17_mountaincar_limits : forall x v, MC.clip x v = GymMountainCar.limits x v.
Proof. exact mountaincar_limits. Qed.
Print Assumptions C17_mountaincar_limits.

(* ... and Gymnasium's step is lerax's clip applied to the unit-step semi-implicit Euler update of lerax's field
   (velocity first, speed limit before the position update).  Not proved (false in general): that the flow
   lerax integrates over one dt, or its explicit Euler step, reproduces Gymnasium's trajectory. *)
Theorem C17_mountaincar_step : forall x v a,
  GymMountainCar.step x v a =
  let v1 := v + MC.c_dt * nth 1 (MC.dynamics x v a) 0 in
  let vc := Rclip v1 (- MC.c_max_speed) MC.c_max_speed in
  MC.clip (x + MC.c_dt * vc) v1.
Proof. exact mountaincar_step. Qed.
Print Assumptions C17_mountaincar_step.

Theorem C17_mountaincar_terminal : forall x v, MC.terminal x v = GymMountainCar.terminated x v.
Proof. exact mountaincar_terminal. Qed.
Print Assumptions C17_mountaincar_terminal.

Theorem C17_mountaincar_reward : forall s0 s1 a n0 n1, MC.reward s0 s1 a n0 n1 = GymMountainCar.reward.
Proof. exact mountaincar_reward. Qed.
Print Assumptions C17_mountaincar_reward.

Theorem C17_mountaincar_spaces :
  MC.n_actions = GymMountainCar.n_actions /\ MC.obs_low = GymMountainCar.obs_low /\ MC.obs_high = GymMountainCar.obs_high.
Proof. exact (conj mountaincar_n_actions mountaincar_obs_bounds). Qed.
Print Assumptions C17_mountaincar_spaces.

Theorem C17_mountaincar_initial : MC.init_low = GymMountainCar.init_low /\ MC.init_high = GymMountainCar.init_high.
Proof. exact mountaincar_initial. Qed.
Print Assumptions C17_mountaincar_initial.

(* ---------------------------------------------------------------- ContinuousMountainCar (what holds today) *)
(* every real action, also outside [-1, 1] (both sides clip it before use) *)
Theorem C17_cmc_field : forall x v a, CMC.dynamics x v a = GymContinuousMountainCar.field x v a.
Proof. exact cmc_field. Qed.
Print Assumptions C17_cmc_field.

Theorem C17_cmc_spaces :
  (CMC.act_low = GymContinuousMountainCar.min_action /\ CMC.act_high = GymContinuousMountainCar.max_action)
  /\ CMC.obs_low = GymContinuousMountainCar.obs_low /\ CMC.obs_high = GymContinuousMountainCar.obs_high.
Proof. exact (conj cmc_action_bounds cmc_obs_bounds). Qed.
Print Assumptions C17_cmc_spaces.

Theorem C17_cmc_initial :
  CMC.init_low = GymContinuousMountainCar.init_low /\ CMC.init_high = GymContinuousMountainCar.init_high.
Proof. exact cmc_initial. Qed.
Print Assumptions C17_cmc_initial.

(* ---------------------------------------------------------------- Acrobot ("book" dynamics) *)
Theorem C17_acrobot_field : forall y0 y1 y2 y3 a, (a < AC.n_actions)%nat ->
  AC.dynamics y0 y1 y2 y3 a = GymAcrobot.field y0 y1 y2 y3 a.
Proof. exact acrobot_field. Qed.
Print Assumptions C17_acrobot_field.

Theorem C17_acrobot_terminal : forall s0 s1 s2 s3, AC.terminal s0 s1 s2 s3 = GymAcrobot.terminated s0 s1.
Proof. exact acrobot_terminal. Qed.
Print Assumptions C17_acrobot_terminal.

(* 0 on the transition INTO the goal region, -1 otherwise *)
Theorem C17_acrobot_reward : forall s0 s1 s2 s3 a n0 n1 n2 n3,
  AC.reward s0 s1 s2 s3 a n0 n1 n2 n3 = GymAcrobot.reward n0 n1.
Proof. exact acrobot_reward. Qed.
Print Assumptions C17_acrobot_reward.

(* velocity bounds are Gymnasium's `bound`; the wrapped angles are representatives modulo 2 pi inside [-pi, pi],
   which is what Gymnasium's `wrap` loops compute (lerax picks -pi where Gymnasium keeps +pi: same angle) *)
Theorem C17_acrobot_limits : forall y0 y1 y2 y3,
  exists r1 r2,
    AC.clip y0 y1 y2 y3 =
      [r1; r2; GymAcrobot.bound y2 (- GymAcrobot.MAX_VEL_1) GymAcrobot.MAX_VEL_1;
               GymAcrobot.bound y3 (- GymAcrobot.MAX_VEL_2) GymAcrobot.MAX_VEL_2]
    /\ GymAcrobot.wrap_spec y0 r1 /\ GymAcrobot.wrap_spec y1 r2.
Proof. exact acrobot_limits. Qed.
Print Assumptions C17_acrobot_limits.

(* all representatives admitted by wrap_spec (Gymnasium's and lerax's) are the same angle: same cos / sin, hence the
   same observation and the same termination / reward *)
Theorem C17_acrobot_wrap_same_angle : forall x r, GymAcrobot.wrap_spec x r -> cos r = cos x /\ sin r = sin x.
Proof. exact wrap_same_angle. Qed.
Print Assumptions C17_acrobot_wrap_same_angle.

Theorem C17_acrobot_observation : forall s0 s1 s2 s3, AC.observation s0 s1 s2 s3 = GymAcrobot.get_ob s0 s1 s2 s3.
Proof. exact acrobot_observation. Qed.
Print Assumptions C17_acrobot_observation.

Theorem C17_acrobot_spaces :
  AC.n_actions = GymAcrobot.n_actions /\ AC.obs_low = GymAcrobot.obs_low /\ AC.obs_high = GymAcrobot.obs_high.
Proof. exact (conj acrobot_n_actions acrobot_obs_bounds). Qed.
Print Assumptions C17_acrobot_spaces.

Theorem C17_acrobot_initial : AC.init_low = GymAcrobot.init_low /\ AC.init_high = GymAcrobot.init_high.
Proof. exact acrobot_initial. Qed.
Print Assumptions C17_acrobot_initial.

(* ---------------------------------------------------------------- the executable reference twins
   The rational formulas that Coq evaluates against the installed Gymnasium `step` in the correspondence check are
   the restriction of the real-number reference above to rational arguments (s, c = the supplied sin / cos values). *)
Theorem C17_cartpole_ref_twin : forall s c x xd th thd a, Q2R c * Q2R c <= 1 ->
  map Q2R (QCartPole.field s c x xd th thd a) =
  [Q2R xd; GymCartPole.xacc (Q2R s) (Q2R c) (Q2R thd) a; Q2R thd; GymCartPole.thetaacc (Q2R s) (Q2R c) (Q2R thd) a].
Proof. exact cartpole_ref_twin. Qed.
Print Assumptions C17_cartpole_ref_twin.

Theorem C17_mountaincar_ref_twin : forall c3x x v a,
  map Q2R (QMountainCar.field c3x x v a) = [Q2R v; GymMountainCar.acc (Q2R c3x) a].
Proof. exact mountaincar_ref_twin. Qed.
Print Assumptions C17_mountaincar_ref_twin.
