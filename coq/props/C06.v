(* C06 — Replay buffer keeps the most recent transitions and samples only stored ones. *)
From Coq Require Import List Arith ZArith QArith Bool.
From Lerax Require Import Common Replay ReplayProofs.
Import ListNotations.

(* after ANY insertion sequence into a buffer of ANY capacity C > 0: position = n, and for each of the most
   recent min(n, C) insertions j the slot j mod C holds ALL fields of insertion j (struct-of-arrays refines the log) *)
Theorem C06_ring_refines_log : forall (Ob Ac Ps : Type) (C : nat), (0 < C)%nat ->
    forall (d : trow Ob Ac Ps) o a p (xs : list (trow Ob Ac Ps)), Inv C d xs (soa_run C o a p xs).
Proof. intros Ob Ac Ps C HC d. exact (run_inv C HC d). Qed.
Print Assumptions C06_ring_refines_log.

(* conversely every written slot holds one of the most recent min(n, C) insertions: contents are exactly those *)
Theorem C06_slots_are_recent : forall (Ob Ac Ps : Type) (C : nat), (0 < C)%nat ->
    forall (d : trow Ob Ac Ps) xs b i, Inv C d xs b -> (i < Nat.min (length xs) C)%nat ->
    exists j, (j < length xs)%nat /\ (length xs - j <= C)%nat /\ (j mod C = i)%nat /\ row_at d b i = nth j xs d.
Proof. intros Ob Ac Ps C HC d. exact (slot_is_recent C HC d). Qed.
Print Assumptions C06_slots_are_recent.

Theorem C06_current_size : forall (Ob Ac Ps : Type) (C : nat), (0 < C)%nat ->
    forall (d : trow Ob Ac Ps) o a p (xs : list (trow Ob Ac Ps)), current_size (soa_run C o a p xs) = Nat.min (length xs) C.
Proof. intros Ob Ac Ps C HC d. exact (current_size_run C HC d). Qed.
Print Assumptions C06_current_size.

(* sampling: for ANY index vector allowed by the sampler interface (distinct, non-zero probability under the valid mask),
   also over several per-environment buffers with different fill levels flattened env-major, every returned row is a
   stored transition of the right environment with all fields from one insertion, and none is returned twice *)
Theorem C06_sample_sound : forall (Ob Ac Ps : Type) (C : nat), (0 < C)%nat ->
    forall (d : trow Ob Ac Ps) (logs : list (list (trow Ob Ac Ps))) (bs : list (soa Ob Ac Ps)) (idxs : list nat),
    Forall2 (Inv C d) logs bs ->
    sample_ok (valid_mask_vec bs) idxs = true ->
    NoDup idxs /\
    Forall (fun i => exists e xs b j,
              nth_error logs e = Some xs /\ nth_error bs e = Some b /\ e = (i / C)%nat /\
              (j < length xs)%nat /\ (length xs - j <= C)%nat /\ (j mod C = i mod C)%nat /\
              row_at d b (i mod C) = nth j xs d) idxs.
Proof. intros Ob Ac Ps C HC d. exact (sample_sound C HC d). Qed.
Print Assumptions C06_sample_sound.
