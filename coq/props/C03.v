(* C03 — Advantages and returns equal the GAE definition, cut at episode ends.
   Property theorems only; proofs live in Lerax.GaeProofs / Lerax.C03Check. *)
From Coq Require Import Reals List QArith Qreals.
From Lerax Require Import Common Gae GaeProofs C03Check.
Import ListNotations.
Open Scope R_scope.

(* the code's reverse scan (rollout.py:63-92) computes the GAE recursion, all lengths/done patterns/gamma/lambda *)
Theorem C03_gae_eq_spec : forall g l last xs, gaeR g l last xs = specR g l last xs.
Proof. exact gae_eq_spec. Qed.
Print Assumptions C03_gae_eq_spec.

(* A_t = delta_t + gamma*lambda*(1-done_t)*A_{t+1},  delta_t = r_t + gamma*(1-done_t)*V_{t+1} - V_t,  V_T = bootstrap *)
Theorem C03_recursion : forall g l last xs t x,
  nth_error xs t = Some x ->
  let A := specR g l last xs in
  let Vnext := match nth_error xs (S t) with Some y => vl y | None => last end in
  let delta := rw x + g * (1 - (if dn x then 1 else 0)) * Vnext - vl x in
  nth0 A t = delta + g * l * (1 - (if dn x then 1 else 0)) * nth0 A (S t).
Proof. exact gae_recursion. Qed.
Print Assumptions C03_recursion.

Theorem C03_terminal_advantage_zero : forall g l last xs, nth0 (specR g l last xs) (length xs) = 0.
Proof. exact nth0_beyond. Qed.
Print Assumptions C03_terminal_advantage_zero.

(* return_t = A_t + V_t *)
Theorem C03_returns : forall g l last xs t x,
  nth_error xs t = Some x ->
  nth t (retR (gaeR g l last xs) xs) 0 = nth t (specR g l last xs) 0 + vl x.
Proof. exact returns_eq. Qed.
Print Assumptions C03_returns.

(* nothing recorded after an episode end (rewards, values, dones, bootstrap) influences estimates up to it *)
Theorem C03_cut_at_done : forall g l last last' pre x post post',
  dn x = true ->
  firstn (S (length pre)) (specR g l last (pre ++ x :: post)) =
  firstn (S (length pre)) (specR g l last' (pre ++ x :: post')).
Proof. exact cut_at_done. Qed.
Print Assumptions C03_cut_at_done.

Theorem C03_lambda1_montecarlo : forall g last xs,
  specR g 1 last xs = map (fun p => fst p - vl (snd p)) (combine (mc_return g last xs) xs).
Proof. exact lambda1_montecarlo. Qed.
Print Assumptions C03_lambda1_montecarlo.

Theorem C03_lambda0_td : forall g last xs,
  specR g 0 last xs =
  map (fun p => rw (fst p) + g * ntR (dn (fst p)) * snd p - vl (fst p)) (combine xs (next_values R xs last)).
Proof. exact lambda0_td. Qed.
Print Assumptions C03_lambda0_td.

(* several parallel environments: each stream estimated on its own *)
Theorem C03_per_env : forall g l streams i xs last,
  nth_error streams i = Some (xs, last) ->
  nth_error (gae_vec R 0 1 Rplus Rmult Rminus g l streams) i = Some (specR g l last xs).
Proof. exact per_env. Qed.
Print Assumptions C03_per_env.

(* the executable model run against lerax is the restriction of the real-number model to rationals *)
Theorem C03_model_is_restriction : forall g l last xs,
  map Q2R (gaeQ g l last xs) = specR (Q2R g) (Q2R l) (Q2R last) (map (map_row Q2R) xs).
Proof. exact gaeQ_is_spec. Qed.
Print Assumptions C03_model_is_restriction.

(* the boolean predicate evaluated on implementation outputs is satisfied by the model and sound for the spec *)
Theorem C03_model_holds : forall g l last rows, holds (model_case g l last rows) = true.
Proof. exact model_holds. Qed.
Print Assumptions C03_model_holds.

Theorem C03_holds_sound : forall c, holds c = true ->
  map Q2R (c_adv c) = specR (Q2R (c_gamma c)) (Q2R (c_lambda c)) (Q2R (c_last c)) (map (map_row Q2R) (c_rows c)).
Proof. exact holds_sound. Qed.
Print Assumptions C03_holds_sound.
