(* C18 -- Saving and loading a policy restores it exactly or fails loudly.
   Property theorems only; proofs live in Lerax.SerialProofs / Lerax.C18Check.
   Model: Lerax.Serial (policy = ordered leaf records; file = ordered .npy-like records;
   path = parent segments + dot-separated file name; small file system). *)
From Coq Require Import String.
From Coq Require Import List ZArith Bool.
From Lerax Require Import Common Serial SerialProofs C18Check.
Import ListNotations.
Open Scope Z_scope.

(* round trip: for every policy (any number of leaves, shapes, dtypes, payload bits) loading what
   was saved into a skeleton of the same shapes restores every leaf bit-identically *)
Theorem C18_round_trip : forall p : policy, load (skeleton_of p) (save p) = Some p.
Proof. exact round_trip. Qed.
Print Assumptions C18_round_trip.

(* ... and therefore identical actions, values, log-probabilities: anything computed from the leaves *)
Theorem C18_round_trip_outputs : forall (X : Type) (out : policy -> X) (p q : policy),
  load (skeleton_of p) (save p) = Some q -> out q = out p.
Proof. exact @round_trip_outputs. Qed.
Print Assumptions C18_round_trip_outputs.

(* a loader skeleton that differs anywhere -- shape or dtype of any leaf, or the number of leaves -- errors *)
Theorem C18_mismatch_errors : forall (p : policy) (sk : skeleton),
  sk <> skeleton_of p -> load sk (save p) = None.
Proof. exact load_mismatch. Qed.
Print Assumptions C18_mismatch_errors.

Theorem C18_mismatch_at_any_leaf : forall sk f i s r,
  nth_error sk i = Some s -> nth_error f i = Some r -> s <> r_hdr r -> load sk f = None.
Proof. exact load_mismatch_at. Qed.
Print Assumptions C18_mismatch_at_any_leaf.

(* complete characterisation of load; never a partial load *)
Theorem C18_load_spec : forall sk f q, load sk f = Some q <-> headers f = sk /\ q = decode f.
Proof. exact load_spec. Qed.
Print Assumptions C18_load_spec.

Theorem C18_no_partial_load : forall sk f q, load sk f = Some q ->
  skeleton_of q = sk /\ map l_data q = map r_payload f /\ length q = length sk /\ length q = length f.
Proof. exact load_some_exact. Qed.
Print Assumptions C18_no_partial_load.

Theorem C18_loaded_is_saved : forall p sk q, load sk (save p) = Some q -> q = p /\ sk = skeleton_of p.
Proof. exact load_save_some. Qed.
Print Assumptions C18_loaded_is_saved.

(* path rule: the spelled name is kept and at most ".eqx" is appended *)
Theorem C18_path_append_only : forall n : name,
  (has_eqx n = true /\ resolve_name n = n) \/ (has_eqx n = false /\ resolve_name n = n ++ [eqx]).
Proof. exact resolve_name_cases. Qed.
Print Assumptions C18_path_append_only.

Theorem C18_path_keeps_spelling : forall n : name, firstn (length n) (resolve_name n) = n.
Proof. exact resolve_name_keeps_spelling. Qed.
Print Assumptions C18_path_keeps_spelling.

Theorem C18_path_idempotent : forall n : name, n <> [] -> resolve_name (resolve_name n) = resolve_name n.
Proof. exact resolve_name_idem. Qed.
Print Assumptions C18_path_idempotent.

(* "p" and "p.eqx" name the same file, in any directory *)
Theorem C18_path_with_or_without_eqx : forall d n, n <> [] -> has_eqx n = false ->
  same_file {| p_dir := d; p_name := n |} {| p_dir := d; p_name := n ++ [eqx] |}.
Proof. exact same_file_add_eqx. Qed.
Print Assumptions C18_path_with_or_without_eqx.

(* different spellings collide only if they differ by the ".eqx" suffix ("m.v1" never lands on "m.eqx") *)
Theorem C18_path_no_collision : forall a b : name,
  resolve_name a = resolve_name b -> a = b \/ a = b ++ [eqx] \/ b = a ++ [eqx].
Proof. exact resolve_name_inj. Qed.
Print Assumptions C18_path_no_collision.

Theorem C18_path_other_suffix_kept :
  resolve_name ["m"%string; "v1"%string] = ["m"%string; "v1"%string; eqx]
  /\ resolve_name ["m"%string; "v1"%string; eqx] = ["m"%string; "v1"%string; eqx]
  /\ resolve_name ["m"%string; "v1"%string] <> resolve_name ["m"%string].
Proof. exact (conj resolve_m_v1 (conj resolve_m_v1_eqx resolve_m_v1_not_m)). Qed.
Print Assumptions C18_path_other_suffix_kept.

(* saving never fails for want of a directory, and creates every parent on the way *)
Theorem C18_save_into_missing_dirs : forall s pth pol, exists s', serialize s pth pol = Some s'.
Proof. exact serialize_total. Qed.
Print Assumptions C18_save_into_missing_dirs.

Theorem C18_parents_created : forall s pth pol s' a b, serialize s pth pol = Some s' ->
  p_dir pth = a ++ b -> dir_exists a s' = true.
Proof. exact serialize_parents. Qed.
Print Assumptions C18_parents_created.

(* save touches exactly one file *)
Theorem C18_save_touches_one_file : forall s pth pol s' q, serialize s pth pol = Some s' ->
  q <> resolve pth -> lookup s' q = lookup s q.
Proof. exact serialize_frame. Qed.
Print Assumptions C18_save_touches_one_file.

(* end to end through the file system: any prior contents, any spelling of the same file *)
Theorem C18_round_trip_fs : forall s pth pth' pol s',
  serialize s pth pol = Some s' -> same_file pth pth' ->
  deserialize s' pth' (skeleton_of pol) = Some pol.
Proof. exact round_trip_fs. Qed.
Print Assumptions C18_round_trip_fs.

Theorem C18_mismatch_fs : forall s pth pth' pol s' sk,
  serialize s pth pol = Some s' -> same_file pth pth' -> sk <> skeleton_of pol ->
  deserialize s' pth' sk = None.
Proof. exact mismatch_fs. Qed.
Print Assumptions C18_mismatch_fs.

Theorem C18_two_saves_independent : forall s0 s1 s2 p1 p2 pol1 pol2,
  serialize s0 p1 pol1 = Some s1 -> serialize s1 p2 pol2 = Some s2 -> ~ same_file p1 p2 ->
  deserialize s2 p1 (skeleton_of pol1) = Some pol1 /\ deserialize s2 p2 (skeleton_of pol2) = Some pol2.
Proof. exact two_saves_independent. Qed.
Print Assumptions C18_two_saves_independent.

(* correspondence predicates: behaving like the model implies the property predicate; the model
   satisfies it; and the predicate means what the property says *)
Theorem C18_agree_implies_holds : forall c, agree c = true -> holds c = true.
Proof. exact agree_holds. Qed.
Print Assumptions C18_agree_implies_holds.

Theorem C18_model_holds : forall saver skel pre sv ld outs, holds (model_case saver skel pre sv ld outs) = true.
Proof. exact model_holds. Qed.
Print Assumptions C18_model_holds.

Theorem C18_holds_sound : forall c, holds c = true ->
  (forall w, In w (c_written c) -> w = c_save c \/ w = add_eqx (c_save c))
  /\ (spell_same (c_save c) (c_load c) = true ->
        (skeleton_of (c_saver c) = c_skel c -> c_loaded c = Some (c_saver c) /\ c_out_loaded c = c_out_saver c)
        /\ (skeleton_of (c_saver c) <> c_skel c -> c_loaded c = None)).
Proof. exact holds_sound. Qed.
Print Assumptions C18_holds_sound.
