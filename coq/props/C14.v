(* C14 — Spaces: exact membership, member samples, coherent equality.
   Property theorems only; proofs live in Lerax.SpacesProofs / Lerax.C14Check. *)
From Coq Require Import String Ascii.
From Coq Require Import List ZArith QArith Bool.
From Lerax Require Import Common Spaces SpacesProofs C14Check.
Import ListNotations.

(* contains (a total boolean function: one scalar answer) is true exactly on the members, for every space
   (all kinds, shapes, bounds incl. infinite and NaN ones, arbitrary nesting) and every candidate value *)
Theorem C14_contains_iff_member : forall s v, contains s v = true <-> member s v.
Proof. exact contains_iff_member. Qed.
Print Assumptions C14_contains_iff_member.

(* Dict membership read as: the candidate has exactly the space's keys and every component is a member *)
Theorem C14_dict_member_keys : forall kss kvs,
  NoDup (keys kss) -> NoDup (keys kvs) ->
  (member (Dict kss) (VDict true kvs) <->
   (forall k, In k (keys kvs) <-> In k (keys kss)) /\
   (forall k s, In (k, s) kss -> exists v, In (k, v) kvs /\ member s v)).
Proof. exact dict_member_keys. Qed.
Print Assumptions C14_dict_member_keys.

(* NaN anywhere in an array candidate, and foreign objects, are rejected by every space *)
Theorem C14_nan_rejected : forall s sh xs dt, In NaN xs -> ~ member s (VArr sh xs dt).
Proof. exact nan_rejected. Qed.
Print Assumptions C14_nan_rejected.

Theorem C14_foreign_rejected : forall s, ~ member s VForeign.
Proof. exact foreign_rejected. Qed.
Print Assumptions C14_foreign_rejected.

(* an accepted index is a finite integer z with 0 <= z < n: negative, too large, fractional, infinite are rejected *)
Theorem C14_index_bounds : forall n x, in_range n x ->
  exists q z, x = Fin q /\ (q == inject_Z z)%Q /\ (0 <= z)%Z /\ (z < n)%Z.
Proof. exact index_bounds. Qed.
Print Assumptions C14_index_bounds.

Theorem C14_multidiscrete_components : forall nv sh xs dt,
  member (MultiDiscrete nv) (VArr sh xs dt) -> sh = [length nv] /\ Forall2 in_range nv xs.
Proof. exact mdiscrete_components. Qed.
Print Assumptions C14_multidiscrete_components.

(* sample(): for every draw of the primitive samplers within their interface, the result is a member *)
Theorem C14_sample_member : forall s d, wfb s = true -> draws_ok s d -> member s (sample s d).
Proof. exact sample_member. Qed.
Print Assumptions C14_sample_member.

(* Discrete.sample(mask): inverse-CDF choice over mask/sum(mask) never picks a masked-out index and is a member *)
Theorem C14_sample_masked : forall n m u,
  Z.of_nat (length m) = n -> existsb (fun b => b) m = true -> (0 <= u)%Q -> (u < 1)%Q ->
  let w := mask_weights m in
  let i := choice_cum w (qsum w * (1 - u)) in
  nth i m false = true /\ member (Discrete n) (sample_masked m u).
Proof. exact sample_masked_member. Qed.
Print Assumptions C14_sample_masked.

Theorem C14_canonical_member : forall s, wfb s = true -> member s (canonical s).
Proof. exact canonical_member. Qed.
Print Assumptions C14_canonical_member.

(* flatten_sample returns flat_size numbers ... *)
Theorem C14_flatten_size : forall s v, wfb s = true -> member s v -> length (flatten s v) = flat_size s.
Proof. exact flatten_size. Qed.
Print Assumptions C14_flatten_size.

(* ... that determine the sample (up to dtype tags and the entry order of dict samples) *)
Theorem C14_flatten_injective : forall s v1 v2, wfb s = true -> member s v1 -> member s v2 ->
  flatten s v1 = flatten s v2 -> norm s v1 = norm s v2.
Proof. exact flatten_injective. Qed.
Print Assumptions C14_flatten_injective.

(* == is structural equality (bounds as numbers, a Dict as a finite map) *)
Theorem C14_eq_iff : forall a b, space_eqb a b = true <-> space_same a b.
Proof. exact space_eqb_iff. Qed.
Print Assumptions C14_eq_iff.

Theorem C14_eq_refl : forall s, wfb s = true -> space_eqb s s = true.
Proof. exact space_eqb_refl. Qed.
Print Assumptions C14_eq_refl.

Theorem C14_eq_sym : forall a b, wfb a = true -> wfb b = true -> space_eqb a b = true -> space_eqb b a = true.
Proof. exact space_eqb_sym. Qed.
Print Assumptions C14_eq_sym.

(* equal spaces have equal hash keys *)
Theorem C14_eq_hash : forall a b, wfb a = true -> wfb b = true -> space_eqb a b = true -> hash_key a = hash_key b.
Proof. exact eq_hash. Qed.
Print Assumptions C14_eq_hash.

(* the round trip through Gymnasium (which sorts Dict keys) yields an equal space *)
Theorem C14_gym_roundtrip : forall s, wfb s = true ->
  space_eqb (gym_roundtrip s) s = true /\ space_same (gym_roundtrip s) s.
Proof. intros s W. split; [apply gym_roundtrip_eq | apply gym_roundtrip_same]; exact W. Qed.
Print Assumptions C14_gym_roundtrip.

(* the predicates evaluated on lerax's answers are sound for the specification *)
Theorem C14_holds_contains_sound : forall s v impl,
  holds (CContains s v impl) = true -> exists b, impl = Some b /\ (b = true <-> member s v).
Proof. exact holds_contains_sound. Qed.
Print Assumptions C14_holds_contains_sound.

Theorem C14_holds_member_sound : forall s v, holds (CMember s v) = true -> member s v.
Proof. exact holds_member_sound. Qed.
Print Assumptions C14_holds_member_sound.

Theorem C14_holds_eq_sound : forall a b impl,
  holds (CEq a b impl) = true -> exists e, impl = Some e /\ (e = true <-> space_same a b).
Proof. exact holds_eq_sound. Qed.
Print Assumptions C14_holds_eq_sound.

Theorem C14_holds_gym_sound : forall s back impl,
  holds (CGym s back impl) = true -> impl = Some true /\ exists s', back = Some s' /\ space_same s' s.
Proof. exact holds_gym_sound. Qed.
Print Assumptions C14_holds_gym_sound.
