(* C17, ContinuousMountainCar, goal-step reward.  NOT part of coq/build.sh: compiled by the C17 check against the
   freshly generated Gen_ContinuousMountainCar.v.  It is provable exactly when lerax's reward pays the +100 on the
   transition whose NEXT state is terminal (Gymnasium semantics); while lerax evaluates terminal() on the OLD state
   it does not compile and the check reports C17/ContinuousMountainCar/goal-reward with a concrete replay
   (the kernel-checked counterexample is cmc_goal_reward_refuted in theories/C17Refuted.v.disabled). *)
From Coq Require Import Reals List Bool Lra.
From Lerax Require Import CCBase ClassicControl Gen_ContinuousMountainCar ClassicControlProofs.
Import ListNotations.
Local Open Scope R_scope.

(* every transition, every action of the action space [-1, 1]: +100 iff the NEW state is terminal, minus 0.1 a^2 *)
Theorem C17_cmc_reward_goal_step : forall s0 s1 a n0 n1, - 1 <= a <= 1 ->
  CMC.reward s0 s1 a n0 n1 = GymContinuousMountainCar.reward_with (CMC.terminal n0 n1) a.
Proof.
  intros s0 s1 a n0 n1 Ha.
  (* by cases on the termination flag and on every comparison of the action clip: independent of how the source spells the
     clip (jnp.clip / minimum(maximum(..))), the bonus (astype(float) / where) and the square *)
  unfold CMC.reward, GymContinuousMountainCar.reward_with, CMC.c_min_action, CMC.c_max_action. cbv zeta.
  destruct (CMC.terminal n0 n1); unfold b2R, Rclip, Rmin, Rmax; rdec; cbn [pow]; try lra; try nra; exfalso; lra.
Qed.
Print Assumptions C17_cmc_reward_goal_step.

(* hence, given the same termination predicate, the same reward as Gymnasium on every transition *)
Theorem C17_cmc_reward : (forall x v, CMC.terminal x v = GymContinuousMountainCar.terminated x v) ->
  forall s0 s1 a n0 n1, - 1 <= a <= 1 ->
  CMC.reward s0 s1 a n0 n1 = GymContinuousMountainCar.reward a n0 n1.
Proof.
  intros Ht s0 s1 a n0 n1 Ha. rewrite C17_cmc_reward_goal_step by assumption.
  unfold GymContinuousMountainCar.reward. rewrite Ht. reflexivity.
Qed.
Print Assumptions C17_cmc_reward.
