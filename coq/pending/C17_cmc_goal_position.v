(* C17, ContinuousMountainCar, termination predicate / goal position.  NOT part of coq/build.sh (see
   C17_cmc_goal_reward.v).  Gymnasium's Continuous_MountainCarEnv has goal_position = 0.45; while lerax's default
   is 0.5 this file does not compile and the check reports C17/ContinuousMountainCar/goal-position. *)
From Coq Require Import Reals List Bool Lra.
From Lerax Require Import CCBase ClassicControl Gen_ContinuousMountainCar ClassicControlProofs.
Import ListNotations.
Local Open Scope R_scope.

Theorem C17_cmc_terminal : forall x v, CMC.terminal x v = GymContinuousMountainCar.terminated x v.
Proof.
  intros x v. cmc_unfold. cbv zeta. unfold_cmp. rdec; cbn; try reflexivity; exfalso; lra.
Qed.
Print Assumptions C17_cmc_terminal.
