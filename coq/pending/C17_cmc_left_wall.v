(* C17, ContinuousMountainCar, state limits incl. the inelastic left wall.  NOT part of coq/build.sh (see
   C17_cmc_goal_reward.v).  Gymnasium zeroes a negative velocity when the position is clipped to min_position;
   while lerax's clip lacks that rule this file does not compile and the check reports
   C17/ContinuousMountainCar/left-wall. *)
From Coq Require Import Reals List Bool Lra.
From Lerax Require Import CCBase ClassicControl Gen_ContinuousMountainCar ClassicControlProofs.
Import ListNotations.
Local Open Scope R_scope.

Theorem C17_cmc_limits : forall x v, CMC.clip x v = GymContinuousMountainCar.limits x v.
Proof.
  intros x v. cmc_unfold. cbv zeta. rewrite !gym_clip_eq by lra.
  replace (- (12 / 10)) with (- (6 / 5)) by lra. replace (6 / 10) with (3 / 5) by lra.
  set (vc := Rclip v _ _). set (xc := Rclip x _ _). clearbody vc xc.
  unfold Rleb, Rltb, Reqb, b2R. rdec; cbn; lst; try lra; exfalso; lra.
Qed.
Print Assumptions C17_cmc_limits.

(* Gymnasium's discrete step = lerax's clip after one unit semi-implicit Euler step of lerax's field
   (new velocity first, speed limit applied before the position update) *)
Theorem C17_cmc_step : forall x v a,
  GymContinuousMountainCar.step x v a =
  let v1 := v + CMC.c_dt * nth 1 (CMC.dynamics x v a) 0 in
  let vc := Rclip v1 (- CMC.c_max_speed) CMC.c_max_speed in
  CMC.clip (x + CMC.c_dt * vc) v1.
Proof.
  intros x v a. rewrite cmc_field. cbv zeta. rewrite C17_cmc_limits.
  unfold GymContinuousMountainCar.field. cbn [nth].
  unfold CMC.c_dt. rewrite !Rmult_1_l.
  set (v1 := v + GymContinuousMountainCar.acc (cos (3 * x)) a).
  unfold GymContinuousMountainCar.step, GymContinuousMountainCar.limits. cbv zeta. fold v1. clearbody v1.
  unfold CMC.c_max_speed, GymContinuousMountainCar.max_speed, GymContinuousMountainCar.min_position,
    GymContinuousMountainCar.max_position.
  rewrite !gym_clip_eq by lra. reflexivity.
Qed.
Print Assumptions C17_cmc_step.
