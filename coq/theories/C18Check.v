(* C18 correspondence: one case = one `policy.serialize(path)` followed by one
   `PolicyClass.deserialize(path', *loader_ctor_args)` of the real lerax code in a
   fresh temporary directory.

   Recorded: the saver's leaves (shape, dtype tag, payload bit patterns), the leaf
   shapes/dtypes of a policy built with the LOADER's constructor arguments, the files
   that existed before (written by the harness itself, byte-exact names), the two path
   spellings, the files `serialize` created or modified, what `deserialize` did (raised /
   returned these leaves), and the bit patterns of actions / values / log-probabilities
   of the saver and of the loaded policy on the same random observations. *)
From Coq Require Import String.
From Coq Require Import List ZArith Bool.
From Lerax Require Import Common Serial SerialProofs.
Import ListNotations.
Open Scope Z_scope.

Record case := {
  c_saver : policy;
  c_skel : skeleton;
  c_pre : list (path * policy);
  c_save : path;
  c_load : path;
  c_written : list path;
  c_loaded : option policy;          (* None: deserialize raised *)
  c_out_saver : list Z;
  c_out_loaded : list Z }.           (* [] when nothing was loaded *)

(* ---- the model side ---- *)
Definition fs_of_pre (pre : list (path * policy)) : fs :=
  {| fs_dirs := flat_map (fun pp => prefixes_ne (p_dir (fst pp))) pre;
     fs_files := map (fun pp => (fst pp, save (snd pp))) pre |}.

Definition model_loaded (c : case) : option policy :=
  match serialize (fs_of_pre (c_pre c)) (c_save c) (c_saver c) with
  | Some s' => deserialize s' (c_load c) (c_skel c)
  | None => None
  end.

Definition paths_eqb (a b : list path) : bool := forallb2 path_eqb a b.

Definition agree_core (c : case) : bool :=
  paths_eqb (c_written c) [resolve (c_save c)]
  && option_eqb policy_eqb (model_loaded c) (c_loaded c)
  && match model_loaded c with Some _ => Zeqb_list (c_out_saver c) (c_out_loaded c) | None => true end.

(* harness sanity: names are non-empty; a payload has as many words as its shape announces, except
   that leaves of more than 4096 elements are sent as a 4-word digest (SHA-256) of their bytes *)
Definition nonempty {A} (l : list A) : bool := match l with [] => false | _ => true end.
Definition leaf_ok (l : leaf) : bool :=
  leaf_wf l
  || (forallb (fun d => 0 <=? d) (l_shape l) && (4096 <? numel (l_shape l)) && Z.eqb (Z.of_nat (length (l_data l))) 4).
Definition wf (c : case) : bool :=
  forallb leaf_ok (c_saver c) && nonempty (p_name (c_save c)) && nonempty (p_name (c_load c))
  && match c_loaded c with Some q => forallb leaf_ok q | None => true end.

Definition agree (c : case) : bool := wf c && agree_core c.

(* ---- the property, on the implementation's behaviour alone ---- *)
Definition add_eqx (p : path) : path := {| p_dir := p_dir p; p_name := p_name p ++ [eqx] |}.

(* "p" and "p.eqx" (p itself without that suffix) are spellings of one file *)
Definition spell_same (a b : path) : bool :=
  nonempty (p_name a) && nonempty (p_name b)
  && (path_eqb a b
      || (negb (has_eqx (p_name a)) && path_eqb (add_eqx a) b)
      || (negb (has_eqx (p_name b)) && path_eqb a (add_eqx b))).

Definition holds (c : case) : bool :=
  (* something was written, and only under the spelled name or that name + ".eqx" *)
  nonempty (c_written c)
  && forallb (fun w => path_eqb w (c_save c) || path_eqb w (add_eqx (c_save c))) (c_written c)
  && (if spell_same (c_save c) (c_load c)
      then if skeleton_eqb (skeleton_of (c_saver c)) (c_skel c)
           then (* same shapes: restored bit for bit, same outputs *)
                option_eqb policy_eqb (Some (c_saver c)) (c_loaded c)
                && Zeqb_list (c_out_saver c) (c_out_loaded c)
           else (* shapes differ somewhere: an error, never a policy *)
                match c_loaded c with None => true | Some _ => false end
      else true).

(* the model's own behaviour, as a case *)
Definition model_case saver skel pre sv ld outs : case :=
  let c0 := {| c_saver := saver; c_skel := skel; c_pre := pre; c_save := sv; c_load := ld;
               c_written := []; c_loaded := None; c_out_saver := outs; c_out_loaded := [] |} in
  {| c_saver := saver; c_skel := skel; c_pre := pre; c_save := sv; c_load := ld;
     c_written := [resolve sv]; c_loaded := model_loaded c0;
     c_out_saver := outs; c_out_loaded := match model_loaded c0 with Some _ => outs | None => [] end |}.

(* ---------------------------------------------------------------- links *)
Lemma paths_eqb_eq a b : paths_eqb a b = true <-> a = b.
Proof. apply forallb2_eq, path_eqb_eq. Qed.

Lemma spell_same_sound a b : spell_same a b = true -> same_file a b.
Proof.
  unfold spell_same. intros H. apply andb_prop in H as [H H3]. apply andb_prop in H as [H1 H2].
  destruct a as [da na], b as [db nb]; cbn in *.
  assert (na <> []) by (destruct na; [discriminate | discriminate]).
  assert (nb <> []) by (destruct nb; [discriminate | discriminate]).
  apply orb_prop in H3 as [H3|H3]; [apply orb_prop in H3 as [H3|H3]|].
  - apply path_eqb_eq in H3. rewrite H3. reflexivity.
  - apply andb_prop in H3 as [E H3]. apply negb_true_iff in E. apply path_eqb_eq in H3.
    unfold add_eqx in H3; cbn in H3. rewrite <- H3. apply same_file_add_eqx; assumption.
  - apply andb_prop in H3 as [E H3]. apply negb_true_iff in E. apply path_eqb_eq in H3.
    unfold add_eqx in H3; cbn in H3. rewrite H3. symmetry. apply same_file_add_eqx; assumption.
Qed.

Lemma model_loaded_same c : same_file (c_save c) (c_load c) ->
  model_loaded c = load (c_skel c) (save (c_saver c)).
Proof.
  intros E. unfold model_loaded.
  destruct (serialize_total (fs_of_pre (c_pre c)) (c_save c) (c_saver c)) as [s' H]. rewrite H.
  unfold deserialize. rewrite <- E, (serialize_writes _ _ _ _ H). reflexivity.
Qed.

Lemma written_ok sv :
  forallb (fun w => path_eqb w sv || path_eqb w (add_eqx sv)) [resolve sv] = true.
Proof.
  cbn. rewrite andb_true_r. unfold resolve, add_eqx. destruct sv as [d n]; cbn.
  destruct (resolve_name_cases n) as [[_ ->]|[_ ->]]; rewrite path_eqb_refl; [reflexivity | apply orb_true_r].
Qed.

(* whenever lerax behaves as the model does, the property predicate is satisfied *)
Theorem agree_core_holds c : agree_core c = true -> holds c = true.
Proof.
  unfold agree_core, holds. intros H. apply andb_prop in H as [H H3]. apply andb_prop in H as [H1 H2].
  apply paths_eqb_eq in H1. rewrite H1. rewrite written_ok. cbn [nonempty andb].
  destruct (spell_same (c_save c) (c_load c)) eqn:S; [|reflexivity].
  apply spell_same_sound in S. rewrite (model_loaded_same c S) in H2, H3.
  destruct (skeleton_eqb (skeleton_of (c_saver c)) (c_skel c)) eqn:K.
  - apply skeleton_eqb_eq in K. rewrite <- K, round_trip in H2, H3. rewrite H2, H3. reflexivity.
  - assert (c_skel c <> skeleton_of (c_saver c)) as N.
    { intros E. rewrite E in K. assert (skeleton_eqb (skeleton_of (c_saver c)) (skeleton_of (c_saver c)) = true) by (apply skeleton_eqb_eq; reflexivity). congruence. }
    rewrite (load_mismatch _ _ N) in H2. destruct (c_loaded c); [discriminate | reflexivity].
Qed.

Theorem agree_holds c : agree c = true -> holds c = true.
Proof. unfold agree. intros H. apply andb_prop in H as [_ H]. apply agree_core_holds, H. Qed.

Lemma policy_eqb_refl p : policy_eqb p p = true.
Proof. apply policy_eqb_eq. reflexivity. Qed.

Lemma Zeqb_list_refl l : Zeqb_list l l = true.
Proof. apply Zeqb_list_eq. reflexivity. Qed.

Theorem model_agrees saver skel pre sv ld outs : agree_core (model_case saver skel pre sv ld outs) = true.
Proof.
  unfold agree_core, model_case. cbn [c_written c_save c_loaded c_out_saver c_out_loaded].
  set (c0 := {| c_saver := saver; c_skel := skel; c_pre := pre; c_save := sv; c_load := ld;
                c_written := []; c_loaded := None; c_out_saver := outs; c_out_loaded := [] |}).
  set (c1 := {| c_saver := saver; c_loaded := model_loaded c0 |}).
  assert (model_loaded c1 = model_loaded c0) as E by reflexivity. rewrite E.
  assert (paths_eqb [resolve sv] [resolve sv] = true) as P by (apply paths_eqb_eq; reflexivity). rewrite P.
  destruct (model_loaded c0) as [q|]; cbn; [rewrite policy_eqb_refl, Zeqb_list_refl|]; reflexivity.
Qed.

(* the model's behaviour always satisfies the property predicate *)
Theorem model_holds saver skel pre sv ld outs : holds (model_case saver skel pre sv ld outs) = true.
Proof. apply agree_core_holds, model_agrees. Qed.

(* what the predicate means *)
Theorem holds_sound c : holds c = true ->
  (forall w, In w (c_written c) -> w = c_save c \/ w = add_eqx (c_save c))
  /\ (spell_same (c_save c) (c_load c) = true ->
        (skeleton_of (c_saver c) = c_skel c -> c_loaded c = Some (c_saver c) /\ c_out_loaded c = c_out_saver c)
        /\ (skeleton_of (c_saver c) <> c_skel c -> c_loaded c = None)).
Proof.
  unfold holds. intros H. apply andb_prop in H as [H H3]. apply andb_prop in H as [_ H2]. split.
  - intros w Hw. rewrite forallb_forall in H2. specialize (H2 w Hw).
    apply orb_prop in H2 as [E|E]; apply path_eqb_eq in E; auto.
  - intros S. rewrite S in H3. split.
    + intros K. apply skeleton_eqb_eq in K. rewrite K in H3. apply andb_prop in H3 as [A B].
      destruct (c_loaded c) as [q|]; [|discriminate]. cbn in A. apply policy_eqb_eq in A. apply Zeqb_list_eq in B.
      split; congruence.
    + intros K. destruct (skeleton_eqb (skeleton_of (c_saver c)) (c_skel c)) eqn:E.
      * apply skeleton_eqb_eq in E. contradiction.
      * destruct (c_loaded c); [discriminate | reflexivity].
Qed.
