(* Support definitions for the translator-generated classic-control files (Gen_*.v) and the
   Gymnasium reference formulas (ClassicControl.v): decidable comparisons on R and Q as booleans,
   clip, floor-mod, oracle lookup.  Definitions only. *)
From Coq Require Import Reals List QArith Qminmax ZArith Bool.
Import ListNotations.

Definition Rleb (x y : R) : bool := if Rle_dec x y then true else false.
Definition Rltb (x y : R) : bool := if Rlt_dec x y then true else false.
Definition Reqb (x y : R) : bool := if Req_EM_T x y then true else false.
Definition b2R (b : bool) : R := if b then 1%R else 0%R.
(* jnp.clip x lo hi = minimum (maximum x lo) hi *)
Definition Rclip (x lo hi : R) : R := Rmin (Rmax x lo) hi.
(* Python / jnp floor-mod:  x - floor (x / m) * m *)
Definition Rfmod (x m : R) : R := (x - IZR (Int_part (x / m)) * m)%R.

Definition Qleb (x y : Q) : bool := Qle_bool x y.
Definition Qltb (x y : Q) : bool := negb (Qle_bool y x).
Definition Qeqb (x y : Q) : bool := Qeq_bool x y.
Definition b2Q (b : bool) : Q := if b then 1%Q else 0%Q.
Definition Qclip (x lo hi : Q) : Q := Qmin (Qmax x lo) hi.

(* oracle list handed over by the harness: index 0 = pi, then the values of the sin/cos nodes *)
Definition orc_at (orc : list Q) (i : nat) : Q := nth i orc 0%Q.
