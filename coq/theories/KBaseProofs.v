(* Lemmas about the list combinators of KBase.v, used by the link theorems (coq/link/*.v). *)
From Coq Require Import Reals List ZArith Bool Lra Lia.
From Lerax Require Import KBase.
Import ListNotations.

Lemma kscanr2_cons f init x xs y ys :
  kscanr2 f init (x :: xs) (y :: ys) =
  let r := kscanr2 f init xs ys in let co := f (fst r) x y in (fst co, snd co :: snd r).
Proof. reflexivity. Qed.

Lemma kscanr1_cons f init x xs :
  kscanr1 f init (x :: xs) = let r := kscanr1 f init xs in let co := f (fst r) x in (fst co, snd co :: snd r).
Proof. reflexivity. Qed.

(* when the scan body returns its output as the new carry, the carry is the head of the outputs *)
Lemma kscanr2_carry f i xs ys :
  (forall c x y, fst (f c x y) = snd (f c x y)) ->
  fst (kscanr2 f i xs ys) = match snd (kscanr2 f i xs ys) with [] => i | a :: _ => a end.
Proof.
  intros H. destruct xs as [|x xs], ys as [|y ys]; try reflexivity.
  rewrite kscanr2_cons. cbv zeta. cbn [fst snd]. apply H.
Qed.

Lemma kzip1_map {A E} (f : A -> E) a : kzip1 f a = map f a.
Proof. reflexivity. Qed.

Lemma kzip2_map {X A B E} (f : A -> B -> E) (g : X -> A) (h : X -> B) xs :
  kzip2 f (map g xs) (map h xs) = map (fun x => f (g x) (h x)) xs.
Proof. induction xs as [|x xs IH]; cbn; [reflexivity | now rewrite IH]. Qed.

Lemma kzip3_map {X A B C E} (f : A -> B -> C -> E) (g : X -> A) (h : X -> B) (k : X -> C) xs :
  kzip3 f (map g xs) (map h xs) (map k xs) = map (fun x => f (g x) (h x) (k x)) xs.
Proof. induction xs as [|x xs IH]; cbn; [reflexivity | now rewrite IH]. Qed.

Lemma kzip4_map {X A B C D E} (f : A -> B -> C -> D -> E) (g : X -> A) (h : X -> B) (k : X -> C) (m : X -> D) xs :
  kzip4 f (map g xs) (map h xs) (map k xs) (map m xs) = map (fun x => f (g x) (h x) (k x) (m x)) xs.
Proof. induction xs as [|x xs IH]; cbn; [reflexivity | now rewrite IH]. Qed.

Lemma kzip2_length {A B E} (f : A -> B -> E) a b : length (kzip2 f a b) = Nat.min (length a) (length b).
Proof. revert b; induction a as [|x a IH]; intros [|y b]; cbn; auto. Qed.

Lemma kzip2_combine {A B E} (f : A -> B -> E) a b : kzip2 f a b = map (fun p => f (fst p) (snd p)) (combine a b).
Proof. revert b; induction a as [|x a IH]; intros [|y b]; cbn; auto. now rewrite IH. Qed.

Lemma ksum_map_ext {X} (f g : X -> R) xs : (forall x, f x = g x) -> ksum (map f xs) = ksum (map g xs).
Proof. intros H. induction xs as [|x xs IH]; cbn; [reflexivity|]. unfold ksum in IH. now rewrite H, IH. Qed.

Lemma map_ext_R {X Y} (f g : X -> Y) xs : (forall x, f x = g x) -> map f xs = map g xs.
Proof. intros H. apply map_ext. exact H. Qed.

Lemma kzip2_ext {A B E} (f g : A -> B -> E) a b : (forall x y, f x y = g x y) -> kzip2 f a b = kzip2 g a b.
Proof. intros H. revert b; induction a as [|x a IH]; intros [|y b]; cbn; auto. now rewrite H, IH. Qed.
Lemma kzip3_ext {A B C E} (f g : A -> B -> C -> E) a b c : (forall x y z, f x y z = g x y z) -> kzip3 f a b c = kzip3 g a b c.
Proof. intros H. revert b c; induction a as [|x a IH]; intros [|y b] [|z c]; cbn; auto. now rewrite H, IH. Qed.
Lemma kzip4_ext {A B C D E} (f g : A -> B -> C -> D -> E) a b c d :
  (forall x y z w, f x y z w = g x y z w) -> kzip4 f a b c d = kzip4 g a b c d.
Proof. intros H. revert b c d; induction a as [|x a IH]; intros [|y b] [|z c] [|w d]; cbn; auto. now rewrite H, IH. Qed.
