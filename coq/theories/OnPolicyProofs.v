(* Theorems about on-policy collection (C04, C12; link to C03). *)
From Coq Require Import List ZArith QArith Qround Bool Lia Reals Qreals.
From Lerax Require Import Common Env Tab Gae GaeProofs OnPolicy.
Import ListNotations.
Open Scope Q_scope.

Section RolloutFacts.
  Context {S PS O : Type}.
  Variable gamma : Q.
  Variable E : env S Q O.
  Variable P : acpol PS Q O.

  (* One step is a faithful record: for every environment, policy, state and key *)
  Theorem step_faithful es ps k :
    let '(st', row) := op_step gamma E P (es, ps) k in
    let obs := e_obs E es (ks k 9 2) in
    let mask := e_mask E es (ks k 9 2) in
    let '(ps1, a, v, lp) := p_act P ps obs (ks k 9 0) mask in
    let ca := clip_action E a in
    let es1 := e_trans E es ca (ks k 9 1) in
    (* what the policy saw, chose, and said about it; the mask offered is the mask recorded and applied *)
    r_obs row = obs /\ r_mask row = mask /\ r_act row = a /\ r_val row = v /\ r_logp row = lp /\ r_pstate row = ps /\
    (* the environment is driven, and its reward computed, with the clipped action *)
    r_exec row = ca /\ r_env_rew row = e_rew E es ca es1 (ks k 9 3) /\
    r_term row = e_term E es1 (ks k 9 4) /\ r_trunc row = e_trunc E es1 /\
    r_done row = r_term row || r_trunc row /\
    (* bootstrap through pure truncation only *)
    r_rew row = (if r_trunc row && negb (r_term row)
                 then r_env_rew row + gamma * p_value P ps1 (e_obs E es1 (ks k 9 5)) else r_env_rew row) /\
    (* restart of environment and policy state after a done step *)
    st' = if r_done row then (e_init E (ks k 9 6), p_reset P (ks k 9 7)) else (es1, ps1).
  Proof.
    unfold op_step. destruct (p_act P ps (e_obs E es (ks k 9 2)) (ks k 9 0) (e_mask E es (ks k 9 2))) as [[[ps1 a] v] lp].
    cbn [r_obs r_mask r_act r_val r_logp r_pstate r_exec r_env_rew r_term r_trunc r_done r_rew].
    repeat split.
    destruct (e_term E _ _ || e_trunc E _); reflexivity.
  Qed.

  Corollary termination_never_bootstraps es ps k :
    let row := snd (op_step gamma E P (es, ps) k) in
    r_term row = true -> r_rew row = r_env_rew row.
  Proof.
    unfold op_step. destruct (p_act P ps (e_obs E es (ks k 9 2)) (ks k 9 0) (e_mask E es (ks k 9 2))) as [[[ps1 a] v] lp].
    cbn [snd r_term r_rew r_env_rew]. intros Ht. rewrite Ht, andb_false_r. reflexivity.
  Qed.

  (* a policy is coherent when evaluating a sampled action reproduces the value and log-prob it reported *)
  Definition coherent : Prop :=
    forall ps obs k mask ps1 a v lp, p_act P ps obs k mask = (ps1, a, v, lp) -> p_eval P ps obs a mask = (v, lp).

  (* re-evaluating the stored sample under the unchanged policy reproduces value and log-prob: first PPO ratio is 1 *)
  Theorem ratio_one es ps k : coherent ->
    let row := snd (op_step gamma E P (es, ps) k) in
    p_eval P (r_pstate row) (r_obs row) (r_act row) (r_mask row) = (r_val row, r_logp row).
  Proof.
    intros Hc. unfold op_step.
    destruct (p_act P ps (e_obs E es (ks k 9 2)) (ks k 9 0) (e_mask E es (ks k 9 2))) as [[[ps1 a] v] lp] eqn:Ha.
    cbn [snd r_pstate r_obs r_act r_mask r_val r_logp]. eapply Hc. exact Ha.
  Qed.

  (* collect_rollout: T rows, row t produced by step from the carried state with key split(split(k,2)[0], T)[t] *)
  Lemma scan_steps_length st keys : length (snd (scan_steps gamma E P st keys)) = length keys.
  Proof.
    revert st. induction keys as [|k tl IH]; intros st; [reflexivity|].
    cbn [scan_steps]. destruct (op_step gamma E P st k) as [st1 row].
    specialize (IH st1). destruct (scan_steps gamma E P st1 tl) as [st2 rows]. cbn [snd length] in *. congruence.
  Qed.

  Theorem collect_length T st k : length (snd (fst (collect gamma E P T st k))) = T.
  Proof.
    unfold collect. pose proof (scan_steps_length st (split_keys (ks k 2 0) T)) as H.
    destruct (scan_steps gamma E P st (split_keys (ks k 2 0) T)) as [st1 rows]. cbn [fst snd] in *.
    rewrite H. unfold split_keys. rewrite map_length, seq_length. reflexivity.
  Qed.

  (* state reached after the first t steps *)
  Fixpoint state_after (st : S * PS) (keys : list kpath) : S * PS :=
    match keys with [] => st | k :: tl => state_after (fst (op_step gamma E P st k)) tl end.

  Lemma scan_steps_fst st keys : fst (scan_steps gamma E P st keys) = state_after st keys.
  Proof.
    revert st. induction keys as [|k0 tl IH]; intros st; [reflexivity|].
    cbn [scan_steps state_after]. destruct (op_step gamma E P st k0) as [st1 row]. cbn [fst].
    specialize (IH st1). destruct (scan_steps gamma E P st1 tl) as [st2 rows]. exact IH.
  Qed.

  Theorem scan_steps_row st keys t k :
    nth_error keys t = Some k ->
    nth_error (snd (scan_steps gamma E P st keys)) t = Some (snd (op_step gamma E P (state_after st (firstn t keys)) k)) /\
    fst (scan_steps gamma E P st keys) = state_after st keys.
  Proof.
    intros Hk. split; [|apply scan_steps_fst].
    revert st t Hk. induction keys as [|k0 tl IH]; intros st t Hk; [destruct t; discriminate|].
    cbn [scan_steps]. destruct (op_step gamma E P st k0) as [st1 row] eqn:Hs.
    destruct t as [|t].
    - cbn in Hk. inversion Hk; subst k0. destruct (scan_steps gamma E P st1 tl) as [st2 rows].
      cbn [snd nth_error firstn state_after]. rewrite Hs. reflexivity.
    - cbn [nth_error] in Hk. specialize (IH st1 t Hk).
      destruct (scan_steps gamma E P st1 tl) as [st2 rows]. cbn [snd nth_error firstn state_after] in *.
      rewrite Hs. cbn [fst]. exact IH.
  Qed.

  (* C12: the vectorised collection is exactly the N independent single-environment collections *)
  Theorem collect_vec_independent T sts k i st :
    nth_error sts i = Some st ->
    nth_error (collect_vec gamma E P T sts k) i = Some (collect gamma E P T st (ks k (length sts) i)).
  Proof.
    intros H. unfold collect_vec. rewrite nth_error_map.
    assert (Hc: nth_error (combine sts (seq 0 (length sts))) i = Some (st, i)).
    { assert (G: forall (l : list (S * PS)) (b : nat) j x, nth_error l j = Some x ->
                 nth_error (combine l (seq b (length l))) j = Some (x, (b + j)%nat)).
      { induction l as [|y l IH]; intros b j x Hj; [destruct j; discriminate|].
        destruct j as [|j]; cbn in *.
        - inversion Hj; subst. f_equal. f_equal. lia.
        - rewrite (IH (Datatypes.S b) j x Hj). f_equal. f_equal. lia. }
      apply (G sts 0%nat i st H). }
    rewrite Hc. reflexivity.
  Qed.

  (* link to C03: the advantages stored by post_collect are the GAE recursion over the collected rows *)
  Theorem collect_adv_is_gae lam T st k :
    let '(_, rows, last) := collect gamma E P T st k in
    map Q2R (collect_adv gamma E P lam T st k) =
    specR (Q2R gamma) (Q2R lam) (Q2R last) (map (map_row Q2R) (gae_rows rows)).
  Proof.
    unfold collect_adv. destruct (collect gamma E P T st k) as [[st1 rows] last].
    apply gaeQ_is_spec.
  Qed.
End RolloutFacts.

(* the tabular stub policies used by the correspondence check are coherent: the hypothesis is satisfiable *)
Lemma tab_pol_coherent p rw : coherent (tab_pol p rw).
Proof.
  unfold coherent, tab_pol. cbn [p_act p_eval]. intros ps obs k mask ps1 a v lp H.
  inversion H; subst. reflexivity.
Qed.
