From Coq Require Import List Arith ZArith QArith Bool Reals Lra Lia.
From Lerax Require Import Schedule.
Import ListNotations.

Theorem num_iterations_spec total N T : (0 < N * T)%Z -> (0 <= total)%Z ->
  (num_iterations total N T * (N * T) <= total < (num_iterations total N T + 1) * (N * T))%Z.
Proof.
  intros H1 H2. unfold num_iterations.
  pose proof (Z.div_mod total (N * T) ltac:(lia)). pose proof (Z.mod_pos_bound total (N * T) H1). nia.
Qed.

Section DqnFacts.
  Variable X : Type.
  Variable train : X -> nat -> X.
  Variable interval : nat.
  Hypothesis Hi : (0 < interval)%nat.

  Lemma run_count k x0 : d_count X (dqn_run X train interval k (dqn_reset X x0)) = k.
  Proof. induction k as [|k IH]; [reflexivity|]. cbn [dqn_run dqn_iter d_count]. rewrite IH. reflexivity. Qed.

  Lemma run_online k x0 : d_online X (dqn_run X train interval k (dqn_reset X x0)) = online_at X train x0 k.
  Proof.
    induction k as [|k IH]; [reflexivity|]. cbn [dqn_run dqn_iter d_online online_at]. rewrite IH, run_count. reflexivity.
  Qed.

  (* the target network equals the online network as of the most recent iteration whose count is a multiple
     of the interval (the initial network for count 0) and is unchanged in between *)
  Theorem dqn_target k x0 :
    d_target X (dqn_run X train interval k (dqn_reset X x0)) = online_at X train x0 (interval * (k / interval)).
  Proof.
    induction k as [|k IH].
    - cbn. rewrite Nat.div_0_l by lia. rewrite Nat.mul_0_r. reflexivity.
    - cbn [dqn_run dqn_iter d_target]. rewrite run_count, run_online.
      destruct (Nat.eqb (S k mod interval) 0) eqn:E.
      + apply Nat.eqb_eq in E.
        assert (S k = interval * (S k / interval))%nat.
        { pose proof (Nat.div_mod (S k) interval ltac:(lia)). lia. }
        rewrite <- H. reflexivity.
      + apply Nat.eqb_neq in E. rewrite IH. f_equal. f_equal.
        (* S k is not a multiple: the quotient does not move *)
        pose proof (Nat.div_mod (S k) interval ltac:(lia)) as D1.
        pose proof (Nat.div_mod k interval ltac:(lia)) as D2.
        pose proof (Nat.mod_upper_bound (S k) interval ltac:(lia)).
        pose proof (Nat.mod_upper_bound k interval ltac:(lia)).
        assert (k / interval <= S k / interval)%nat by (apply Nat.div_le_mono; lia).
        nia.
  Qed.

  Theorem dqn_unchanged_between k x0 : (S k mod interval <> 0)%nat ->
    d_target X (dqn_run X train interval (S k) (dqn_reset X x0)) = d_target X (dqn_run X train interval k (dqn_reset X x0)).
  Proof.
    intros H. cbn [dqn_run dqn_iter d_target]. rewrite run_count.
    apply Nat.eqb_neq in H. rewrite H. reflexivity.
  Qed.
End DqnFacts.

Section SacFacts.
  Variable tau : R.

  (* exactly one Polyak step per iteration; closed form of the target after k iterations *)
  Theorem polyak_closed_form : forall onlines target0,
    polyak_run tau target0 onlines = ((1 - tau) ^ length onlines * target0 + weighted tau onlines)%R.
  Proof.
    unfold polyak_run. induction onlines as [|o tl IH]; intros t0; cbn [fold_left length weighted pow].
    - lra.
    - rewrite IH. unfold polyak. ring.
  Qed.

  Theorem polyak_step_count : forall onlines target0 o,
    polyak_run tau target0 (onlines ++ [o]) = polyak tau o (polyak_run tau target0 onlines).
  Proof. intros. unfold polyak_run. rewrite fold_left_app. reflexivity. Qed.

  Variable A : Type.
  Variable upd : A -> nat -> A.
  Variable freq : nat.

  (* actor and temperature change only on iterations whose (pre-increment) count is a multiple of policy_frequency;
     the temperature only when autotuning is on *)
  Theorem gated_only_on_multiples autotune a0 k :
    gated_run A upd freq autotune a0 (S k) <> gated_run A upd freq autotune a0 k ->
    autotune = true /\ (k mod freq = 0)%nat.
  Proof.
    cbn [gated_run]. unfold gated. destruct autotune; cbn [andb].
    - destruct (Nat.eqb (k mod freq) 0) eqn:E; [intros _; split; [reflexivity|apply Nat.eqb_eq; exact E]|].
      intros H; contradiction H; reflexivity.
    - intros H; contradiction H; reflexivity.
  Qed.

  Theorem no_autotune_constant a0 k : gated_run A upd freq false a0 k = a0.
  Proof. induction k as [|k IH]; [reflexivity|]. cbn [gated_run]. unfold gated. cbn. exact IH. Qed.
End SacFacts.
