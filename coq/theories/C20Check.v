(* C20 correspondence: cases recorded from the real lerax G1 code.
     Traj / TrajConst : states returned by advance_gait_phase (directly, or through
                        env.transition) along a history, with the inputs of every step
     Foot             : one desired_foot_height evaluation
     Field            : one randomised vector field of state.model next to the nominal one
     Pair             : state.model.pair_friction next to the nominal one
     Init             : command / gait frequency of an initial state
   `agree`  compares with the executable model (Gait.v, rational, oracle value for pi);
   `holds`  evaluates the property predicate on the implementation's output alone.
   Phases are compared on the circle (so +pi and -pi are the same phase) with a
   tolerance passed in the case (float32: 1e-5, float64: 1e-9). *)
From Coq Require Import List Bool ZArith QArith Qabs Qminmax Qround Qreals Reals Lra Lia.
From Lerax Require Import Common Gait GaitProofs.
Import ListNotations.
Open Scope Q_scope.

Definition nearestZ (q : Q) : Z := Qfloor (q + (1 # 2)).
Definition mag (x : Q) : Q := Qmax 1 (Qabs x).

(* distance of a and b on the circle of circumference 2*pi *)
Definition circ_dist (pi a b : Q) : Q :=
  let d := Qred (a - b) in Qabs (d - inject_Z (nearestZ (d / (2 * pi))) * (2 * pi)).

Definition in_rangeb (pi tol x : Q) : bool := Qle_bool (- pi - tol) x && Qle_bool x (pi + tol).
(* exactly half a cycle apart: | |r - l| - pi | <= tol *)
Definition apartb (pi tol : Q) (p : Q * Q) : bool := Qle_bool (Qabs (Qabs (snd p - fst p) - pi)) tol.

Definition step_agree (pi tol : Q) (prev s cur : Q * Q) : bool :=
  let inc := phase_incrementQ pi (fst s) (snd s) in
  Qle_bool (circ_dist pi (advance1Q pi (fst prev) (fst s) (snd s)) (fst cur)) (tol * mag (fst prev + inc))
  && Qle_bool (circ_dist pi (advance1Q pi (snd prev) (fst s) (snd s)) (snd cur)) (tol * mag (snd prev + inc)).

(* tol: one-step tolerance; dtol: allowance for the rounding drift of |right - left| accumulated along
   a long floating-point history (over the reals the separation is exactly pi: half_apart_abs) *)
Definition step_holds (pi tol dtol : Q) (prev s cur : Q * Q) : bool :=
  let inc := phase_incrementQ pi (fst s) (snd s) in
  in_rangeb pi tol (fst cur) && in_rangeb pi tol (snd cur)
  && Qle_bool (circ_dist pi (fst cur) (fst prev + inc)) (tol * mag (fst prev + inc))
  && Qle_bool (circ_dist pi (snd cur) (snd prev + inc)) (tol * mag (snd prev + inc))
  && apartb pi (dtol * mag (fst prev + inc)) cur.

Fixpoint traj_check (chk : Q * Q -> Q * Q -> Q * Q -> bool) (prev : Q * Q)
         (steps states : list (Q * Q)) : bool :=
  match steps, states with
  | [], [] => true
  | s :: ts, c :: tc => chk prev s c && traj_check chk c ts tc
  | _, _ => false
  end.

Definition start_holds (pi tol : Q) (p0 : Q * Q) : bool :=
  in_rangeb pi tol (fst p0) && in_rangeb pi tol (snd p0) && apartb pi tol p0.

(* foot height *)
Definition foot_agree (pi tol ph h out : Q) : bool := Qclose tol out (foot_heightQ pi ph h).
(* mark: 1 = the phase is -pi or +pi (height must vanish), 2 = the phase is 0 (height must be h) *)
Definition foot_holds (tol ph h out : Q) (mark : Z) : bool :=
  let t := tol * mag h in
  Qle_bool (- t) out && Qle_bool out (h + t)
  && (if Z.eqb mark 1 then Qle_bool (Qabs out) t else true)
  && (if Z.eqb mark 2 then Qle_bool (Qabs (out - h)) t else true).

(* value between nominal*lo (+olo) and nominal*hi (+ohi), either sign of nominal, relative tolerance *)
Definition betweenb (tol lo hi olo ohi nominal v : Q) : bool :=
  let a := nominal * lo in let b := nominal * hi in
  let t := tol * mag v in
  Qle_bool (Qmin a b + olo - t) v && Qle_bool v (Qmax a b + ohi + t).

(* x.at[skip:].set(nominal[skip:] * u), entry `torso` shifted by an offset in [olo, ohi] *)
Fixpoint field_from (tol lo hi olo ohi : Q) (torso : Z) (i : Z) (nominal impl : list Q) : bool :=
  match nominal, impl with
  | [], [] => true
  | n :: tn, v :: tv =>
      (if Z.eqb i torso then betweenb tol lo hi olo ohi n v else betweenb tol lo hi 0 0 n v)
      && field_from tol lo hi olo ohi torso (i + 1)%Z tn tv
  | _, _ => false
  end.

Definition field_holds (tol lo hi olo ohi : Q) (skip : nat) (torso : Z) (nominal impl : list Q) : bool :=
  Qeqb_list (firstn skip impl) (firstn skip nominal)
  && field_from tol lo hi olo ohi torso (Z.of_nat skip) (skipn skip nominal) (skipn skip impl).

(* pair_friction.at[0:2, 0:2].set(friction): one draw in [lo, hi] in the 2x2 block, the rest kept *)
Definition pair_row_holds (tol lo hi : Q) (nominal impl : list Q) : bool :=
  forallb (fun v => Qle_bool (lo - tol) v && Qle_bool v (hi + tol)) (firstn 2 impl)
  && Qeqb_list (skipn 2 impl) (skipn 2 nominal)
  && Nat.eqb (length impl) (length nominal).

Definition pair_holds (tol lo hi : Q) (nominal impl : list (list Q)) : bool :=
  forallb2 (pair_row_holds tol lo hi) (firstn 2 nominal) (firstn 2 impl)
  && forallb2 Qeqb_list (skipn 2 impl) (skipn 2 nominal)
  && (let block := flat_map (firstn 2) (firstn 2 impl) in
      match block with [] => true | x :: tl => forallb (Qeq_bool x) tl end).

(* command and gait frequency of an initial state *)
Definition all_zero (l : list Q) : bool := forallb (Qeq_bool 0) l.
Fixpoint in_boxb (tol : Q) (lo hi v : list Q) : bool :=
  match lo, hi, v with
  | [], [], [] => true
  | a :: tl, b :: th, x :: tv => Qle_bool (a - tol) x && Qle_bool x (b + tol) && in_boxb tol tl th tv
  | _, _, _ => false
  end.
(* standing tasks: zero command.  Locomotion: inside the box, or the documented zero command
   (only when zero_command_probability > 0); frequency inside its range *)
Definition init_holds (tol : Q) (standing zero_ok : bool) (clo chi cmd : list Q) (flo fhi freq : Q) : bool :=
  if standing then all_zero cmd && Nat.eqb (length cmd) 3
  else (in_boxb tol clo chi cmd || (zero_ok && all_zero cmd && Nat.eqb (length cmd) 3))
       && Qle_bool (flo - tol) freq && Qle_bool freq (fhi + tol).

Inductive case :=
| Traj (pi tol dtol : Q) (p0 : Q * Q) (steps states : list (Q * Q))
| TrajConst (pi tol dtol : Q) (p0 : Q * Q) (f dt : Q) (states : list (Q * Q))
| Foot (pi tol ph h out : Q) (mark : Z)
| Field (tol lo hi olo ohi : Q) (skip : nat) (torso : Z) (nominal impl : list Q)
| Pair (tol lo hi : Q) (nominal impl : list (list Q))
| Init (tol : Q) (standing zero_ok : bool) (clo chi cmd : list Q) (flo fhi freq : Q)
(* the source text of gait.py executed in exact rational arithmetic (pi := hp) *)
| ExactAdv (hp ph f dt out : Q)
| ExactFoot (hp ph h out : Q).

Definition agree (c : case) : bool :=
  match c with
  | Traj pi tol _ p0 steps states => traj_check (step_agree pi tol) p0 steps states
  | TrajConst pi tol _ p0 f dt states => traj_check (step_agree pi tol) p0 (map (fun _ => (f, dt)) states) states
  | Foot pi tol ph h out _ => foot_agree pi tol ph h out
  (* the draws are not part of the case: the model is the set of admissible outputs *)
  | Field tol lo hi olo ohi skip torso nominal impl => field_holds tol lo hi olo ohi skip torso nominal impl
  | Pair tol lo hi nominal impl => pair_holds tol lo hi nominal impl
  | Init tol st z clo chi cmd flo fhi fr => init_holds tol st z clo chi cmd flo fhi fr
  | ExactAdv hp ph f dt out => Qeq_bool (advance1Q hp ph f dt) out
  | ExactFoot hp ph h out => Qeq_bool (foot_heightQ hp ph h) out
  end.

Definition holds (c : case) : bool :=
  match c with
  | Traj pi tol dtol p0 steps states => start_holds pi dtol p0 && traj_check (step_holds pi tol dtol) p0 steps states
  | TrajConst pi tol dtol p0 f dt states =>
      start_holds pi dtol p0 && traj_check (step_holds pi tol dtol) p0 (map (fun _ => (f, dt)) states) states
  | Foot pi tol ph h out mark => foot_holds tol ph h out mark
  | Field tol lo hi olo ohi skip torso nominal impl => field_holds tol lo hi olo ohi skip torso nominal impl
  | Pair tol lo hi nominal impl => pair_holds tol lo hi nominal impl
  | Init tol st z clo chi cmd flo fhi fr => init_holds tol st z clo chi cmd flo fhi fr
  (* exact: congruent to ph + 2*hp*f*dt, and in [-hp, hp) when the dividend is non-negative *)
  | ExactAdv hp ph f dt out =>
      Qeq_bool (circ_dist hp out (ph + phase_incrementQ hp f dt)) 0
      && (if Qle_bool 0 (ph + phase_incrementQ hp f dt + hp)
          then Qle_bool (- hp) out && negb (Qle_bool hp out) else true)
  | ExactFoot hp ph h out =>
      if Qle_bool (- hp) ph && Qle_bool ph hp && Qle_bool 0 h then Qle_bool 0 out && Qle_bool out h else true
  end.

(* ------------------------------------------------------------------ *)
(* soundness of the boolean predicates                                 *)
(* ------------------------------------------------------------------ *)
Lemma Qle_bool_R a b : Qle_bool a b = true -> (Q2R a <= Q2R b)%R.
Proof. intros H. apply Qle_Rle. apply Qle_bool_iff. assumption. Qed.

Lemma R_Qle_bool a b : (Q2R a <= Q2R b)%R -> Qle_bool a b = true.
Proof. intros H. apply Qle_bool_iff. apply Rle_Qle. assumption. Qed.

Lemma in_rangeb_sound pi tol x : in_rangeb pi tol x = true ->
  (- Q2R pi - Q2R tol <= Q2R x <= Q2R pi + Q2R tol)%R.
Proof.
  unfold in_rangeb. intros H. apply andb_prop in H as [A B].
  apply Qle_bool_R in A, B. rewrite Q2R_minus, Q2R_opp in A. rewrite Q2R_plus in B. lra.
Qed.

Lemma Q2R_Qabs q : Q2R (Qabs q) = Rabs (Q2R q).
Proof.
  apply Qabs_case; intros H.
  - rewrite Rabs_pos_eq; [reflexivity|]. rewrite <- Q2R_zero. apply Qle_Rle. assumption.
  - rewrite Q2R_opp. assert (Q2R q <= 0)%R by (rewrite <- Q2R_zero; apply Qle_Rle; assumption).
    rewrite Rabs_left1; [reflexivity | assumption].
Qed.

(* a small circular distance exhibits the integer number of periods *)
Lemma circ_dist_sound pi a b t : Qle_bool (circ_dist pi a b) t = true ->
  exists k : Z, (Rabs (Q2R a - Q2R b - 2 * Q2R pi * IZR k) <= Q2R t)%R.
Proof.
  unfold circ_dist. cbn zeta. intros H. apply Qle_bool_R in H.
  exists (nearestZ (Qred (a - b) / (2 * pi))).
  rewrite Q2R_Qabs, Q2R_minus, Q2R_mult, Q2R_inject_Z, Q2R_mult, Q2R_two, Q2R_Qred, Q2R_minus in H.
  replace (Q2R a - Q2R b - 2 * Q2R pi * IZR (nearestZ (Qred (a - b) / (2 * pi))))%R
    with (Q2R a - Q2R b - IZR (nearestZ (Qred (a - b) / (2 * pi))) * (2 * Q2R pi))%R by lra.
  assumption.
Qed.

Lemma apartb_sound pi tol p : apartb pi tol p = true ->
  (Rabs (Rabs (Q2R (snd p) - Q2R (fst p)) - Q2R pi) <= Q2R tol)%R.
Proof.
  unfold apartb. intros H. apply Qle_bool_R in H.
  rewrite Q2R_Qabs, Q2R_minus, Q2R_Qabs, Q2R_minus in H. assumption.
Qed.

(* one step of the predicate: what it says about the implementation's states, over the reals *)
Theorem step_holds_sound pi tol dtol prev s cur : step_holds pi tol dtol prev s cur = true ->
  let inc := (2 * Q2R pi * Q2R (fst s) * Q2R (snd s))%R in
  (- Q2R pi - Q2R tol <= Q2R (fst cur) <= Q2R pi + Q2R tol)%R
  /\ (- Q2R pi - Q2R tol <= Q2R (snd cur) <= Q2R pi + Q2R tol)%R
  /\ (exists k : Z, (Rabs (Q2R (fst cur) - (Q2R (fst prev) + inc) - 2 * Q2R pi * IZR k)
                     <= Q2R (tol * mag (fst prev + phase_incrementQ pi (fst s) (snd s))))%R)
  /\ (exists k : Z, (Rabs (Q2R (snd cur) - (Q2R (snd prev) + inc) - 2 * Q2R pi * IZR k)
                     <= Q2R (tol * mag (snd prev + phase_incrementQ pi (fst s) (snd s))))%R)
  /\ (Rabs (Rabs (Q2R (snd cur) - Q2R (fst cur)) - Q2R pi)
      <= Q2R (dtol * mag (fst prev + phase_incrementQ pi (fst s) (snd s))))%R.
Proof.
  unfold step_holds. cbn zeta. intros H.
  apply andb_prop in H as [H E]. apply andb_prop in H as [H D]. apply andb_prop in H as [H C].
  apply andb_prop in H as [A B].
  split; [apply in_rangeb_sound; assumption|]. split; [apply in_rangeb_sound; assumption|].
  split; [|split; [|apply apartb_sound; assumption]].
  - destruct (circ_dist_sound _ _ _ _ C) as [k K]. exists k.
    unfold phase_incrementQ in K at 1. rewrite Q2R_plus, !Q2R_mult, Q2R_two in K. rewrite Q2R_mult. exact K.
  - destruct (circ_dist_sound _ _ _ _ D) as [k K]. exists k.
    unfold phase_incrementQ in K at 1. rewrite Q2R_plus, !Q2R_mult, Q2R_two in K. rewrite Q2R_mult. exact K.
Qed.

(* the model's foot height always satisfies the predicate (all phases in range, all heights) *)
Lemma mag_ge_1 x : 1 <= mag x.
Proof. unfold mag. apply Q.le_max_l. Qed.

Theorem foot_model_holds pi tol ph h : 0 < pi -> 0 <= tol -> 0 <= h -> - pi <= ph -> ph <= pi ->
  foot_holds tol ph h (foot_heightQ pi ph h) 0 = true.
Proof.
  intros Hp Ht Hh H1 H2. unfold foot_holds. cbn [Z.eqb]. rewrite !andb_true_r.
  assert (T : 0 <= tol * mag h).
  { apply Qmult_le_0_compat; [assumption|]. apply Qle_trans with 1; [discriminate | apply mag_ge_1]. }
  assert (R0 : (0 < Q2R pi)%R) by (rewrite <- Q2R_zero; apply Qlt_Rlt; assumption).
  assert (Rh : (0 <= Q2R h)%R) by (rewrite <- Q2R_zero; apply Qle_Rle; assumption).
  assert (Rr : in_range (Q2R pi) (Q2R ph)).
  { unfold in_range. rewrite <- Q2R_opp. split; apply Qle_Rle; assumption. }
  destruct (foot_height_range (Q2R pi) R0 (Q2R ph) (Q2R h) Rh Rr) as [A B].
  rewrite <- foot_heightQ_restricts in A, B by assumption.
  assert (RT : (0 <= Q2R (tol * mag h))%R) by (rewrite <- Q2R_zero; apply Qle_Rle; assumption).
  apply andb_true_intro; split; apply R_Qle_bool.
  - rewrite Q2R_opp. lra.
  - rewrite Q2R_plus. lra.
Qed.
