(* C08 correspondence: static loss functions of PPO / A2C / REINFORCE on generated buffers with a tabular policy. *)
From Coq Require Import List ZArith QArith Qminmax Bool.
From Lerax Require Import Common Losses.
Import ListNotations.

Definition qnat (n : nat) : Q := inject_Z (Z.of_nat n).
Definition meanQ := mean Q 0 Qplus Qdiv qnat.
Definition ppo_plQ := ppo_policy_loss Q 0 1 Qplus Qmult Qminus Qdiv Qopp Qmin Qmax qnat.
Definition klQ := approx_kl Q 0 1 Qplus Qminus Qdiv qnat.
Definition vlQ := value_loss Q 0 (2#1) Qplus Qmult Qminus Qdiv qnat.
Definition vlcQ := value_loss_clipped Q 0 (2#1) Qplus Qmult Qminus Qdiv Qopp Qmin Qmax qnat.
Definition elQ := entropy_loss Q 0 Qplus Qdiv Qopp qnat.
Definition pgQ := pg_loss Q 0 Qplus Qmult Qdiv Qopp qnat.
Definition normQ := normalise Q 0 Qplus Qminus Qdiv qnat.
Definition totalQ := total_loss Q Qplus Qmult.

Record case := {
  c_algo : nat;                 (* 0 PPO, 1 A2C, 2 REINFORCE *)
  c_eps : Q; c_cv : Q; c_ce : Q; c_clipv : bool;
  c_norm : option (Q * Q);      (* Some (std, finfo.eps) when advantages are normalised; std is an oracle input *)
  c_ratios : list Q;            (* oracle: exp(log_ratio) in float64 *)
  c_logr : list Q;              (* new log-prob minus stored log-prob (exact) *)
  c_logp : list Q;              (* new log-probs (A2C / REINFORCE) *)
  c_advs : list Q; c_vals : list Q; c_oldv : list Q; c_rets : list Q; c_ents : list Q;
  c_imp : list Q }.             (* PPO: loss, policy, value, entropy, approx_kl;  A2C: loss, policy, value, entropy;  REINFORCE: loss, policy, value *)

Definition tol : Q := 1 # 1000000000.

Definition model (c : case) : list Q :=
  let advs := match c_norm c with Some (sd, e) => normQ (c_advs c) sd e | None => c_advs c end in
  let vl := if c_clipv c then vlcQ (c_eps c) (c_vals c) (c_oldv c) (c_rets c) else vlQ (c_vals c) (c_rets c) in
  match c_algo c with
  | 0%nat =>
      let pl := ppo_plQ (c_eps c) (c_ratios c) advs in
      let el := elQ (c_ents c) in
      [totalQ pl vl el (c_cv c) (c_ce c); pl; vl; el; klQ (c_ratios c) (c_logr c)]
  | 1%nat =>
      let pl := pgQ (c_logp c) advs in
      let el := elQ (c_ents c) in
      [totalQ pl (vlQ (c_vals c) (c_rets c)) el (c_cv c) (c_ce c); pl; vlQ (c_vals c) (c_rets c); el]
  | _ =>
      let pl := pgQ (c_logp c) advs in
      [pl + vlQ (c_vals c) (c_rets c) * c_cv c; pl; vlQ (c_vals c) (c_rets c)]
  end.

Definition agree (c : case) : bool := Qclose_list tol (model c) (c_imp c).
(* the loss value is fully determined by the published objective: the property predicate is the comparison itself *)
Definition holds (c : case) : bool := agree c.
