(* C13 adapters: LeraxToGymEnv / LeraxToGymnaxEnv over finite MDPs, checked
   against the Gym-style API model under the adapter's key schedule. *)
From Coq Require Import List ZArith QArith Bool.
From Lerax Require Import Common Env Tab C01Check.
Import ListNotations.

(* LeraxToGymEnv: a C01Check.case whose keys are the adapter's documented
   schedule; c_reset_key is the adapter's root key.  Checks that the keys in
   the case are exactly l2g_keys and defers to the API predicate. *)
Definition gym_keys_ok (c : C01Check.case) : bool :=
  let root := c_reset_key c in
  forallb2 kpath_eqb (map snd (c_steps c)) (l2g_keys (ks root 2 0) (length (c_steps c))).

Definition gym_case (c : C01Check.case) : C01Check.case :=
  {| c_tab := c_tab c; c_raw := c_raw c; c_stack := c_stack c;
     c_reset_key := ks (c_reset_key c) 2 1; c_steps := c_steps c; c_reset := c_reset c;
     c_outs := c_outs c; c_asp := c_asp c; c_osp := c_osp c |}.

Definition holds_gym (c : C01Check.case) : bool := gym_keys_ok c && C01Check.holds (gym_case c).
Definition agree_gym (c : C01Check.case) : bool := gym_keys_ok c && C01Check.agree (gym_case c).

(* LeraxToGymnaxEnv: reset_env(c_reset_key) then step_env with the given keys;
   i_term carries the adapter's single done flag, i_cnt its time counter is not compared *)
Definition x_out_ok (E : env (ws Z) Q (list Q)) (s : ws Z) (a : Q) (k : kpath) (o : imp_out) : bool :=
  let '(obs, st, r, d, info) := l2x_step E k (s, 0%Z) a in
  state_eqb (fst st) o && Qeqb_list obs (i_obs o) && Qeq_bool r (i_rew o) && Bool.eqb d (i_term o) && Qeq_bool info (i_info o).

Fixpoint x_steps (E : env (ws Z) Q (list Q)) (s : ws Z) (ak : list (Q * kpath)) (outs : list imp_out) : bool :=
  match ak, outs with
  | [], [] => true
  | (a, k) :: ak', o :: outs' => x_out_ok E s a k o && x_steps E (imp_state o) ak' outs'
  | _, _ => false
  end.

Definition holds_gymnax (c : C01Check.case) : bool :=
  let E := E_of c in
  let '(obs, st) := l2x_reset E (c_reset_key c) in
  state_eqb (fst st) (c_reset c) && Qeqb_list obs (i_obs (c_reset c))
  && x_steps E (imp_state (c_reset c)) (c_steps c) (c_outs c).

(* LeraxToGymEnv as an object (AdapterSM): a whole history of operations on ONE adapter - reset(seed=...), reset(), step(a) in any
   order - against the state machine; seeds are given as root key paths. *)
From Lerax Require Import AdapterSM.
Record smcase := {
  m_tab : tab; m_raw : rawtbl; m_stack : list wd;
  m_key0 : kpath;                                   (* the key a new adapter starts with (jr.key(0)) *)
  m_ops : list (@l2g_op Q);
  m_outs : list imp_out }.

Definition sm_out_ok (m : @l2g_out (ws Z) (list Q)) (o : imp_out) : bool :=
  match m with
  | OutReset s obs info => state_eqb s o && Qeqb_list obs (i_obs o) && Qeq_bool info (i_info o)
  | OutStep out => out_agree out o
  | OutError => false
  end.
Definition agree_sm (c : smcase) : bool :=
  let E := wrap_d (m_stack c) (tab_env (m_tab c) (m_raw c)) in
  forallb2 sm_out_ok (l2g_trace E (l2g_new (m_key0 c)) (m_ops c)) (m_outs c).
