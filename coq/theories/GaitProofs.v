(* C20 — theorems about the gait / randomisation model (Gait.v). *)
From Coq Require Import Reals List ZArith QArith Qreals Qround Lra Lia Psatz.
From Lerax Require Import Gait.
Import ListNotations.
Open Scope R_scope.

(* ------------------------------------------------------------------ *)
(* truncation and C fmod                                               *)
(* ------------------------------------------------------------------ *)
Lemma Int_part_bounds x : IZR (Int_part x) <= x < IZR (Int_part x) + 1.
Proof. destruct (base_Int_part x) as [H1 H2]. split; lra. Qed.

Lemma Int_part_unique x z : IZR z <= x < IZR z + 1 -> z = Int_part x.
Proof.
  intros [H1 H2]. destruct (Int_part_bounds x) as [H3 H4].
  assert (A : (z < Int_part x + 1)%Z) by (apply lt_IZR; rewrite plus_IZR; simpl; lra).
  assert (B : (Int_part x < z + 1)%Z) by (apply lt_IZR; rewrite plus_IZR; simpl; lra).
  lia.
Qed.

Lemma Rtrunc_nonneg x : 0 <= x -> IZR (Rtrunc x) <= x < IZR (Rtrunc x) + 1.
Proof. intros H. unfold Rtrunc. destruct (Rle_dec 0 x); [apply Int_part_bounds | contradiction]. Qed.

Lemma Rtrunc_neg x : x < 0 -> x <= IZR (Rtrunc x) < x + 1.
Proof.
  intros H. unfold Rtrunc. destruct (Rle_dec 0 x); [lra|].
  rewrite opp_IZR. destruct (Int_part_bounds (- x)). split; lra.
Qed.

Lemma fmodR_nonneg x y : 0 < y -> 0 <= x -> 0 <= fmodR x y < y.
Proof.
  intros Hy Hx. unfold fmodR.
  assert (Hq : 0 <= x / y) by (apply Rmult_le_pos; [assumption | left; apply Rinv_0_lt_compat; assumption]).
  destruct (Rtrunc_nonneg _ Hq) as [H1 H2].
  set (n := IZR (Rtrunc (x / y))) in *.
  assert (E : x = x / y * y) by (field; lra).
  set (q := x / y) in *.
  clearbody q n. split; nra.
Qed.

Lemma fmodR_neg x y : 0 < y -> x < 0 -> - y < fmodR x y <= 0.
Proof.
  intros Hy Hx. unfold fmodR.
  assert (Hq : x / y < 0).
  { unfold Rdiv. assert (0 < / y) by (apply Rinv_0_lt_compat; assumption). nra. }
  destruct (Rtrunc_neg _ Hq) as [H1 H2].
  set (n := IZR (Rtrunc (x / y))) in *.
  assert (E : x = x / y * y) by (field; lra).
  set (q := x / y) in *.
  clearbody q n. split; nra.
Qed.

(* ------------------------------------------------------------------ *)
(* congruence modulo the period                                        *)
(* ------------------------------------------------------------------ *)
Section Congr.
  Variable hp : R.

  Lemma congr_refl a : congr hp a a.
  Proof. exists 0%Z. lra. Qed.

  Lemma congr_sym a b : congr hp a b -> congr hp b a.
  Proof. intros [k H]. exists (- k)%Z. rewrite opp_IZR. lra. Qed.

  Lemma congr_trans a b c : congr hp a b -> congr hp b c -> congr hp a c.
  Proof. intros [k H] [j G]. exists (k + j)%Z. rewrite plus_IZR. lra. Qed.

  Lemma congr_add a b c : congr hp a b -> congr hp (a + c) (b + c).
  Proof. intros [k H]. exists k. lra. Qed.

  (* phase after one step = old phase + 2*hp*f*dt, modulo the period: for ALL real inputs *)
  Lemma advance1_congr ph f dt : congr hp (advance1 hp ph f dt) (ph + phase_increment hp f dt).
  Proof.
    unfold advance1, fmodR. exists (- Rtrunc ((ph + phase_increment hp f dt + hp) / (2 * hp)))%Z.
    rewrite opp_IZR. lra.
  Qed.

  (* range: exactly what C fmod guarantees *)
  Lemma advance1_range ph f dt : 0 < hp ->
    0 <= ph + phase_increment hp f dt + hp -> in_half_open hp (advance1 hp ph f dt).
  Proof.
    intros Hp H. unfold advance1, in_half_open.
    destruct (fmodR_nonneg (ph + phase_increment hp f dt + hp) (2 * hp)); [lra | assumption | lra].
  Qed.

  Lemma advance1_range_below ph f dt : 0 < hp ->
    ph + phase_increment hp f dt + hp < 0 ->
    - (3 * hp) < advance1 hp ph f dt <= - hp.
  Proof.
    intros Hp H. unfold advance1.
    destruct (fmodR_neg (ph + phase_increment hp f dt + hp) (2 * hp)); [lra | assumption | lra].
  Qed.

  (* the sign condition the code needs, from the quantities the environment controls *)
  Lemma advance1_in_range ph f dt : 0 < hp -> in_range hp ph -> 0 <= f * dt ->
    in_half_open hp (advance1 hp ph f dt).
  Proof.
    intros Hp [H1 H2] Hf. apply advance1_range; [assumption|]. unfold phase_increment.
    assert (0 <= 2 * hp * (f * dt)) by (apply Rmult_le_pos; lra). lra.
  Qed.

  Lemma half_open_in_range x : in_half_open hp x -> in_range hp x.
  Proof. unfold in_half_open, in_range. lra. Qed.

  (* ---------------- one control step on both feet ------------------- *)
  Lemma advance_half_apart p f dt : half_apart hp p -> half_apart hp (advance hp p f dt).
  Proof.
    unfold half_apart. destruct p as [l r]; cbn [fst snd advance]. intros H.
    eapply congr_trans; [apply advance1_congr|].
    eapply congr_trans; [apply congr_add; exact H|].
    replace (l + hp + phase_increment hp f dt) with (l + phase_increment hp f dt + hp) by lra.
    apply congr_add. apply congr_sym. apply advance1_congr.
  Qed.

  Lemma advance_coherent p f dt : 0 < hp -> 0 <= f * dt -> coherent hp p ->
    coherent hp (advance hp p f dt)
    /\ in_half_open hp (fst (advance hp p f dt)) /\ in_half_open hp (snd (advance hp p f dt)).
  Proof.
    intros Hp Hf (Hl & Hr & Ha).
    assert (A := advance1_in_range (fst p) f dt Hp Hl Hf).
    assert (B := advance1_in_range (snd p) f dt Hp Hr Hf).
    destruct p as [l r]; cbn [fst snd advance] in *.
    repeat split; try (apply half_open_in_range; assumption); try apply A; try apply B.
    apply (advance_half_apart (l, r)); assumption.
  Qed.

  Lemma initial_coherent : 0 < hp -> coherent hp (initial_phase hp).
  Proof.
    intros Hp. unfold coherent, initial_phase, in_range, half_apart; cbn [fst snd].
    repeat split; try lra. exists 0%Z. lra.
  Qed.

  (* ---------------- arbitrarily long histories ---------------------- *)
  Definition step_ok (s : R * R) : Prop := 0 <= fst s * snd s.

  Theorem trajectory_coherent steps : forall p, 0 < hp -> coherent hp p -> Forall step_ok steps ->
    Forall (fun q => coherent hp q /\ in_half_open hp (fst q) /\ in_half_open hp (snd q))
           (trajectory hp p steps).
  Proof.
    induction steps as [|[f dt] tl IH]; intros p Hp Hc Hs; cbn [trajectory]; [constructor|].
    inversion Hs as [|s l Hs1 Hs2]; subst. unfold step_ok in Hs1; cbn [fst snd] in Hs1.
    destruct (advance_coherent p f dt Hp Hs1 Hc) as (C & A & B).
    constructor; [cbv beta; split; [exact C | split; [exact A | exact B]]|]. apply IH; assumption.
  Qed.

  Lemma trajectory_length steps : forall p, length (trajectory hp p steps) = length steps.
  Proof. induction steps as [|[f dt] tl IH]; intros p; cbn; [reflexivity | rewrite IH; reflexivity]. Qed.

  (* the n-th recorded state is the state reached by the first n+1 steps *)
  Lemma trajectory_nth steps : forall p n q,
    nth_error (trajectory hp p steps) n = Some q -> q = run hp p (firstn (S n) steps).
  Proof.
    induction steps as [|[f dt] tl IH]; intros p n q H; [destruct n; discriminate|].
    destruct n as [|n]; cbn in H.
    - inversion H; subst. cbn. destruct tl; reflexivity.
    - change (firstn (S (S n)) ((f, dt) :: tl)) with ((f, dt) :: firstn (S n) tl).
      cbn [run]. apply IH. assumption.
  Qed.

  (* each recorded state is one `advance` of its predecessor (so the phase moves by
     2*hp*f*dt modulo the period in every control step) *)
  Lemma trajectory_step steps : forall p n q f dt,
    nth_error (trajectory hp p steps) n = Some q -> nth_error steps n = Some (f, dt) ->
    let prev := match n with O => p | S m => nth m (trajectory hp p steps) p end in
    q = advance hp prev f dt.
  Proof.
    induction steps as [|[f0 dt0] tl IH]; intros p n q f dt H G; [destruct n; discriminate|].
    destruct n as [|n]; cbn in H, G.
    - inversion H; inversion G; subst. reflexivity.
    - cbn zeta. specialize (IH (advance hp p f0 dt0) n q f dt H G). cbn zeta in IH.
      destruct n as [|m]; cbn [trajectory nth]; [exact IH|].
      cbn [trajectory nth] in IH.
      rewrite IH. f_equal.
      assert (L : (m < length (trajectory hp (advance hp p f0 dt0) tl))%nat).
      { apply nth_error_Some. destruct (nth_error (trajectory hp (advance hp p f0 dt0) tl) m) eqn:E; [discriminate|].
        exfalso. assert (S m < length (trajectory hp (advance hp p f0 dt0) tl))%nat by (apply nth_error_Some; congruence).
        apply nth_error_None in E. lia. }
      apply nth_indep. assumption.
  Qed.

  (* congruence along a whole history: final phase = initial phase + total travelled *)
  Theorem run_congr steps : forall p,
    congr hp (fst (run hp p steps)) (fst p + travelled hp steps)
    /\ congr hp (snd (run hp p steps)) (snd p + travelled hp steps).
  Proof.
    induction steps as [|[f dt] tl IH]; intros p; cbn [run travelled].
    - rewrite !Rplus_0_r. split; apply congr_refl.
    - destruct (IH (advance hp p f dt)) as [A B]. destruct p as [l r]; cbn [fst snd advance] in *.
      split.
      + eapply congr_trans; [exact A|].
        replace (l + (phase_increment hp f dt + travelled hp tl)) with (l + phase_increment hp f dt + travelled hp tl) by lra.
        apply congr_add. apply advance1_congr.
      + eapply congr_trans; [exact B|].
        replace (r + (phase_increment hp f dt + travelled hp tl)) with (r + phase_increment hp f dt + travelled hp tl) by lra.
        apply congr_add. apply advance1_congr.
  Qed.

  Lemma travelled_repeat f dt n : travelled hp (repeat (f, dt) n) = INR n * phase_increment hp f dt.
  Proof.
    induction n as [|n IH]; [cbn; lra|].
    cbn [repeat travelled]. rewrite IH, S_INR. lra.
  Qed.

  (* the environment: one frequency per episode, constant dt *)
  Corollary run_congr_const f dt n :
    congr hp (fst (run hp (initial_phase hp) (repeat (f, dt) n))) (INR n * (2 * hp * f * dt))
    /\ congr hp (snd (run hp (initial_phase hp) (repeat (f, dt) n))) (hp + INR n * (2 * hp * f * dt)).
  Proof.
    destruct (run_congr (repeat (f, dt) n) (initial_phase hp)) as [A B].
    rewrite travelled_repeat in A, B. unfold initial_phase, phase_increment in *; cbn [fst snd] in *.
    rewrite Rplus_0_l in A. split; assumption.
  Qed.

  (* two phases inside [-hp, hp] that are congruent to half a period apart are
     exactly half a period apart *)
  Theorem half_apart_abs p : 0 < hp -> in_range hp (fst p) -> in_range hp (snd p) ->
    half_apart hp p -> Rabs (snd p - fst p) = hp.
  Proof.
    intros Hp [L1 L2] [R1 R2] [k H]. destruct p as [l r]; cbn [fst snd] in *.
    assert (E : r - l = hp * (1 + 2 * IZR k)) by lra.
    assert (K1 : (-2 < k)%Z).
    { apply lt_IZR. assert (- (2 * hp) <= hp * (1 + 2 * IZR k)) by lra. nra. }
    assert (K2 : (k < 1)%Z).
    { apply lt_IZR. assert (hp * (1 + 2 * IZR k) <= 2 * hp) by lra. nra. }
    assert (D : k = (-1)%Z \/ k = 0%Z) by lia.
    destruct D as [-> | ->]; rewrite E.
    - replace (hp * (1 + 2 * -1)) with (- hp) by lra. rewrite Rabs_Ropp. apply Rabs_pos_eq. lra.
    - replace (hp * (1 + 2 * 0)) with hp by lra. apply Rabs_pos_eq. lra.
  Qed.

  (* the sign condition is necessary: a negative increment can leave the range *)
  Lemma advance1_negative_escapes : 0 < hp ->
    advance1 hp (- hp) (- (1 / 4)) 1 = - hp - hp / 2.
  Proof.
    intros Hp. unfold advance1, phase_increment, fmodR.
    replace ((- hp + 2 * hp * - (1 / 4) * 1 + hp) / (2 * hp)) with (- (1 / 4)) by (field; lra).
    unfold Rtrunc. destruct (Rle_dec 0 (- (1 / 4))); [lra|].
    replace (- - (1 / 4)) with (1 / 4) by lra.
    assert (Z0 : 0%Z = Int_part (1 / 4)) by (apply Int_part_unique; simpl; lra).
    rewrite <- Z0. simpl. lra.
  Qed.
End Congr.

(* hypotheses of the history theorem are satisfiable: the episode start and a three-step history *)
Example history_example :
  Forall (fun q => coherent PI q /\ in_half_open PI (fst q) /\ in_half_open PI (snd q))
         (trajectory PI (initial_phase PI) [(5 / 4, 1 / 50); (3 / 2, 1 / 50); (0, 1 / 50)]).
Proof.
  apply trajectory_coherent; [exact PI_RGT_0 | apply initial_coherent; exact PI_RGT_0 |].
  repeat constructor; unfold step_ok; cbn [fst snd]; lra.
Qed.

(* ------------------------------------------------------------------ *)
(* desired foot height                                                 *)
(* ------------------------------------------------------------------ *)
Lemma bezier_factor x : bezier x = x * x * (3 - 2 * x).
Proof. unfold bezier. ring. Qed.

Lemma bezier_bounds x : 0 <= x <= 1 -> 0 <= bezier x <= 1.
Proof.
  intros [H0 H1]. rewrite bezier_factor.
  pose proof (Rmult_le_pos _ _ H0 H0) as Hxx.
  assert (H3 : 0 <= 3 - 2 * x) by lra.
  pose proof (Rmult_le_pos _ _ Hxx H3) as Hlow.
  split; [exact Hlow|].
  (* 1 - x^2 (3 - 2x) = (1-x)^2 (1 + 2x) *)
  assert (H4 : 0 <= 1 - x) by lra.
  pose proof (Rmult_le_pos _ _ H4 H4) as H5.
  assert (H6 : 0 <= 1 + 2 * x) by lra.
  pose proof (Rmult_le_pos _ _ H5 H6) as H7.
  nra.
Qed.

Lemma bezier_0 : bezier 0 = 0.
Proof. unfold bezier. ring. Qed.
Lemma bezier_1 : bezier 1 = 1.
Proof. unfold bezier. ring. Qed.

Lemma bezier_mono x y : 0 <= x -> x <= y -> y <= 1 -> bezier x <= bezier y.
Proof.
  intros H0 Hxy H1. rewrite !bezier_factor.
  (* difference = (y-x) * (3(x+y) - 2(x^2+xy+y^2)) *)
  assert (Hy0 : 0 <= y) by lra. assert (Hx1 : x <= 1) by lra.
  assert (A : 0 <= y - x) by lra.
  assert (Bx : x * x <= x) by nra. assert (By : y * y <= y) by nra.
  assert (Bxy : 2 * (x * y) <= x + y) by nra.
  assert (C : 0 <= 3 * (x + y) - 2 * (x * x + x * y + y * y)) by lra.
  pose proof (Rmult_le_pos _ _ A C) as D.
  nra.
Qed.

Section Foot.
  Variable hp : R.
  Hypothesis Hp : 0 < hp.

  Lemma foot_x_bounds ph : in_range hp ph -> 0 <= (ph + hp) / (2 * hp) <= 1.
  Proof.
    intros [H1 H2].
    assert (I : 0 < / (2 * hp)) by (apply Rinv_0_lt_compat; lra).
    unfold Rdiv. split.
    - apply Rmult_le_pos; lra.
    - assert (E : (ph + hp) * / (2 * hp) <= (2 * hp) * / (2 * hp)) by (apply Rmult_le_compat_r; lra).
      replace ((2 * hp) * / (2 * hp)) with 1 in E by (field; lra). exact E.
  Qed.

  Theorem foot_height_range ph h : 0 <= h -> in_range hp ph -> 0 <= foot_height hp ph h <= h.
  Proof.
    intros Hh Hr. unfold foot_height, cubic_bezier. cbn zeta.
    destruct (foot_x_bounds ph Hr) as [X0 X1].
    set (x := (ph + hp) / (2 * hp)) in *.
    destruct (Rle_dec x (1 / 2)) as [L|G].
    - destruct (bezier_bounds (2 * x)) as [B0 B1]; [lra|].
      pose proof (Rmult_le_pos _ _ Hh B0). split; nra.
    - destruct (bezier_bounds (2 * x - 1)) as [B0 B1]; [lra|].
      pose proof (Rmult_le_pos _ _ Hh B0). split; nra.
  Qed.

  Theorem foot_height_at_minus h : foot_height hp (- hp) h = 0.
  Proof.
    unfold foot_height, cubic_bezier. cbn zeta.
    replace ((- hp + hp) / (2 * hp)) with 0 by (field; lra).
    destruct (Rle_dec 0 (1 / 2)); [|lra]. rewrite Rmult_0_r, bezier_0. ring.
  Qed.

  Theorem foot_height_at_plus h : foot_height hp hp h = 0.
  Proof.
    unfold foot_height, cubic_bezier. cbn zeta.
    replace ((hp + hp) / (2 * hp)) with 1 by (field; lra).
    destruct (Rle_dec 1 (1 / 2)); [lra|].
    replace (2 * 1 - 1) with 1 by lra. rewrite bezier_1. ring.
  Qed.

  Theorem foot_height_at_zero h : foot_height hp 0 h = h.
  Proof.
    unfold foot_height, cubic_bezier. cbn zeta.
    replace ((0 + hp) / (2 * hp)) with (1 / 2) by (field; lra).
    destruct (Rle_dec (1 / 2) (1 / 2)); [|lra].
    replace (2 * (1 / 2)) with 1 by lra. rewrite bezier_1. ring.
  Qed.

  Lemma foot_x_mono a b : a <= b -> (a + hp) / (2 * hp) <= (b + hp) / (2 * hp).
  Proof.
    intros H. assert (I : 0 < / (2 * hp)) by (apply Rinv_0_lt_compat; lra).
    unfold Rdiv. apply Rmult_le_compat_r; lra.
  Qed.

  Lemma foot_x_at_zero : (0 + hp) / (2 * hp) = 1 / 2.
  Proof. field; lra. Qed.

  (* rising on [-hp, 0], falling on [0, hp]: the peak is at phase 0 *)
  Theorem foot_height_rising a b h : 0 <= h -> - hp <= a -> a <= b -> b <= 0 ->
    foot_height hp a h <= foot_height hp b h.
  Proof.
    intros Hh Ha Hab Hb. unfold foot_height, cubic_bezier. cbn zeta.
    assert (Xa : 0 <= (a + hp) / (2 * hp)) by (apply (foot_x_bounds a); unfold in_range; lra).
    pose proof (foot_x_mono a b Hab) as M.
    pose proof (foot_x_mono b 0 Hb) as M0. rewrite foot_x_at_zero in M0.
    set (xa := (a + hp) / (2 * hp)) in *. set (xb := (b + hp) / (2 * hp)) in *.
    destruct (Rle_dec xa (1 / 2)); [|lra]. destruct (Rle_dec xb (1 / 2)); [|lra].
    assert (B : bezier (2 * xa) <= bezier (2 * xb)) by (apply bezier_mono; lra).
    nra.
  Qed.

  Theorem foot_height_falling a b h : 0 <= h -> 0 < a -> a <= b -> b <= hp ->
    foot_height hp b h <= foot_height hp a h.
  Proof.
    intros Hh Ha Hab Hb. unfold foot_height, cubic_bezier. cbn zeta.
    assert (Xb : (b + hp) / (2 * hp) <= 1) by (apply (foot_x_bounds b); unfold in_range; lra).
    pose proof (foot_x_mono a b Hab) as M.
    assert (M0 : 1 / 2 < (a + hp) / (2 * hp)).
    { rewrite <- foot_x_at_zero. assert (I : 0 < / (2 * hp)) by (apply Rinv_0_lt_compat; lra).
      unfold Rdiv. apply Rmult_lt_compat_r; lra. }
    set (xa := (a + hp) / (2 * hp)) in *. set (xb := (b + hp) / (2 * hp)) in *.
    destruct (Rle_dec xa (1 / 2)); [lra|]. destruct (Rle_dec xb (1 / 2)); [lra|].
    assert (B : bezier (2 * xa - 1) <= bezier (2 * xb - 1)) by (apply bezier_mono; lra).
    nra.
  Qed.
End Foot.

(* ------------------------------------------------------------------ *)
(* domain randomisation                                                *)
(* ------------------------------------------------------------------ *)
Lemma scale_pos n lo hi u : 0 <= n -> lo <= u < hi -> n * lo <= n * u <= n * hi.
Proof. intros Hn [H1 H2]. split; apply Rmult_le_compat_l; lra. Qed.

Lemma scale_pos_strict n lo hi u : 0 < n -> lo <= u < hi -> n * lo <= n * u < n * hi.
Proof.
  intros Hn [H1 H2]. split; [apply Rmult_le_compat_l; lra | apply Rmult_lt_compat_l; lra].
Qed.

Lemma scale_neg n lo hi u : n <= 0 -> lo <= u < hi -> n * hi <= n * u <= n * lo.
Proof. intros Hn [H1 H2]. split; nra. Qed.

(* either sign of the nominal value *)
Theorem scale_between n lo hi u : lo <= u <= hi -> between_scaled n lo hi (n * u).
Proof.
  intros [H1 H2]. unfold between_scaled, Rmin, Rmax.
  destruct (Rle_dec (n * lo) (n * hi)); destruct (Rle_dec 0 n); split; nra.
Qed.

Lemma between_scaled_pos n lo hi v : 0 <= n -> lo <= hi ->
  between_scaled n lo hi v <-> n * lo <= v <= n * hi.
Proof.
  intros Hn Hl. unfold between_scaled, Rmin, Rmax.
  assert (n * lo <= n * hi) by (apply Rmult_le_compat_l; lra).
  destruct (Rle_dec (n * lo) (n * hi)); [tauto | lra].
Qed.

Section RandomizeProofs.
  Context {Rest : Type}.
  Notation model := (mjmodel Rest).

  (* ---------------- frame: only the named field changes -------------- *)
  Theorem randomize_friction_frame (m : model) v :
    let m' := randomize_friction m v in
    dof_frictionloss m' = dof_frictionloss m /\ dof_armature m' = dof_armature m
    /\ body_mass m' = body_mass m /\ rest m' = rest m.
  Proof. cbn. repeat split. Qed.

  Theorem randomize_friction_loss_frame (m : model) nominal scales :
    let m' := randomize_friction_loss m nominal scales in
    pair_friction m' = pair_friction m /\ dof_armature m' = dof_armature m
    /\ body_mass m' = body_mass m /\ rest m' = rest m.
  Proof. cbn. repeat split. Qed.

  Theorem randomize_armature_frame (m : model) nominal scales :
    let m' := randomize_armature m nominal scales in
    pair_friction m' = pair_friction m /\ dof_frictionloss m' = dof_frictionloss m
    /\ body_mass m' = body_mass m /\ rest m' = rest m.
  Proof. cbn. repeat split. Qed.

  Theorem randomize_body_mass_frame (m : model) nominal scales torso off :
    let m' := randomize_body_mass m nominal scales torso off in
    pair_friction m' = pair_friction m /\ dof_frictionloss m' = dof_frictionloss m
    /\ dof_armature m' = dof_armature m /\ rest m' = rest m.
  Proof. cbn. repeat split. Qed.

  (* the composition: every other field is the nominal one, and each of the four
     fields is produced by its own function from the nominal field alone *)
  Theorem randomize_model_frame (m : model) nf na nm torso d :
    let m' := randomize_model m nf na nm torso d in
    rest m' = rest m
    /\ pair_friction m' = set_block22 (d_friction d) (pair_friction m)
    /\ dof_frictionloss m' = set_from6 (dof_frictionloss m) (map2 Rmult nf (d_floss d))
    /\ dof_armature m' = set_from6 (dof_armature m) (map2 Rmult na (d_armature d))
    /\ body_mass m' = add_at torso (d_torso d) (map2 Rmult nm (d_mass d)).
  Proof. cbn. repeat split. Qed.

  (* ---------------- inside the fields -------------------------------- *)
  Lemma set_block22_length v (m : list (list R)) : length (set_block22 v m) = length m.
  Proof.
    unfold set_block22. rewrite app_length, map_length, <- app_length, firstn_skipn. reflexivity.
  Qed.

  (* pairs other than the first two keep their friction *)
  Lemma set_block22_other_rows v (m : list (list R)) i : (2 <= i)%nat ->
    nth_error (set_block22 v m) i = nth_error m i.
  Proof.
    intros H. unfold set_block22.
    destruct m as [|a [|b tl]]; destruct i as [|[|i]]; cbn; try lia; reflexivity.
  Qed.

  Lemma set_prefix2_other_cols v (l : list R) j : (2 <= j)%nat ->
    nth_error (set_prefix 2 v l) j = nth_error l j.
  Proof.
    intros H. unfold set_prefix.
    destruct l as [|a [|b tl]]; destruct j as [|[|j]]; cbn; try lia; reflexivity.
  Qed.

  Lemma set_prefix2_cols v (l : list R) j x : (j < 2)%nat ->
    nth_error (set_prefix 2 v l) j = Some x -> x = v.
  Proof.
    intros H. unfold set_prefix.
    destruct l as [|a [|b tl]]; destruct j as [|[|j]]; cbn; try lia; intros E;
      try discriminate; inversion E; reflexivity.
  Qed.

  (* in the first two pairs: the first two coefficients are the draw, the others are kept *)
  Lemma set_block22_rows v (m : list (list R)) i row : (i < 2)%nat ->
    nth_error m i = Some row -> nth_error (set_block22 v m) i = Some (set_prefix 2 v row).
  Proof.
    intros H. unfold set_block22.
    destruct m as [|a [|b tl]]; destruct i as [|[|i]]; cbn; try lia; intros E;
      try discriminate; inversion E; reflexivity.
  Qed.

  Lemma set_from6_head (x y : list R) : (6 <= length x)%nat -> firstn 6 (set_from6 x y) = firstn 6 x.
  Proof.
    intros H. unfold set_from6.
    rewrite firstn_app, firstn_firstn, firstn_length, Nat.min_id.
    replace (6 - Nat.min 6 (length x))%nat with 0%nat by lia. cbn. apply app_nil_r.
  Qed.

  Lemma set_from6_tail (x y : list R) : (6 <= length x)%nat -> skipn 6 (set_from6 x y) = y.
  Proof.
    intros H. unfold set_from6.
    rewrite skipn_app, firstn_length.
    replace (6 - Nat.min 6 (length x))%nat with 0%nat by lia.
    rewrite skipn_all2 by (rewrite firstn_length; lia). reflexivity.
  Qed.

  Lemma map2_length f (a b : list R) : length a = length b -> length (map2 f a b) = length a.
  Proof. revert b; induction a as [|x a IH]; intros [|y b] H; cbn in *; try lia. rewrite IH; lia. Qed.

  (* every scaled entry lies between nominal*lo and nominal*hi *)
  Theorem map2_between lo hi (nominal scales : list R) : length scales = length nominal ->
    Forall (fun u => lo <= u <= hi) scales ->
    Forall2 (fun n v => between_scaled n lo hi v) nominal (map2 Rmult nominal scales).
  Proof.
    revert scales; induction nominal as [|n tl IH]; intros [|u us] L F; cbn in *; try lia; constructor.
    - inversion F; subst. apply scale_between. assumption.
    - apply IH; [lia | inversion F; assumption].
  Qed.

  Lemma map2_nth (nominal scales : list R) j n u :
    nth_error nominal j = Some n -> nth_error scales j = Some u ->
    nth_error (map2 Rmult nominal scales) j = Some (n * u).
  Proof.
    revert scales j; induction nominal as [|x tl IH]; intros [|y ys] [|j] A B; cbn in *; try discriminate.
    - inversion A; inversion B; reflexivity.
    - apply IH; assumption.
  Qed.

  Lemma add_at_same i d (l : list R) x : nth_error l i = Some x -> nth_error (add_at i d l) i = Some (x + d).
  Proof.
    revert i; induction l as [|y tl IH]; intros [|i] H; cbn in *; try discriminate.
    - inversion H; reflexivity.
    - apply IH; assumption.
  Qed.

  Lemma add_at_other i j d (l : list R) : i <> j -> nth_error (add_at i d l) j = nth_error l j.
  Proof.
    revert i j; induction l as [|y tl IH]; intros [|i] [|j] H; cbn; try reflexivity; try lia.
    apply IH. lia.
  Qed.

  (* body masses: scaled within range; the torso additionally carries the payload offset *)
  Theorem body_mass_spec (m : model) nominal scales torso off lo hi olo ohi j n u :
    nth_error nominal j = Some n -> nth_error scales j = Some u ->
    lo <= u <= hi -> olo <= off <= ohi ->
    exists v, nth_error (body_mass (randomize_body_mass m nominal scales torso off)) j = Some v
      /\ (j <> torso -> between_scaled n lo hi v)
      /\ (j = torso -> between_scaled n lo hi (v - off) /\ olo <= v - n * u <= ohi).
  Proof.
    intros A B Hu Ho. cbn [body_mass randomize_body_mass].
    pose proof (map2_nth nominal scales j n u A B) as E.
    destruct (Nat.eq_dec torso j) as [->|D].
    - exists (n * u + off). split; [apply add_at_same; assumption|]. split; [intros X; contradiction X; reflexivity|].
      intros _. split.
      + replace (n * u + off - off) with (n * u) by lra. apply scale_between; assumption.
      + lra.
    - exists (n * u). split; [rewrite add_at_other by assumption; assumption|]. split.
      + intros _. apply scale_between; assumption.
      + intros X. symmetry in X. contradiction.
  Qed.

  (* friction loss / armature: the six free-joint DOFs keep their value, the actuated ones are scaled in range *)
  Theorem friction_loss_spec (m : model) nominal scales lo hi :
    (6 <= length (dof_frictionloss m))%nat -> length scales = length nominal ->
    Forall (fun u => lo <= u <= hi) scales ->
    let m' := randomize_friction_loss m nominal scales in
    firstn 6 (dof_frictionloss m') = firstn 6 (dof_frictionloss m)
    /\ Forall2 (fun n v => between_scaled n lo hi v) nominal (skipn 6 (dof_frictionloss m')).
  Proof.
    intros L E F. cbn zeta. cbn [dof_frictionloss randomize_friction_loss].
    split; [apply set_from6_head; assumption|].
    rewrite set_from6_tail by assumption. apply map2_between; assumption.
  Qed.

  Theorem armature_spec (m : model) nominal scales lo hi :
    (6 <= length (dof_armature m))%nat -> length scales = length nominal ->
    Forall (fun u => lo <= u <= hi) scales ->
    let m' := randomize_armature m nominal scales in
    firstn 6 (dof_armature m') = firstn 6 (dof_armature m)
    /\ Forall2 (fun n v => between_scaled n lo hi v) nominal (skipn 6 (dof_armature m')).
  Proof.
    intros L E F. cbn zeta. cbn [dof_armature randomize_armature].
    split; [apply set_from6_head; assumption|].
    rewrite set_from6_tail by assumption. apply map2_between; assumption.
  Qed.
End RandomizeProofs.

(* hypotheses are satisfiable: a two-pair, eight-dof, three-body instance *)
Example randomize_example :
  let m := {| pair_friction := [[1;1;2;3;4]; [1;1;2;3;4]; [5;5;6;7;8]];
              dof_frictionloss := [0;0;0;0;0;0;1;2]; dof_armature := [0;0;0;0;0;0;1;1];
              body_mass := [0;2;3]; rest := tt |} in
  let d := {| d_friction := 1/2; d_floss := [1/2; 2]; d_armature := [1; 1]; d_mass := [1;1;1]; d_torso := 1 |} in
  let m' := randomize_model m [1;2] [1;1] [0;2;3] 2 d in
  pair_friction m' = [[1/2;1/2;2;3;4]; [1/2;1/2;2;3;4]; [5;5;6;7;8]]
  /\ dof_frictionloss m' = [0;0;0;0;0;0;1*(1/2);2*2] /\ body_mass m' = [0*1; 2*1; 3*1+1] /\ rest m' = tt.
Proof. cbn. repeat split. Qed.

(* ------------------------------------------------------------------ *)
(* the executable rational model is the restriction of the real model  *)
(* ------------------------------------------------------------------ *)
Lemma Q2R_inject_Z z : Q2R (inject_Z z) = IZR z.
Proof. unfold Q2R; cbn. lra. Qed.

Lemma Q2R_two : Q2R 2 = 2.
Proof. unfold Q2R; cbn. lra. Qed.

Lemma Q2R_three : Q2R 3 = 3.
Proof. unfold Q2R; cbn. lra. Qed.

Lemma Q2R_one : Q2R 1 = 1.
Proof. unfold Q2R; cbn. lra. Qed.

Lemma Q2R_zero : Q2R 0 = 0.
Proof. unfold Q2R; cbn. lra. Qed.

Lemma Q2R_half : Q2R (1 # 2) = 1 / 2.
Proof. unfold Q2R; cbn. lra. Qed.

Lemma Q2R_Qred q : Q2R (Qred q) = Q2R q.
Proof. apply Qeq_eqR. apply Qred_correct. Qed.

Lemma Qfloor_Int_part q : Qfloor q = Int_part (Q2R q).
Proof.
  apply Int_part_unique. split.
  - rewrite <- Q2R_inject_Z. apply Qle_Rle. apply Qfloor_le.
  - pose proof (Qlt_floor q) as H. apply Qlt_Rlt in H.
    rewrite Q2R_inject_Z, plus_IZR in H. simpl in H. exact H.
Qed.

Lemma Qtrunc_Rtrunc q : Qtrunc q = Rtrunc (Q2R q).
Proof.
  unfold Rtrunc. destruct (Rle_dec 0 (Q2R q)) as [H|H].
  - rewrite <- Qfloor_Int_part. rewrite <- Q2R_zero in H. apply Rle_Qle in H.
    destruct q as [n d]. unfold Qle in H; cbn in H. unfold Qtrunc, Qfloor; cbn.
    apply Z.quot_div_nonneg; lia.
  - assert (G : Q2R q < 0) by lra. rewrite <- Q2R_zero in G. apply Rlt_Qlt in G.
    rewrite <- Q2R_opp, <- Qfloor_Int_part.
    destruct q as [n d]. unfold Qlt in G; cbn in G. unfold Qtrunc, Qfloor; cbn.
    replace n with (- (- n))%Z at 1 by lia.
    rewrite Z.quot_opp_l by lia. f_equal. apply Z.quot_div_nonneg; lia.
Qed.

Lemma fmodQ_fmodR x y : ~ (y == 0)%Q -> Q2R (fmodQ x y) = fmodR (Q2R x) (Q2R y).
Proof.
  intros Hy. unfold fmodQ, fmodR.
  rewrite Q2R_Qred, Q2R_minus, Q2R_mult, Q2R_inject_Z, Qtrunc_Rtrunc, Q2R_div by assumption.
  reflexivity.
Qed.

Theorem advance1Q_restricts hp ph f dt : (0 < hp)%Q ->
  Q2R (advance1Q hp ph f dt) = advance1 (Q2R hp) (Q2R ph) (Q2R f) (Q2R dt).
Proof.
  intros Hp. unfold advance1Q, advance1, phase_incrementQ, phase_increment.
  assert (N : ~ (2 * hp == 0)%Q).
  { intros E. assert (0 < 2 * hp)%Q by (apply Qmult_lt_0_compat; [reflexivity | assumption]).
    rewrite E in H. apply (Qlt_irrefl 0). assumption. }
  rewrite Q2R_Qred, Q2R_minus, fmodQ_fmodR by assumption.
  rewrite !Q2R_plus, !Q2R_mult, Q2R_two. reflexivity.
Qed.

Lemma bezierQ_restricts x : Q2R (bezierQ x) = bezier (Q2R x).
Proof.
  unfold bezierQ, bezier.
  rewrite Q2R_plus, !Q2R_mult, Q2R_minus, Q2R_three, Q2R_one. ring.
Qed.

Theorem foot_heightQ_restricts hp ph h : (0 < hp)%Q ->
  Q2R (foot_heightQ hp ph h) = foot_height (Q2R hp) (Q2R ph) (Q2R h).
Proof.
  intros Hp. unfold foot_heightQ, foot_height, cubic_bezierQ, cubic_bezier. cbn zeta.
  assert (N : ~ (2 * hp == 0)%Q).
  { intros E. assert (0 < 2 * hp)%Q by (apply Qmult_lt_0_compat; [reflexivity | assumption]).
    rewrite E in H. apply (Qlt_irrefl 0). assumption. }
  rewrite Q2R_Qred.
  assert (X : Q2R ((ph + hp) / (2 * hp)) = (Q2R ph + Q2R hp) / (2 * Q2R hp)).
  { rewrite Q2R_div, Q2R_plus, Q2R_mult, Q2R_two by assumption. reflexivity. }
  set (x := ((ph + hp) / (2 * hp))%Q) in *.
  destruct (Qle_bool x (1 # 2)) eqn:B.
  - apply Qle_bool_iff in B. apply Qle_Rle in B. rewrite Q2R_half, X in B.
    destruct (Rle_dec ((Q2R ph + Q2R hp) / (2 * Q2R hp)) (1 / 2)); [|contradiction].
    rewrite Q2R_plus, Q2R_mult, Q2R_minus, bezierQ_restricts, Q2R_mult, Q2R_two, X, Q2R_zero. reflexivity.
  - destruct (Rle_dec ((Q2R ph + Q2R hp) / (2 * Q2R hp)) (1 / 2)) as [L|L].
    + exfalso. rewrite <- X, <- Q2R_half in L. apply Rle_Qle in L. apply Qle_bool_iff in L. congruence.
    + rewrite Q2R_plus, Q2R_mult, Q2R_minus, bezierQ_restricts, Q2R_minus, Q2R_mult, Q2R_two, Q2R_one, X, Q2R_zero.
      reflexivity.
Qed.
