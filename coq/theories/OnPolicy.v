(* On-policy rollout collection: lerax/algorithm/on_policy.py:185-217 (collect_rollout),
   :340-433 (step), :435-449 (post_collect).  Executable definitions only. *)
From Coq Require Import List ZArith QArith Qround Bool.
From Lerax Require Import Common Env Tab Gae.
Import ListNotations.

(* ---------- actor-critic policies ---------- *)
Record acpol (PS A O : Type) := {
  p_reset : kpath -> PS;
  (* action_and_value: new state, action, value, log-prob *)
  p_act   : PS -> O -> kpath -> option (list bool) -> PS * A * Q * Q;
  p_value : PS -> O -> Q;
  (* evaluate_action: value, log-prob *)
  p_eval  : PS -> O -> A -> option (list bool) -> Q * Q }.
Arguments p_reset {PS A O}. Arguments p_act {PS A O}. Arguments p_value {PS A O}. Arguments p_eval {PS A O}.

Section Rollout.
  Context {S PS O : Type}.
  Variable gamma : Q.
  Variable E : env S Q O.
  Variable P : acpol PS Q O.

  Record orow := {
    r_obs : O; r_act : Q; r_rew : Q; r_done : bool; r_logp : Q; r_val : Q; r_pstate : PS;
    r_mask : option (list bool);
    (* not stored in the buffer, observed through the callback / for the theorems *)
    r_env_rew : Q; r_term : bool; r_trunc : bool; r_exec : Q }.

  (* if isinstance(env.action_space, Box): clipped = clip(action, low, high) *)
  Definition clip_action (a : Q) : Q :=
    match e_asp E with SpBox _ lo hi => clipQ lo hi a | SpDisc _ => a end.

  (* one step; key split 9 ways:
     0 action, 1 transition, 2 observation (also mask), 3 reward, 4 terminal,
     5 bootstrap, 6 env reset, 7 policy reset, 8 callback *)
  Definition op_step (st : S * PS) (k : kpath) : (S * PS) * orow :=
    let '(es, ps) := st in
    let obs := e_obs E es (ks k 9 2) in
    let mask := e_mask E es (ks k 9 2) in
    let '(ps1, a, v, lp) := p_act P ps obs (ks k 9 0) mask in
    let ca := clip_action a in
    let es1 := e_trans E es ca (ks k 9 1) in
    let r := e_rew E es ca es1 (ks k 9 3) in
    let te := e_term E es1 (ks k 9 4) in
    let tr := e_trunc E es1 in
    let done := te || tr in
    (* bootstrap through a pure time-limit truncation only *)
    let br := if tr && negb te then r + gamma * p_value P ps1 (e_obs E es1 (ks k 9 5)) else r in
    let es2 := if done then e_init E (ks k 9 6) else es1 in
    let ps2 := if done then p_reset P (ks k 9 7) else ps1 in
    ((es2, ps2),
     {| r_obs := obs; r_act := a; r_rew := br; r_done := done; r_logp := lp; r_val := v; r_pstate := ps;
        r_mask := mask; r_env_rew := r; r_term := te; r_trunc := tr; r_exec := ca |}).

  Fixpoint scan_steps (st : S * PS) (keys : list kpath) : (S * PS) * list orow :=
    match keys with
    | [] => (st, [])
    | k :: tl => let '(st1, row) := op_step st k in
                 let '(st2, rows) := scan_steps st1 tl in (st2, row :: rows)
    end.

  Definition split_keys (k : kpath) (n : nat) : list kpath := map (fun i => ks k n i) (seq 0 n).

  (* key, post_collect_key = jr.split(key, 2); scan over jr.split(key, num_steps);
     post_collect: last value = V(policy_state, observation(env_state, key=post_collect_key)) *)
  Definition collect (T : nat) (st : S * PS) (k : kpath) : (S * PS) * list orow * Q :=
    let '(st1, rows) := scan_steps st (split_keys (ks k 2 0) T) in
    (st1, rows, p_value P (snd st1) (e_obs E (fst st1) (ks k 2 1))).

  Definition gae_rows (rows : list orow) : list (row Q) :=
    map (fun r => Build_row (r_rew r) (r_val r) (r_done r)) rows.

  (* advantages and returns stored by post_collect *)
  Definition collect_adv (lam : Q) (T : nat) (st : S * PS) (k : kpath) : list Q :=
    let '(_, rows, last) := collect T st k in
    gae_code Q 0 1 Qplus Qmult Qminus gamma lam last (gae_rows rows).

  (* N parallel environments: filter_vmap(collect_rollout) over per-env states and jr.split(rollout_key, N) *)
  Definition collect_vec (T : nat) (sts : list (S * PS)) (k : kpath) : list ((S * PS) * list orow * Q) :=
    map (fun p => collect T (fst p) (ks k (length sts) (snd p))) (combine sts (seq 0 (length sts))).

  (* AbstractOnPolicyStepState.initial: env_key, policy_key = jr.split(key, 2) *)
  Definition step_state_initial (k : kpath) : S * PS := (e_init E (ks k 2 0), p_reset P (ks k 2 1)).
End Rollout.
Arguments Build_orow {PS O}.
Arguments r_obs {PS O}. Arguments r_act {PS O}. Arguments r_rew {PS O}. Arguments r_done {PS O}.
Arguments r_logp {PS O}. Arguments r_val {PS O}. Arguments r_pstate {PS O}. Arguments r_mask {PS O}.
Arguments r_env_rew {PS O}. Arguments r_term {PS O}. Arguments r_trunc {PS O}. Arguments r_exec {PS O}.

(* ---------- tabular stub policy (mirror of harness/stubs.py TabPolicy) ---------- *)
Record ptab := {
  pNH  : Z;                         (* number of policy states *)
  pNHR : Z;                         (* reset draws a state below NHR *)
  pNA  : Z;                         (* number of discrete actions *)
  pACT : list (list (list Q));      (* candidate actions  ACT[o][h][j] *)
  pV   : list (list Q);             (* values             V[o][h]      *)
  pLP  : list (list Q);             (* discrete log-probs LP[o][a]     *)
  pMU  : list Q;                    (* box: log-prob = -(a - MU[o])^2  *)
  pBox : bool }.

(* first allowed action at or cyclically after the candidate *)
Fixpoint first_allowed (mask : list bool) (na : Z) (cand : Z) (fuel : nat) : Z :=
  match fuel with
  | O => cand
  | S f => if nthz mask (cand mod na)%Z false then (cand mod na)%Z else first_allowed mask na (cand + 1)%Z f
  end.

Definition obs_idx (o : list Q) : Z := Qfloor (hd 0 o).

Definition ptab_logp (p : ptab) (oi : Z) (a : Q) : Q :=
  if pBox p then - ((a - nthz (pMU p) oi 0) * (a - nthz (pMU p) oi 0))
  else nthz (nthz (pLP p) oi []) (Qfloor a) 0.

Definition tab_pol (p : ptab) (rw : rawtbl) : acpol Z Q (list Q) :=
  {| p_reset := fun k => (raw rw k mod pNHR p)%Z;
     p_act := fun h o k mask =>
       let oi := obs_idx o in
       let cand := pick (nthz (nthz (pACT p) oi []) h []) (raw rw k) 0 in
       let a := match mask with
                | Some m => if pBox p then cand else inject_Z (first_allowed m (pNA p) (Qfloor cand) (Z.to_nat (pNA p)))
                | None => cand
                end in
       (((h + 1 + oi) mod pNH p)%Z, a, nthz (nthz (pV p) oi []) h 0, ptab_logp p oi a);
     p_value := fun h o => nthz (nthz (pV p) (obs_idx o) []) h 0;
     p_eval := fun h o a mask => (nthz (nthz (pV p) (obs_idx o) []) h 0, ptab_logp p (obs_idx o) a) |}.
