(* C05 correspondence: replay buffers of an off-policy learner after reset() (warm-up) and after each
   collection of iteration(), on finite MDPs with tabular behaviour policies. *)
From Coq Require Import List Arith ZArith QArith Bool.
From Lerax Require Import Common Env Tab OnPolicy Replay OffPolicy C06Check.
Import ListNotations.

Definition est := ((list Z * Z) * Z)%type.
(* what the implementation holds for one environment at one observation point *)
Record snap := { s_state : est; s_pos : Z; s_rows : list row }.

Record case := {
  c_tab : tab; c_raw : rawtbl; c_stack : list wd; c_ptab : ptab;
  c_N : nat; c_buffer_size : nat; c_L : nat; c_T : nat;
  c_canon_a : Q;
  c_reset_key : kpath; c_iter_keys : list kpath;
  c_det : bool;
  c_after_reset : list snap;              (* per environment *)
  c_after_iter : list (list snap) }.      (* per iteration, per environment *)

Definition est_eqb (a b : est) : bool :=
  Zeqb_list (fst (fst a)) (fst (fst b)) && Z.eqb (snd (fst a)) (snd (fst b)) && Z.eqb (snd a) (snd b).

Definition snap_ok (m : (ws Z * Z) * soa (list Q) Q Z) (s : snap) : bool :=
  let '(st, b) := m in
  est_eqb st (s_state s) && Z.eqb (Z.of_nat (b_pos b)) (s_pos s)
  && forallb2 row_eqb (map (row_at d0 b) (seq 0 (current_size b))) (s_rows s).

Definition run_ok (c : case) (rw : rawtbl) : bool :=
  let E := wrap_d (c_stack c) (tab_env (c_tab c) rw) in
  let P := tab_pol (c_ptab c) rw in
  let r0 := off_reset E P (c_N c) (c_buffer_size c) (c_L c) [0] (c_canon_a c) (c_reset_key c) in
  forallb2 snap_ok r0 (c_after_reset c)
  && forallb2 (fun ms ss => forallb2 snap_ok ms ss) (off_iterations E P (c_T c) r0 (c_iter_keys c)) (c_after_iter c).

Definition agree (c : case) : bool := run_ok c (c_raw c).
(* key-free cases decide the property independently of key routing *)
Definition holds (c : case) : bool := if c_det c then run_ok c [] else true.

(* position arithmetic of the property: learning_starts after reset, + num_steps per iteration, per environment *)
Definition positions_ok (c : case) : bool :=
  forallb (fun s => Z.eqb (s_pos s) (Z.of_nat (c_L c))) (c_after_reset c)
  && forallb2 (fun k ss => forallb (fun s => Z.eqb (s_pos s) (Z.of_nat (c_L c + k * c_T c))) ss)
              (seq 1 (length (c_after_iter c))) (c_after_iter c)
  && Nat.eqb (length (c_after_reset c)) (c_N c).
