(* C03 correspondence: one case = one call of
   RolloutBuffer.compute_returns_and_advantages on exact (dyadic) data,
   with the implementation's advantages and returns. *)
From Coq Require Import List Bool QArith Qreals Reals.
From Lerax Require Import Common Gae GaeProofs.
Import ListNotations.

Record case := { c_gamma : Q; c_lambda : Q; c_last : Q; c_rows : list (row Q);
                 c_adv : list Q; c_ret : list Q }.

(* model (code-shaped) output = implementation output *)
Definition agree (c : case) : bool :=
  Qeqb_list (gaeQ (c_gamma c) (c_lambda c) (c_last c) (c_rows c)) (c_adv c)
  && Qeqb_list (retQ (c_adv c) (c_rows c)) (c_ret c).

(* the property itself, evaluated on the implementation's output *)
Definition holds (c : case) : bool :=
  Qeqb_list (specQ (c_gamma c) (c_lambda c) (c_last c) (c_rows c)) (c_adv c)
  && Qeqb_list (map (fun p => fst p + vl (snd p))%Q (combine (c_adv c) (c_rows c))) (c_ret c).

Definition model_case g l last rows : case :=
  let a := gaeQ g l last rows in
  {| c_gamma := g; c_lambda := l; c_last := last; c_rows := rows; c_adv := a; c_ret := retQ a rows |}.

Lemma Qeqb_list_of_Q2R a b : map Q2R a = map Q2R b -> Qeqb_list a b = true.
Proof.
  revert b; induction a as [|x a IH]; intros [|y b] H; try discriminate; [reflexivity|].
  unfold Qeqb_list in *. cbn [map forallb2] in *. inversion H as [[H1 H2]]. apply andb_true_intro; split; [|apply IH; assumption].
  apply Qeq_bool_iff. apply eqR_Qeq. assumption.
Qed.

Lemma Qeqb_list_refl a : Qeqb_list a a = true.
Proof.
  induction a as [|x a IH]; [reflexivity|]. unfold Qeqb_list in *. cbn [forallb2].
  rewrite IH, andb_true_r. apply Qeq_bool_iff. reflexivity.
Qed.

(* the model's output always satisfies the property predicate *)
Theorem model_holds g l last rows : holds (model_case g l last rows) = true.
Proof.
  unfold holds, model_case; cbn [c_gamma c_lambda c_last c_rows c_adv c_ret].
  apply andb_true_intro; split.
  - apply Qeqb_list_of_Q2R. rewrite gaeQ_is_spec, specQ_restricts_specR. reflexivity.
  - apply Qeqb_list_refl.
Qed.

(* and whenever the predicate holds of an implementation output, that output
   is the GAE recursion over the reals (soundness of the predicate) *)
Lemma Qeqb_list_Q2R a b : Qeqb_list a b = true -> map Q2R a = map Q2R b.
Proof.
  revert b; induction a as [|x a IH]; intros [|y b] H; try discriminate; [reflexivity|].
  unfold Qeqb_list in *. cbn [map forallb2] in *. apply andb_prop in H as [H1 H2]. f_equal; [|apply IH; assumption].
  apply Qeq_eqR. apply Qeq_bool_iff. assumption.
Qed.

Theorem holds_sound c : holds c = true ->
  map Q2R (c_adv c) = specR (Q2R (c_gamma c)) (Q2R (c_lambda c)) (Q2R (c_last c)) (map (map_row Q2R) (c_rows c)).
Proof.
  unfold holds. intros H. apply andb_prop in H as [H _].
  rewrite <- specQ_restricts_specR. symmetry. apply Qeqb_list_Q2R. assumption.
Qed.
