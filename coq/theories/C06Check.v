(* C06 correspondence: insertion histories into real ReplayBuffers (one or several per-environment
   buffers of the same capacity), their contents, and batches returned by sample(). *)
From Coq Require Import List Arith ZArith QArith Bool.
From Lerax Require Import Common Replay.
Import ListNotations.

Definition row := trow (list Q) Q Z.

Definition row_eqb (a b : row) : bool :=
  Qeqb_list (t_obs a) (t_obs b) && Qeqb_list (t_next a) (t_next b) && Qeq_bool (t_act a) (t_act b)
  && Qeq_bool (t_rew a) (t_rew b) && Bool.eqb (t_done a) (t_done b) && Bool.eqb (t_timeout a) (t_timeout b)
  && Z.eqb (t_ps a) (t_ps b) && Z.eqb (t_nps a) (t_nps b).

Record case := {
  c_C : nat;
  c_hists : list (list row);        (* per environment: everything ever inserted, oldest first *)
  c_pos : list Z;                   (* impl: position per environment *)
  c_rows : list (list row);         (* impl: rows of the slots 0 .. min(position,size)-1 per environment *)
  c_batches : list (list row) }.    (* impl: rows returned by sample(batch_size <= stored) for several keys *)

Definition d0 : row := {| t_obs := []; t_next := []; t_act := 0; t_rew := 0; t_done := false; t_timeout := false; t_ps := 0%Z; t_nps := 0%Z |}.

Definition model_buf (C : nat) (xs : list row) : soa (list Q) Q Z := soa_run C [] 0 0%Z xs.
Definition model_rows (C : nat) (xs : list row) : list row :=
  let b := model_buf C xs in map (row_at d0 b) (seq 0 (current_size b)).

(* slot-by-slot agreement with the ring model *)
Definition agree (c : case) : bool :=
  forallb2 (fun xs p => Z.eqb (Z.of_nat (length xs)) p) (c_hists c) (c_pos c)
  && forallb2 (fun xs rows => forallb2 row_eqb (model_rows (c_C c) xs) rows) (c_hists c) (c_rows c).

(* the most recent min(n, C) insertions *)
Definition lastn {X} (n : nat) (l : list X) : list X := skipn (length l - n) l.
Definition recent (C : nat) (xs : list row) : list row := lastn (Nat.min (length xs) C) xs.

Definition mem (r : row) (l : list row) : bool := existsb (row_eqb r) l.
Fixpoint nodup_rows (l : list row) : bool :=
  match l with [] => true | r :: tl => negb (mem r tl) && nodup_rows tl end.

(* the property, independent of slot order: contents = exactly the most recent min(n,C) transitions, each intact;
   every sampled row is one of them, none twice (histories carry unique ids so equal rows mean equal insertions) *)
Definition holds (c : case) : bool :=
  forallb2 (fun xs rows =>
      Nat.eqb (length rows) (Nat.min (length xs) (c_C c))
      && forallb (fun r => mem r (recent (c_C c) xs)) rows && nodup_rows rows
      && forallb (fun r => mem r rows) (recent (c_C c) xs)) (c_hists c) (c_rows c)
  && forallb (fun batch => nodup_rows batch
                && forallb (fun r => existsb (fun xs => mem r (recent (c_C c) xs)) (c_hists c)) batch) (c_batches c).
