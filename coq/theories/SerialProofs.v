(* C18 -- theorems about the save/load model of Lerax.Serial. *)
From Coq Require Import String.
From Coq Require Import List ZArith Bool Lia.
From Lerax Require Import Common Serial.
Import ListNotations.
Open Scope Z_scope.

(* ---------------------------------------------------------------- boolean equalities reflect equality *)
Lemma forallb2_eq {A} (f : A -> A -> bool) :
  (forall x y, f x y = true <-> x = y) -> forall a b, forallb2 f a b = true <-> a = b.
Proof.
  intros Hf a. induction a as [|x a IH]; intros [|y b]; cbn; split; intro H;
    try reflexivity; try discriminate.
  - apply andb_prop in H as [H1 H2]. apply Hf in H1. apply IH in H2. congruence.
  - inversion H; subst. apply andb_true_intro; split; [apply Hf | apply IH]; reflexivity.
Qed.

Lemma spec_eqb_eq a b : spec_eqb a b = true <-> a = b.
Proof.
  unfold spec_eqb. destruct a as [sa da], b as [sb db]; cbn. rewrite andb_true_iff, Zeqb_list_eq, Z.eqb_eq.
  split; [intros [-> ->]; reflexivity | intros H; inversion H; auto].
Qed.

Lemma leaf_eqb_eq a b : leaf_eqb a b = true <-> a = b.
Proof.
  unfold leaf_eqb. destruct a as [sa da xa], b as [sb db xb]; cbn.
  rewrite !andb_true_iff, !Zeqb_list_eq, Z.eqb_eq.
  split; [intros [[-> ->] ->]; reflexivity | intros H; inversion H; auto].
Qed.

Lemma skeleton_eqb_eq a b : skeleton_eqb a b = true <-> a = b.
Proof. apply forallb2_eq, spec_eqb_eq. Qed.

Lemma policy_eqb_eq a b : policy_eqb a b = true <-> a = b.
Proof. apply forallb2_eq, leaf_eqb_eq. Qed.

Lemma name_eqb_eq a b : name_eqb a b = true <-> a = b.
Proof. apply forallb2_eq. intros x y. apply String.eqb_eq. Qed.

Lemma name_eqb_refl a : name_eqb a a = true.
Proof. apply name_eqb_eq. reflexivity. Qed.

Lemma path_eqb_eq a b : path_eqb a b = true <-> a = b.
Proof.
  unfold path_eqb. destruct a as [da na], b as [db nb]; cbn. rewrite andb_true_iff, !name_eqb_eq.
  split; [intros [-> ->]; reflexivity | intros H; inversion H; auto].
Qed.

Lemma path_eqb_refl a : path_eqb a a = true.
Proof. apply path_eqb_eq. reflexivity. Qed.

Lemma path_eqb_neq a b : a <> b -> path_eqb a b = false.
Proof. intros H. destruct (path_eqb a b) eqn:E; [apply path_eqb_eq in E; contradiction | reflexivity]. Qed.

Lemma spec_eqb_refl a : spec_eqb a a = true.
Proof. apply spec_eqb_eq. reflexivity. Qed.

Lemma same_fileb_iff a b : same_fileb a b = true <-> same_file a b.
Proof. apply path_eqb_eq. Qed.

(* ---------------------------------------------------------------- save / load *)
Lemma leaf_of_rec_of l : leaf_of (rec_of l) = l.
Proof. destruct l; reflexivity. Qed.

Lemma rec_of_leaf_of r : rec_of (leaf_of r) = r.
Proof. destruct r as [[sh dt] pl]; reflexivity. Qed.

Lemma decode_save p : decode (save p) = p.
Proof. unfold decode, save. rewrite map_map. rewrite <- (map_id p) at 2. apply map_ext, leaf_of_rec_of. Qed.

Lemma save_decode f : save (decode f) = f.
Proof. unfold decode, save. rewrite map_map. rewrite <- (map_id f) at 2. apply map_ext, rec_of_leaf_of. Qed.

Lemma headers_save p : headers (save p) = skeleton_of p.
Proof. unfold headers, save, skeleton_of. rewrite map_map. reflexivity. Qed.

Lemma skeleton_of_decode f : skeleton_of (decode f) = headers f.
Proof. unfold skeleton_of, decode, headers. rewrite map_map. apply map_ext. intros [[sh dt] pl]; reflexivity. Qed.

(* complete characterisation: load succeeds exactly when the file's headers ARE the
   skeleton (same number of leaves, same shape and dtype at every position), and it
   then returns exactly what the file holds *)
Theorem load_spec sk f q : load sk f = Some q <-> headers f = sk /\ q = decode f.
Proof.
  revert f q. induction sk as [|s sk IH]; intros [|r f] q; cbn.
  - split; [intros H; inversion H; auto | intros [_ ->]; reflexivity].
  - split; [discriminate | intros [H _]; discriminate].
  - split; [discriminate | intros [H _]; discriminate].
  - destruct (spec_eqb s (r_hdr r)) eqn:E.
    + apply spec_eqb_eq in E. destruct (load sk f) as [q'|] eqn:L.
      * apply IH in L as [L1 L2]. split.
        -- intros H; inversion H; subst. split; reflexivity.
        -- intros [_ ->]. subst; reflexivity.
      * split; [discriminate|]. intros [H1 H2]. inversion H1 as [[H3 H4]].
        assert (load sk f = Some (decode f)) as C by (apply IH; split; [assumption | reflexivity]).
        congruence.
    + split; [discriminate|]. intros [H1 _]. inversion H1 as [[H3 H4]].
      rewrite <- H3, spec_eqb_refl in E. discriminate.
Qed.

(* round trip: every leaf comes back bit-identical, for every policy *)
Theorem round_trip p : load (skeleton_of p) (save p) = Some p.
Proof. apply load_spec. split; [apply headers_save | symmetry; apply decode_save]. Qed.

(* a skeleton that differs ANYWHERE (shape or dtype of some leaf, or number of leaves): error *)
Theorem load_mismatch p sk : sk <> skeleton_of p -> load sk (save p) = None.
Proof.
  intros H. destruct (load sk (save p)) as [q|] eqn:L; [|reflexivity].
  apply load_spec in L as [L _]. rewrite headers_save in L. congruence.
Qed.

Theorem load_none_iff sk f : load sk f = None <-> headers f <> sk.
Proof.
  split.
  - intros L E. assert (load sk f = Some (decode f)) by (apply load_spec; auto). congruence.
  - intros H. destruct (load sk f) as [q|] eqn:L; [|reflexivity]. apply load_spec in L as [L _]. contradiction.
Qed.

(* never a partial load: a returned policy has exactly the skeleton's shapes and dtypes,
   exactly the file's payloads, and as many leaves as both *)
Theorem load_some_exact sk f q : load sk f = Some q ->
  skeleton_of q = sk /\ map l_data q = map r_payload f /\ length q = length sk /\ length q = length f.
Proof.
  intros L. apply load_spec in L as [L1 ->]. subst sk. repeat split.
  - apply skeleton_of_decode.
  - unfold decode. rewrite map_map. reflexivity.
  - unfold decode, headers. rewrite !map_length. reflexivity.
  - unfold decode. rewrite map_length. reflexivity.
Qed.

Corollary load_leaf_count sk f q : load sk f = Some q -> length sk = length f.
Proof. intros L. apply load_some_exact in L as (_ & _ & A & B). congruence. Qed.

(* first difference: the leaves before it do not rescue the load *)
Theorem load_mismatch_at sk f i s r :
  nth_error sk i = Some s -> nth_error f i = Some r -> s <> r_hdr r -> load sk f = None.
Proof.
  intros Hs Hr Hne. apply load_none_iff. intros E. subst sk. unfold headers in Hs.
  rewrite nth_error_map, Hr in Hs. cbn in Hs. inversion Hs. congruence.
Qed.

(* whatever is computed from the leaves -- actions, values, log-probabilities on any
   observation -- is the same for the loaded policy *)
Theorem round_trip_outputs {X} (out : policy -> X) p q :
  load (skeleton_of p) (save p) = Some q -> out q = out p.
Proof. rewrite round_trip. intros H; inversion H; reflexivity. Qed.

(* anything that loads from a saved policy into some skeleton IS that policy *)
Theorem load_save_some p sk q : load sk (save p) = Some q -> q = p /\ sk = skeleton_of p.
Proof. intros L. apply load_spec in L as [L1 ->]. rewrite headers_save in L1. rewrite decode_save. auto. Qed.

(* ---------------------------------------------------------------- the path rule *)
Lemma rev_snoc {A} (l : list A) x : rev (l ++ [x]) = x :: rev l.
Proof. rewrite rev_app_distr. reflexivity. Qed.

Lemma has_eqx_snoc n : n <> [] -> has_eqx (n ++ [eqx]) = true.
Proof.
  intros H. unfold has_eqx. rewrite rev_snoc. destruct (rev n) as [|y t] eqn:E.
  - apply (f_equal (@rev string)) in E. rewrite rev_involutive in E. cbn in E. contradiction.
  - apply String.eqb_refl.
Qed.

Lemma has_eqx_last n : has_eqx n = true -> exists init, init <> [] /\ n = init ++ [eqx].
Proof.
  unfold has_eqx. destruct (rev n) as [|l [|y t]] eqn:E; try discriminate. intros H.
  apply String.eqb_eq in H. subst l. exists (rev (y :: t)). split.
  - cbn. intros C. apply app_eq_nil in C as [_ C]. discriminate.
  - apply (f_equal (@rev string)) in E. rewrite rev_involutive in E. rewrite E. reflexivity.
Qed.

(* the spelled name is never altered, only extended: either kept or ".eqx" appended *)
Theorem resolve_name_cases n :
  (has_eqx n = true /\ resolve_name n = n) \/ (has_eqx n = false /\ resolve_name n = n ++ [eqx]).
Proof. unfold resolve_name. destruct (has_eqx n); auto. Qed.

Theorem resolve_name_keeps_spelling n : firstn (length n) (resolve_name n) = n.
Proof.
  destruct (resolve_name_cases n) as [[_ ->]|[_ ->]].
  - apply firstn_all.
  - rewrite firstn_app, firstn_all, Nat.sub_diag. cbn. apply app_nil_r.
Qed.

Theorem resolve_name_ends_eqx n : n <> [] -> has_eqx (resolve_name n) = true.
Proof.
  intros H. destruct (resolve_name_cases n) as [[E ->]|[_ ->]]; [assumption | apply has_eqx_snoc, H].
Qed.

Theorem resolve_name_idem n : n <> [] -> resolve_name (resolve_name n) = resolve_name n.
Proof. intros H. unfold resolve_name at 1. rewrite resolve_name_ends_eqx by assumption. reflexivity. Qed.

(* "p" and "p.eqx" name the same file (p without the suffix) *)
Theorem resolve_name_add_eqx n : n <> [] -> has_eqx n = false -> resolve_name (n ++ [eqx]) = resolve_name n.
Proof.
  intros H E. unfold resolve_name. rewrite E, has_eqx_snoc by assumption. reflexivity.
Qed.

(* distinct spellings collide only when they differ by the ".eqx" suffix *)
Theorem resolve_name_inj a b :
  resolve_name a = resolve_name b -> a = b \/ a = b ++ [eqx] \/ b = a ++ [eqx].
Proof.
  destruct (resolve_name_cases a) as [[_ ->]|[_ ->]], (resolve_name_cases b) as [[_ ->]|[_ ->]]; intros H; auto.
  apply app_inj_tail in H as [H _]. auto.
Qed.

Theorem resolve_idem p : p_name p <> [] -> resolve (resolve p) = resolve p.
Proof. intros H. unfold resolve; cbn. rewrite resolve_name_idem by assumption. reflexivity. Qed.

Theorem same_file_refl p : same_file p p.
Proof. reflexivity. Qed.

Theorem same_file_add_eqx d n : n <> [] -> has_eqx n = false ->
  same_file {| p_dir := d; p_name := n |} {| p_dir := d; p_name := n ++ [eqx] |}.
Proof. intros H E. unfold same_file, resolve; cbn. rewrite resolve_name_add_eqx by assumption. reflexivity. Qed.

Theorem same_file_inv a b : same_file a b ->
  p_dir a = p_dir b /\ (p_name a = p_name b \/ p_name a = p_name b ++ [eqx] \/ p_name b = p_name a ++ [eqx]).
Proof.
  unfold same_file, resolve. intros H. injection H as H1 H2. split; [exact H1 | apply resolve_name_inj, H2].
Qed.

(* the spellings named in the property *)
Example resolve_m : resolve_name ["m"%string] = ["m"%string; eqx].
Proof. reflexivity. Qed.
Example resolve_m_eqx : resolve_name ["m"%string; eqx] = ["m"%string; eqx].
Proof. reflexivity. Qed.
Example resolve_m_v1 : resolve_name ["m"%string; "v1"%string] = ["m"%string; "v1"%string; eqx].
Proof. reflexivity. Qed.
Example resolve_m_v1_eqx : resolve_name ["m"%string; "v1"%string; eqx] = ["m"%string; "v1"%string; eqx].
Proof. reflexivity. Qed.
Example resolve_m_v1_not_m : resolve_name ["m"%string; "v1"%string] <> resolve_name ["m"%string].
Proof. discriminate. Qed.
Example resolve_v1_not_v2 : resolve_name ["m"%string; "v1"%string] <> resolve_name ["m"%string; "v2"%string].
Proof. discriminate. Qed.

(* ---------------------------------------------------------------- the file system *)
Lemma existsb_name_In d l : existsb (name_eqb d) l = true <-> In d l.
Proof.
  rewrite existsb_exists. split.
  - intros [x [H1 H2]]. apply name_eqb_eq in H2. subst; assumption.
  - intros H. exists d. split; [assumption | apply name_eqb_refl].
Qed.

Lemma prefixes_ne_In a b : a <> [] -> In a (prefixes_ne (a ++ b)).
Proof.
  revert b. induction a as [|x a IH]; intros b H; [contradiction|]. cbn.
  destruct a as [|y a]; [left; reflexivity|]. right. apply in_map. apply IH. discriminate.
Qed.

(* every parent on the way exists afterwards *)
Theorem mkdir_p_creates d s a b : d = a ++ b -> dir_exists a (mkdir_p d s) = true.
Proof.
  intros ->. unfold dir_exists. destruct a as [|x a]; [reflexivity|].
  apply existsb_name_In. cbn [mkdir_p fs_dirs]. apply in_or_app. left. apply prefixes_ne_In. discriminate.
Qed.

Theorem mkdir_p_keeps d s d' : dir_exists d' s = true -> dir_exists d' (mkdir_p d s) = true.
Proof.
  unfold dir_exists. destruct d' as [|x a]; [reflexivity|]. rewrite !existsb_name_In. intros H.
  cbn [mkdir_p fs_dirs]. apply in_or_app. right. assumption.
Qed.

Theorem mkdir_p_files d s : fs_files (mkdir_p d s) = fs_files s.
Proof. reflexivity. Qed.

(* saving never fails for want of a directory: whatever exists before *)
Theorem serialize_total s pth pol : exists s', serialize s pth pol = Some s'.
Proof.
  unfold serialize, write. cbn [resolve p_dir].
  rewrite (mkdir_p_creates (p_dir pth) s (p_dir pth) []) by (symmetry; apply app_nil_r).
  eexists; reflexivity.
Qed.

Lemma serialize_inv s pth pol s' : serialize s pth pol = Some s' ->
  fs_files s' = (resolve pth, save pol) :: fs_files s /\ fs_dirs s' = prefixes_ne (p_dir pth) ++ fs_dirs s.
Proof.
  unfold serialize, write. destruct (dir_exists _ _); [|discriminate]. intros H; inversion H; subst. split; reflexivity.
Qed.

(* the file that is written is the resolved one and holds the saved policy *)
Theorem serialize_writes s pth pol s' : serialize s pth pol = Some s' ->
  lookup s' (resolve pth) = Some (save pol).
Proof.
  intros H. apply serialize_inv in H as [H _]. unfold lookup. rewrite H. cbn. rewrite path_eqb_refl. reflexivity.
Qed.

(* no other file is created, replaced or removed *)
Theorem serialize_frame s pth pol s' q : serialize s pth pol = Some s' ->
  q <> resolve pth -> lookup s' q = lookup s q.
Proof.
  intros H Hq. apply serialize_inv in H as [H _]. unfold lookup. rewrite H. cbn.
  rewrite path_eqb_neq by congruence. reflexivity.
Qed.

(* all parents exist afterwards, directories that existed still do *)
Theorem serialize_parents s pth pol s' a b : serialize s pth pol = Some s' ->
  p_dir pth = a ++ b -> dir_exists a s' = true.
Proof.
  intros H E. apply serialize_inv in H as [_ H]. unfold dir_exists. destruct a as [|x a]; [reflexivity|].
  apply existsb_name_In. rewrite H, E. apply in_or_app. left. apply prefixes_ne_In. discriminate.
Qed.

(* save then load, through the file system, under any spelling of the same file,
   whatever the file system held before (parents missing or not) *)
Theorem round_trip_fs s pth pth' pol s' :
  serialize s pth pol = Some s' -> same_file pth pth' ->
  deserialize s' pth' (skeleton_of pol) = Some pol.
Proof.
  intros H E. unfold deserialize. rewrite <- E, (serialize_writes _ _ _ _ H). apply round_trip.
Qed.

Theorem mismatch_fs s pth pth' pol s' sk :
  serialize s pth pol = Some s' -> same_file pth pth' -> sk <> skeleton_of pol ->
  deserialize s' pth' sk = None.
Proof.
  intros H E Hne. unfold deserialize. rewrite <- E, (serialize_writes _ _ _ _ H). apply load_mismatch, Hne.
Qed.

(* whatever deserialize returns was saved under that very file with exactly that skeleton *)
Theorem deserialize_some s pth sk q : deserialize s pth sk = Some q ->
  exists f, lookup s (resolve pth) = Some f /\ headers f = sk /\ q = decode f.
Proof.
  unfold deserialize. destruct (lookup s (resolve pth)) as [f|]; [|discriminate].
  intros L. apply load_spec in L. exists f. tauto.
Qed.

(* saving under one name leaves a policy saved under another name loadable and intact *)
Theorem two_saves_independent s0 s1 s2 p1 p2 pol1 pol2 :
  serialize s0 p1 pol1 = Some s1 -> serialize s1 p2 pol2 = Some s2 -> ~ same_file p1 p2 ->
  deserialize s2 p1 (skeleton_of pol1) = Some pol1 /\ deserialize s2 p2 (skeleton_of pol2) = Some pol2.
Proof.
  intros H1 H2 Hne. split.
  - unfold deserialize. rewrite (serialize_frame _ _ _ _ _ H2) by exact Hne.
    rewrite (serialize_writes _ _ _ _ H1). apply round_trip.
  - apply (round_trip_fs _ _ _ _ _ H2). reflexivity.
Qed.

(* hypotheses are satisfiable: a two-leaf policy saved as "sub/dir/m.v1" into an empty
   file system and loaded back as "sub/dir/m.v1.eqx" *)
Definition ex_pol : policy :=
  [ {| l_shape := [2; 1]; l_dtype := 32; l_data := [1065353216; 3212836864] |};
    {| l_shape := []; l_dtype := 1064; l_data := [4591870180066957722] |} ].
Definition ex_fs0 : fs := {| fs_dirs := []; fs_files := [] |}.
Definition ex_path : path := {| p_dir := ["sub"%string; "dir"%string]; p_name := ["m"%string; "v1"%string] |}.
Definition ex_path' : path := {| p_dir := ["sub"%string; "dir"%string]; p_name := ["m"%string; "v1"%string; eqx] |}.
Example ex_round_trip :
  match serialize ex_fs0 ex_path ex_pol with
  | Some s' => deserialize s' ex_path' (skeleton_of ex_pol) = Some ex_pol
               /\ deserialize s' ex_path [ {| s_shape := [2; 2]; s_dtype := 32 |}; {| s_shape := []; s_dtype := 1064 |} ] = None
  | None => False
  end.
Proof. cbn. split; reflexivity. Qed.

(* ---------------------------------------------------------------- the rules before the fixes differ *)
(* (1) "m.v1" was written to "m.eqx" and looked for at "m.v1" *)
Example legacy_suffix_replaced :
  legacy_save_name ["m"%string; "v1"%string] = ["m"%string; eqx]
  /\ legacy_load_name ["m"%string; "v1"%string] = ["m"%string; "v1"%string]
  /\ legacy_save_name ["m"%string; "v1"%string] = legacy_save_name ["m"%string; "v2"%string].
Proof. repeat split. Qed.

Lemma legacy_names_agree_plain x : legacy_save_name [x] = resolve_name [x] /\ legacy_load_name [x] = resolve_name [x].
Proof. split; reflexivity. Qed.

Lemma legacy_names_agree_eqx x : legacy_save_name [x; eqx] = resolve_name [x; eqx] /\ legacy_load_name [x; eqx] = resolve_name [x; eqx].
Proof. split; reflexivity. Qed.

(* (2) a file with MORE records than the skeleton has leaves loaded "successfully" *)
Lemma legacy_load_prefix sk f extra q : load sk f = Some q -> legacy_load sk (f ++ extra) = Some q.
Proof.
  revert f q. induction sk as [|s sk IH]; intros [|r f] q; cbn; try discriminate.
  - intros H; inversion H. reflexivity.
  - destruct (spec_eqb s (r_hdr r)); [|discriminate]. destruct (load sk f) as [q'|] eqn:L; [|discriminate].
    rewrite (IH _ _ L). auto.
Qed.

Example legacy_partial_load :
  let W := {| l_shape := [2; 2]; l_dtype := 32; l_data := [1; 2; 3; 4] |} in
  legacy_load (skeleton_of [W]) (save [W; W]) = Some [W] /\ load (skeleton_of [W]) (save [W; W]) = None.
Proof. split; reflexivity. Qed.

Lemma legacy_load_same_length sk f : length sk = length f -> legacy_load sk f = load sk f.
Proof.
  revert f. induction sk as [|s sk IH]; intros [|r f] H; cbn in *; try discriminate; try reflexivity.
  rewrite IH by lia. reflexivity.
Qed.
