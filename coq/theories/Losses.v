(* C07 / C08: loss algebra.  ppo.py:143-210, a2c.py:124-152, reinforce.py:113-137, dqn.py:216-241, sac.py:383-469.
   Carrier-parametric kernels: instantiated at R (theorems) and Q (executable; exp/sqrt enter as oracle inputs). *)
From Coq Require Import List Bool.
Import ListNotations.

Section Carrier.
  Variable T : Type.
  Variables (zero one two : T) (add mul sub div : T -> T -> T) (opp : T -> T) (tmin tmax : T -> T -> T).
  Variable of_nat : nat -> T.

  Definition tsum (l : list T) : T := fold_right add zero l.
  Definition mean (l : list T) : T := div (tsum l) (of_nat (length l)).
  Definition map2 (f : T -> T -> T) (a b : list T) : list T := map (fun p => f (fst p) (snd p)) (combine a b).
  Definition sq (x : T) : T := mul x x.
  Definition clip (x lo hi : T) : T := tmin (tmax x lo) hi.

  (* ---- PPO ---- *)
  (* per-sample clipped surrogate objective *)
  Definition surrogate (eps r A : T) : T := tmin (mul A r) (mul A (clip r (sub one eps) (add one eps))).
  Definition ppo_policy_loss (eps : T) (ratios advs : list T) : T := opp (mean (map2 (surrogate eps) ratios advs)).
  (* approx_kl = mean(ratio - log_ratio) - 1 *)
  Definition approx_kl (ratios log_ratios : list T) : T := sub (mean (map2 sub ratios log_ratios)) one.
  Definition value_loss (values returns : list T) : T := div (mean (map sq (map2 sub values returns))) two.
  (* PPO2 clipped value loss: the LARGER of the clipped and unclipped squared errors *)
  Definition value_loss_clipped (eps : T) (values old_values returns : list T) : T :=
    let clipped := map2 (fun v ov => add ov (clip (sub v ov) (opp eps) eps)) values old_values in
    div (mean (map2 tmax (map sq (map2 sub values returns)) (map sq (map2 sub clipped returns)))) two.
  Definition entropy_loss (ents : list T) : T := opp (mean ents).
  Definition total_loss (pl vl el cv ce : T) : T := add (add pl (mul vl cv)) (mul el ce).

  (* ---- A2C / REINFORCE ---- *)
  Definition pg_loss (log_probs advs : list T) : T := opp (mean (map2 mul log_probs advs)).

  (* ---- advantage normalisation: (A - mean A) / (std A + eps), std supplied by the caller ---- *)
  Definition normalise (advs : list T) (std eps : T) : list T := map (fun a => div (sub a (mean advs)) (add std eps)) advs.

  (* ---- TD targets (C07) ---- *)
  Definition b2t (b : bool) : T := if b then one else zero.
  (* not_terminal = ~done | timeout *)
  Definition not_terminal (done timeout : bool) : bool := negb done || timeout.
  Definition td_target (gamma r vnext : T) (done timeout : bool) : T :=
    add r (mul (mul gamma vnext) (b2t (not_terminal done timeout))).
  (* DQN: V' = Q_target(s', argmax_a Q_online(s', a)) ; loss = mean (Q_online(s,a) - y)^2 / 2 *)
  Definition dqn_loss (gamma : T) (q_sel rewards next_sel : list T) (dones timeouts : list bool) : T :=
    let targets := map (fun p => td_target gamma (fst (fst p)) (snd (fst p)) (fst (snd p)) (snd (snd p)))
                       (combine (combine rewards next_sel) (combine dones timeouts)) in
    div (mean (map sq (map2 sub q_sel targets))) two.
  (* SAC: V' = min(Q1', Q2') - alpha * log pi *)
  Definition sac_vnext (alpha q1 q2 logp : T) : T := sub (tmin q1 q2) (mul alpha logp).
  Definition sac_q_loss (q1s q2s targets : list T) : T :=
    add (div (mean (map sq (map2 sub q1s targets))) two) (div (mean (map sq (map2 sub q2s targets))) two).
  Definition sac_actor_loss (alpha : T) (logps q1s q2s : list T) : T :=
    mean (map (fun p => sub (mul alpha (fst p)) (tmin (fst (snd p)) (snd (snd p)))) (combine logps (combine q1s q2s))).
End Carrier.
