(* Proofs about Lerax.Distributions (C15, C16). *)
From Coq Require Import List Bool Reals Lra Lia Psatz.
From Lerax Require Import Distributions.
Import ListNotations.
Open Scope R_scope.

(* ================================================================== *)
(* carrier-independent facts: masking, arg-max, sampling               *)
Section Generic.
  Context {T : Type}.
  Variables (zero : T) (add : T -> T -> T) (ltb : T -> T -> bool).

  Lemma zipmask_length {A} (none : A) xs m :
    length xs = length m -> length (zipmask none xs m) = length xs.
  Proof. revert m; induction xs as [|x xs IH]; intros [|b m] H; cbn in *; try discriminate; auto. Qed.

  Lemma nth_error_zipmask {A} (none : A) xs m i :
    nth_error (zipmask none xs m) i =
    match nth_error xs i, nth_error m i with
    | Some x, Some b => Some (if b then x else none)
    | _, _ => None
    end.
  Proof.
    revert m i; induction xs as [|x xs IH]; intros [|b m] [|i]; cbn; try reflexivity.
    - destruct (nth_error xs i); reflexivity.
    - apply IH.
  Qed.

  Lemma mask_e_some ls m i x :
    nth_error (mask_e T ls m) i = Some (Some x) ->
    nth_error m i = Some true /\ nth_error ls i = Some (Some x).
  Proof.
    unfold mask_e. rewrite nth_error_zipmask.
    destruct (nth_error ls i) as [l|], (nth_error m i) as [[|]|]; try discriminate.
    intros H; inversion H; subst; auto.
  Qed.

  Lemma mask_e_allowed ls m i x :
    nth_error m i = Some true -> nth_error ls i = Some (Some x) ->
    nth_error (mask_e T ls m) i = Some (Some x).
  Proof. intros Hm Hl. unfold mask_e. rewrite nth_error_zipmask, Hm, Hl. reflexivity. Qed.

  Lemma mask_e_masked ls m i :
    nth_error m i = Some false -> (i < length ls)%nat ->
    nth_error (mask_e T ls m) i = Some None.
  Proof.
    intros Hm Hl. unfold mask_e. rewrite nth_error_zipmask, Hm.
    destruct (nth_error ls i) eqn:E; [reflexivity|]. apply nth_error_None in E. lia.
  Qed.

  (* arg-max always lands on a finite entry when there is one *)
  Lemma argmax_from_cases l : forall i best r,
    argmax_from T ltb l i best = Some r ->
    best = Some r \/ exists k, nth_error l k = Some (Some (snd r)) /\ fst r = (i + k)%nat.
  Proof.
    induction l as [|[x|] tl IH]; intros i best r H; cbn in H.
    - left; assumption.
    - apply IH in H as [H | (k & Hk & Hi)].
      + destruct best as [[j y]|].
        * destruct (ltb y x); [|left; assumption].
          inversion H; subst. right. exists 0%nat. cbn. split; [reflexivity | lia].
        * inversion H; subst. right. exists 0%nat. cbn. split; [reflexivity | lia].
      + right. exists (S k). cbn. split; [assumption | lia].
    - apply IH in H as [H | (k & Hk & Hi)]; [left; assumption|].
      right. exists (S k). cbn. split; [assumption | lia].
  Qed.

  Lemma argmax_from_is_some l : forall i best,
    (best <> None \/ exists k x, nth_error l k = Some (Some x)) ->
    argmax_from T ltb l i best <> None.
  Proof.
    induction l as [|[x|] tl IH]; intros i best H; cbn.
    - destruct H as [H | (k & x & Hk)]; [assumption|]. destruct k; discriminate.
    - apply IH. left. destruct best as [[j y]|]; [destruct (ltb y x)|]; discriminate.
    - apply IH. destruct H as [H | (k & x & Hk)]; [left; assumption|].
      destruct k as [|k]; [discriminate|]. right. exists k, x. exact Hk.
  Qed.

  Theorem argmax_hits l :
    (exists k x, nth_error l k = Some (Some x)) ->
    exists x, nth_error l (argmax T ltb l) = Some (Some x).
  Proof.
    intros H. unfold argmax.
    destruct (argmax_from T ltb l 0 None) as [[a v]|] eqn:E.
    - apply argmax_from_cases in E as [E | (k & Hk & Hi)]; [discriminate|].
      cbn in *. subst a. exists v. exact Hk.
    - exfalso. eapply argmax_from_is_some; [right; exact H | exact E].
  Qed.

  Lemma perturb_some ls : forall g i y,
    nth_error (perturb T add ls g) i = Some (Some y) -> exists x, nth_error ls i = Some (Some x).
  Proof.
    induction ls as [|l ls IH]; intros [|n g] [|i] y H; cbn in *; try discriminate.
    - destruct l as [x|]; [exists x; reflexivity | discriminate].
    - eapply IH; eassumption.
  Qed.

  Lemma perturb_keeps ls : forall g k x,
    length g = length ls -> nth_error ls k = Some (Some x) ->
    exists y, nth_error (perturb T add ls g) k = Some (Some y).
  Proof.
    induction ls as [|l ls IH]; intros [|n g] [|k] x Hl H; cbn in *; try discriminate.
    - inversion H; subst. eexists; reflexivity.
    - eapply IH; [lia | eassumption].
  Qed.

  (* C16: the mode of a masked categorical is an allowed action with a finite logit *)
  Theorem mode_allowed ls m :
    (exists k x, nth_error ls k = Some (Some x) /\ nth_error m k = Some true) ->
    let a := cat_mode T ltb (mask_e T ls m) in
    nth_error m a = Some true /\ exists x, nth_error ls a = Some (Some x).
  Proof.
    intros (k & x & Hl & Hm) a.
    destruct (argmax_hits (mask_e T ls m)) as [v Hv].
    { exists k, x. apply mask_e_allowed; assumption. }
    apply mask_e_some in Hv as [H1 H2]. split; [exact H1 | exists v; exact H2].
  Qed.

  (* C16: whatever the noise vector (hence whatever the key), the Gumbel-max sample of a
     masked categorical is an allowed action *)
  Theorem sample_allowed ls m noise :
    length ls = length m -> length noise = length ls ->
    (exists k x, nth_error ls k = Some (Some x) /\ nth_error m k = Some true) ->
    let a := cat_sample T add ltb (mask_e T ls m) noise in
    nth_error m a = Some true /\ exists x, nth_error ls a = Some (Some x).
  Proof.
    intros Hlm Hn (k & x & Hl & Hm) a.
    destruct (argmax_hits (perturb T add (mask_e T ls m) noise)) as [v Hv].
    { destruct (perturb_keeps (mask_e T ls m) noise k x) as [y Hy].
      - unfold mask_e. rewrite zipmask_length; assumption.
      - apply mask_e_allowed; assumption.
      - exists k, y. exact Hy. }
    apply perturb_some in Hv as [w Hw].
    apply mask_e_some in Hw as [H1 H2]. split; [exact H1 | exists w; exact H2].
  Qed.

  (* without a mask: samples and mode are in the support (finite logit) *)
  Theorem sample_in_support ls noise :
    length noise = length ls ->
    (exists k x, nth_error ls k = Some (Some x)) ->
    exists x, nth_error ls (cat_sample T add ltb ls noise) = Some (Some x).
  Proof.
    intros Hn (k & x & Hl).
    destruct (argmax_hits (perturb T add ls noise)) as [v Hv].
    { destruct (perturb_keeps ls noise k x Hn Hl) as [y Hy]. exists k, y. exact Hy. }
    apply perturb_some in Hv. exact Hv.
  Qed.

  (* arg-max is maximal for any comparison that decides a total preorder *)
  Section Order.
    Variable le : T -> T -> Prop.
    Hypothesis le_refl : forall a, le a a.
    Hypothesis le_trans : forall a b c, le a b -> le b c -> le a c.
    Hypothesis ltb_true : forall a b, ltb a b = true -> le a b.
    Hypothesis ltb_false : forall a b, ltb a b = false -> le b a.

    Lemma argmax_from_max l : forall i best a v,
      argmax_from T ltb l i best = Some (a, v) ->
      (forall j y, best = Some (j, y) -> le y v) /\
      (forall k x, nth_error l k = Some (Some x) -> le x v).
    Proof.
      induction l as [|[x|] tl IH]; intros i best a v H; cbn in H.
      - split; [|intros [|k] x Hk; discriminate].
        intros j y Hb. rewrite Hb in H. inversion H; subst. apply le_refl.
      - apply IH in H as [H1 H2].
        assert (Hx : le x v /\ forall j y, best = Some (j, y) -> le y v).
        { destruct best as [[j y]|].
          - destruct (ltb y x) eqn:E.
            + split; [eapply H1; reflexivity|]. intros j' y' Hb; inversion Hb; subst.
              eapply le_trans; [apply ltb_true; exact E | eapply H1; reflexivity].
            + split.
              * eapply le_trans; [apply ltb_false; exact E | eapply H1; reflexivity].
              * intros j' y' Hb; inversion Hb; subst. eapply H1; reflexivity.
          - split; [eapply H1; reflexivity | intros; discriminate]. }
        destruct Hx as [Hx Hb]. split; [exact Hb|].
        intros [|k] x' Hk; cbn in Hk; [inversion Hk; subst; exact Hx | eapply H2; exact Hk].
      - apply IH in H as [H1 H2]. split; [exact H1|].
        intros [|k] x' Hk; cbn in Hk; [discriminate | eapply H2; exact Hk].
    Qed.

    Theorem argmax_max l k x :
      nth_error l k = Some (Some x) ->
      exists v, nth_error l (argmax T ltb l) = Some (Some v) /\ le x v.
    Proof.
      intros Hk. unfold argmax.
      destruct (argmax_from T ltb l 0 None) as [[a v]|] eqn:E.
      - pose proof (argmax_from_max _ _ _ _ _ E) as [_ H2].
        apply argmax_from_cases in E as [E | (k' & Hk' & Hi)]; [discriminate|].
        cbn in *. subst a. exists v. split; [exact Hk' | eapply H2; exact Hk].
      - exfalso. eapply argmax_from_is_some; [right; exists k, x; exact Hk | exact E].
    Qed.
  End Order.

  (* flat and sequence parameterisations coincide *)
  Theorem split_concat {A} (ps : list (list A)) : split_dims (concat ps) (map (@length A) ps) = ps.
  Proof.
    induction ps as [|p ps IH]; cbn; [reflexivity|].
    rewrite firstn_app, Nat.sub_diag, firstn_all, firstn_O, app_nil_r.
    rewrite skipn_app, Nat.sub_diag, skipn_all, skipn_O. cbn. rewrite IH. reflexivity.
  Qed.

  Lemma split_dims_length {A} (flat : list A) dims : length (split_dims flat dims) = length dims.
  Proof. revert flat; induction dims; intros; cbn; auto. Qed.

  (* epsilon-greedy (q/base_q.py:82-92) *)
  Theorem q_choose_no_key eps g s : q_choose T zero ltb eps None g s = g.
  Proof. reflexivity. Qed.

  Theorem q_choose_departs eps u g s :
    q_choose T zero ltb eps u g s <> g ->
    exists uu, u = Some uu /\ ltb zero eps = true /\ ltb uu eps = true /\ q_choose T zero ltb eps u g s = s.
  Proof.
    unfold q_choose. destruct u as [uu|]; [|intros H; contradiction H; reflexivity].
    destruct (ltb zero eps); [|intros H; contradiction H; reflexivity].
    destruct (ltb uu eps) eqn:E; [|intros H; contradiction H; reflexivity].
    intros _. exists uu. repeat split; try reflexivity; assumption.
  Qed.

  Theorem q_choose_either eps u g s :
    q_choose T zero ltb eps u g s = g \/ q_choose T zero ltb eps u g s = s.
  Proof.
    unfold q_choose. destruct u; [|auto]. destruct (ltb zero eps); [|auto]. destruct (ltb _ eps); auto.
  Qed.

  (* Q policy under a mask: allowed in every mode (no key, key with any epsilon and any draws) *)
  Theorem q_act_allowed qs m eps draw :
    length qs = length m ->
    (forall u g, draw = Some (u, g) -> length g = length qs) ->
    (exists k x, nth_error qs k = Some (Some x) /\ nth_error m k = Some true) ->
    let a := q_act T zero add ltb qs (Some m) eps draw in
    nth_error m a = Some true /\ exists x, nth_error qs a = Some (Some x).
  Proof.
    intros Hl Hg Hex a. subst a. unfold q_act. cbn [apply_mask].
    destruct (q_choose_either eps (option_map fst draw) (cat_mode T ltb (mask_e T qs m))
               (match draw with Some (_, g) => cat_sample T add ltb (mask_e T qs m) g
                              | None => cat_mode T ltb (mask_e T qs m) end)) as [-> | ->].
    - apply mode_allowed; assumption.
    - destruct draw as [[u g]|]; [|apply mode_allowed; assumption].
      apply sample_allowed; [assumption | eapply Hg; reflexivity | assumption].
  Qed.

  Theorem q_act_greedy_without_key qs m eps :
    q_act T zero add ltb qs m eps None = cat_mode T ltb (apply_mask T qs m).
  Proof. reflexivity. Qed.

  Theorem q_act_departs qs m eps draw :
    q_act T zero add ltb qs m eps draw <> cat_mode T ltb (apply_mask T qs m) ->
    exists u g, draw = Some (u, g) /\ ltb zero eps = true /\ ltb u eps = true.
  Proof.
    unfold q_act. intros H. apply q_choose_departs in H as (uu & Hu & H0 & H1 & _).
    destruct draw as [[u g]|]; cbn in Hu; [|discriminate]. inversion Hu; subst. exists uu, g. auto.
  Qed.

  (* actor-critic / SAC policy call: key None -> mode *)
  Theorem ac_act_greedy_without_key ls m : ac_act T add ltb ls m None = cat_mode T ltb (apply_mask T ls m).
  Proof. reflexivity. Qed.

  Theorem ac_act_allowed ls m noise :
    length ls = length m -> (forall g, noise = Some g -> length g = length ls) ->
    (exists k x, nth_error ls k = Some (Some x) /\ nth_error m k = Some true) ->
    let a := ac_act T add ltb ls (Some m) noise in
    nth_error m a = Some true /\ exists x, nth_error ls a = Some (Some x).
  Proof.
    intros Hl Hg Hex. unfold ac_act. cbn [apply_mask]. destruct noise as [g|].
    - apply sample_allowed; [assumption | apply Hg; reflexivity | assumption].
    - apply mode_allowed; assumption.
  Qed.

  (* MultiCategorical: every component of mode / sample obeys its own piece of the mask *)
  Theorem mc_mode_allowed cs ms i c mk :
    nth_error cs i = Some c -> nth_error ms i = Some mk ->
    (exists k x, nth_error c k = Some (Some x) /\ nth_error mk k = Some true) ->
    exists a, nth_error (mc_mode T ltb (mc_mask T cs ms)) i = Some a /\
              nth_error mk a = Some true /\ exists x, nth_error c a = Some (Some x).
  Proof.
    intros Hc Hm Hex. unfold mc_mode, mc_mask.
    rewrite nth_error_map.
    assert (E : nth_error (map (fun cm => mask_e T (fst cm) (snd cm)) (combine cs ms)) i = Some (mask_e T c mk)).
    { rewrite nth_error_map.
      assert (nth_error (combine cs ms) i = Some (c, mk)) as ->; [|reflexivity].
      clear Hex. revert ms i Hc Hm. induction cs as [|c0 cs IH]; intros [|m0 ms] [|i] Hc Hm; cbn in *; try discriminate.
      - inversion Hc; inversion Hm; reflexivity.
      - apply IH; assumption. }
    rewrite E. cbn. eexists; split; [reflexivity|]. apply mode_allowed. exact Hex.
  Qed.

  Theorem mc_sample_allowed cs ms noises i c mk g :
    nth_error cs i = Some c -> nth_error ms i = Some mk -> nth_error noises i = Some g ->
    length c = length mk -> length g = length c ->
    (exists k x, nth_error c k = Some (Some x) /\ nth_error mk k = Some true) ->
    exists a, nth_error (mc_sample T add ltb (mc_mask T cs ms) noises) i = Some a /\
              nth_error mk a = Some true /\ exists x, nth_error c a = Some (Some x).
  Proof.
    intros Hc Hm Hn Hl Hg Hex. unfold mc_sample, mc_mask.
    rewrite nth_error_map.
    assert (E : nth_error (combine (map (fun cm => mask_e T (fst cm) (snd cm)) (combine cs ms)) noises) i
                = Some (mask_e T c mk, g)).
    { clear Hex Hl Hg. revert ms noises i Hc Hm Hn.
      induction cs as [|c0 cs IH]; intros [|m0 ms] [|n0 noises] [|i] Hc Hm Hn; cbn in *; try discriminate.
      - inversion Hc; inversion Hm; inversion Hn; reflexivity.
      - apply IH; assumption. }
    rewrite E. cbn. eexists; split; [reflexivity|]. apply sample_allowed; assumption.
  Qed.
End Generic.

(* ================================================================== *)
(* real-number laws                                                     *)

Lemma rsum_nil : rsum [] = 0.
Proof. reflexivity. Qed.

Lemma rsum_cons x l : rsum (x :: l) = x + rsum l.
Proof. reflexivity. Qed.

Global Arguments rsum : simpl never.

Lemma rsum_app a b : rsum (a ++ b) = rsum a + rsum b.
Proof. induction a; cbn [app]; [rewrite rsum_nil; ring | rewrite !rsum_cons, IHa; ring]. Qed.

Lemma rsum_map_div l z : rsum (map (fun x => x / z) l) = rsum l / z.
Proof. induction l; cbn [map]; [rewrite rsum_nil; unfold Rdiv; ring|]. rewrite !rsum_cons, IHl. unfold Rdiv; ring. Qed.

Lemma rsum_map_mul l c : rsum (map (Rmult c) l) = c * rsum l.
Proof. induction l; cbn [map]; [rewrite rsum_nil; ring|]. rewrite !rsum_cons, IHl. ring. Qed.

Lemma rsum_nonneg l : Forall (fun x => 0 <= x) l -> 0 <= rsum l.
Proof. induction 1; [rewrite rsum_nil; lra | rewrite rsum_cons; lra]. Qed.

Lemma ew_nonneg l : 0 <= ew l.
Proof. destruct l; cbn; [left; apply exp_pos | lra]. Qed.

Lemma map_ew_nonneg ls : Forall (fun x => 0 <= x) (map ew ls).
Proof. induction ls; cbn; constructor; [apply ew_nonneg | assumption]. Qed.

Lemma cat_Z_pos ls : (exists k x, nth_error ls k = Some (Some x)) -> 0 < cat_Z ls.
Proof.
  intros (k & x & H). unfold cat_Z. revert k H.
  induction ls as [|l ls IH]; intros [|k] H; cbn in H; try discriminate; cbn [map]; rewrite rsum_cons.
  - inversion H; subst. cbn. pose proof (exp_pos x). pose proof (rsum_nonneg _ (map_ew_nonneg ls)). lra.
  - pose proof (ew_nonneg l). specialize (IH _ H). lra.
Qed.

Lemma map_ew_mask ls m : map ew (mask_e R ls m) = mweights R 0 (map ew ls) m.
Proof.
  unfold mask_e, mweights. revert m; induction ls as [|l ls IH]; intros [|b m]; cbn; try reflexivity.
  rewrite IH. destruct b; reflexivity.
Qed.

Lemma nth_map_div (w : list R) z i : nth i (map (fun x => x / z) w) 0 = nth i w 0 / z.
Proof. revert i; induction w; destruct i; cbn; auto; unfold Rdiv; ring. Qed.

Lemma nth_nth_error {A} (l : list A) i d x : nth_error l i = Some x -> nth i l d = x.
Proof. revert i; induction l; destruct i; cbn; intros H; try discriminate; [inversion H; auto | auto]. Qed.

Lemma cat_prob_eq ls i : cat_prob ls i = ew (nth i ls None) / cat_Z ls.
Proof.
  unfold cat_prob, cat_probs, normalise. rewrite nth_map_div. f_equal.
  change 0 with (ew None). apply map_nth.
Qed.

(* C16: a masked action has probability exactly zero *)
Theorem masked_zero ls m i :
  nth_error m i = Some false -> (i < length ls)%nat -> cat_prob (mask_e R ls m) i = 0.
Proof.
  intros Hm Hl. rewrite cat_prob_eq.
  rewrite (nth_nth_error _ _ _ _ (mask_e_masked ls m i Hm Hl)). cbn. unfold Rdiv; ring.
Qed.

Lemma allowed_exists_masked ls m :
  (exists k x, nth_error ls k = Some (Some x) /\ nth_error m k = Some true) ->
  exists k x, nth_error (mask_e R ls m) k = Some (Some x).
Proof. intros (k & x & H1 & H2). exists k, x. apply mask_e_allowed; assumption. Qed.

(* C15/C16: total mass is one as soon as one (allowed) logit is finite *)
Theorem cat_total_mass ls :
  (exists k x, nth_error ls k = Some (Some x)) -> rsum (cat_probs ls) = 1.
Proof.
  intros H. unfold cat_probs, normalise. rewrite rsum_map_div.
  pose proof (cat_Z_pos ls H). unfold cat_Z, rsum in *. field. lra.
Qed.

Theorem masked_total_mass ls m :
  (exists k x, nth_error ls k = Some (Some x) /\ nth_error m k = Some true) ->
  rsum (cat_probs (mask_e R ls m)) = 1.
Proof. intros H. apply cat_total_mass, allowed_exists_masked, H. Qed.

Lemma cat_probs_nonneg ls : (exists k x, nth_error ls k = Some (Some x)) -> Forall (fun p => 0 <= p) (cat_probs ls).
Proof.
  intros H. pose proof (cat_Z_pos ls H) as Hz. unfold cat_probs, normalise.
  fold (rsum (map ew ls)). fold (cat_Z ls).
  induction (map_ew_nonneg ls) as [|w ws Hw _ IH]; cbn; constructor; [|exact IH].
  unfold Rdiv. apply Rmult_le_pos; [exact Hw | left; apply Rinv_0_lt_compat; exact Hz].
Qed.

Lemma mweights_scale ws m z : mweights R 0 (map (fun x => x / z) ws) m = map (fun x => x / z) (mweights R 0 ws m).
Proof.
  unfold mweights. revert m; induction ws as [|w ws IH]; intros [|b m]; cbn; try reflexivity.
  rewrite IH. destruct b; [reflexivity | f_equal; unfold Rdiv; ring].
Qed.

(* the probability mass the unmasked law gives to the allowed actions *)
Definition allowed_mass (ls : list (option R)) (m : list bool) : R := rsum (mweights R 0 (cat_probs ls) m).

(* C16: allowed probabilities are the original ones renormalised proportionally *)
Theorem renormalised ls m i :
  (exists k x, nth_error ls k = Some (Some x) /\ nth_error m k = Some true) ->
  nth_error m i = Some true ->
  cat_prob (mask_e R ls m) i = cat_prob ls i / allowed_mass ls m.
Proof.
  intros Hex Hm.
  assert (Hz : 0 < cat_Z ls). { destruct Hex as (k & x & H & _). apply cat_Z_pos. eauto. }
  assert (Hzm : 0 < cat_Z (mask_e R ls m)) by (apply cat_Z_pos, allowed_exists_masked, Hex).
  assert (Ha : allowed_mass ls m = cat_Z (mask_e R ls m) / cat_Z ls).
  { unfold allowed_mass, cat_probs, normalise. rewrite mweights_scale, rsum_map_div.
    unfold cat_Z at 1. rewrite map_ew_mask. reflexivity. }
  rewrite Ha, !cat_prob_eq.
  assert (Hn : nth i (mask_e R ls m) None = nth i ls None).
  { destruct (nth_error ls i) as [l|] eqn:E.
    - assert (nth_error (mask_e R ls m) i = Some l) as E2.
      { unfold mask_e. rewrite nth_error_zipmask, E, Hm. reflexivity. }
      rewrite (nth_nth_error _ _ _ _ E2), (nth_nth_error _ _ _ _ E). reflexivity.
    - assert (nth_error (mask_e R ls m) i = None) as E2.
      { unfold mask_e. rewrite nth_error_zipmask, E. reflexivity. }
      apply nth_error_None in E, E2. rewrite !nth_overflow by assumption. reflexivity. }
  rewrite Hn. field. lra.
Qed.

Lemma allowed_mass_pos ls m :
  (exists k x, nth_error ls k = Some (Some x) /\ nth_error m k = Some true) -> 0 < allowed_mass ls m.
Proof.
  intros Hex.
  assert (Hz : 0 < cat_Z ls). { destruct Hex as (k & x & H & _). apply cat_Z_pos. eauto. }
  assert (Hzm : 0 < cat_Z (mask_e R ls m)) by (apply cat_Z_pos, allowed_exists_masked, Hex).
  unfold allowed_mass, cat_probs, normalise. rewrite mweights_scale, rsum_map_div.
  fold (rsum (map ew ls)). fold (cat_Z ls). rewrite <- map_ew_mask. fold (cat_Z (mask_e R ls m)).
  apply Rdiv_lt_0_compat; assumption.
Qed.

(* prob = exp(log_prob), with exp(-inf) = 0 *)
Lemma cat_logprob_eq ls i :
  cat_logprob ls i = option_map (fun x => x - ln (cat_Z ls)) (nth i ls None).
Proof.
  unfold cat_logprob, cat_logprobs.
  change (@None R) with (option_map (fun x => x - ln (cat_Z ls)) None) at 1. apply map_nth.
Qed.

Theorem prob_exp_logprob ls i :
  (exists k x, nth_error ls k = Some (Some x)) -> ew (cat_logprob ls i) = cat_prob ls i.
Proof.
  intros H. pose proof (cat_Z_pos ls H) as Hz. rewrite cat_logprob_eq, cat_prob_eq.
  destruct (nth i ls None) as [x|]; cbn.
  - unfold Rminus. rewrite exp_plus, exp_Ropp, exp_ln by assumption. reflexivity.
  - unfold Rdiv; ring.
Qed.

(* the mode has positive probability: it lies in the support *)
Theorem mode_in_support ls :
  (exists k x, nth_error ls k = Some (Some x)) -> 0 < cat_prob ls (Rcat_mode ls).
Proof.
  intros H. pose proof (cat_Z_pos ls H) as Hz.
  destruct (argmax_hits Rltb ls H) as [v Hv]. rewrite cat_prob_eq.
  unfold Rcat_mode, cat_mode. rewrite (nth_nth_error _ _ _ _ Hv). cbn.
  apply Rdiv_lt_0_compat; [apply exp_pos | assumption].
Qed.

Theorem sample_positive_prob ls noise :
  length noise = length ls -> (exists k x, nth_error ls k = Some (Some x)) ->
  0 < cat_prob ls (Rcat_sample ls noise).
Proof.
  intros Hn H. pose proof (cat_Z_pos ls H) as Hz.
  destruct (sample_in_support Rplus Rltb ls noise Hn H) as [v Hv]. rewrite cat_prob_eq.
  unfold Rcat_sample. rewrite (nth_nth_error _ _ _ _ Hv). cbn.
  apply Rdiv_lt_0_compat; [apply exp_pos | assumption].
Qed.

(* greedy: the mode carries the largest logit, hence the largest probability *)
Lemma Rltb_true a b : Rltb a b = true -> a <= b.
Proof. unfold Rltb. destruct (Rlt_dec a b); [lra | discriminate]. Qed.
Lemma Rltb_false a b : Rltb a b = false -> b <= a.
Proof. unfold Rltb. destruct (Rlt_dec a b); [discriminate | lra]. Qed.

Theorem mode_is_greedy ls k x :
  nth_error ls k = Some (Some x) ->
  exists v, nth_error ls (Rcat_mode ls) = Some (Some v) /\ x <= v.
Proof.
  apply (argmax_max Rltb Rle); [intros; lra | intros; lra | apply Rltb_true | apply Rltb_false].
Qed.

Theorem mode_most_probable ls j :
  (exists k x, nth_error ls k = Some (Some x)) -> cat_prob ls j <= cat_prob ls (Rcat_mode ls).
Proof.
  intros H. pose proof (cat_Z_pos ls H) as Hz. rewrite !cat_prob_eq.
  assert (ew (nth j ls None) <= ew (nth (Rcat_mode ls) ls None)).
  { destruct (nth_error ls j) as [[x|]|] eqn:E.
    - destruct (mode_is_greedy ls j x E) as (v & Hv & Hle).
      rewrite (nth_nth_error _ _ _ _ E), (nth_nth_error _ _ _ _ Hv). cbn.
      destruct Hle as [Hlt | ->]; [left; apply exp_increasing; assumption | lra].
    - rewrite (nth_nth_error _ _ _ _ E). cbn. apply ew_nonneg.
    - apply nth_error_None in E. rewrite (nth_overflow _ _ E). cbn. apply ew_nonneg. }
  unfold Rdiv. apply Rmult_le_compat_r; [left; apply Rinv_0_lt_compat; assumption | assumption].
Qed.

(* ------------------------------------------------------------------ *)
(* Bernoulli *)
Lemma sigmoid_pos x : 0 < sigmoid x.
Proof. unfold sigmoid. apply Rinv_0_lt_compat. pose proof (exp_pos (- x)). lra. Qed.
Lemma sigmoid_lt1 x : sigmoid x < 1.
Proof.
  unfold sigmoid. pose proof (exp_pos (- x)).
  rewrite <- Rinv_1 at 2. apply Rinv_lt_contravar; lra.
Qed.
Lemma sigmoid_compl x : 1 - sigmoid x = sigmoid (- x).
Proof.
  unfold sigmoid. rewrite Ropp_involutive, exp_Ropp. pose proof (exp_pos x). field. split; lra.
Qed.

(* masked component: probability of a 1 is zero, the threshold sampler never returns 1
   (uniform draws are >= 0), the mode is 0 *)
Theorem bern_masked_zero ls m i :
  nth_error m i = Some false -> (i < length ls)%nat -> nth i (map bern_p1 (mask_e R ls m)) 0 = 0.
Proof.
  intros Hm Hl. change 0 with (bern_p1 None) at 1. rewrite map_nth.
  rewrite (nth_nth_error _ _ _ _ (mask_e_masked ls m i Hm Hl)). reflexivity.
Qed.

Lemma nth_error_combine {A B} (a : list A) (b : list B) i x y :
  nth_error a i = Some x -> nth_error b i = Some y -> nth_error (combine a b) i = Some (x, y).
Proof.
  revert b i; induction a as [|a0 a IH]; intros [|b0 b] [|i] Ha Hb; cbn in *; try discriminate.
  - inversion Ha; inversion Hb; reflexivity.
  - apply IH; assumption.
Qed.

Theorem bern_sample_masked ls m us i u :
  nth_error m i = Some false -> (i < length ls)%nat -> nth_error us i = Some u -> 0 <= u ->
  nth_error (bern_sample R Rltb (map bern_p1 (mask_e R ls m)) us) i = Some false.
Proof.
  intros Hm Hl Hu Hpos. unfold bern_sample. rewrite nth_error_map.
  assert (Hp : nth_error (map bern_p1 (mask_e R ls m)) i = Some 0).
  { rewrite nth_error_map, (mask_e_masked ls m i Hm Hl). reflexivity. }
  rewrite (nth_error_combine _ _ _ _ _ Hp Hu). cbn. f_equal.
  unfold Rltb. destruct (Rlt_dec u 0); [lra | reflexivity].
Qed.

Theorem bern_mode_masked ls m i :
  nth_error m i = Some false -> (i < length ls)%nat ->
  nth_error (bern_mode R Rltb (1 / 2) (map bern_p1 (mask_e R ls m))) i = Some false.
Proof.
  intros Hm Hl. unfold bern_mode. rewrite !nth_error_map, (mask_e_masked ls m i Hm Hl). cbn. f_equal.
  unfold Rltb. destruct (Rlt_dec (1 / 2) 0); [lra | reflexivity].
Qed.

(* an allowed component keeps its law *)
Theorem bern_allowed_unchanged ls m i :
  nth_error m i = Some true -> nth_error (mask_e R ls m) i = nth_error ls i.
Proof.
  intros Hm. unfold mask_e. rewrite nth_error_zipmask, Hm. destruct (nth_error ls i); reflexivity.
Qed.

(* each component is a probability law on {0,1}, and prob = exp(log_prob) *)
Theorem bern_total l : bern_p0 l + bern_p1 l = 1.
Proof. unfold bern_p0. ring. Qed.

Theorem bern_range l : 0 <= bern_p1 l <= 1.
Proof. destruct l as [x|]; cbn; [pose proof (sigmoid_pos x); pose proof (sigmoid_lt1 x); lra | lra]. Qed.

Lemma exp_neg_softplus x : exp (- softplus x) = sigmoid (- x).
Proof.
  unfold softplus, sigmoid. rewrite Ropp_involutive, exp_Ropp, exp_ln; [reflexivity|].
  pose proof (exp_pos x); lra.
Qed.

Theorem bern_prob_exp_logprob l : ew (bern_lp1 l) = bern_p1 l /\ ew (bern_lp0 l) = bern_p0 l.
Proof.
  destruct l as [x|]; cbn.
  - rewrite !exp_neg_softplus, Ropp_involutive. split; [reflexivity|].
    unfold bern_p0. cbn. symmetry. apply sigmoid_compl.
  - split; [reflexivity|]. unfold bern_p0. cbn. rewrite exp_0. ring.
Qed.

(* the Bernoulli law is the two-class categorical with logits [0; l] *)
Theorem bern_as_categorical l : bern_p1 l = cat_prob [Some 0; l] 1 /\ bern_p0 l = cat_prob [Some 0; l] 0.
Proof.
  rewrite !cat_prob_eq. unfold cat_Z, bern_p0. cbn [map nth]. rewrite !rsum_cons. cbn [ew].
  destruct l as [x|]; cbn [ew bern_p1].
  - unfold sigmoid, rsum, tsum. cbn. rewrite exp_0, exp_Ropp. pose proof (exp_pos x). split; field; lra.
  - unfold rsum, tsum. cbn. rewrite exp_0. split; field.
Qed.

(* ================================================================== *)
(* C15: entropy, product laws                                           *)
Lemma plogp_0 : plogp 0 = 0.
Proof. unfold plogp. destruct (Req_EM_T 0 0) as [_|n]; [reflexivity | contradiction n; reflexivity]. Qed.
Lemma plogp_pos p : 0 < p -> plogp p = p * ln p.
Proof. intros H. unfold plogp. destruct (Req_EM_T p 0); [lra | reflexivity]. Qed.

(* the coded entropy -sum(lp * exp lp) is the Shannon entropy -sum p ln p = -E[log p] of the pmf *)
Theorem entropy_is_shannon ls :
  (exists k x, nth_error ls k = Some (Some x)) -> cat_entropy ls = shannon (cat_probs ls).
Proof.
  intros H. pose proof (cat_Z_pos ls H) as Hz. unfold cat_entropy, shannon. do 2 f_equal.
  unfold cat_logprobs, cat_probs, normalise. change (tsum R 0 Rplus (map ew ls)) with (cat_Z ls).
  rewrite !map_map. apply map_ext. intros [x|]; cbn.
  - assert (Hp : 0 < exp x / cat_Z ls) by (apply Rdiv_lt_0_compat; [apply exp_pos | assumption]).
    rewrite plogp_pos by assumption.
    unfold Rminus. rewrite exp_plus, exp_Ropp, exp_ln by assumption.
    unfold Rdiv. rewrite ln_mult, ln_Rinv, ln_exp; try assumption; [ring | apply exp_pos | apply Rinv_0_lt_compat; assumption].
  - replace (0 / cat_Z ls) with 0 by (unfold Rdiv; ring). rewrite plogp_0. reflexivity.
Qed.

Lemma rsum_flat_map_mul ps L : rsum (flat_map (fun p => map (Rmult p) L) ps) = rsum ps * rsum L.
Proof.
  induction ps as [|p ps IH]; cbn [flat_map]; [rewrite rsum_nil; ring|].
  rewrite rsum_app, rsum_map_mul, IH, rsum_cons. ring.
Qed.

(* joint mass of the product law sums to one *)
Theorem joint_total_mass pss : Forall (fun ps => rsum ps = 1) pss -> rsum (joint_masses pss) = 1.
Proof.
  induction 1 as [|ps pss H _ IH]; cbn [joint_masses].
  - rewrite rsum_cons, rsum_nil. ring.
  - rewrite rsum_flat_map_mul, H, IH. ring.
Qed.

Lemma joint_masses_nonneg pss :
  Forall (Forall (fun p => 0 <= p)) pss -> Forall (fun p => 0 <= p) (joint_masses pss).
Proof.
  induction 1 as [|ps pss H _ IH]; cbn [joint_masses]; [constructor; [lra | constructor]|].
  induction H as [|p ps Hp _ IH2]; cbn [flat_map]; [constructor|].
  apply Forall_app; split; [|exact IH2].
  apply Forall_map. eapply Forall_impl; [|exact IH]. intros q Hq. cbn. apply Rmult_le_pos; assumption.
Qed.

Lemma plogp_mult p q : 0 <= p -> 0 <= q -> plogp (p * q) = p * plogp q + q * plogp p.
Proof.
  intros [Hp | <-] [Hq | <-].
  - rewrite !plogp_pos by (try apply Rmult_lt_0_compat; assumption). rewrite ln_mult by assumption. ring.
  - rewrite Rmult_0_r, plogp_0. ring.
  - rewrite Rmult_0_l, plogp_0. ring.
  - rewrite Rmult_0_l, plogp_0. ring.
Qed.

Lemma plogp_scale a L : 0 <= a -> Forall (fun p => 0 <= p) L ->
  rsum (map (fun q => plogp (a * q)) L) = a * rsum (map plogp L) + plogp a * rsum L.
Proof.
  intros Ha. induction 1 as [|q L Hq _ IH]; cbn [map]; [rewrite !rsum_nil; ring|].
  rewrite !rsum_cons, IH, plogp_mult by assumption. ring.
Qed.

Lemma plogp_flat ps L : Forall (fun p => 0 <= p) ps -> Forall (fun p => 0 <= p) L ->
  rsum (map plogp (flat_map (fun p => map (Rmult p) L) ps))
  = rsum ps * rsum (map plogp L) + rsum (map plogp ps) * rsum L.
Proof.
  intros Hps HL. induction Hps as [|p ps Hp _ IH]; cbn [flat_map map]; [rewrite !rsum_nil; ring|].
  rewrite map_app, rsum_app, IH, map_map, plogp_scale, !rsum_cons by assumption. ring.
Qed.

(* entropy of the joint pmf of independent components = sum of the component entropies *)
Theorem joint_entropy pss :
  Forall (fun ps => Forall (fun p => 0 <= p) ps /\ rsum ps = 1) pss ->
  shannon (joint_masses pss) = rsum (map shannon pss).
Proof.
  induction 1 as [|ps pss [Hnn Hs] Hall IH]; cbn [joint_masses map].
  - unfold shannon. cbn [map]. rewrite rsum_cons, !rsum_nil, plogp_pos by lra. rewrite ln_1. ring.
  - rewrite rsum_cons, <- IH. unfold shannon at 1.
    rewrite plogp_flat.
    + rewrite Hs, joint_total_mass; [unfold shannon; ring|].
      eapply Forall_impl; [|exact Hall]. intros a [_ Ha]; exact Ha.
    + exact Hnn.
    + apply joint_masses_nonneg. eapply Forall_impl; [|exact Hall]. intros a [Ha _]; exact Ha.
Qed.

(* joint_masses really lists the joint pmf over every outcome of the product space *)
Lemma joint_masses_enumerate_aux pss O : forall ps pre,
  map (joint_prob ((pre ++ ps) :: pss)) (flat_map (fun i => map (cons i) O) (seq (length pre) (length ps)))
  = flat_map (fun p => map (Rmult p) (map (joint_prob pss) O)) ps.
Proof.
  induction ps as [|a ps IH]; intros pre; cbn [length seq flat_map map]; [reflexivity|].
  rewrite map_app. f_equal.
  - rewrite !map_map. apply map_ext. intros xs. cbn [joint_prob].
    rewrite app_nth2, Nat.sub_diag by lia. reflexivity.
  - specialize (IH (pre ++ [a])). rewrite <- app_assoc in IH. cbn [app] in IH.
    rewrite app_length in IH. cbn [length] in IH. rewrite Nat.add_1_r in IH. exact IH.
Qed.

Theorem joint_masses_enumerate pss :
  joint_masses pss = map (joint_prob pss) (outcomes (map (@length R) pss)).
Proof.
  induction pss as [|ps pss IH]; cbn [joint_masses map outcomes]; [reflexivity|].
  rewrite IH. symmetry. apply (joint_masses_enumerate_aux pss _ ps []).
Qed.

(* MultiCategorical: exp(sum of component log-probs) is the joint mass (product of masses) *)
Theorem mc_logprob_joint cs : forall xs,
  length cs = length xs ->
  Forall (fun c => exists k x, nth_error c k = Some (Some x)) cs ->
  ew (mc_logprob cs xs) = mc_joint cs xs.
Proof.
  unfold mc_logprob, mc_joint.
  induction cs as [|c cs IH]; intros [|x xs] Hl Hall; cbn in Hl; try discriminate;
    cbn [combine map esum joint_prob fst snd].
  - cbn. apply exp_0.
  - inversion Hall as [|? ? Hc Hcs]; subst.
    specialize (IH xs ltac:(lia) Hcs).
    pose proof (prob_exp_logprob c x Hc) as Hp.
    change (nth x (cat_probs c) 0) with (cat_prob c x). rewrite <- Hp, <- IH.
    destruct (cat_logprob c x) as [v|]; cbn [ew].
    + destruct (esum _) as [s|]; cbn [ew]; [apply exp_plus | ring].
    + ring.
Qed.

(* all component log-probs finite: the joint log-prob is their plain sum *)
Theorem mc_logprob_sum (lps : list R) : esum (map Some lps) = Some (rsum lps).
Proof. induction lps as [|v l IH]; cbn; [reflexivity|]. rewrite IH. reflexivity. Qed.

(* MultiCategorical.entropy (sum of component entropies) is the Shannon entropy of the joint pmf *)
Theorem mc_entropy_joint cs :
  Forall (fun c => exists k x, nth_error c k = Some (Some x)) cs ->
  mc_entropy cs = shannon (joint_masses (map cat_probs cs)).
Proof.
  intros Hall. rewrite joint_entropy.
  - unfold mc_entropy. rewrite map_map. f_equal. apply map_ext_in. intros c Hin.
    apply entropy_is_shannon. rewrite Forall_forall in Hall. apply Hall, Hin.
  - apply Forall_map. eapply Forall_impl; [|exact Hall]. intros c Hc. cbn.
    split; [apply cat_probs_nonneg | apply cat_total_mass]; assumption.
Qed.

Theorem mc_joint_total_mass cs :
  Forall (fun c => exists k x, nth_error c k = Some (Some x)) cs ->
  rsum (map (mc_joint cs) (outcomes (map (@length _) cs))) = 1.
Proof.
  intros Hall. unfold mc_joint.
  replace (map (@length _) cs) with (map (@length R) (map cat_probs cs)).
  - change (fun xs => joint_prob (map cat_probs cs) xs) with (joint_prob (map cat_probs cs)).
    rewrite <- joint_masses_enumerate. apply joint_total_mass.
    apply Forall_map. eapply Forall_impl; [|exact Hall]. intros c Hc. apply cat_total_mass, Hc.
  - rewrite map_map. apply map_ext. intros c. unfold cat_probs, normalise. rewrite !map_length. reflexivity.
Qed.

(* ================================================================== *)
(* C15: continuous laws                                                 *)
Lemma sqrt_2pi_pos : 0 < sqrt (2 * PI).
Proof. apply sqrt_lt_R0. pose proof PI_RGT_0. lra. Qed.

Theorem normal_pdf_exp mu s x : 0 < s -> exp (normal_logpdf mu s x) = normal_pdf mu s x.
Proof.
  intros Hs. pose proof sqrt_2pi_pos as Hq. unfold normal_logpdf, normal_pdf, half_log2pi.
  set (z := (x - mu) / s).
  replace (- (1 / 2) * z ^ 2 - (ln (sqrt (2 * PI)) + ln s)) with (- z ^ 2 / 2 + (- ln (sqrt (2 * PI)) + - ln s)) by field.
  rewrite !exp_plus, !exp_Ropp, !exp_ln by assumption. field. split; lra.
Qed.

Lemma normal_std_shift m s x : 0 < s -> normal_logpdf 0 1 ((x - m) / s) - ln (Rabs s) = normal_logpdf m s x.
Proof.
  intros Hs. unfold normal_logpdf. rewrite ln_1, Rabs_right by lra.
  replace (((x - m) / s - 0) / 1) with ((x - m) / s) by (field; lra). ring.
Qed.

Lemma rsum_map_minus {A} (f g : A -> R) l : rsum (map f l) - rsum (map g l) = rsum (map (fun a => f a - g a) l).
Proof. induction l; cbn [map]; [rewrite !rsum_nil; ring|]. rewrite !rsum_cons, <- IHl. ring. Qed.

Lemma rsum_map_plus_opp {A} (f g : A -> R) l : rsum (map f l) + - rsum (map g l) = rsum (map (fun a => f a - g a) l).
Proof. rewrite <- rsum_map_minus. ring. Qed.

Lemma zip3_in mus : forall sigmas xs m s x, In (m, s, x) (zip3 mus sigmas xs) -> In s sigmas.
Proof.
  induction mus as [|m0 mus IH]; intros [|s0 sigmas] [|x0 xs] m s x H; cbn in H; try contradiction.
  destruct H as [H | H]; [inversion H; subst; left; reflexivity | right; eapply IH; exact H].
Qed.

(* diagonal normal: log-density is the sum of the component log-densities *)
Theorem mvn_sum_law mus sigmas xs :
  Forall (fun s => 0 < s) sigmas -> mvn_logpdf mus sigmas xs = mvn_logpdf_sum mus sigmas xs.
Proof.
  intros Hs. unfold mvn_logpdf, mvn_logpdf_sum. rewrite rsum_map_minus. f_equal.
  apply map_ext_in. intros [[m s] x] Hin. apply normal_std_shift.
  rewrite Forall_forall in Hs. apply Hs. eapply zip3_in; exact Hin.
Qed.

Theorem mvn_entropy_sum sigmas :
  Forall (fun s => 0 < s) sigmas -> mvn_entropy_code sigmas = mvn_entropy sigmas.
Proof.
  unfold mvn_entropy_code, mvn_entropy, normal_entropy. rewrite ln_1.
  induction 1 as [|s sigmas Hs _ IH]; cbn [length map].
  - rewrite !rsum_nil. cbn. ring.
  - rewrite S_INR, !rsum_cons, <- IH, Rabs_right by lra. ring.
Qed.

(* squashing bijector *)
Theorem squash_range low high x : low < high -> low < squash low high x < high.
Proof.
  intros H. unfold squash. pose proof (sigmoid_pos x). pose proof (sigmoid_lt1 x). split; nra.
Qed.

Lemma squash_deriv_pos low high x : low < high -> 0 < squash_deriv low high x.
Proof.
  intros H. unfold squash_deriv. pose proof (sigmoid_pos x). pose proof (sigmoid_lt1 x).
  apply Rmult_lt_0_compat; [lra | apply Rmult_lt_0_compat; lra].
Qed.

Lemma ln_sigmoid x : ln (sigmoid x) = - softplus (- x).
Proof. unfold sigmoid, softplus. apply ln_Rinv. pose proof (exp_pos (- x)); lra. Qed.

Lemma ln_1m_sigmoid x : ln (1 - sigmoid x) = - softplus x.
Proof. rewrite sigmoid_compl, ln_sigmoid, Ropp_involutive. reflexivity. Qed.

(* the coded log-det-Jacobian is the logarithm of the derivative of the bijector *)
Theorem squash_fldj_is_ln_deriv low high x :
  low < high -> squash_fldj low high x = ln (squash_deriv low high x).
Proof.
  intros H. pose proof (sigmoid_pos x). pose proof (sigmoid_lt1 x).
  unfold squash_fldj, squash_deriv, sigmoid_fldj. rewrite Rabs_right by lra.
  rewrite ln_mult, ln_mult, ln_sigmoid, ln_1m_sigmoid; try lra.
  apply Rmult_lt_0_compat; lra.
Qed.

Lemma logit_sigmoid x : logit (sigmoid x) = x.
Proof.
  unfold logit. rewrite ln_1m_sigmoid, ln_sigmoid. unfold softplus.
  pose proof (exp_pos x). pose proof (exp_pos (- x)).
  replace (1 + exp x) with (exp x * (1 + exp (- x))).
  - rewrite ln_mult, ln_exp by lra. ring.
  - rewrite exp_Ropp. field. lra.
Qed.

Lemma sigmoid_logit t : 0 < t < 1 -> sigmoid (logit t) = t.
Proof.
  intros Ht. unfold sigmoid, logit.
  replace (- (ln t - ln (1 - t))) with (ln (1 - t) + - ln t) by ring.
  rewrite exp_plus, exp_Ropp, !exp_ln by lra. field. lra.
Qed.

Theorem squash_inv_left low high x : low < high -> squash_inv low high (squash low high x) = x.
Proof.
  intros H. unfold squash_inv, squash.
  replace (/ (high - low) * ((high - low) * sigmoid x + low - low)) with (sigmoid x) by (field; lra).
  apply logit_sigmoid.
Qed.

Theorem squash_inv_right low high y : low < y < high -> squash low high (squash_inv low high y) = y.
Proof.
  intros H. unfold squash_inv, squash. rewrite sigmoid_logit; [field; lra|].
  assert (0 < / (high - low)) by (apply Rinv_0_lt_compat; lra).
  split; [apply Rmult_lt_0_compat; lra|].
  apply Rmult_lt_reg_l with (high - low); [lra|]. rewrite <- Rmult_assoc, Rinv_r by lra. lra.
Qed.

(* change of variables: exp(log_prob_Y y) = p_X(g^-1 y) / g'(g^-1 y) *)
Theorem squashed_change_of_variables mu s low high y :
  0 < s -> low < high -> exp (squashed_logpdf mu s low high y) = squashed_pdf mu s low high y.
Proof.
  intros Hs H. unfold squashed_logpdf, squashed_pdf. cbv zeta.
  rewrite exp_plus, normal_pdf_exp, exp_Ropp, squash_fldj_is_ln_deriv, exp_ln by (try apply squash_deriv_pos; assumption).
  reflexivity.
Qed.

(* differential form of mass transport: p_Y(g x) * g'(x) = p_X(x) *)
Theorem squashed_pdf_pushforward mu s low high x :
  low < high -> squashed_pdf mu s low high (squash low high x) * squash_deriv low high x = normal_pdf mu s x.
Proof.
  intros H. unfold squashed_pdf. cbv zeta. rewrite squash_inv_left by assumption.
  pose proof (squash_deriv_pos low high x H). field. lra.
Qed.

(* sample_and_log_prob returns the log-probability of the sample it returns, and the sample is inside (low, high) *)
Theorem squashed_sample_lp_consistent mu s low high x :
  low < high ->
  snd (squashed_sample_lp mu s low high x) = squashed_logpdf mu s low high (fst (squashed_sample_lp mu s low high x))
  /\ low < fst (squashed_sample_lp mu s low high x) < high.
Proof.
  intros H. cbn [squashed_sample_lp fst snd]. split; [|apply squash_range; assumption].
  unfold squashed_logpdf. cbv zeta. rewrite squash_inv_left by assumption. ring.
Qed.

(* the fallback mode (base_distribution.py:122-131) is forward(base mode) = g(loc): inside the support *)
Theorem squashed_mode_in_support low high mu : low < high -> low < squash low high mu < high.
Proof. apply squash_range. Qed.

Lemma zip3_zip5 (f : R * R * R * R * R -> R) mus : forall sigmas lows highs ys,
  zip3 mus sigmas (map f (zip5 mus sigmas lows highs ys))
  = map (fun t => let '(m, s, l, h, y) := t in (m, s, f t)) (zip5 mus sigmas lows highs ys).
Proof.
  induction mus as [|m mus IH]; intros [|s sigmas] [|l lows] [|h highs] [|y ys]; cbn; try reflexivity.
  rewrite IH. reflexivity.
Qed.

Lemma zip5_in mus : forall sigmas lows highs ys m s l h y,
  In (m, s, l, h, y) (zip5 mus sigmas lows highs ys) -> In s sigmas.
Proof.
  induction mus as [|m0 mus IH]; intros [|s0 sigmas] [|l0 lows] [|h0 highs] [|y0 ys] m s l h y H; cbn in H; try contradiction.
  destruct H as [H | H]; [inversion H; subst; left; reflexivity | right; eapply IH; exact H].
Qed.

(* squashed diagonal normal: log-density is the sum of the scalar squashed log-densities *)
Theorem sq_mvn_sum_law mus sigmas lows highs ys :
  Forall (fun s => 0 < s) sigmas ->
  sq_mvn_logpdf mus sigmas lows highs ys = sq_mvn_logpdf_sum mus sigmas lows highs ys.
Proof.
  intros Hs. unfold sq_mvn_logpdf, sq_mvn_logpdf_sum. cbv zeta.
  rewrite mvn_sum_law by assumption. unfold mvn_logpdf_sum.
  rewrite (zip3_zip5 (fun t => let '(m, s, l, h, y) := t in squash_inv l h y)), map_map.
  rewrite rsum_map_plus_opp. f_equal. apply map_ext. intros [[[[m s] l] h] y]. unfold squashed_logpdf. cbv zeta. ring.
Qed.

(* ================================================================== *)
(* the hypotheses of the C15 / C16 theorems are satisfiable *)
Example ex_allowed_finite :
  exists k x, nth_error [Some 1; None; Some 2] k = Some (Some x) /\ nth_error [false; true; true] k = Some true.
Proof. exists 2%nat, 2. split; reflexivity. Qed.

Example ex_masked_sample_allowed (noise : list R) :
  length noise = 3%nat ->
  nth_error [false; true; true] (Rcat_sample (mask_e R [Some 1; None; Some 2] [false; true; true]) noise) = Some true.
Proof.
  intros H. apply (sample_allowed Rplus Rltb [Some 1; None; Some 2] [false; true; true] noise); [reflexivity | exact H | exact ex_allowed_finite].
Qed.

Example ex_product_valid :
  Forall (fun c : list (option R) => exists k x, nth_error c k = Some (Some x)) [[Some 0; Some 1]; [None; Some 3; Some (-1)]].
Proof. repeat constructor; [exists 0%nat, 0 | exists 1%nat, 3]; reflexivity. Qed.

Example ex_squash_valid : -1 < squash (-1) 2 5 < 2.
Proof. apply squash_range. lra. Qed.
