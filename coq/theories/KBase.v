(* Support definitions for the kernel translator (harness/translate/kernel.py): the list combinators the
   generated definitions (coq/gen/Cxx/GenK_*.v) are written with.  Definitions only; lemmas in KBaseProofs.v. *)
From Coq Require Import Reals List ZArith QArith Bool.
From Lerax Require Export CCBase Common.
From Lerax Require Import Env.
Import ListNotations.

Definition b2Z (b : bool) : Z := if b then 1%Z else 0%Z.

Section Zip.
  Context {A B C D E : Type}.
  Definition kzip1 (f : A -> E) (a : list A) : list E := map f a.
  Fixpoint kzip2 (f : A -> B -> E) (a : list A) (b : list B) : list E :=
    match a, b with x :: a', y :: b' => f x y :: kzip2 f a' b' | _, _ => [] end.
  Fixpoint kzip3 (f : A -> B -> C -> E) (a : list A) (b : list B) (c : list C) : list E :=
    match a, b, c with x :: a', y :: b', z :: c' => f x y z :: kzip3 f a' b' c' | _, _, _ => [] end.
  Fixpoint kzip4 (f : A -> B -> C -> D -> E) (a : list A) (b : list B) (c : list C) (d : list D) : list E :=
    match a, b, c, d with x :: a', y :: b', z :: c', w :: d' => f x y z w :: kzip4 f a' b' c' d' | _, _, _, _ => [] end.
  Context {D2 : Type}.
  Fixpoint kzip5 (f : A -> B -> C -> D -> D2 -> E) (a : list A) (b : list B) (c : list C) (d : list D) (d2 : list D2) : list E :=
    match a, b, c, d, d2 with
    | x :: a', y :: b', z :: c', w :: d', v :: d2' => f x y z w v :: kzip5 f a' b' c' d' d2'
    | _, _, _, _, _ => []
    end.
End Zip.

(* lax.scan(f, init, xs, reverse=True): the carry runs from the last element to the first; outputs keep the input order *)
Definition kscanr1 (f : R -> R -> R * R) (init : R) (xs : list R) : R * list R :=
  fold_right (fun x acc => let co := f (fst acc) x in (fst co, snd co :: snd acc)) (init, []) xs.
Definition kscanr2 (f : R -> R -> R -> R * R) (init : R) (xs ys : list R) : R * list R :=
  fold_right (fun xy acc => let co := f (fst acc) (fst xy) (snd xy) in (fst co, snd co :: snd acc)) (init, []) (combine xs ys).
Definition kscanr3 (f : R -> R -> R -> R -> R * R) (init : R) (xs ys zs : list R) : R * list R :=
  fold_right (fun xyz acc => let co := f (fst acc) (fst xyz) (fst (snd xyz)) (snd (snd xyz)) in (fst co, snd co :: snd acc))
             (init, []) (combine xs (combine ys zs)).
(* forward scan *)
Fixpoint kscanl1 (f : R -> R -> R * R) (c : R) (xs : list R) : R * list R :=
  match xs with [] => (c, []) | x :: tl => let co := f c x in let r := kscanl1 f (fst co) tl in (fst r, snd co :: snd r) end.
Fixpoint kscanl2 (f : R -> R -> R -> R * R) (c : R) (xs ys : list R) : R * list R :=
  match xs, ys with
  | x :: tl, y :: tl' => let co := f c x y in let r := kscanl2 f (fst co) tl tl' in (fst r, snd co :: snd r)
  | _, _ => (c, [])
  end.

(* jnp.arange(n) *)
Definition kiota (n : Z) : list Z := map Z.of_nat (seq 0 (Z.to_nat n)).
(* jnp.sum of a boolean vector *)
Definition kcount (l : list bool) : Z := Z.of_nat (length (filter (fun b => b) l)).
(* jnp.argmax over the last axis: first index of a maximal entry *)
Fixpoint kargmax_from (best : R) (bi i : Z) (l : list R) : Z :=
  match l with
  | [] => bi
  | x :: tl => if Rlt_dec best x then kargmax_from x i (i + 1)%Z tl else kargmax_from best bi (i + 1)%Z tl
  end.
Definition kargmax (l : list R) : Z := match l with [] => 0%Z | x :: tl => kargmax_from x 0%Z 1%Z tl end.

(* filter_scan(f, init, xs) with a structured carry: carry threaded left to right, outputs collected in order *)
Fixpoint kfoldmap {C K Y : Type} (f : C -> K -> C * Y) (c : C) (l : list K) : C * list Y :=
  match l with
  | [] => (c, [])
  | k :: tl => let cy := f c k in let r := kfoldmap f (fst cy) tl in (fst r, snd cy :: snd r)
  end.
(* the same with the initial carry first (so that the type of the carry is known when the body is elaborated) *)
Definition kfoldmapi {C K Y : Type} (c : C) (l : list K) (f : C -> K -> C * Y) : C * list Y := kfoldmap f c l.
(* jr.split(key, n) for a symbolic n *)
Definition ksplit_keys (k : kpath) (n : nat) : list kpath := map (fun i => ks k n i) (seq 0 n).

(* x.reshape(-1, B) of a 1-D array: consecutive chunks of B entries (only full chunks exist: the caller trims first) *)
Fixpoint kchunks {A} (B n : nat) (l : list A) : list (list A) :=
  match n with
  | O => []
  | S n' => firstn B l :: kchunks B n' (skipn B l)
  end.
Definition kreshape {A} (B : nat) (l : list A) : list (list A) := kchunks B (length l / B) l.

Definition ksumZ (l : list Z) : Z := fold_right Z.add 0%Z l.
Definition kmeanQ (l : list Q) : Q := (fold_right Qplus 0%Q l / inject_Z (Z.of_nat (length l)))%Q.
Definition ksumQ (l : list Q) : Q := fold_right Qplus 0%Q l.
Definition ksum (l : list R) : R := fold_right Rplus 0%R l.
Definition kmean (l : list R) : R := (ksum l / INR (length l))%R.

(* projections of a space descriptor, for generated code that tests `isinstance(env.action_space, Box)` and reads .low / .high *)
Definition sp_is_box (s : sp) : bool := match s with SpBox _ _ _ => true | SpDisc _ => false end.
Definition sp_lo (s : sp) : xb := match s with SpBox _ lo _ => lo | SpDisc _ => NInf end.
Definition sp_hi (s : sp) : xb := match s with SpBox _ _ hi => hi | SpDisc _ => PInf end.
