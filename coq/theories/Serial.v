(* C18 -- saving and loading a policy (src/lerax/utils.py:271-314, Serializable).

   Definitions only.  What is modelled, and at which level:

   * A policy is the ordered list of its serialisable pytree leaves
     (jax.tree.leaves order = the order equinox writes them).  A leaf is a
     record (shape, dtype tag, payload); the payload is the list of the
     elements' bit patterns (float32 viewed as uint32, ...).  Python scalars
     stored as fields (MLPQPolicy.epsilon : float, MLPSACPolicy.scalar : bool)
     are leaves of shape [] with their own dtype tags.
   * A file is a sequence of records (header = shape and dtype, payload).  This
     is the INTERFACE of equinox.tree_serialise_leaves / tree_deserialise_leaves
     (one .npy record per leaf, in order); the byte format itself is equinox's
     and numpy's and is not modelled -- the correspondence check runs the real
     code and compares what comes back bit for bit.
   * `load` is the rule the property demands of `deserialize`: the skeleton
     (eqx.filter_eval_shape of the constructor) and the file are walked in step,
     shape and dtype are compared per leaf, and ANY difference -- including a
     different number of leaves in either direction -- is an error.
   * Paths: parent segments + a file name; a file name is its list of
     dot-separated components ("m.v1" = ["m"; "v1"], components non-empty).
     `resolve` is the rule the property demands of both `serialize` and
     `deserialize`: a name ending in ".eqx" is used as is, any other name gets
     ".eqx" APPENDED (an existing other suffix is kept).
   * A small file system (directories + files) so that "parents that do not
     exist yet are created", "the file that is read is the file that was
     written" and "no other file is touched" can be stated.

   The rules of the code as it stood before the C18 fixes are kept at the end
   (`legacy_*`) with the concrete inputs on which they differ. *)
From Coq Require Import String.
From Coq Require Import List ZArith Bool.
From Lerax Require Import Common.
Import ListNotations.
Open Scope Z_scope.

(* ---------------------------------------------------------------- leaves *)
Record spec := { s_shape : list Z; s_dtype : Z }.
Record leaf := { l_shape : list Z; l_dtype : Z; l_data : list Z }.

Definition policy := list leaf.
Definition skeleton := list spec.

Definition spec_of (l : leaf) : spec := {| s_shape := l_shape l; s_dtype := l_dtype l |}.
Definition skeleton_of (p : policy) : skeleton := map spec_of p.

Definition spec_eqb (a b : spec) : bool :=
  Zeqb_list (s_shape a) (s_shape b) && Z.eqb (s_dtype a) (s_dtype b).
Definition leaf_eqb (a b : leaf) : bool :=
  Zeqb_list (l_shape a) (l_shape b) && Z.eqb (l_dtype a) (l_dtype b) && Zeqb_list (l_data a) (l_data b).
Definition skeleton_eqb (a b : skeleton) : bool := forallb2 spec_eqb a b.
Definition policy_eqb (a b : policy) : bool := forallb2 leaf_eqb a b.

(* number of elements announced by a shape; a well-formed leaf carries that many *)
Definition numel (sh : list Z) : Z := fold_right Z.mul 1 sh.
Definition leaf_wf (l : leaf) : bool :=
  forallb (fun d => 0 <=? d) (l_shape l) && Z.eqb (Z.of_nat (length (l_data l))) (numel (l_shape l)).

(* ---------------------------------------------------------------- files *)
Record frec := { r_hdr : spec; r_payload : list Z }.
Definition file := list frec.

Definition rec_of (l : leaf) : frec := {| r_hdr := spec_of l; r_payload := l_data l |}.
Definition leaf_of (r : frec) : leaf :=
  {| l_shape := s_shape (r_hdr r); l_dtype := s_dtype (r_hdr r); l_data := r_payload r |}.

(* eqx.tree_serialise_leaves: one record per leaf, in leaf order *)
Definition save (p : policy) : file := map rec_of p.

(* everything a file holds, read back without any expectation *)
Definition decode (f : file) : policy := map leaf_of f.
Definition headers (f : file) : skeleton := map r_hdr f.

(* deserialize: skeleton and file in step; None = an error is raised *)
Fixpoint load (sk : skeleton) (f : file) : option policy :=
  match sk, f with
  | [], [] => Some []
  | s :: sk', r :: f' =>
      if spec_eqb s (r_hdr r)
      then match load sk' f' with Some q => Some (leaf_of r :: q) | None => None end
      else None
  | _, _ => None
  end.

(* ---------------------------------------------------------------- paths *)
Definition name := list string.                 (* "m.v1.eqx" = ["m"; "v1"; "eqx"] *)
Record path := { p_dir : list string; p_name : name }.

Definition eqx : string := "eqx".

Definition name_eqb (a b : list string) : bool := forallb2 String.eqb a b.
Definition path_eqb (a b : path) : bool := name_eqb (p_dir a) (p_dir b) && name_eqb (p_name a) (p_name b).

(* pathlib: suffix = the last component when there are at least two *)
Definition has_eqx (n : name) : bool :=
  match rev n with
  | last :: _ :: _ => String.eqb last eqx
  | _ => false
  end.

Definition resolve_name (n : name) : name := if has_eqx n then n else n ++ [eqx].
Definition resolve (p : path) : path := {| p_dir := p_dir p; p_name := resolve_name (p_name p) |}.

(* two spellings that name the same file *)
Definition same_file (a b : path) : Prop := resolve a = resolve b.
Definition same_fileb (a b : path) : bool := path_eqb (resolve a) (resolve b).

(* ---------------------------------------------------------------- file system *)
Record fs := { fs_dirs : list (list string); fs_files : list (path * file) }.

Definition dir_exists (d : list string) (s : fs) : bool :=
  match d with [] => true | _ => existsb (name_eqb d) (fs_dirs s) end.

(* all non-empty prefixes of d: mkdir(parents=True, exist_ok=True) *)
Fixpoint prefixes_ne (d : list string) : list (list string) :=
  match d with
  | [] => []
  | x :: tl => [x] :: map (cons x) (prefixes_ne tl)
  end.

Definition mkdir_p (d : list string) (s : fs) : fs :=
  {| fs_dirs := prefixes_ne d ++ fs_dirs s; fs_files := fs_files s |}.

Fixpoint lookup_in (l : list (path * file)) (p : path) : option file :=
  match l with
  | [] => None
  | (q, f) :: tl => if path_eqb q p then Some f else lookup_in tl p
  end.
Definition lookup (s : fs) (p : path) : option file := lookup_in (fs_files s) p.

(* open(p, "wb"): fails when the parent directory is missing, otherwise creates or replaces *)
Definition write (s : fs) (p : path) (f : file) : option fs :=
  if dir_exists (p_dir p) s
  then Some {| fs_dirs := fs_dirs s; fs_files := (p, f) :: fs_files s |}
  else None.

(* Serializable.serialize(path) *)
Definition serialize (s : fs) (pth : path) (pol : policy) : option fs :=
  write (mkdir_p (p_dir pth) s) (resolve pth) (save pol).

(* Serializable.deserialize(path, *ctor_args): None = raises *)
Definition deserialize (s : fs) (pth : path) (sk : skeleton) : option policy :=
  match lookup s (resolve pth) with
  | None => None
  | Some f => load sk f
  end.

(* ---------------------------------------------------------------- the code before the C18 fixes *)
(* serialize used Path.with_suffix(".eqx"): the last component is REPLACED *)
Definition legacy_save_name (n : name) : name :=
  if has_eqx n then n
  else match rev n with
       | _ :: (_ :: _) as init => rev init ++ [eqx]
       | _ => n ++ [eqx]
       end.
(* deserialize handed the path to equinox, which adds ".eqx" only to suffix-less names *)
Definition legacy_load_name (n : name) : name :=
  match n with [_] => n ++ [eqx] | _ => n end.
(* equinox reads as many records as the skeleton has leaves and never looks for the end of file *)
Fixpoint legacy_load (sk : skeleton) (f : file) : option policy :=
  match sk, f with
  | [], _ => Some []
  | s :: sk', r :: f' =>
      if spec_eqb s (r_hdr r)
      then match legacy_load sk' f' with Some q => Some (leaf_of r :: q) | None => None end
      else None
  | _ :: _, [] => None
  end.
