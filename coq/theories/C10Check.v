(* C10 correspondence: what a real DQN / SAC learner's state looks like after each iteration(), and the records of learn(). *)
From Coq Require Import List Arith ZArith QArith Bool.
From Lerax Require Import Common Schedule.
Import ListNotations.

(* per iteration (in order): counter after the iteration; target == online (bitwise); target == previous target (bitwise) *)
Definition dobs := (Z * bool * bool)%type.
(* per iteration: counter after; Polyak identity holds for both target critics; actor changed; temperature changed *)
Definition sobs := (Z * bool * bool * bool)%type.

Inductive case :=
| CDqn (interval : nat) (obs : list dobs)
| CSac (freq : nat) (autotune : bool) (obs : list sobs)
| CLearn (total N T : Z) (steps : list Z).          (* cumulative steps of the records the backend received, in order *)

Fixpoint dqn_ok (interval : nat) (k : nat) (obs : list dobs) : bool :=
  match obs with
  | [] => true
  | (c, teq, tprev) :: tl =>
      Z.eqb c (Z.of_nat k)
      && (if Nat.eqb (k mod interval) 0 then teq else tprev)
      && dqn_ok interval (S k) tl
  end.

Fixpoint sac_ok (freq : nat) (autotune : bool) (k : nat) (obs : list sobs) : bool :=
  match obs with
  | [] => true
  | (c, pol, actor_changed, alpha_changed) :: tl =>
      (* k = counter after the iteration; the gate looks at the pre-increment counter k-1 *)
      Z.eqb c (Z.of_nat k) && pol
      && (if Nat.eqb ((k - 1) mod freq) 0 then true else negb actor_changed && negb alpha_changed)
      && (if autotune then true else negb alpha_changed)
      && sac_ok freq autotune (S k) tl
  end.

Definition holds (c : case) : bool :=
  match c with
  | CDqn interval obs => dqn_ok interval 1 obs
  | CSac freq autotune obs => sac_ok freq autotune 1 obs
  | CLearn total N T steps =>
      let iters := num_iterations total N T in
      Z.eqb (Z.of_nat (length steps)) iters
      && forallb2 (fun j s => Z.eqb s (Z.of_nat j * N * T)) (seq 1 (length steps)) steps
  end.
Definition agree (c : case) : bool := holds c.
