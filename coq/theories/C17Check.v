(* C17 correspondence, classic control.  One case = one (state, action) of one environment with
     - the outputs of the REAL lerax methods  env.dynamics(y, a), env.clip(pre), env.reward(y, a, n), env.terminal(n)
       (n = the next state the installed Gymnasium environment produced from y with a; pre = an un-limited state),
     - the outputs of the REAL Gymnasium `step` from y (next state, reward, terminated; for Acrobot also _dsdt),
     - the values of sin / cos at the points the formulas need them (oracles computed in Python, float64).
   Coq evaluates (vm_compute), per case:
     agree        translator-generated Q twins (Gen_*.v)  ~ lerax outputs          (front end tied to the code)
     refok        Q twins of the hand-transcribed Gymnasium formulas ~ Gymnasium outputs   (transcription tied to the
                  installed Gymnasium)
     holds_dyn / holds_clip / holds_rew / holds_term
                  the property itself on lerax's outputs: equal to the Gymnasium reference formulas
   The Q reference twins below mirror ClassicControl.v line by line. *)
From Coq Require Import List Bool QArith Qminmax Qround Qabs ZArith.
From Lerax Require Import Common CCBase Gen_CartPole Gen_MountainCar Gen_ContinuousMountainCar Gen_Acrobot.
Import ListNotations.
Local Open Scope Q_scope.

Inductive envtag := ECartPole | EMountainCar | ECMC | EAcrobot.

Record case := {
  c_env : envtag;
  c_tol : Q;              (* lerax side (float64) *)
  c_gtol : Q;             (* Gymnasium side (float64; float32 state for ContinuousMountainCar) *)
  c_pi : Q;
  c_y : list Q;           (* state *)
  c_an : nat;             (* discrete action (0 for ContinuousMountainCar) *)
  c_a : Q;                (* continuous action (ContinuousMountainCar) *)
  c_n : list Q;           (* next state (Gymnasium's) *)
  c_pre : list Q;         (* un-limited state handed to clip *)
  c_orc_dyn : list Q; c_orc_rew : list Q; c_orc_term : list Q;   (* oracles of the generated twins *)
  c_trig : list Q;        (* reference side: CartPole [sin th; cos th]; (C)MountainCar [cos 3x];
                             Acrobot [cos th2; sin th2; cos (th1+th2-pi/2); cos (th1-pi/2); cos n0; cos (n1+n0)] *)
  c_l_dyn : list Q; c_l_clip : list Q; c_l_rew : Q; c_l_term : bool;
  c_g_out : list Q;       (* Gymnasium: next state (CartPole, (C)MountainCar); _dsdt (Acrobot) *)
  c_g_rew : Q; c_g_term : bool }.

Definition at_ (l : list Q) (i : nat) : Q := nth i l 0.

(* ---------------------------------------------------------------- Q twins of ClassicControl.v *)
Module QCartPole.
  Definition gravity : Q := 98 # 10.
  Definition masscart : Q := 1.
  Definition masspole : Q := 1 # 10.
  Definition total_mass : Q := masspole + masscart.
  Definition length : Q := 5 # 10.
  Definition polemass_length : Q := masspole * length.
  Definition force_mag : Q := 10.
  Definition tau : Q := 2 # 100.
  Definition theta_threshold_radians (pi : Q) : Q := 12 * 2 * pi / 360.
  Definition x_threshold : Q := 24 # 10.
  Definition force (a : nat) : Q := if Nat.eqb a 1 then force_mag else - force_mag.
  Definition temp (s theta_dot : Q) (a : nat) : Q :=
    (force a + polemass_length * (theta_dot * theta_dot) * s) / total_mass.
  Definition thetaacc (s c theta_dot : Q) (a : nat) : Q :=
    (gravity * s - c * temp s theta_dot a) / (length * ((4 # 3) - masspole * (c * c) / total_mass)).
  Definition xacc (s c theta_dot : Q) (a : nat) : Q :=
    temp s theta_dot a - polemass_length * thetaacc s c theta_dot a * c / total_mass.
  Definition field (s c x x_dot theta theta_dot : Q) (a : nat) : list Q :=
    [x_dot; xacc s c theta_dot a; theta_dot; thetaacc s c theta_dot a].
  Definition step_euler (s c x x_dot theta theta_dot : Q) (a : nat) : list Q :=
    [x + tau * x_dot; x_dot + tau * xacc s c theta_dot a; theta + tau * theta_dot; theta_dot + tau * thetaacc s c theta_dot a].
  Definition terminated (pi x theta : Q) : bool :=
    Qltb x (- x_threshold) || Qltb x_threshold x
    || Qltb theta (- theta_threshold_radians pi) || Qltb (theta_threshold_radians pi) theta.
  Definition reward : Q := 1.
End QCartPole.

Module QMountainCar.
  Definition min_position : Q := - (12 # 10).
  Definition max_position : Q := 6 # 10.
  Definition max_speed : Q := 7 # 100.
  Definition goal_position : Q := 5 # 10.
  Definition goal_velocity : Q := 0.
  Definition force : Q := 1 # 1000.
  Definition gravity : Q := 25 # 10000.
  Definition acc (c3x : Q) (a : nat) : Q := (inject_Z (Z.of_nat a) - 1) * force + c3x * (- gravity).
  Definition limits (position velocity : Q) : list Q :=
    let velocity := Qclip velocity (- max_speed) max_speed in
    let position := Qclip position min_position max_position in
    let velocity := if Qeqb position min_position && Qltb velocity 0 then 0 else velocity in
    [position; velocity].
  Definition step (c3x position velocity : Q) (a : nat) : list Q :=
    let velocity := velocity + acc c3x a in
    let velocity := Qclip velocity (- max_speed) max_speed in
    let position := position + velocity in
    let position := Qclip position min_position max_position in
    let velocity := if Qeqb position min_position && Qltb velocity 0 then 0 else velocity in
    [position; velocity].
  Definition field (c3x position velocity : Q) (a : nat) : list Q := [velocity; acc c3x a].
  Definition terminated (position velocity : Q) : bool := Qleb goal_position position && Qleb goal_velocity velocity.
  Definition reward : Q := - 1.
End QMountainCar.

Module QCMC.
  Definition min_action : Q := - 1.
  Definition max_action : Q := 1.
  Definition min_position : Q := - (12 # 10).
  Definition max_position : Q := 6 # 10.
  Definition max_speed : Q := 7 # 100.
  Definition goal_position : Q := 45 # 100.
  Definition goal_velocity : Q := 0.
  Definition power : Q := 15 # 10000.
  Definition force (a : Q) : Q := Qmin (Qmax a min_action) max_action.
  Definition acc (c3x a : Q) : Q := force a * power - (25 # 10000) * c3x.
  Definition limits (position velocity : Q) : list Q :=
    let velocity := if Qltb max_speed velocity then max_speed else velocity in
    let velocity := if Qltb velocity (- max_speed) then - max_speed else velocity in
    let position := if Qltb max_position position then max_position else position in
    let position := if Qltb position min_position then min_position else position in
    let velocity := if Qeqb position min_position && Qltb velocity 0 then 0 else velocity in
    [position; velocity].
  Definition step (c3x position velocity a : Q) : list Q :=
    let velocity := velocity + acc c3x a in
    let velocity := if Qltb max_speed velocity then max_speed else velocity in
    let velocity := if Qltb velocity (- max_speed) then - max_speed else velocity in
    let position := position + velocity in
    let position := if Qltb max_position position then max_position else position in
    let position := if Qltb position min_position then min_position else position in
    let velocity := if Qeqb position min_position && Qltb velocity 0 then 0 else velocity in
    [position; velocity].
  Definition field (c3x position velocity a : Q) : list Q := [velocity; acc c3x a].
  Definition terminated (position velocity : Q) : bool := Qleb goal_position position && Qleb goal_velocity velocity.
  Definition reward_with (terminated_new : bool) (a : Q) : Q := (if terminated_new then 100 else 0) - (a * a) * (1 # 10).
End QCMC.

Module QAcrobot.
  Definition LINK_LENGTH_1 : Q := 1.
  Definition LINK_MASS_1 : Q := 1.
  Definition LINK_MASS_2 : Q := 1.
  Definition LINK_COM_POS_1 : Q := 5 # 10.
  Definition LINK_COM_POS_2 : Q := 5 # 10.
  Definition LINK_MOI : Q := 1.
  Definition AVAIL_TORQUE : list Q := [- 1; 0; 1].
  Definition g : Q := 98 # 10.
  Definition dsdt_sc (c2 s2 c12 c1 dtheta1 dtheta2 a : Q) : list Q :=
    let m1 := LINK_MASS_1 in let m2 := LINK_MASS_2 in let l1 := LINK_LENGTH_1 in
    let lc1 := LINK_COM_POS_1 in let lc2 := LINK_COM_POS_2 in let I1 := LINK_MOI in let I2 := LINK_MOI in
    let d1 := m1 * (lc1 * lc1) + m2 * (l1 * l1 + lc2 * lc2 + 2 * l1 * lc2 * c2) + I1 + I2 in
    let d2 := m2 * (lc2 * lc2 + l1 * lc2 * c2) + I2 in
    let phi2 := m2 * lc2 * g * c12 in
    let phi1 := - m2 * l1 * lc2 * (dtheta2 * dtheta2) * s2
                - 2 * m2 * l1 * lc2 * dtheta2 * dtheta1 * s2
                + (m1 * lc1 + m2 * l1) * g * c1 + phi2 in
    let ddtheta2 := (a + d2 / d1 * phi1 - m2 * l1 * lc2 * (dtheta1 * dtheta1) * s2 - phi2)
                    / (m2 * (lc2 * lc2) + I2 - (d2 * d2) / d1) in
    let ddtheta1 := - (d2 * ddtheta2 + phi1) / d1 in
    [dtheta1; dtheta2; ddtheta1; ddtheta2].
  (* cn0 = cos theta1', cn01 = cos (theta2' + theta1') *)
  Definition terminated (cn0 cn01 : Q) : bool := Qltb 1 (- cn0 - cn01).
  Definition reward (cn0 cn01 : Q) : Q := if terminated cn0 cn01 then 0 else - 1.
  (* the limit map of step(): wrap(theta, -pi, pi) for both angles, bound(velocity, -MAX_VEL, MAX_VEL) with
     MAX_VEL_1 = 4 pi, MAX_VEL_2 = 9 pi.  `wrap_ok x r`: r lies in [-pi, pi] and differs from x by a whole number
     of turns (GymAcrobot.wrap_spec, up to the tolerance; pi is the float64 constant handed over by the harness) *)
  Definition bound (x lo hi : Q) : Q := Qmin (Qmax x lo) hi.
  Definition wrap_ok (tol pi x r : Q) : bool :=
    let k := Qfloor ((r - x) / (2 * pi) + (1 # 2)) in
    Qle_bool (- pi - tol) r && Qle_bool r (pi + tol) &&
    Qle_bool (Qabs (r - x - inject_Z k * (2 * pi))) (tol * Qmax 1 (Qabs x)).
  Definition limits_ok (tol pi : Q) (pre l : list Q) : bool :=
    match pre, l with
    | [p0; p1; p2; p3], [l0; l1; l2; l3] =>
        wrap_ok tol pi p0 l0 && wrap_ok tol pi p1 l1 &&
        Qle_bool (Qabs (l2 - bound p2 (- (4 * pi)) (4 * pi))) (tol * Qmax 1 (Qabs p2)) &&
        Qle_bool (Qabs (l3 - bound p3 (- (9 * pi)) (9 * pi))) (tol * Qmax 1 (Qabs p3))
    | _, _ => false
    end.
End QAcrobot.

(* ---------------------------------------------------------------- the checks *)
Definition beq (a b : bool) : bool := Bool.eqb a b.

(* generated twins vs lerax *)
Definition agree (c : case) : bool :=
  let y := at_ (c_y c) in let n := at_ (c_n c) in let p := at_ (c_pre c) in let t := c_tol c in
  match c_env c with
  | ECartPole =>
      Qclose_list t (Gen_CartPole.dynamicsQ (c_orc_dyn c) (y 0%nat) (y 1%nat) (y 2%nat) (y 3%nat) (c_an c)) (c_l_dyn c)
      && Qclose_list t (Gen_CartPole.clipQ [c_pi c] (p 0%nat) (p 1%nat) (p 2%nat) (p 3%nat)) (c_l_clip c)
      && Qclose t (Gen_CartPole.rewardQ (c_orc_rew c) (y 0%nat) (y 1%nat) (y 2%nat) (y 3%nat) (c_an c) (n 0%nat) (n 1%nat) (n 2%nat) (n 3%nat)) (c_l_rew c)
      && beq (Gen_CartPole.terminalQ (c_orc_term c) (n 0%nat) (n 1%nat) (n 2%nat) (n 3%nat)) (c_l_term c)
  | EMountainCar =>
      Qclose_list t (Gen_MountainCar.dynamicsQ (c_orc_dyn c) (y 0%nat) (y 1%nat) (c_an c)) (c_l_dyn c)
      && Qclose_list t (Gen_MountainCar.clipQ [c_pi c] (p 0%nat) (p 1%nat)) (c_l_clip c)
      && Qclose t (Gen_MountainCar.rewardQ (c_orc_rew c) (y 0%nat) (y 1%nat) (c_an c) (n 0%nat) (n 1%nat)) (c_l_rew c)
      && beq (Gen_MountainCar.terminalQ (c_orc_term c) (n 0%nat) (n 1%nat)) (c_l_term c)
  | ECMC =>
      Qclose_list t (Gen_ContinuousMountainCar.dynamicsQ (c_orc_dyn c) (y 0%nat) (y 1%nat) (c_a c)) (c_l_dyn c)
      && Qclose_list t (Gen_ContinuousMountainCar.clipQ [c_pi c] (p 0%nat) (p 1%nat)) (c_l_clip c)
      && Qclose t (Gen_ContinuousMountainCar.rewardQ (c_orc_rew c) (y 0%nat) (y 1%nat) (c_a c) (n 0%nat) (n 1%nat)) (c_l_rew c)
      && beq (Gen_ContinuousMountainCar.terminalQ (c_orc_term c) (n 0%nat) (n 1%nat)) (c_l_term c)
  | EAcrobot =>   (* clip uses floor-mod: no Q twin; validated by the numeric evaluator in the harness *)
      Qclose_list t (Gen_Acrobot.dynamicsQ (c_orc_dyn c) (y 0%nat) (y 1%nat) (y 2%nat) (y 3%nat) (c_an c)) (c_l_dyn c)
      && Qclose t (Gen_Acrobot.rewardQ (c_orc_rew c) (y 0%nat) (y 1%nat) (y 2%nat) (y 3%nat) (c_an c) (n 0%nat) (n 1%nat) (n 2%nat) (n 3%nat)) (c_l_rew c)
      && beq (Gen_Acrobot.terminalQ (c_orc_term c) (n 0%nat) (n 1%nat) (n 2%nat) (n 3%nat)) (c_l_term c)
  end.

(* the reference's own next state from y (CartPole, (C)MountainCar) *)
Definition ref_next (c : case) : list Q :=
  let y := at_ (c_y c) in let tr := at_ (c_trig c) in
  match c_env c with
  | ECartPole => QCartPole.step_euler (tr 0%nat) (tr 1%nat) (y 0%nat) (y 1%nat) (y 2%nat) (y 3%nat) (c_an c)
  | EMountainCar => QMountainCar.step (tr 0%nat) (y 0%nat) (y 1%nat) (c_an c)
  | ECMC => QCMC.step (tr 0%nat) (y 0%nat) (y 1%nat) (c_a c)
  | EAcrobot => c_n c
  end.

(* reference termination predicate on a state s (Acrobot: through the oracle values of cos at n) *)
Definition ref_term (c : case) (s : list Q) : bool :=
  let tr := at_ (c_trig c) in
  match c_env c with
  | ECartPole => QCartPole.terminated (c_pi c) (at_ s 0%nat) (at_ s 2%nat)
  | EMountainCar => QMountainCar.terminated (at_ s 0%nat) (at_ s 1%nat)
  | ECMC => QCMC.terminated (at_ s 0%nat) (at_ s 1%nat)
  | EAcrobot => QAcrobot.terminated (tr 4%nat) (tr 5%nat)
  end.

(* reference reward of the transition into a state whose termination flag is `tm` *)
Definition ref_reward (c : case) (tm : bool) : Q :=
  match c_env c with
  | ECartPole => QCartPole.reward
  | EMountainCar => QMountainCar.reward
  | ECMC => QCMC.reward_with tm (c_a c)
  | EAcrobot => if tm then 0 else - 1
  end.

Definition ref_field (c : case) : list Q :=
  let y := at_ (c_y c) in let tr := at_ (c_trig c) in
  match c_env c with
  | ECartPole => QCartPole.field (tr 0%nat) (tr 1%nat) (y 0%nat) (y 1%nat) (y 2%nat) (y 3%nat) (c_an c)
  | EMountainCar => QMountainCar.field (tr 0%nat) (y 0%nat) (y 1%nat) (c_an c)
  | ECMC => QCMC.field (tr 0%nat) (y 0%nat) (y 1%nat) (c_a c)
  | EAcrobot => QAcrobot.dsdt_sc (tr 0%nat) (tr 1%nat) (tr 2%nat) (tr 3%nat) (y 2%nat) (y 3%nat) (nth (c_an c) QAcrobot.AVAIL_TORQUE 0)
  end.

(* transcription vs the installed Gymnasium *)
Definition refok (c : case) : bool :=
  match c_env c with
  | EAcrobot => Qclose_list (c_gtol c) (ref_field c) (c_g_out c)
  | _ => Qclose_list (c_gtol c) (ref_next c) (c_g_out c)
  end
  && beq (ref_term c (ref_next c)) (c_g_term c)
  && Qclose (c_gtol c) (ref_reward c (c_g_term c)) (c_g_rew c).

(* the property, component by component, on lerax's outputs *)
Definition holds_dyn (c : case) : bool := Qclose_list (c_tol c) (c_l_dyn c) (ref_field c).
Definition holds_clip (c : case) : bool :=
  let p := at_ (c_pre c) in
  match c_env c with
  | ECartPole => Qclose_list (c_tol c) (c_l_clip c) (c_pre c)
  | EMountainCar => Qclose_list (c_tol c) (c_l_clip c) (QMountainCar.limits (p 0%nat) (p 1%nat))
  | ECMC => Qclose_list (c_tol c) (c_l_clip c) (QCMC.limits (p 0%nat) (p 1%nat))
  | EAcrobot => QAcrobot.limits_ok (c_tol c) (c_pi c) (c_pre c) (c_l_clip c)
  end.
(* +100 / 0 / -1 decided on the NEXT state, by lerax's own termination flag of that state ... *)
Definition holds_rew (c : case) : bool := Qclose (c_tol c) (c_l_rew c) (ref_reward c (c_l_term c)).
(* ... which must be Gymnasium's predicate *)
Definition holds_term (c : case) : bool := beq (c_l_term c) (ref_term c (c_n c)).
Definition holds (c : case) : bool := holds_dyn c && holds_clip c && holds_rew c && holds_term c.
