From Coq Require Import List Arith ZArith QArith Bool Lia.
From Lerax Require Import Common Replay.
Import ListNotations.

Lemma upd_length {X} (l : list X) i x : length (upd l i x) = length l.
Proof. revert i; induction l; destruct i; simpl; auto. Qed.
Lemma nth_upd_same {X} (l : list X) i x d : (i < length l)%nat -> nth i (upd l i x) d = x.
Proof. revert i; induction l; destruct i; simpl; intros; try lia; auto. apply IHl; lia. Qed.
Lemma nth_upd_other {X} (l : list X) i j x d : i <> j -> nth j (upd l i x) d = nth j l d.
Proof. revert i j; induction l; destruct i, j; simpl; intros; try lia; auto. Qed.

Lemma Forall2_nth_r {X Y} (R : X -> Y -> Prop) l1 l2 e y :
  Forall2 R l1 l2 -> nth_error l2 e = Some y -> exists x, nth_error l1 e = Some x /\ R x y.
Proof.
  intros HF. revert e. induction HF as [|x y' l1 l2 H _ IH]; intros e Hb; [destruct e; discriminate|].
  destruct e as [|e]; cbn in *.
  - inversion Hb; subst. exists x; split; [reflexivity|exact H].
  - apply IH; exact Hb.
Qed.

Section RingFacts.
  Context {Ob Ac Ps : Type}.
  Notation trow := (trow Ob Ac Ps).
  Notation soa := (soa Ob Ac Ps).
  Variable C : nat.
  Hypothesis Cpos : (0 < C)%nat.
  Variable d : trow.

  Definition lens (b : soa) : Prop :=
    b_size b = C /\ length (f_obs b) = C /\ length (f_next b) = C /\ length (f_act b) = C /\ length (f_rew b) = C /\
    length (f_done b) = C /\ length (f_timeout b) = C /\ length (f_ps b) = C /\ length (f_nps b) = C.

  Lemma lens_empty o a p : lens (soa_empty C o a p).
  Proof. unfold lens, soa_empty; cbn. rewrite !repeat_length. repeat split; reflexivity. Qed.

  Lemma lens_add b x : lens b -> lens (soa_add b x).
  Proof. unfold lens, soa_add; cbn. rewrite !upd_length. tauto. Qed.

  Lemma row_at_add_same b x : lens b ->
    row_at d (soa_add b x) (b_pos b mod C) = x.
  Proof.
    intros (Hs & H1 & H2 & H3 & H4 & H5 & H6 & H7 & H8).
    assert (Hi: (b_pos b mod C < C)%nat) by (apply Nat.mod_upper_bound; lia).
    unfold row_at, soa_add; cbn. rewrite Hs.
    rewrite !nth_upd_same by lia. destruct x; reflexivity.
  Qed.

  Lemma row_at_add_other b x i : lens b -> i <> (b_pos b mod C)%nat ->
    row_at d (soa_add b x) i = row_at d b i.
  Proof.
    intros (Hs & _) Hi. unfold row_at, soa_add; cbn. rewrite Hs.
    rewrite !nth_upd_other by lia. reflexivity.
  Qed.

  (* the ring refines the insertion log: all fields of slot (j mod C) come from insertion j,
     for each of the most recent min(n, C) insertions *)
  Definition Inv (xs : list trow) (b : soa) : Prop :=
    lens b /\ b_pos b = length xs /\
    (forall j, (j < length xs)%nat -> (length xs - j <= C)%nat -> row_at d b (j mod C) = nth j xs d).

  Lemma inv_empty o a p : Inv [] (soa_empty C o a p).
  Proof. split; [apply lens_empty|]. split; [reflexivity|]. intros j Hj; cbn in Hj; lia. Qed.

  Lemma mod_window_distinct n j : (j < n)%nat -> (n - j < C)%nat -> (j mod C = n mod C)%nat -> False.
  Proof.
    intros Hj Hc Heq.
    assert (Hd: ((n - j) mod C = 0)%nat).
    { rewrite (Nat.div_mod n C), (Nat.div_mod j C) by lia. rewrite Heq.
      assert (j / C <= n / C)%nat by (apply Nat.div_le_mono; lia).
      replace (C * (n / C) + n mod C - (C * (j / C) + n mod C))%nat with ((n / C - j / C) * C)%nat by nia.
      apply Nat.mod_mul; lia. }
    rewrite Nat.mod_small in Hd by lia. lia.
  Qed.

  Lemma inv_add xs b x : Inv xs b -> Inv (xs ++ [x]) (soa_add b x).
  Proof.
    intros (Hl & Hp & Hrecent). split; [apply lens_add; exact Hl|]. split.
    - cbn. rewrite app_length; cbn. lia.
    - rewrite app_length; cbn [length]. intros j Hj Hc.
      destruct (Nat.eq_dec j (length xs)) as [->|Hne].
      + rewrite <- Hp. rewrite row_at_add_same by exact Hl.
        rewrite Hp, app_nth2, Nat.sub_diag by lia. reflexivity.
      + assert (Hjl: (j < length xs)%nat) by lia.
        rewrite row_at_add_other; [|exact Hl|].
        * rewrite Hrecent by lia. rewrite app_nth1 by lia. reflexivity.
        * rewrite Hp. intro Heq.
          apply (mod_window_distinct (length xs) j); lia.
  Qed.

  Theorem run_inv o a p xs : Inv xs (soa_run C o a p xs).
  Proof.
    unfold soa_run.
    assert (G: forall ys b pre, Inv pre b -> Inv (pre ++ ys) (fold_left soa_add ys b)).
    { induction ys as [|y ys IH]; intros b pre H; cbn [fold_left].
      - rewrite app_nil_r; exact H.
      - replace (pre ++ y :: ys) with ((pre ++ [y]) ++ ys) by (rewrite <- app_assoc; reflexivity).
        apply IH, inv_add, H. }
    apply (G xs (soa_empty C o a p) []), inv_empty.
  Qed.

  (* every written slot holds one of the most recent min(n, C) insertions *)
  Theorem slot_is_recent xs b i : Inv xs b -> (i < Nat.min (length xs) C)%nat ->
    exists j, (j < length xs)%nat /\ (length xs - j <= C)%nat /\ (j mod C = i)%nat /\ row_at d b i = nth j xs d.
  Proof.
    intros (Hl & Hp & Hrecent) Hi.
    set (n := length xs) in *.
    set (q := ((n - 1 - i) / C)%nat). set (j := (i + C * q)%nat).
    assert (Hq1: (C * q <= n - 1 - i)%nat) by (apply Nat.mul_div_le; lia).
    assert (Hq2: (n - 1 - i < C * q + C)%nat).
    { pose proof (Nat.div_mod (n - 1 - i) C ltac:(lia)) as E.
      pose proof (Nat.mod_upper_bound (n - 1 - i) C ltac:(lia)). fold q in E. lia. }
    assert (Hjm: (j mod C = i)%nat).
    { unfold j. rewrite Nat.mul_comm, Nat.mod_add by lia. apply Nat.mod_small. lia. }
    exists j. repeat split; try lia. rewrite <- Hjm at 1. apply Hrecent; lia.
  Qed.

  Theorem current_size_run o a p (xs : list trow) : current_size (soa_run C o a p xs) = Nat.min (length xs) C.
  Proof.
    destruct (run_inv o a p xs) as ((Hs & _) & Hp & _). unfold current_size. rewrite Hp, Hs. reflexivity.
  Qed.

  (* ---------- sampling ---------- *)
  Lemma nodupb_NoDup l : nodupb l = true -> NoDup l.
  Proof.
    induction l as [|x tl IH]; cbn; intros H; constructor; apply andb_prop in H as [H1 H2].
    - intro Hin. apply negb_true_iff in H1.
      assert (existsb (Nat.eqb x) tl = true) by (apply existsb_exists; exists x; split; [assumption|apply Nat.eqb_refl]).
      congruence.
    - apply IH; assumption.
  Qed.

  Lemma valid_mask_nth b i : lens b -> nth i (valid_mask b) false = true -> (i < current_size b)%nat.
  Proof.
    intros (Hs & _) H. unfold valid_mask in H.
    destruct (Nat.lt_ge_cases i (b_size b)) as [Hlt|Hge].
    - rewrite nth_indep with (d' := Nat.ltb 0 (current_size b)) in H by (rewrite map_length, seq_length; lia).
      change (Nat.ltb 0 (current_size b)) with ((fun i => Nat.ltb i (current_size b)) 0%nat) in H.
      rewrite map_nth, seq_nth in H by lia. apply Nat.ltb_lt in H. lia.
    - rewrite nth_overflow in H by (rewrite map_length, seq_length; lia). discriminate.
  Qed.

  Lemma valid_mask_length b : lens b -> length (valid_mask b) = C.
  Proof. intros (Hs & _). unfold valid_mask. rewrite map_length, seq_length. exact Hs. Qed.

  Lemma nth_concat_same_len {X} (ls : list (list X)) (dx : X) i :
    (forall l, In l ls -> length l = C) ->
    nth i (concat ls) dx = nth (i mod C) (nth (i / C) ls []) dx.
  Proof.
    revert i. induction ls as [|l ls IH]; intros i Hl.
    - cbn [concat]. destruct i; destruct (_ / C)%nat; destruct (_ mod C)%nat; reflexivity.
    - cbn [concat]. assert (Hlen: length l = C) by (apply Hl; left; reflexivity).
      destruct (Nat.lt_ge_cases i C) as [Hlt|Hge].
      + rewrite app_nth1 by lia. rewrite Nat.div_small, Nat.mod_small by lia. reflexivity.
      + rewrite app_nth2 by lia. rewrite Hlen. rewrite IH by (intros; apply Hl; right; assumption).
        replace i with ((i - C) + 1 * C)%nat at 3 4 by lia.
        rewrite Nat.div_add, Nat.mod_add by lia. rewrite Nat.add_1_r. reflexivity.
  Qed.

  (* sampling soundness, single buffer or several per-environment buffers with different fill levels:
     any index vector satisfying the sampler interface returns only stored transitions, none twice *)
  Theorem sample_sound (logs : list (list trow)) (bs : list soa) (idxs : list nat) :
    Forall2 Inv logs bs ->
    sample_ok (valid_mask_vec bs) idxs = true ->
    NoDup idxs /\
    Forall (fun i => exists e xs b j,
              nth_error logs e = Some xs /\ nth_error bs e = Some b /\ e = (i / C)%nat /\
              (j < length xs)%nat /\ (length xs - j <= C)%nat /\ (j mod C = i mod C)%nat /\
              row_at d b (i mod C) = nth j xs d) idxs.
  Proof.
    intros HF Hs. unfold sample_ok in Hs. apply andb_prop in Hs as [Hnd Hall].
    split; [apply nodupb_NoDup; exact Hnd|].
    rewrite forallb_forall in Hall. apply Forall_forall. intros i Hin. specialize (Hall i Hin).
    unfold valid_mask_vec in Hall.
    assert (Hlen: forall l, In l (map valid_mask bs) -> length l = C).
    { intros l Hl. apply in_map_iff in Hl as (b & <- & Hb).
      apply valid_mask_length. clear -HF Hb. induction HF as [|xs b' ls bs' H _ IH]; [contradiction|].
      destruct Hb as [->|Hb]; [exact (proj1 H)|apply IH; exact Hb]. }
    rewrite (nth_concat_same_len _ false i Hlen) in Hall.
    set (e := (i / C)%nat) in *.
    destruct (nth_error bs e) as [b|] eqn:Hb.
    - assert (Hxs: exists xs, nth_error logs e = Some xs /\ Inv xs b) by (eapply Forall2_nth_r; eassumption).
      destruct Hxs as (xs & Hxs & HI).
      assert (Hm: nth e (map valid_mask bs) [] = valid_mask b).
      { apply nth_error_nth. rewrite nth_error_map, Hb. reflexivity. }
      rewrite Hm in Hall. apply valid_mask_nth in Hall; [|exact (proj1 HI)].
      assert (Hcs: current_size b = Nat.min (length xs) C).
      { destruct HI as ((Hs' & _) & Hp & _). unfold current_size. rewrite Hp, Hs'. reflexivity. }
      rewrite Hcs in Hall.
      destruct (slot_is_recent xs b (i mod C) HI Hall) as (j & H1 & H2 & H3 & H4).
      exists e, xs, b, j. repeat split; assumption.
    - assert (Hm: nth e (map valid_mask bs) [] = []).
      { apply nth_overflow. rewrite map_length. apply nth_error_None. exact Hb. }
      rewrite Hm in Hall. destruct (i mod C)%nat; discriminate.
  Qed.
End RingFacts.
