(* C02: the per-environment clip() of the classic-control environments keeps the observation inside the
   declared Box for EVERY output y of the ODE solver (mountain_car.py:157, continuous_mountain_car.py:144,
   acrobot.py:232-250, pendulum.py:98-108).  Real-number statements + rational executable mirror. *)
From Coq Require Import Reals Lra List QArith Qminmax Bool.
Import ListNotations.

Open Scope R_scope.
Definition clipR (x lo hi : R) : R := Rmin (Rmax x lo) hi.

Lemma clipR_range x lo hi : lo <= hi -> lo <= clipR x lo hi <= hi.
Proof.
  intros H. unfold clipR. split.
  - apply Rmin_glb; [apply Rmax_r | exact H].
  - apply Rmin_r.
Qed.

(* MountainCar.clip: velocity clipped, position clipped, velocity zeroed at the left wall unless moving right *)
Definition mc_clip (lo hi ms x v : R) (at_wall_moving_left : bool) : R * R :=
  let v1 := clipR v (- ms) ms in
  let x1 := clipR x lo hi in
  (x1, if at_wall_moving_left then 0 else v1).

Theorem mc_in_box lo hi ms x v b : lo <= hi -> 0 <= ms ->
  let '(x1, v1) := mc_clip lo hi ms x v b in lo <= x1 <= hi /\ - ms <= v1 <= ms.
Proof.
  intros H1 H2. unfold mc_clip. split; [apply clipR_range; exact H1|].
  destruct b; [lra | apply clipR_range; lra].
Qed.

(* Acrobot / Pendulum: observation = (cos, sin, ..., clipped velocities) for ANY angle *)
Theorem trig_in_unit theta : -1 <= cos theta <= 1 /\ -1 <= sin theta <= 1.
Proof. split; [apply COS_bound | apply SIN_bound]. Qed.

Theorem acrobot_in_box a1 a2 v1 v2 m1 m2 : 0 <= m1 -> 0 <= m2 ->
  Forall2 (fun o b => - b <= o <= b)
    [cos a1; sin a1; cos a2; sin a2; clipR v1 (- m1) m1; clipR v2 (- m2) m2] [1; 1; 1; 1; m1; m2].
Proof.
  intros H1 H2. pose proof (trig_in_unit a1) as [A B]. pose proof (trig_in_unit a2) as [C D].
  repeat (apply Forall2_cons; [first [lra | apply clipR_range; lra]|]). apply Forall2_nil.
Qed.

Theorem pendulum_in_box theta w ms : 0 <= ms ->
  Forall2 (fun o b => - b <= o <= b) [cos theta; sin theta; clipR w (- ms) ms] [1; 1; ms].
Proof.
  intros H. pose proof (trig_in_unit theta) as [A B].
  repeat (apply Forall2_cons; [first [lra | apply clipR_range; lra]|]). apply Forall2_nil.
Qed.

(* angle wrapping (x + pi) mod 2pi - pi lands in [-pi, pi) : stated for the quotient form x - 2 pi k *)
Theorem wrap_range x (k : Z) :
  0 <= x + PI - 2 * PI * IZR k < 2 * PI -> - PI <= x - 2 * PI * IZR k < PI.
Proof. intros [A B]. split; lra. Qed.
Close Scope R_scope.

(* ---------- executable mirror over Q (floats clip exactly) ---------- *)
Definition clipQ' (x lo hi : Q) : Q := Qmin (Qmax x lo) hi.
Definition in_rangeb (x lo hi : Q) : bool := Qle_bool lo x && Qle_bool x hi.

(* wrappers over a bounded Box: ClipObservation and RescaleObservation land in the advertised space *)
Open Scope R_scope.
Theorem clip_obs_member o lo hi : lo <= hi -> lo <= clipR o lo hi <= hi.
Proof. apply clipR_range. Qed.

Theorem rescale_obs_member lo hi mn mx x : lo < hi -> mn < mx -> lo <= x <= hi ->
  let g := (mx - mn) / (hi - lo) in mn <= g * x + (mn - lo * g) <= mx.
Proof.
  intros Hl Hm [H1 H2]. cbv zeta.
  assert (Hg: 0 < (mx - mn) / (hi - lo)) by (apply Rdiv_lt_0_compat; lra).
  set (g := (mx - mn) / (hi - lo)) in *.
  replace (g * x + (mn - lo * g)) with (mn + g * (x - lo)) by ring.
  assert (0 <= g * (x - lo)) by (apply Rmult_le_pos; lra).
  assert (g * (x - lo) <= g * (hi - lo)) by (apply Rmult_le_compat_l; lra).
  replace (g * (hi - lo)) with (mx - mn) in * by (unfold g; field; lra). lra.
Qed.
Close Scope R_scope.
