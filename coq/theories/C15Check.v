(* C15 correspondence.  One case = outputs of a real lerax distribution object:
   DCat     Categorical (logits or probs given), or one Bernoulli component as the two-class law [0; l]
   DMulti   MultiCategorical: per-component and joint log-probs over ALL outcomes, entropies
   DNormal  Normal (one component): log_prob / prob at points, entropy, mode, sample_and_log_prob
   DProd    a product law against its scalar components (MultivariateNormalDiag vs Normal,
            SquashedMultivariateNormalDiag vs SquashedNormal)
   DSquash  SquashedNormal (one component): base sample, squashed sample, reported log-prob.
   exp / ln / sigmoid values are oracle inputs (mpmath); the model formulas are evaluated in Q. *)
From Coq Require Import List Bool ZArith QArith Qabs Lia.
From Lerax Require Import Common Distributions DistributionsProofs.
Import ListNotations.

Definition tol : Q := 1 # 1000000000.     (* float64 mode *)
Definition tol_inv : Q := 1 # 1000000.    (* after the ill-conditioned inverse of the sigmoid *)

Definition Qltb (a b : Q) : bool := negb (Qle_bool b a).
Definition Qsum := tsum Q 0 Qplus.
Definition Qnormalise := normalise Q 0 Qplus Qdiv.
Definition Qargmax := argmax Q Qltb.
Definition is_some {A} (o : option A) : bool := match o with Some _ => true | None => false end.
Definition oval (o : option Q) : Q := match o with Some v => v | None => 0 end.
Definition oclose (t : Q) (a b : option Q) : bool :=
  match a, b with Some x, Some y => Qclose t x y | None, None => true | _, _ => false end.
Definition in_range (n : nat) (a : Z) : bool := (0 <=? a)%Z && (a <? Z.of_nat n)%Z.
Definition nthq (l : list Q) (a : Z) : Q := nth (Z.to_nat a) l 0.

Section Cat.
  Variables (logits : list (option Q)) (ews : list Q) (lnZ : Q)
            (probs : list Q) (logps : list (option Q)) (exp_logps : list Q)
            (entropy : Q) (mode : Z) (draws : list (list Q * Z * Q)).

  Definition cat_holds : bool :=
    let n := length probs in
    Nat.eqb (length logps) n && Nat.eqb (length exp_logps) n
    && Qclose tol (Qsum probs) 1                                        (* total mass *)
    && forallb2 (fun p e => Qclose tol p e) probs exp_logps             (* prob = exp(log_prob) *)
    && forallb2 (fun p lp => Bool.eqb (Qeq_bool p 0) (negb (is_some lp))) probs logps
    && in_range n mode && Qltb 0 (nthq probs mode)                      (* mode in the support *)
    && forallb (fun d => let '(_, s, lp) := d in                        (* samples in the support, with their own log-prob *)
                  in_range n s && Qltb 0 (nthq probs s) &&
                  match nth (Z.to_nat s) logps None with Some w => Qclose tol lp w | None => false end) draws
    (* entropy = -E[log p] *)
    && Qclose tol entropy (- Qsum (map (fun pl => fst pl * oval (snd pl)) (combine probs logps))).

  Definition cat_agree : bool :=
    let n := length logits in
    Nat.eqb (length ews) n && Nat.eqb (length probs) n
    && Qclose_list tol (Qnormalise ews) probs
    && forallb2 (fun l lp => oclose tol (option_map (fun x => x - lnZ) l) lp) logits logps
    && Qclose tol (- Qsum (map (fun le => match fst le with Some x => snd le / Qsum ews * (x - lnZ) | None => 0 end) (combine logits ews))) entropy
    && Z.eqb mode (Z.of_nat (Qargmax logits))
    && forallb (fun d => let '(g, s, _) := d in
                  let pert := perturb Q Qplus logits g in
                  let a := Qargmax pert in
                  Z.eqb s (Z.of_nat a)
                  || ((0 <=? s)%Z &&
                      match nth (Z.to_nat s) pert None, nth a pert None with
                      | Some v, Some w => Qle_bool (Qabs (v - w)) tol
                      | _, _ => false
                      end)) draws.
End Cat.

Fixpoint esumQ (l : list (option Q)) : option Q :=
  match l with
  | [] => Some 0
  | None :: _ => None
  | Some x :: tl => match esumQ tl with Some s => Some (x + s) | None => None end
  end.

Definition Zlist_eqb (a b : list Z) : bool := Zeqb_list a b.

Section Multi.
  Variables (dims : list nat) (comp_logps : list (list (option Q))) (comp_entropies : list Q)
            (joint : list (list Z * option Q * Q)) (exp_joint : list Q)
            (entropy : Q) (mode : list Z) (draws : list (list Z * Q)).

  Definition sum_of_components (xs : list Z) : option Q :=
    esumQ (map (fun cx => nth (Z.to_nat (snd cx)) (fst cx) None) (combine comp_logps xs)).

  Definition multi_holds : bool :=
    Nat.eqb (length comp_logps) (length dims) && Nat.eqb (length exp_joint) (length joint)
    (* joint log-prob = sum over the independent components, for every outcome *)
    && forallb (fun j => let '(xs, lp, _) := j in oclose tol (sum_of_components xs) lp) joint
    (* prob = exp(log_prob); total mass over the product space *)
    && forallb2 (fun j e => let '(_, _, p) := j in Qclose tol p e) joint exp_joint
    && Qclose tol (Qsum (map (fun j => snd j) joint)) 1
    (* entropy = sum of component entropies = -E[log p] under the joint pmf *)
    && Qclose tol entropy (Qsum comp_entropies)
    && Qclose tol entropy (- Qsum (map (fun j => let '(_, lp, p) := j in p * oval lp) joint))
    && Nat.eqb (length mode) (length dims) && forallb2 (fun d a => in_range d a) dims mode
    && forallb (fun d => let '(s, lp) := d in
                  forallb2 (fun dd a => in_range dd a) dims s &&
                  match sum_of_components s with Some w => Qclose tol lp w | None => false end) draws.

  (* the enumeration of outcomes used by the harness is the model's *)
  Definition multi_agree : bool :=
    forallb2 Zlist_eqb (map (fun j => fst (fst j)) joint) (map (map Z.of_nat) (outcomes dims))
    && forallb2 (fun d c => Nat.eqb d (length c)) dims comp_logps
    && forallb2 (fun c a => Z.eqb a (Z.of_nat (Qargmax c))) comp_logps mode.
End Multi.

Definition normal_logpdfQ (mu sigma ln_sigma hl x : Q) : Q :=
  - (1 # 2) * (((x - mu) / sigma) * ((x - mu) / sigma)) - (hl + ln_sigma).

Section Normal.
  Variables (mu sigma ln_sigma hl : Q) (pts : list (Q * Q * Q * Q)) (entropy mode : Q) (draws : list (Q * Q * Q)).

  Definition normal_holds : bool :=
    forallb (fun p => let '(_, _, pr, e) := p in Qclose tol pr e) pts          (* prob = exp(log_prob) *)
    && forallb (fun d => let '(_, lp, lpx) := d in Qclose tol lp lpx) draws.   (* sample_and_log_prob consistent with log_prob *)

  Definition normal_agree : bool :=
    forallb (fun p => let '(x, lp, _, _) := p in Qclose tol (normal_logpdfQ mu sigma ln_sigma hl x) lp) pts
    && forallb (fun d => let '(x, lp, _) := d in Qclose tol (normal_logpdfQ mu sigma ln_sigma hl x) lp) draws
    && Qclose tol ((1 # 2) + (hl + ln_sigma)) entropy
    && Qeq_bool mode mu.
End Normal.

Section Prod.
  (* per evaluation point: component log-probs (scalar classes) and the joint log-prob (diag class) *)
  Variables (comp : list (list Q)) (joint : list Q) (comp_ent : list Q) (entropy : option Q).
  Definition prod_holds : bool :=
    forallb2 (fun c j => Qclose tol_inv (Qsum c) j) comp joint
    && match entropy with Some h => Qclose tol h (Qsum comp_ent) | None => true end.
End Prod.

Section Squash.
  Variables (mu sigma low high ln_sigma hl ln_hl : Q)
            (draws : list (Q * Q * Q * Q * Q * Q * Q))   (* x, sigmoid x, ln sigmoid x, ln(1 - sigmoid x), y, reported lp, log_prob(y) *)
            (mode sig_mu : Q).

  Definition squash_holds : bool :=
    Qltb low high
    && forallb (fun d => let '(_, _, _, _, y, lp, lpy) := d in
                  Qle_bool low y && Qle_bool y high && Qclose tol_inv lp lpy) draws
    && Qle_bool low mode && Qle_bool mode high.

  Definition squash_agree : bool :=
    forallb (fun d => let '(x, sg, lsg, l1sg, y, lp, _) := d in
                  Qclose tol y ((high - low) * sg + low)
                  && Qclose tol lp (normal_logpdfQ mu sigma ln_sigma hl x - (ln_hl + (lsg + l1sg)))) draws
    && Qclose tol mode ((high - low) * sig_mu + low).
End Squash.

Inductive case :=
| DCat (logits : list (option Q)) (ews : list Q) (lnZ : Q) (probs : list Q) (logps : list (option Q)) (exp_logps : list Q)
       (entropy : Q) (mode : Z) (draws : list (list Q * Z * Q))
| DMulti (dims : list nat) (comp_logps : list (list (option Q))) (comp_entropies : list Q)
         (joint : list (list Z * option Q * Q)) (exp_joint : list Q) (entropy : Q) (mode : list Z) (draws : list (list Z * Q))
| DNormal (mu sigma ln_sigma hl : Q) (pts : list (Q * Q * Q * Q)) (entropy mode : Q) (draws : list (Q * Q * Q))
| DProd (comp : list (list Q)) (joint : list Q) (comp_ent : list Q) (entropy : option Q)
| DSquash (mu sigma low high ln_sigma hl ln_hl : Q) (draws : list (Q * Q * Q * Q * Q * Q * Q)) (mode sig_mu : Q).

Definition holds (c : case) : bool :=
  match c with
  | DCat l e z p lp el h m d => cat_holds p lp el h m d
  | DMulti dims cl ce j ej h m d => multi_holds dims cl ce j ej h m d
  | DNormal mu s ls hl pts h m d => normal_holds pts d
  | DProd c j ce h => prod_holds c j ce h
  | DSquash mu s lo hi ls hl lhl d m sm => squash_holds lo hi d m
  end.

Definition agree (c : case) : bool :=
  match c with
  | DCat l e z p lp el h m d => cat_agree l e z p lp h m d
  | DMulti dims cl ce j ej h m d => multi_agree dims cl j m
  | DNormal mu s ls hl pts h m d => normal_agree mu s ls hl pts h m d
  | DProd c j ce h => true
  | DSquash mu s lo hi ls hl lhl d m sm => squash_agree mu s lo hi ls hl lhl d m sm
  end.

(* ------------------------------------------------------------------ *)
(* link lemmas *)

(* the executable softmax has total mass exactly one whenever the weights do not sum to zero *)
Lemma Qsum_map_div l z : Qsum (map (fun x => x / z) l) == Qsum l / z.
Proof.
  induction l as [|a l IH]; cbn.
  - unfold Qdiv. ring.
  - unfold Qsum, tsum in *. cbn. rewrite IH. unfold Qdiv. ring.
Qed.

Theorem model_total_mass ews : ~ Qsum ews == 0 -> Qsum (Qnormalise ews) == 1.
Proof.
  intros H. unfold Qnormalise, normalise. fold Qsum. rewrite Qsum_map_div. field. exact H.
Qed.

(* the model's sample / mode index a finite logit: instances at Q of the carrier-independent theorems *)
Theorem model_sample_in_support ls noise :
  length noise = length ls -> (exists k x, nth_error ls k = Some (Some x)) ->
  exists x, nth_error ls (cat_sample Q Qplus Qltb ls noise) = Some (Some x).
Proof. apply sample_in_support. Qed.

Theorem model_mode_in_support ls :
  (exists k x, nth_error ls k = Some (Some x)) -> exists x, nth_error ls (Qargmax ls) = Some (Some x).
Proof. apply argmax_hits. Qed.

(* soundness of the squashed-law predicate: every recorded sample and the mode lie in [low, high] *)
Theorem squash_holds_sound lo hi d m :
  squash_holds lo hi d m = true ->
  (lo <= m <= hi) /\ forall x sg a b y lp lpy, In (x, sg, a, b, y, lp, lpy) d -> lo <= y <= hi.
Proof.
  unfold squash_holds. intros H.
  apply andb_prop in H as [H Hm2]. apply andb_prop in H as [H Hm1]. apply andb_prop in H as [_ Hd].
  split; [split; apply Qle_bool_iff; assumption|].
  intros x sg a b y lp lpy Hin. rewrite forallb_forall in Hd. specialize (Hd _ Hin). cbn in Hd.
  apply andb_prop in Hd as [Hd _]. apply andb_prop in Hd as [H1 H2].
  split; apply Qle_bool_iff; assumption.
Qed.
