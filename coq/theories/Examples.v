(* Non-vacuity: concrete non-trivial states meeting the hypotheses of the headline theorems (kernel-checked by vm_compute). *)
From Coq Require Import List Arith ZArith QArith Bool.
From Lerax Require Import Common Env EnvProofs Tab Replay ReplayProofs OnPolicy Logging LoggingProofs Schedule.
Import ListNotations.

(* C06: capacity 3, ten insertions (wraps around three times): the slots hold insertions 9, 7, 8 (j mod 3), all fields intact *)
Definition mk (n : Z) : trow Z Z Z := {| t_obs := n; t_next := (n + 100)%Z; t_act := (n * 2)%Z; t_rew := inject_Z n; t_done := Z.even n;
                                         t_timeout := false; t_ps := n; t_nps := (n + 1)%Z |}.
Example ring_wraps_three_times :
  let b := soa_run 3 0%Z 0%Z 0%Z (map mk [0; 1; 2; 3; 4; 5; 6; 7; 8; 9]%Z) in
  b_pos b = 10%nat /\ current_size b = 3%nat /\
  map (fun i => t_obs (row_at (mk 0) b i)) [0; 1; 2]%nat = [9; 7; 8]%Z /\
  map (fun i => t_nps (row_at (mk 0) b i)) [0; 1; 2]%nat = [10; 8; 9]%Z.
Proof. vm_compute. repeat split; reflexivity. Qed.

(* C06: sampler interface satisfiable with two per-environment buffers of different fill levels (1 and 3 of capacity 4) *)
Example sample_ok_mixed_fill :
  let b1 := soa_run 4 0%Z 0%Z 0%Z (map mk [1]%Z) in
  let b2 := soa_run 4 0%Z 0%Z 0%Z (map mk [2; 3; 4]%Z) in
  valid_mask_vec [b1; b2] = [true; false; false; false; true; true; true; false] /\
  sample_ok (valid_mask_vec [b1; b2]) [0; 5; 6]%nat = true /\ sample_ok (valid_mask_vec [b1; b2]) [1; 5]%nat = false.
Proof. vm_compute. repeat split; reflexivity. Qed.

(* C01 / C13: a two-state chain under TimeLimit(2) inside an observation wrapper: truncation at exactly the 2nd step, counters restart *)
Definition chain : tab :=
  {| tP := [[[1%Z]]; [[1%Z]]]; tR := [[[0; 1]]; [[0; 2]]]; tRA := 0; tRN := [0]; tT := [[false]; [false]]; tTR := [false; false];
     tI := [0%Z]; tO := [[0]; [1]]; tMK := None; tNA := 1%Z; tAsp := SpDisc 1; tOsp := SpDisc 2 |}.
Example timelimit_under_observation_wrapper :
  let E := wrap_d [DTransformObs 2 1; DTimeLimit 2] (tab_env chain []) in
  map (fun o => (so_trunc o, fst (so_state o))) (run_gym E (e_init E []) [(0%Q, [(0, 1)]%nat); (0%Q, [(0, 2)]%nat); (0%Q, [(0, 3)]%nat)])
  = [(false, [1%Z]); (true, [0%Z]); (false, [1%Z])].
Proof. vm_compute. reflexivity. Qed.

(* C19: two consecutive episode ends: the second episode has length 1 and return 5 *)
Example two_consecutive_dones :
  let s := l_run (1#2) [(1, false); (1, false); (1, true); (5, true)] in
  Qeq_bool (l_avg_len s) ((1#2) * 1 + (1#2) * ((1#2) * 3)) = true /\ Qeq_bool (l_avg_ret s) ((1#2) * 5 + (1#2) * ((1#2) * 3)) = true.
Proof. vm_compute. split; reflexivity. Qed.

(* C10: DQN with interval 3 after 7 iterations: target = online as of iteration 6 *)
Example dqn_interval_three :
  d_target nat (dqn_run nat (fun x i => (x + i + 1)%nat) 3 7 (dqn_reset nat 0%nat)) = online_at nat (fun x i => (x + i + 1)%nat) 0%nat 6.
Proof. vm_compute. reflexivity. Qed.
