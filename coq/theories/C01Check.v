(* C01 correspondence: a finite MDP, a wrapper stack, a reset key and a
   sequence of (action, key); the implementation's reset/step outputs. *)
From Coq Require Import List ZArith QArith Bool.
From Lerax Require Import Common Env Tab.
Import ListNotations.

Record imp_out := { i_cnt : list Z; i_s : Z; i_obs : list Q; i_rew : Q; i_term : bool; i_trunc : bool; i_info : Q }.

Record case := {
  c_tab : tab; c_raw : rawtbl; c_stack : list wd;
  c_reset_key : kpath; c_steps : list (Q * kpath);
  c_reset : imp_out;           (* state, observation, info of reset (reward/flags unused) *)
  c_outs : list imp_out;
  c_asp : sp; c_osp : sp }.

Definition E_of (c : case) := wrap_d (c_stack c) (tab_env (c_tab c) (c_raw c)).

Definition state_eqb (s : ws Z) (o : imp_out) : bool := Zeqb_list (fst s) (i_cnt o) && Z.eqb (snd s) (i_s o).

(* fields the property constrains: state, observation, reward, flags *)
Definition out_holds (m : @step_out (ws Z) (list Q)) (o : imp_out) : bool :=
  state_eqb (so_state m) o && Qeqb_list (so_obs m) (i_obs o) && Qeq_bool (so_rew m) (i_rew o)
  && Bool.eqb (so_term m) (i_term o) && Bool.eqb (so_trunc m) (i_trunc o).
Definition out_agree (m : @step_out (ws Z) (list Q)) (o : imp_out) : bool :=
  out_holds m o && Qeq_bool (so_info m) (i_info o).

Definition reset_ok (c : case) : bool :=
  let '(s, o, i) := gym_reset (E_of c) (c_reset_key c) in
  state_eqb s (c_reset c) && Qeqb_list o (i_obs (c_reset c)) && Qeq_bool i (i_info (c_reset c)).

Definition imp_state (o : imp_out) : ws Z := (i_cnt o, i_s o).

(* the property, step by step from the state the implementation itself returned *)
Fixpoint steps_hold (E : env (ws Z) Q (list Q)) (s : ws Z) (ak : list (Q * kpath)) (outs : list imp_out) : bool :=
  match ak, outs with
  | [], [] => true
  | (a, k) :: ak', o :: outs' => out_holds (gym_step E s a k) o && steps_hold E (imp_state o) ak' outs'
  | _, _ => false
  end.

Definition holds (c : case) : bool :=
  reset_ok c && steps_hold (E_of c) (imp_state (c_reset c)) (c_steps c) (c_outs c).

(* whole-run agreement of the model's own trajectory, including info and the advertised spaces *)
Definition agree (c : case) : bool :=
  reset_ok c
  && forallb2 out_agree (run_gym (E_of c) (imp_state (c_reset c)) (c_steps c)) (c_outs c)
  && sp_eqb (e_asp (E_of c)) (c_asp c) && sp_eqb (e_osp (E_of c)) (c_osp c).

(* ---- when the implementation reproduces the model run, the stepwise property predicate holds ---- *)
Lemma out_agree_state (E : env (ws Z) Q (list Q)) s a k o :
  out_agree (gym_step E s a k) o = true -> imp_state o = so_state (gym_step E s a k).
Proof.
  unfold out_agree, out_holds, state_eqb. intros H.
  repeat (apply andb_prop in H; destruct H as [H ?]).
  apply Zeqb_list_eq in H. match goal with Hs : Z.eqb _ _ = true |- _ => apply Z.eqb_eq in Hs; rename Hs into Hs' end.
  unfold imp_state. destruct (so_state (gym_step E s a k)) as [cs x]. cbn in *. congruence.
Qed.

Lemma run_agree_steps_hold (E : env (ws Z) Q (list Q)) : forall ak s outs,
  forallb2 out_agree (run_gym E s ak) outs = true -> steps_hold E s ak outs = true.
Proof.
  induction ak as [|[a k] tl IH]; intros s [|o outs] H; cbn [run_gym forallb2 steps_hold] in *; try discriminate; try reflexivity.
  apply andb_prop in H as [H1 H2].
  rewrite <- (out_agree_state _ _ _ _ _ H1) in H2.
  apply andb_true_intro; split; [|apply IH; assumption].
  unfold out_agree in H1. apply andb_prop in H1. tauto.
Qed.

Theorem agree_holds c : agree c = true -> holds c = true.
Proof.
  unfold agree, holds. intros H.
  apply andb_prop in H as [H _]. apply andb_prop in H as [H _]. apply andb_prop in H as [H1 H2].
  apply andb_true_intro; split; [exact H1|]. apply run_agree_steps_hold. exact H2.
Qed.
