(* Theorems about off-policy collection (C05). *)
From Coq Require Import List Arith ZArith QArith Qround Bool Lia.
From Lerax Require Import Common Env Tab OnPolicy Replay ReplayProofs OffPolicy.
Import ListNotations.

Section OffFacts.
  Context {S PS O : Type}.
  Variable E : env S Q O.
  Variable P : acpol PS Q O.

  (* the transition that one step stores, and the state it carries on *)
  Definition off_row (es : S) (ps : PS) (k : kpath) : trow O Q PS * (S * PS) :=
    let obs := e_obs E es (ks k 9 2) in
    let '(ps1, a, _, _) := p_act P ps obs (ks k 9 0) None in
    let ca := clip_action E a in
    let es1 := e_trans E es ca (ks k 9 1) in
    let te := e_term E es1 (ks k 9 4) in
    let tr := e_trunc E es1 in
    ({| t_obs := obs; t_next := e_obs E es1 (ks k 9 5); t_act := a; t_rew := e_rew E es ca es1 (ks k 9 3);
        t_done := te || tr; t_timeout := tr && negb te; t_ps := ps; t_nps := ps1 |},
     if te || tr then (e_init E (ks k 9 6), p_reset P (ks k 9 7)) else (es1, ps1)).

  Theorem off_step_faithful es ps buf k :
    off_step E P ((es, ps), buf) k = (snd (off_row es ps k), soa_add buf (fst (off_row es ps k))).
  Proof.
    unfold off_step, off_row.
    destruct (p_act P ps (e_obs E es (ks k 9 2)) (ks k 9 0) None) as [[[ps1 a] v] lp]. cbn [fst snd].
    destruct (e_term E _ _ || e_trunc E _); reflexivity.
  Qed.

  (* the timeout flag is raised exactly when the episode was truncated without terminating *)
  Corollary timeout_iff es ps k :
    let row := fst (off_row es ps k) in
    let obs := e_obs E es (ks k 9 2) in
    let a := snd (fst (fst (p_act P ps obs (ks k 9 0) None))) in
    let es1 := e_trans E es (clip_action E a) (ks k 9 1) in
    t_timeout row = (e_trunc E es1 && negb (e_term E es1 (ks k 9 4))) /\
    t_done row = (e_term E es1 (ks k 9 4) || e_trunc E es1).
  Proof.
    unfold off_row. destruct (p_act P ps (e_obs E es (ks k 9 2)) (ks k 9 0) None) as [[[ps1 a] v] lp].
    cbn. split; reflexivity.
  Qed.

  (* the log of transitions produced along a key sequence *)
  Fixpoint off_log (st : S * PS) (keys : list kpath) : list (trow O Q PS) * (S * PS) :=
    match keys with
    | [] => ([], st)
    | k :: tl => let '(row, st1) := off_row (fst st) (snd st) k in
                 let '(rows, st2) := off_log st1 tl in (row :: rows, st2)
    end.

  (* scanning steps = appending the log to the buffer, in order *)
  Theorem off_scan_log st buf keys :
    off_scan E P (st, buf) keys = (snd (off_log st keys), fold_left soa_add (fst (off_log st keys)) buf).
  Proof.
    revert st buf. induction keys as [|k tl IH]; intros [es ps] buf; [reflexivity|].
    unfold off_scan in *. cbn [fold_left off_log fst snd]. rewrite off_step_faithful.
    destruct (off_row es ps k) as [row st1]. cbn [fst snd]. rewrite IH.
    destruct (off_log st1 tl) as [rows st2]. reflexivity.
  Qed.

  Lemma off_log_length st keys : length (fst (off_log st keys)) = length keys.
  Proof.
    revert st. induction keys as [|k tl IH]; intros st; [reflexivity|].
    cbn [off_log]. destruct (off_row (fst st) (snd st) k) as [row st1]. specialize (IH st1).
    destruct (off_log st1 tl) as [rows st2]. cbn [fst length] in *. congruence.
  Qed.

  Lemma fold_add_pos (rows : list (trow O Q PS)) buf : b_pos (fold_left soa_add rows buf) = (b_pos buf + length rows)%nat.
  Proof. revert buf. induction rows as [|r tl IH]; intros buf; cbn [fold_left length]; [lia|]. rewrite IH. cbn. lia. Qed.

  (* every scan of n steps adds exactly n transitions to that environment's own buffer *)
  Theorem off_scan_count st buf keys :
    b_pos (snd (off_scan E P (st, buf) keys)) = (b_pos buf + length keys)%nat.
  Proof. rewrite off_scan_log. cbn [snd]. rewrite fold_add_pos, off_log_length. reflexivity. Qed.

  (* warm-up stores exactly learning_starts transitions *)
  Theorem warmup_count size L co ca ik sk :
    b_pos (snd (off_reset_env E P size L co ca ik sk)) = L.
  Proof.
    unfold off_reset_env. rewrite off_scan_count. cbn. unfold split_keys. rewrite map_length, seq_length. reflexivity.
  Qed.

  (* after warm-up the buffer is the ring over the log of what happened: C06 applies *)
  Theorem warmup_is_ring size (Hs : (0 < size)%nat) d L co ca ik sk :
    let st0 := (e_init E (ks ik 2 0), p_reset P (ks ik 2 1)) in
    Inv size d (fst (off_log st0 (split_keys sk L))) (snd (off_reset_env E P size L co ca ik sk)).
  Proof.
    cbv zeta. unfold off_reset_env. rewrite off_scan_log. cbn [snd].
    apply (run_inv size Hs d co ca (p_reset P (ks ik 2 1))).
  Qed.

  (* each collection adds num_steps to every environment's own buffer; nothing crosses between environments *)
  Theorem collect_counts T sts k i st :
    nth_error sts i = Some st ->
    exists st', nth_error (off_collect E P T sts k) i = Some st' /\
                b_pos (snd st') = (b_pos (snd st) + T)%nat /\
                (exists keys, length keys = T /\ st' = off_scan E P st keys).
  Proof.
    intros H. unfold off_collect. destruct (Nat.eqb (length sts) 1).
    - exists (off_scan E P st (split_keys (ks k 3 0) T)). rewrite nth_error_map, H. split; [reflexivity|].
      destruct st as [s b]. rewrite off_scan_count. unfold split_keys. rewrite map_length, seq_length.
      split; [reflexivity|]. eexists; split; [|reflexivity]. rewrite map_length, seq_length. reflexivity.
    - assert (Hc: nth_error (combine sts (seq 0 (length sts))) i = Some (st, i)).
      { assert (G: forall (l : list ((S * PS) * @obuf PS O)) (b : nat) j x, nth_error l j = Some x ->
                   nth_error (combine l (seq b (length l))) j = Some (x, (b + j)%nat)).
        { induction l as [|y l IH]; intros b j x Hj; [destruct j; discriminate|].
          destruct j as [|j]; cbn in *.
          - inversion Hj; subst. f_equal. f_equal. lia.
          - rewrite (IH (Datatypes.S b) j x Hj). f_equal. f_equal. lia. }
        apply (G sts 0%nat i st H). }
      exists (off_scan E P st (split_keys (ks (ks k 3 0) (length sts) i) T)).
      rewrite nth_error_map, Hc. cbn [fst snd]. split; [reflexivity|].
      destruct st as [s b]. rewrite off_scan_count. unfold split_keys. rewrite map_length, seq_length.
      split; [reflexivity|]. eexists; split; [|reflexivity]. rewrite map_length, seq_length. reflexivity.
  Qed.
End OffFacts.
