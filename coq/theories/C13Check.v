(* C13 correspondence: functional components of a wrapped finite MDP. *)
From Coq Require Import List ZArith QArith Bool.
From Lerax Require Import Common Env Tab.
Import ListNotations.

Record comp := {
  p_trans : list Z * Z;        (* counters, inner state after transition *)
  p_obs : list Q; p_rew : Q; p_term : bool; p_trunc : bool;
  p_mask : option (list bool); p_sinfo : Q; p_tinfo : Q;
  p_asp : sp; p_osp : sp;
  p_unwrapped : Z;             (* state.unwrapped *)
  p_init : list Z * Z }.       (* initial(key) *)

Record case := {
  c_tab : tab; c_raw : rawtbl; c_stack : list wd;
  c_state : list Z * Z; c_action : Q; c_key : kpath;
  c_imp : comp;
  (* TimeLimit history: actions with keys from initial(c_key); truncate() after each prefix (incl. empty) *)
  c_hist : list (Q * kpath); c_hist_trunc : list bool }.

Definition st_eqb (a b : list Z * Z) := Zeqb_list (fst a) (fst b) && Z.eqb (snd a) (snd b).
Definition mask_eqb (a b : option (list bool)) := option_eqb beqb_list a b.

Fixpoint prefixes {X} (l : list X) : list (list X) :=
  match l with [] => [[]] | x :: tl => [] :: map (cons x) (prefixes tl) end.

(* model: the wrapped environment's own components *)
Definition agree (c : case) : bool :=
  let E := wrap_d (c_stack c) (tab_env (c_tab c) (c_raw c)) in
  let s := c_state c in let a := c_action c in let k := c_key c in let i := c_imp c in
  let s' := e_trans E s a k in
  st_eqb s' (p_trans i) && Qeqb_list (e_obs E s k) (p_obs i) && Qeq_bool (e_rew E s a s' k) (p_rew i)
  && Bool.eqb (e_term E s k) (p_term i) && Bool.eqb (e_trunc E s) (p_trunc i)
  && mask_eqb (e_mask E s k) (p_mask i) && Qeq_bool (e_sinfo E s) (p_sinfo i) && Qeq_bool (e_tinfo E s a s') (p_tinfo i)
  && sp_eqb (e_asp E) (p_asp i) && sp_eqb (e_osp E) (p_osp i) && Z.eqb (snd s) (p_unwrapped i)
  && st_eqb (e_init E k) (p_init i)
  && beqb_list (map (fun pre => e_trunc E (run_trans E (e_init E k) pre)) (prefixes (c_hist c))) (c_hist_trunc c).

(* property: "the inner environment with only the declared change applied" *)
Definition holds (c : case) : bool :=
  let e := tab_env (c_tab c) (c_raw c) in
  let st := denote_stack (c_stack c) e in
  let s := c_state c in let a := c_action c in let k := c_key c in let i := c_imp c in
  let x' := e_trans e (snd s) (act_map st a) k in
  st_eqb (map (fun c => c + 1)%Z (fst s), x') (p_trans i)
  && Qeqb_list (obs_map st (e_obs e (snd s) k)) (p_obs i)
  && Qeq_bool (rew_map st (e_rew e (snd s) (act_map st a) x' k)) (p_rew i)
  && Bool.eqb (e_term e (snd s) k) (p_term i)
  && Bool.eqb (e_trunc e (snd s) || any_limit (limits st) (fst s)) (p_trunc i)
  && mask_eqb (e_mask e (snd s) k) (p_mask i)
  && Qeq_bool (e_sinfo e (snd s)) (p_sinfo i)
  && Qeq_bool (e_tinfo e (snd s) (act_map st a) x') (p_tinfo i)
  && sp_eqb (asp_of st (e_asp e)) (p_asp i) && sp_eqb (osp_of st (e_osp e)) (p_osp i)
  && Z.eqb (snd s) (p_unwrapped i)
  && st_eqb (repeat 0%Z (length (limits st)), e_init e k) (p_init i)
  && beqb_list (map (fun pre =>
         e_trunc e (run_trans e (e_init e k) (map (fun ak => (act_map st (fst ak), snd ak)) pre))
         || existsb (fun n => (n <=? Z.of_nat (length pre))%Z) (limits st)) (prefixes (c_hist c))) (c_hist_trunc c).

From Lerax Require Import EnvProofs.

(* on well-formed wrapper states the wrapped environment's components ARE the
   inner environment's with only the declared change applied *)
Theorem agree_eq_holds c :
  length (fst (c_state c)) = length (limits (denote_stack (c_stack c) (tab_env (c_tab c) (c_raw c)))) ->
  agree c = holds c.
Proof.
  intros Hwf. unfold agree, holds, wrap_d. cbv zeta.
  set (e := tab_env (c_tab c) (c_raw c)) in *. set (st := denote_stack (c_stack c) e) in *.
  destruct (stack_char e st (c_state c) Hwf) as (T & Ob & Rw & Te & Tr & Mk & Si & Ti & As & Os).
  assert (Hwf' : wf st (e_trans (wrap st e) (c_state c) (c_action c) (c_key c))) by (apply trans_wf; exact Hwf).
  rewrite (Rw _ _ _ Hwf'), (Ti _ _ Hwf'). rewrite T, Ob, Te, Tr, Mk, Si, As, Os, init_counters.
  cbn [fst snd]. f_equal. f_equal. apply map_ext. intros pre.
  rewrite <- (init_counters e st (c_key c)).
  pose proof (timelimit_exact e st (c_key c) pre) as H. cbv zeta in H. rewrite H. reflexivity.
Qed.
