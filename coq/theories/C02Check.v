(* C02 correspondence for the classic-control clip functions: arbitrary solver outputs y (incl. far outside
   the bounds), the clipped state and the observation the implementation produced. *)
From Coq Require Import List ZArith QArith Qminmax Bool.
From Lerax Require Import Common EnvBounds.
Import ListNotations.

Inductive case :=
| CMountainCar (wall : bool) (lo hi ms x v : Q) (out : list Q)      (* wall: left-wall velocity rule present (MountainCar) *)
| CTrig (bounds : list Q) (raw_vels : list Q) (obs : list Q).       (* Acrobot / Pendulum: obs = trig terms ++ clipped velocities *)

Definition agree (c : case) : bool :=
  match c with
  | CMountainCar wall lo hi ms x v out =>
      let v1 := clipQ' v (- ms) ms in let x1 := clipQ' x lo hi in
      let v2 := if wall && Qeq_bool x1 lo && Qle_bool v1 0 then 0 else v1 in
      Qeqb_list [x1; v2] out
  | CTrig bounds raw obs =>
      let nt := (length obs - length raw)%nat in
      Qeqb_list (map (fun p => clipQ' (fst p) (- snd p) (snd p)) (combine raw (skipn nt bounds))) (skipn nt obs)
  end.

Definition holds (c : case) : bool :=
  match c with
  | CMountainCar _ lo hi ms _ _ out =>
      match out with [x1; v1] => in_rangeb x1 lo hi && in_rangeb v1 (- ms) ms | _ => false end
  | CTrig bounds _ obs => forallb2 (fun o b => in_rangeb o (- b) b) obs bounds
  end.
