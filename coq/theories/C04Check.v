(* C04 (also C03 end-to-end, C12, C19-callback) correspondence:
   the RolloutBuffer produced by the real collect_rollout on a finite MDP with a tabular policy. *)
From Coq Require Import List ZArith QArith Bool.
From Lerax Require Import Common Env Tab Gae OnPolicy.
Import ListNotations.

Record irow := {
  i_obs : list Q; i_act : Q; i_rew : Q; i_done : bool; i_logp : Q; i_val : Q; i_h : Z;
  i_mask : option (list bool); i_adv : Q; i_ret : Q;
  i_cb_rew : Q; i_cb_done : bool }.           (* what the step callback was handed *)

Definition est := ((list Z * Z) * Z)%type.    (* (TimeLimit counters, inner state), policy state *)
Record envcase := { ec_state : est; ec_rows : list irow; ec_final : est }.

Record case := {
  c_tab : tab; c_raw : rawtbl; c_stack : list wd; c_ptab : ptab;
  c_gamma : Q; c_lambda : Q; c_T : nat; c_key : kpath;
  c_vec : bool;                 (* false: one scalar collect_rollout with c_key;  true: filter_vmap over jr.split(c_key, N) *)
  c_det : bool;                 (* every table has a single choice: the run does not depend on any key *)
  c_envs : list envcase }.

Definition E_of (c : case) (rw : rawtbl) := wrap_d (c_stack c) (tab_env (c_tab c) rw).
Definition P_of (c : case) (rw : rawtbl) := tab_pol (c_ptab c) rw.

Definition est_eqb (a b : est) : bool :=
  Zeqb_list (fst (fst a)) (fst (fst b)) && Z.eqb (snd (fst a)) (snd (fst b)) && Z.eqb (snd a) (snd b).
Definition mask_eqb (a b : option (list bool)) := option_eqb beqb_list a b.

Definition row_ok (m : @orow Z (list Q)) (adv : Q) (i : irow) : bool :=
  Qeqb_list (r_obs m) (i_obs i) && Qeq_bool (r_act m) (i_act i) && Qeq_bool (r_rew m) (i_rew i)
  && Bool.eqb (r_done m) (i_done i) && Qeq_bool (r_logp m) (i_logp i) && Qeq_bool (r_val m) (i_val i)
  && Z.eqb (r_pstate m) (i_h i) && mask_eqb (r_mask m) (i_mask i)
  && Qeq_bool adv (i_adv i) && Qeq_bool (adv + r_val m) (i_ret i).

Definition env_key (c : case) (n i : nat) : kpath := if c_vec c then ks (c_key c) n i else c_key c.

Definition env_ok (c : case) (rw : rawtbl) (n : nat) (ie : nat * envcase) : bool :=
  let '(i, ec) := ie in
  let E := E_of c rw in let P := P_of c rw in
  let '(st, rows, last) := collect (c_gamma c) E P (c_T c) (ec_state ec) (env_key c n i) in
  let advs := gae_code Q 0 1 Qplus Qmult Qminus (c_gamma c) (c_lambda c) last (gae_rows rows) in
  est_eqb st (ec_final ec)
  && forallb2 (fun ma i => row_ok (fst ma) (snd ma) i) (combine rows advs) (ec_rows ec)
  && Nat.eqb (length rows) (length (ec_rows ec)).

Definition run_ok (c : case) (rw : rawtbl) : bool :=
  let n := length (c_envs c) in
  forallb (env_ok c rw n) (combine (seq 0 n) (c_envs c)).

(* correspondence, including the key wiring *)
Definition agree (c : case) : bool := run_ok c (c_raw c).

(* the property, independently of how keys are routed: on key-free cases the buffer must be the
   faithful record; computed with an EMPTY draw table *)
Definition holds (c : case) : bool := if c_det c then run_ok c [] else true.

(* C19: the step callback is handed the environment's own reward and done flag *)
Definition cb_ok (c : case) (rw : rawtbl) (n : nat) (ie : nat * envcase) : bool :=
  let '(i, ec) := ie in
  let '(_, rows, _) := collect (c_gamma c) (E_of c rw) (P_of c rw) (c_T c) (ec_state ec) (env_key c n i) in
  forallb2 (fun m i => Qeq_bool (r_env_rew m) (i_cb_rew i) && Bool.eqb (r_done m) (i_cb_done i)) rows (ec_rows ec).
Definition agree_cb (c : case) : bool :=
  let n := length (c_envs c) in forallb (cb_ok c (c_raw c) n) (combine (seq 0 n) (c_envs c)).
Definition holds_cb (c : case) : bool :=
  if c_det c then let n := length (c_envs c) in forallb (cb_ok c [] n) (combine (seq 0 n) (c_envs c)) else true.
