(* Gymnasium classic-control reference MDPs, hand-transcribed from the installed sources
   /venv/lib/python3.13/site-packages/gymnasium/envs/classic_control/{cartpole,mountain_car,
   continuous_mountain_car,acrobot}.py (gymnasium 1.3.0), default constructor arguments.
   Definitions only.  The transcription is validated numerically on every run of the C17 check against
   the installed Gymnasium `step` (executable Q twins in C17Check.v, tied to these by morphism lemmas).

   Conventions: the trigonometric VALUES are explicit arguments of the `_sc` kernels (so the same kernel has a
   rational twin); the real-number formula instantiates them with sin / cos from the standard library. *)
From Coq Require Import Reals List Bool.
From Lerax Require Import CCBase.
Import ListNotations.
Local Open Scope R_scope.

(* one explicit-Euler step  y + dt * f  on state vectors *)
Fixpoint euler_step (dt : R) (y f : list R) : list R :=
  match y, f with
  | yi :: ys, fi :: fs => (yi + dt * fi) :: euler_step dt ys fs
  | _, _ => []
  end.

(* ------------------------------------------------------------------------------------------ *)
Module GymCartPole.   (* CartPoleEnv, kinematics_integrator = "euler", sutton_barto_reward = False *)
  Definition gravity : R := 98 / 10.
  Definition masscart : R := 1.
  Definition masspole : R := 1 / 10.
  Definition total_mass : R := masspole + masscart.
  Definition length : R := 5 / 10.
  Definition polemass_length : R := masspole * length.
  Definition force_mag : R := 10.
  Definition tau : R := 2 / 100.
  Definition theta_threshold_radians : R := 12 * 2 * PI / 360.
  Definition x_threshold : R := 24 / 10.

  (* force = self.force_mag if action == 1 else -self.force_mag *)
  Definition force (a : nat) : R := if Nat.eqb a 1 then force_mag else - force_mag.
  (* s = sin theta, c = cos theta *)
  Definition temp (s theta_dot : R) (a : nat) : R :=
    (force a + polemass_length * (theta_dot * theta_dot) * s) / total_mass.
  Definition thetaacc (s c theta_dot : R) (a : nat) : R :=
    (gravity * s - c * temp s theta_dot a) / (length * (4 / 3 - masspole * (c * c) / total_mass)).
  Definition xacc (s c theta_dot : R) (a : nat) : R :=
    temp s theta_dot a - polemass_length * thetaacc s c theta_dot a * c / total_mass.

  (* the vector field that step() discretises: d/dt (x, x_dot, theta, theta_dot) *)
  Definition field (x x_dot theta theta_dot : R) (a : nat) : list R :=
    [x_dot; xacc (sin theta) (cos theta) theta_dot a; theta_dot; thetaacc (sin theta) (cos theta) theta_dot a].
  (* the "euler" branch of step() *)
  Definition step_euler (x x_dot theta theta_dot : R) (a : nat) : list R :=
    [x + tau * x_dot;
     x_dot + tau * xacc (sin theta) (cos theta) theta_dot a;
     theta + tau * theta_dot;
     theta_dot + tau * thetaacc (sin theta) (cos theta) theta_dot a].
  (* terminated, evaluated on the new state *)
  Definition terminated (x theta : R) : bool :=
    Rltb x (- x_threshold) || Rltb x_threshold x
    || Rltb theta (- theta_threshold_radians) || Rltb theta_threshold_radians theta.
  (* 1.0 on every step up to and including the terminating one *)
  Definition reward : R := 1.
  (* no state clipping in step() *)
  Definition limits (x x_dot theta theta_dot : R) : list R := [x; x_dot; theta; theta_dot].
  Definition obs_high : list (option R) := [Some (x_threshold * 2); None; Some (theta_threshold_radians * 2); None].
  Definition obs_low : list (option R) := [Some (- (x_threshold * 2)); None; Some (- (theta_threshold_radians * 2)); None].
  Definition init_low : list R := [- (5 / 100); - (5 / 100); - (5 / 100); - (5 / 100)].
  Definition init_high : list R := [5 / 100; 5 / 100; 5 / 100; 5 / 100].
  Definition n_actions : nat := 2.
End GymCartPole.

(* ------------------------------------------------------------------------------------------ *)
Module GymMountainCar.   (* MountainCarEnv, goal_velocity = 0 *)
  Definition min_position : R := - (12 / 10).
  Definition max_position : R := 6 / 10.
  Definition max_speed : R := 7 / 100.
  Definition goal_position : R := 5 / 10.
  Definition goal_velocity : R := 0.
  Definition force : R := 1 / 1000.
  Definition gravity : R := 25 / 10000.

  (* velocity += (action - 1) * self.force + math.cos(3 * position) * (-self.gravity);  c3x = cos (3 * position) *)
  Definition acc (c3x : R) (a : nat) : R := (INR a - 1) * force + c3x * (- gravity).
  (* the clipping part of step(): applied to the un-limited (position, velocity) *)
  Definition limits (position velocity : R) : list R :=
    let velocity := Rclip velocity (- max_speed) max_speed in
    let position := Rclip position min_position max_position in
    let velocity := if Reqb position min_position && Rltb velocity 0 then 0 else velocity in
    [position; velocity].
  (* step(), literally *)
  Definition step (position velocity : R) (a : nat) : list R :=
    let velocity := velocity + acc (cos (3 * position)) a in
    let velocity := Rclip velocity (- max_speed) max_speed in
    let position := position + velocity in
    let position := Rclip position min_position max_position in
    let velocity := if Reqb position min_position && Rltb velocity 0 then 0 else velocity in
    [position; velocity].
  (* the continuous-time system of which step() is the unit-step semi-implicit Euler discretisation *)
  Definition field (position velocity : R) (a : nat) : list R := [velocity; acc (cos (3 * position)) a].
  Definition terminated (position velocity : R) : bool :=
    Rleb goal_position position && Rleb goal_velocity velocity.
  Definition reward : R := - 1.
  Definition obs_low : list (option R) := [Some min_position; Some (- max_speed)].
  Definition obs_high : list (option R) := [Some max_position; Some max_speed].
  Definition init_low : list R := [- (6 / 10); 0].
  Definition init_high : list R := [- (4 / 10); 0].
  Definition n_actions : nat := 3.
End GymMountainCar.

(* ------------------------------------------------------------------------------------------ *)
Module GymContinuousMountainCar.   (* Continuous_MountainCarEnv, goal_velocity = 0 *)
  Definition min_action : R := - 1.
  Definition max_action : R := 1.
  Definition min_position : R := - (12 / 10).
  Definition max_position : R := 6 / 10.
  Definition max_speed : R := 7 / 100.
  Definition goal_position : R := 45 / 100.
  Definition goal_velocity : R := 0.
  Definition power : R := 15 / 10000.

  (* force = min(max(action[0], self.min_action), self.max_action) *)
  Definition force (a : R) : R := Rmin (Rmax a min_action) max_action.
  (* velocity += force * self.power - 0.0025 * math.cos(3 * position) *)
  Definition acc (c3x a : R) : R := force a * power - (25 / 10000) * c3x.
  Definition limits (position velocity : R) : list R :=
    let velocity := if Rltb max_speed velocity then max_speed else velocity in
    let velocity := if Rltb velocity (- max_speed) then - max_speed else velocity in
    let position := if Rltb max_position position then max_position else position in
    let position := if Rltb position min_position then min_position else position in
    let velocity := if Reqb position min_position && Rltb velocity 0 then 0 else velocity in
    [position; velocity].
  Definition step (position velocity a : R) : list R :=
    let velocity := velocity + acc (cos (3 * position)) a in
    let velocity := if Rltb max_speed velocity then max_speed else velocity in
    let velocity := if Rltb velocity (- max_speed) then - max_speed else velocity in
    let position := position + velocity in
    let position := if Rltb max_position position then max_position else position in
    let position := if Rltb position min_position then min_position else position in
    let velocity := if Reqb position min_position && Rltb velocity 0 then 0 else velocity in
    [position; velocity].
  Definition field (position velocity a : R) : list R := [velocity; acc (cos (3 * position)) a].
  (* evaluated on the NEW (position, velocity) *)
  Definition terminated (position velocity : R) : bool :=
    Rleb goal_position position && Rleb goal_velocity velocity.
  (* reward = 100.0 if terminated else 0;  reward -= math.pow(action[0], 2) * 0.1 *)
  Definition reward_with (terminated_new : bool) (a : R) : R :=
    (if terminated_new then 100 else 0) - (a * a) * (1 / 10).
  Definition reward (a position' velocity' : R) : R := reward_with (terminated position' velocity') a.
  Definition obs_low : list (option R) := [Some min_position; Some (- max_speed)].
  Definition obs_high : list (option R) := [Some max_position; Some max_speed].
  Definition init_low : list R := [- (6 / 10); 0].
  Definition init_high : list R := [- (4 / 10); 0].
End GymContinuousMountainCar.

(* ------------------------------------------------------------------------------------------ *)
Module GymAcrobot.   (* AcrobotEnv, book_or_nips = "book", torque_noise_max = 0 *)
  Definition dt : R := 2 / 10.
  Definition LINK_LENGTH_1 : R := 1.
  Definition LINK_LENGTH_2 : R := 1.
  Definition LINK_MASS_1 : R := 1.
  Definition LINK_MASS_2 : R := 1.
  Definition LINK_COM_POS_1 : R := 5 / 10.
  Definition LINK_COM_POS_2 : R := 5 / 10.
  Definition LINK_MOI : R := 1.
  Definition MAX_VEL_1 : R := 4 * PI.
  Definition MAX_VEL_2 : R := 9 * PI.
  Definition AVAIL_TORQUE : list R := [- 1; 0; 1].
  Definition g : R := 98 / 10.

  (* _dsdt with the trigonometric values as arguments:
     c2 = cos theta2, s2 = sin theta2, c12 = cos (theta1 + theta2 - pi/2), c1 = cos (theta1 - pi/2) *)
  Definition dsdt_sc (c2 s2 c12 c1 dtheta1 dtheta2 a : R) : list R :=
    let m1 := LINK_MASS_1 in let m2 := LINK_MASS_2 in let l1 := LINK_LENGTH_1 in
    let lc1 := LINK_COM_POS_1 in let lc2 := LINK_COM_POS_2 in let I1 := LINK_MOI in let I2 := LINK_MOI in
    let d1 := m1 * (lc1 * lc1) + m2 * (l1 * l1 + lc2 * lc2 + 2 * l1 * lc2 * c2) + I1 + I2 in
    let d2 := m2 * (lc2 * lc2 + l1 * lc2 * c2) + I2 in
    let phi2 := m2 * lc2 * g * c12 in
    let phi1 := - m2 * l1 * lc2 * (dtheta2 * dtheta2) * s2
                - 2 * m2 * l1 * lc2 * dtheta2 * dtheta1 * s2
                + (m1 * lc1 + m2 * l1) * g * c1 + phi2 in
    let ddtheta2 := (a + d2 / d1 * phi1 - m2 * l1 * lc2 * (dtheta1 * dtheta1) * s2 - phi2)
                    / (m2 * (lc2 * lc2) + I2 - (d2 * d2) / d1) in
    let ddtheta1 := - (d2 * ddtheta2 + phi1) / d1 in
    [dtheta1; dtheta2; ddtheta1; ddtheta2].
  Definition dsdt (theta1 theta2 dtheta1 dtheta2 a : R) : list R :=
    dsdt_sc (cos theta2) (sin theta2) (cos (theta1 + theta2 - PI / 2)) (cos (theta1 - PI / 2)) dtheta1 dtheta2 a.
  (* torque = AVAIL_TORQUE[a]; the vector field integrated (rk4) by step() *)
  Definition field (theta1 theta2 dtheta1 dtheta2 : R) (a : nat) : list R :=
    dsdt theta1 theta2 dtheta1 dtheta2 (nth a AVAIL_TORQUE 0).
  (* bound(x, m, M) = min(max(x, m), M) *)
  Definition bound (x m M : R) : R := Rmin (Rmax x m) M.
  (* wrap(x, -pi, pi): some representative of x modulo 2 pi inside [-pi, pi] (while loops in the source) *)
  Definition wrap_spec (x r : R) : Prop := - PI <= r <= PI /\ exists k : Z, r = x + IZR k * (2 * PI).
  (* _terminal(): bool(-cos(s[0]) - cos(s[1] + s[0]) > 1.0), on the new state *)
  Definition terminated (theta1 theta2 : R) : bool := Rltb 1 (- cos theta1 - cos (theta2 + theta1)).
  (* reward = -1.0 if not terminated else 0.0 *)
  Definition reward (theta1' theta2' : R) : R := if terminated theta1' theta2' then 0 else - 1.
  Definition obs_high : list (option R) := [Some 1; Some 1; Some 1; Some 1; Some MAX_VEL_1; Some MAX_VEL_2].
  Definition obs_low : list (option R) :=
    [Some (- 1); Some (- 1); Some (- 1); Some (- 1); Some (- MAX_VEL_1); Some (- MAX_VEL_2)].
  (* _get_ob *)
  Definition get_ob (s0 s1 s2 s3 : R) : list R := [cos s0; sin s0; cos s1; sin s1; s2; s3].
  Definition init_low : list R := [- (1 / 10); - (1 / 10); - (1 / 10); - (1 / 10)].
  Definition init_high : list R := [1 / 10; 1 / 10; 1 / 10; 1 / 10].
  Definition n_actions : nat := 3.
End GymAcrobot.
