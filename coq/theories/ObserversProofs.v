From Coq Require Import List Arith Lia.
From Lerax Require Import Common Env OnPolicy Observers.
Import ListNotations.

Section NonInterference.
  Variable St : Type.
  Variable core_reset : kpath -> St.
  Variable core_iter : St -> kpath -> kpath -> St.

  (* two arbitrary observers, of arbitrary (different) state types *)
  Variables CB1 CB2 : Type.
  Variables (r1 : kpath -> CB1) (s1 i1 e1 : CB1 -> St -> kpath -> CB1).
  Variables (r2 : kpath -> CB2) (s2 i2 e2 : CB2 -> St -> kpath -> CB2).

  Lemma fold_noninterference keys : forall st c1 c2,
    fst (fold_left (iteration St core_iter CB1 i1) keys (st, c1)) =
    fst (fold_left (iteration St core_iter CB2 i2) keys (st, c2)).
  Proof.
    induction keys as [|k tl IH]; intros st c1 c2; [reflexivity|].
    cbn [fold_left]. unfold iteration at 2 4. cbn [fst snd]. apply IH.
  Qed.

  (* the trained state (policy, optimiser, env states, buffers) is the same whatever observers are attached *)
  Theorem noninterference n k :
    fst (learn St core_reset core_iter CB1 r1 s1 i1 e1 n k) = fst (learn St core_reset core_iter CB2 r2 s2 i2 e2 n k).
  Proof.
    unfold learn.
    pose proof (fold_noninterference (split_keys (ks k 4 2) n) (core_reset (ks (ks k 4 1) 2 0))
                  (s1 (r1 (ks (ks k 4 1) 2 1)) (core_reset (ks (ks k 4 1) 2 0)) (ks k 4 0))
                  (s2 (r2 (ks (ks k 4 1) 2 1)) (core_reset (ks (ks k 4 1) 2 0)) (ks k 4 0))) as H.
    destruct (fold_left (iteration St core_iter CB1 i1) _ _) as [a c]. 
    destruct (fold_left (iteration St core_iter CB2 i2) _ _) as [b c']. cbn [fst] in *. exact H.
  Qed.

  (* training is a function of its inputs: same inputs, same result (the model is a Gallina function) *)
  Theorem deterministic n k : learn St core_reset core_iter CB1 r1 s1 i1 e1 n k = learn St core_reset core_iter CB1 r1 s1 i1 e1 n k.
  Proof. reflexivity. Qed.
End NonInterference.

(* callbacks get their own keys: the key handed to an observer is never a key the core uses *)
Lemma ks_inj k n i j : ks k n i = ks k n j -> i = j.
Proof. unfold ks. intros H. apply app_inv_head in H. inversion H. reflexivity. Qed.

Theorem callback_keys_fresh (k : kpath) :
  (* learn: start / end keys differ from reset and learn keys *)
  ks k 4 0 <> ks k 4 1 /\ ks k 4 0 <> ks k 4 2 /\ ks k 4 3 <> ks k 4 1 /\ ks k 4 3 <> ks k 4 2 /\
  (* reset: callback key differs from the step key *)
  ks k 2 1 <> ks k 2 0 /\
  (* iteration: callback key differs from the rollout and train keys *)
  ks k 3 2 <> ks k 3 0 /\ ks k 3 2 <> ks k 3 1 /\
  (* step: callback key (index 8 of 9) differs from the eight keys the interaction uses *)
  (forall i, (i < 8)%nat -> ks k 9 8 <> ks k 9 i).
Proof.
  repeat split; try (intro H; apply ks_inj in H; discriminate).
  intros i Hi H. apply ks_inj in H. lia.
Qed.

(* ---------- the concrete collection models are blind to their observers ---------- *)
From Lerax Require Import Replay OffPolicy.
From Coq Require Import QArith.

Section ConcreteFacts.
  Context {S PS O CS : Type}.
  Variable gamma : Q.
  Variable E : env S Q O.
  Variable P : acpol PS Q O.

  Theorem onpolicy_collection_ignores_observer (cb : CS -> @orow PS O -> kpath -> CS) : forall keys st c,
    let '(st', _, rows) := scan_steps_cb gamma E P cb st c keys in
    (st', rows) = scan_steps gamma E P st keys.
  Proof.
    induction keys as [|k tl IH]; intros st c; [reflexivity|].
    cbn [scan_steps_cb scan_steps]. destruct (op_step gamma E P st k) as [st1 row].
    specialize (IH st1 (cb c row (ks k 9 8))).
    destruct (scan_steps_cb gamma E P cb st1 (cb c row (ks k 9 8)) tl) as [[st2 c2] rows].
    destruct (scan_steps gamma E P st1 tl) as [st2' rows']. inversion IH; subst. reflexivity.
  Qed.

  Theorem offpolicy_collection_ignores_observer (cb : CS -> trow O Q PS -> kpath -> CS) : forall keys st c,
    fst (off_scan_cb E P cb st c keys) = off_scan E P st keys.
  Proof.
    induction keys as [|k tl IH]; intros st c; [reflexivity|].
    cbn [off_scan_cb]. unfold off_scan in *. cbn [fold_left]. apply IH.
  Qed.

End ConcreteFacts.
