(* C16 correspondence.  One case = the outputs of real lerax objects:
   KCat   a (masked) Categorical, or MLPActorCriticPolicy over a Discrete action space, or
          MLPQPolicy's distribution: unmasked probs, masked logits/probs, mode / key-less action,
          samples / keyed actions together with the Gumbel noise their key produces
   KMulti MultiCategorical / MultiDiscrete policy: flat data, split by dims in Coq
   KBern  Bernoulli / MultiBinary policy: masked probs, mode, samples with their uniform draws
   KQ     MLPQPolicy.__call__: q-values, mask, epsilon, key draws, returned action.
   exp values are oracle inputs (mpmath); discrete outcomes are compared exactly. *)
From Coq Require Import List Bool ZArith QArith Qabs Lia.
From Lerax Require Import Common Distributions DistributionsProofs.
Import ListNotations.

Definition tol : Q := 1 # 1000000000.

Definition Qltb (a b : Q) : bool := negb (Qle_bool b a).
Definition Qmask_e := mask_e Q.
Definition Qargmax := argmax Q Qltb.
Definition Qcat_mode := cat_mode Q Qltb.
Definition Qcat_sample := cat_sample Q Qplus Qltb.
Definition Qsum := tsum Q 0 Qplus.
Definition Qmprobs := mprobs Q 0 Qplus Qdiv.
Definition Qq_act := q_act Q 0 Qplus Qltb.

Definition is_some {A} (o : option A) : bool := match o with Some _ => true | None => false end.
Definition nthb (l : list bool) (i : nat) : bool := nth i l false.
Definition allowedZ (m : list bool) (a : Z) : bool := (0 <=? a)%Z && nthb m (Z.to_nat a).

(* extended order on logits: None = -inf *)
Definition ele (a b : option Q) : bool :=
  match a, b with
  | None, _ => true
  | Some _, None => false
  | Some x, Some y => Qle_bool x y
  end.

(* a is a maximiser of the extended vector l *)
Definition is_argmax (l : list (option Q)) (a : Z) : bool :=
  (0 <=? a)%Z && forallb (fun x => ele x (nth (Z.to_nat a) l None)) l.

Definition draw := (list Q * Z * option Q)%type.

Section Cat.
  Variables (ews : list Q) (mask : list bool) (probs_u : list Q) (mlogits : list (option Q))
            (probs_m : list Q) (greedy : Z) (draws : list draw).

  Definition lengths_ok : bool :=
    let n := length mask in
    Nat.eqb (length ews) n && Nat.eqb (length probs_u) n && Nat.eqb (length mlogits) n && Nat.eqb (length probs_m) n.

  (* property predicate on the implementation's outputs *)
  Definition cat_holds : bool :=
    lengths_ok
    (* masked actions: probability exactly zero, logit -inf *)
    && forallb2 (fun b pm => b || Qeq_bool pm 0) mask probs_m
    && forallb2 (fun b ml => b || negb (is_some ml)) mask mlogits
    (* allowed actions: original probability renormalised by the allowed mass *)
    && (let am := Qsum (mweights Q 0 probs_u mask) in
        forallb2 (fun bp pm => negb (fst bp) || Qclose tol pm (snd bp / am)) (combine mask probs_u) probs_m)
    && Qclose tol (Qsum probs_m) 1
    (* mode / key-less action: allowed and greedy *)
    && allowedZ mask greedy && is_argmax mlogits greedy
    (* samples / keyed actions: allowed; reported log-prob is that of the masked law at the sample *)
    && forallb (fun d : draw =>
                  let '(_, s, lp) := d in
                  allowedZ mask s &&
                  match lp with
                  | None => true
                  | Some v => match nth (Z.to_nat s) mlogits None with Some w => Qclose tol v w | None => false end
                  end) draws.

  (* model = implementation *)
  Definition cat_agree : bool :=
    lengths_ok
    && Qclose_list tol (Qmprobs ews mask) probs_m
    && forallb2 (fun b ml => Bool.eqb b (is_some ml)) mask mlogits
    && Z.eqb greedy (Z.of_nat (Qcat_mode mlogits))
    && forallb (fun d : draw =>
                  let '(g, s, _) := d in
                  let pert := perturb Q Qplus mlogits g in
                  let a := Qargmax pert in
                  Z.eqb s (Z.of_nat a)
                  || ((0 <=? s)%Z &&
                      match nth (Z.to_nat s) pert None, nth a pert None with
                      | Some v, Some w => Qle_bool (Qabs (v - w)) tol
                      | _, _ => false
                      end)) draws.
End Cat.

Definition nthl {A} (l : list (list A)) (i : nat) : list A := nth i l [].

Section Multi.
  Variables (dims : list nat) (ews : list Q) (mask : list bool) (probs_u : list Q) (mlogits : list (option Q))
            (probs_m : list Q) (greedy : list Z) (draws : list (list Q * list Z * option Q)).

  Definition comp_draws (k : nat) : list draw :=
    map (fun d => let '(g, s, _) := d in (nthl (split_dims g dims) k, nth k s (-1)%Z, None)) draws.

  Definition per_comp (f : list Q -> list bool -> list Q -> list (option Q) -> list Q -> Z -> list draw -> bool) : bool :=
    Nat.eqb (length mask) (fold_right Nat.add 0%nat dims) && Nat.eqb (length greedy) (length dims)
    && forallb (fun k =>
         f (nthl (split_dims ews dims) k) (nthl (split_dims mask dims) k) (nthl (split_dims probs_u dims) k)
           (nthl (split_dims mlogits dims) k) (nthl (split_dims probs_m dims) k) (nth k greedy (-1)%Z) (comp_draws k))
       (seq 0 (length dims)).

  (* reported joint log-prob = sum of the component log-probs of the masked law at the sample *)
  Definition joint_lp_ok : bool :=
    forallb (fun d => let '(_, s, lp) := d in
       match lp with
       | None => true
       | Some v =>
         let parts := map (fun k => nth (Z.to_nat (nth k s 0%Z)) (nthl (split_dims mlogits dims) k) None) (seq 0 (length dims)) in
         forallb is_some parts &&
         Qclose tol v (Qsum (map (fun o => match o with Some w => w | None => 0 end) parts))
       end) draws.

  Definition multi_holds : bool := per_comp cat_holds && joint_lp_ok.
  Definition multi_agree : bool := per_comp cat_agree.
End Multi.

Section Bern.
  Variables (ews : list Q) (mask : list bool) (probs_m : list Q) (greedy : list bool)
            (draws : list (list Q * list bool)).

  Definition bern_holds : bool :=
    let n := length mask in
    Nat.eqb (length probs_m) n && Nat.eqb (length greedy) n
    && forallb2 (fun b pm => b || Qeq_bool pm 0) mask probs_m
    && forallb2 (fun b g => b || negb g) mask greedy
    && forallb (fun d => Nat.eqb (length (snd d)) n && forallb2 (fun b s => b || negb s) mask (snd d)) draws.

  Definition bern_agree : bool :=
    Nat.eqb (length ews) (length mask)
    (* p = sigmoid(logit) = e/(1+e) where allowed, 0 where masked *)
    && Qclose_list tol (mweights Q 0 (map (fun e => e / (1 + e)) ews) mask) probs_m
    && beqb_list (bern_mode Q Qltb (1 # 2) probs_m) greedy
    && forallb (fun d => beqb_list (bern_sample Q Qltb probs_m (fst d)) (snd d)) draws.
End Bern.

Section QPol.
  (* q-values, optional mask, epsilon, (u, gumbel noise) when a key is given, returned action *)
  Variables (qs : list Q) (mask : option (list bool)) (eps : Q) (dr : option (Q * list Q)) (action : Z).

  Definition q_mlogits : list (option Q) := apply_mask Q (map Some qs) mask.
  Definition q_maskv : list bool := match mask with Some m => m | None => map (fun _ => true) qs end.

  Definition q_holds : bool :=
    Nat.eqb (length q_maskv) (length qs)
    && allowedZ q_maskv action
    (* departs from the greedy action only with a key, epsilon > 0 and u < epsilon *)
    && (is_argmax q_mlogits action
        || match dr with Some (u, _) => Qltb 0 eps && Qltb u eps | None => false end).

  Definition q_agree : bool := Z.eqb action (Z.of_nat (Qq_act (map Some qs) mask eps dr)).
End QPol.

Inductive case :=
| KCat (ews : list Q) (mask : list bool) (probs_u : list Q) (mlogits : list (option Q))
       (probs_m : list Q) (greedy : Z) (draws : list draw)
| KMulti (dims : list nat) (ews : list Q) (mask : list bool) (probs_u : list Q) (mlogits : list (option Q))
         (probs_m : list Q) (greedy : list Z) (draws : list (list Q * list Z * option Q))
| KBern (ews : list Q) (mask : list bool) (probs_m : list Q) (greedy : list bool) (draws : list (list Q * list bool))
| KQ (qs : list Q) (mask : option (list bool)) (eps : Q) (dr : option (Q * list Q)) (action : Z).

Definition holds (c : case) : bool :=
  match c with
  | KCat e m pu ml pm g d => cat_holds e m pu ml pm g d
  | KMulti dims e m pu ml pm g d => multi_holds dims e m pu ml pm g d
  | KBern e m pm g d => bern_holds m pm g d
  | KQ qs m eps dr a => q_holds qs m eps dr a
  end.

Definition agree (c : case) : bool :=
  match c with
  | KCat e m pu ml pm g d => cat_agree e m pu ml pm g d
  | KMulti dims e m pu ml pm g d => multi_agree dims e m pu ml pm g d
  | KBern e m pm g d => bern_agree e m pm g d
  | KQ qs m eps dr a => q_agree qs m eps dr a
  end.

(* ------------------------------------------------------------------ *)
(* link lemmas *)

Lemma nth_error_nthb m a : nth_error m a = Some true -> nthb m a = true.
Proof. intros H. unfold nthb. apply (nth_nth_error _ _ false _ H). Qed.

(* the executable model's sample / mode / Q-policy action always pass the "allowed" part of the
   predicate: instances at Q of the carrier-independent theorems *)
Theorem model_sample_allowed ls m noise :
  length ls = length m -> length noise = length ls ->
  (exists k x, nth_error ls k = Some (Some x) /\ nth_error m k = Some true) ->
  allowedZ m (Z.of_nat (Qcat_sample (Qmask_e ls m) noise)) = true.
Proof.
  intros H1 H2 H3. unfold allowedZ. rewrite Nat2Z.id.
  destruct (sample_allowed Qplus Qltb ls m noise H1 H2 H3) as [Ha _].
  apply andb_true_intro; split; [apply Z.leb_le; lia | apply nth_error_nthb, Ha].
Qed.

Theorem model_mode_allowed ls m :
  (exists k x, nth_error ls k = Some (Some x) /\ nth_error m k = Some true) ->
  allowedZ m (Z.of_nat (Qcat_mode (Qmask_e ls m))) = true.
Proof.
  intros H3. unfold allowedZ. rewrite Nat2Z.id.
  destruct (mode_allowed Qltb ls m H3) as [Ha _].
  apply andb_true_intro; split; [apply Z.leb_le; lia | apply nth_error_nthb, Ha].
Qed.

Theorem model_q_allowed qs m eps dr :
  length qs = length m -> (forall u g, dr = Some (u, g) -> length g = length qs) ->
  (exists k, nth_error m k = Some true /\ (k < length qs)%nat) ->
  allowedZ m (Z.of_nat (Qq_act (map Some qs) (Some m) eps dr)) = true.
Proof.
  intros H1 H2 (k & Hk & Hlt). unfold allowedZ. rewrite Nat2Z.id.
  destruct (nth_error qs k) as [x|] eqn:E; [|apply nth_error_None in E; lia].
  destruct (q_act_allowed 0 Qplus Qltb (map Some qs) m eps dr) as [Ha _].
  - rewrite map_length; assumption.
  - intros u g Hd. rewrite map_length. eapply H2; exact Hd.
  - exists k, x. split; [rewrite nth_error_map, E; reflexivity | assumption].
  - apply andb_true_intro; split; [apply Z.leb_le; lia | apply nth_error_nthb, Ha].
Qed.

(* soundness of the predicate: what `holds` = true says about the recorded implementation outputs *)
Lemma forallb2_nth {A B} (f : A -> B -> bool) l1 l2 i x y :
  forallb2 f l1 l2 = true -> nth_error l1 i = Some x -> nth_error l2 i = Some y -> f x y = true.
Proof.
  revert l2 i; induction l1 as [|a l1 IH]; intros [|b l2] [|i] H H1 H2; cbn in *; try discriminate;
    apply andb_prop in H as [Ha Hb].
  - inversion H1; inversion H2; subst; assumption.
  - eapply IH; eassumption.
Qed.

Theorem cat_holds_sound e m pu ml pm g d :
  cat_holds e m pu ml pm g d = true ->
  (forall i p, nth_error m i = Some false -> nth_error pm i = Some p -> p == 0) /\
  allowedZ m g = true /\
  (forall noise s lp, In (noise, s, lp) d -> allowedZ m s = true).
Proof.
  unfold cat_holds. intros H.
  apply andb_prop in H as [H Hd]. apply andb_prop in H as [H Harg]. apply andb_prop in H as [H Hg].
  apply andb_prop in H as [H Htot]. apply andb_prop in H as [H Hren]. apply andb_prop in H as [H Hml].
  apply andb_prop in H as [Hlen Hz].
  repeat split.
  - intros i p Hm Hp. pose proof (forallb2_nth _ _ _ _ _ _ Hz Hm Hp) as Hq. cbn in Hq. apply Qeq_bool_iff, Hq.
  - assumption.
  - intros noise s lp Hin. rewrite forallb_forall in Hd. specialize (Hd _ Hin). cbn in Hd.
    apply andb_prop in Hd as [Hd _]. exact Hd.
Qed.

Theorem q_holds_sound qs m eps dr a :
  q_holds qs m eps dr a = true ->
  allowedZ (q_maskv qs m) a = true /\
  (is_argmax (q_mlogits qs m) a = true \/ exists u g, dr = Some (u, g) /\ Qltb 0 eps = true /\ Qltb u eps = true).
Proof.
  unfold q_holds. intros H. apply andb_prop in H as [H H2]. apply andb_prop in H as [_ H1]. split; [exact H1|].
  apply orb_prop in H2 as [H2 | H2]; [left; exact H2 | right].
  destruct dr as [[u g]|]; [|discriminate]. apply andb_prop in H2 as [Ha Hb]. exists u, g. auto.
Qed.

(* the Q-policy model never departs from greedy outside the u < eps branch, hence satisfies that part of the predicate *)
Theorem model_q_departs qs m eps dr :
  Qq_act (map Some qs) m eps dr <> Qcat_mode (apply_mask Q (map Some qs) m) ->
  exists u g, dr = Some (u, g) /\ Qltb 0 eps = true /\ Qltb u eps = true.
Proof. apply q_act_departs. Qed.
