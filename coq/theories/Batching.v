(* Minibatching of a rollout: flattening the (environment, step) axes, index
   rows of an epoch, gathering a minibatch, epochs of an update.
   Models: lerax/buffer/base_buffer.py:38-62 (flatten_axes), :64-88 (batch_indices),
   :90-130 (gather / batches), lerax/buffer/rollout.py:94-111 (sample),
   lerax/algorithm/ppo.py:240-306 (train_epoch / train),
   lerax/algorithm/on_policy.py:277 and base_algorithm.py:230-255 (key routing).
   Definitions only (executable); theorems are in BatchingProofs.v. *)
From Coq Require Import List Arith Bool.
From Lerax Require Import Common Env.
Import ListNotations.

(* ---------- flatten_axes on the (env, step) axes ---------- *)
(* default batch_axes=None on a buffer of shape (E, T): moveaxis is the identity and
   reshape((E*T,) + rest) is row-major, so sample (e, t) lands at e*T + t *)
Definition flat_index (T e t : nat) : nat := e * T + t.
Definition unflat_index (T i : nat) : nat * nat := (i / T, i mod T).

(* one array leaf of shape (E, T): list of E rows of length T; reshape = concat *)
Definition flatten2 {A} (x : list (list A)) : list A := concat x.

(* a buffer = struct of arrays: one entry per array leaf (every leaf of every
   pytree-structured field), all leaves flattened by the SAME map (jax.tree.map flatten_leaf) *)
Definition soa2 (A : Type) := list (list (list A)).   (* leaves x envs x steps *)
Definition soa (A : Type) := list (list A).           (* leaves x samples *)
Definition flatten_soa {A} (b : soa2 A) : soa A := map flatten2 b.

(* the array-of-structs view: a sample is a value s : S, leaf f of the buffer holds f s *)
Definition soa_of {S A} (fields : list (S -> A)) (samples : list S) : soa A :=
  map (fun f => map f samples) fields.
Definition soa2_of {S A} (fields : list (S -> A)) (grid : list (list S)) : soa2 A :=
  map (fun f => map (map f) grid) fields.

(* the grid of sample ids e*T+t *)
Definition id_grid (E T : nat) : list (list nat) :=
  map (fun e => map (fun t => flat_index T e t) (seq 0 T)) (seq 0 E).

(* shape[0] of a flattened buffer *)
Definition soa_len {A} (b : soa A) : nat := match b with [] => 0 | x :: _ => length x end.

(* ---------- batch_indices ---------- *)
(* reshape(-1, B) of a 1-D array of n*B entries: n consecutive chunks of B *)
Fixpoint chunks {A} (B n : nat) (l : list A) : list (list A) :=
  match n with
  | 0 => []
  | Datatypes.S n' => firstn B l :: chunks B n' (skipn B l)
  end.

(* indices[:total - total % B] *)
Definition trim {A} (B : nat) (p : list A) : list A := firstn (length p - length p mod B) p.

(* p = jr.permutation(key, total) (an oracle: ANY permutation) or arange(total) when key is None *)
Definition batch_indices {A} (B : nat) (p : list A) : list (list A) :=
  chunks B (length (trim B p) / B) (trim B p).

Definition sequential (N : nat) : list nat := seq 0 N.

(* ---------- gather / batches / sample ---------- *)
(* jnp.take(x, indices, axis=0) on one leaf *)
Definition gather {A} (d : A) (x : list A) (idx : list nat) : list A := map (fun i => nth i x d) idx.
(* jax.tree.map(take) : the same indices on every leaf *)
Definition gather_soa {A} (d : A) (b : soa A) (idx : list nat) : soa A := map (fun x => gather d x idx) b.
(* batches: take with the 2-D index array on every leaf: leaves x num_batches x B *)
Definition batches {A} (d : A) (B : nat) (p : list nat) (b : soa A) : list (list (list A)) :=
  map (fun x => map (gather d x) (batch_indices B p)) b.
(* sample: idx = jr.choice(key, total, (B,), replace=False) is an oracle *)
Definition sample {A} (d : A) (b : soa A) (idx : list nat) : soa A := gather_soa d b idx.

(* ---------- keys ---------- *)
(* ppo.py:293-295: epochs scan over jr.split(key, num_epochs); epoch i shuffles with the i-th key *)
Definition epoch_keys (key : kpath) (E : nat) : list kpath := map (ks key E) (seq 0 E).
(* on_policy.py:277: rollout_key, train_key, callback_key = jr.split(key, 3) *)
Definition rollout_key (ik : kpath) : kpath := ks ik 3 0.
Definition train_key (ik : kpath) : kpath := ks ik 3 1.
(* base_algorithm.py:230,255: learn_key = jr.split(key,4)[2]; iteration j gets jr.split(learn_key, M)[j] *)
Definition iteration_key (key : kpath) (M j : nat) : kpath := ks (ks key 4 2) M j.
(* the key that shuffles epoch i of update j of a learn() call *)
Definition shuffle_key (key : kpath) (M E j i : nat) : kpath := ks (train_key (iteration_key key M j)) E i.

(* ---------- train_epoch / train ---------- *)
Section Train.
  (* jr.permutation as an oracle from (key, total) *)
  Variable perm : kpath -> nat -> list nat.

  Definition epoch_rows (B N : nat) (k : kpath) : list (list nat) := batch_indices B (perm k N).
  (* index rows of a whole update: epochs x minibatches x B *)
  Definition train_rows (B N E : nat) (key : kpath) : list (list (list nat)) :=
    map (epoch_rows B N) (epoch_keys key E).

  Context {C A : Type}.
  Variable step : C -> soa A -> C.    (* train_batch: carry = (policy, opt_state) *)
  Variable d : A.

  (* ppo.py:240-267 *)
  Definition train_epoch (B : nat) (buf : soa2 A) (c : C) (k : kpath) : C :=
    let flat := flatten_soa buf in
    fold_left (fun c row => step c (gather_soa d flat row)) (batch_indices B (perm k (soa_len flat))) c.

  (* ppo.py:276-295 *)
  Definition train (B E : nat) (buf : soa2 A) (c : C) (key : kpath) : C :=
    fold_left (train_epoch B buf) (epoch_keys key E) c.
End Train.
