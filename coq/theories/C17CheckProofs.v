(* C17: the Q twins of the Gymnasium reference used by the correspondence check (C17Check.v) are the
   restriction of the real-number reference (ClassicControl.v) to rational arguments: CartPole accelerations / field,
   MountainCar velocity increment / field. *)
From Coq Require Import Reals List Bool QArith Qreals Qminmax Lra Lia Psatz.
From Lerax Require Import Common CCBase ClassicControl C17Check.
Import ListNotations.

Ltac q2r := repeat (rewrite ?Q2R_plus, ?Q2R_minus, ?Q2R_mult, ?Q2R_opp).
Local Open Scope R_scope.

Lemma Q2R_inject_nat a : Q2R (inject_Z (Z.of_nat a)) = INR a.
Proof. unfold Q2R, inject_Z; simpl. rewrite INR_IZR_INZ. field. Qed.

Lemma Q2R_div' x y : ~ (y == 0)%Q -> Q2R (x / y) = Q2R x / Q2R y.
Proof. intros H. unfold Qdiv, Rdiv. rewrite Q2R_mult, Q2R_inv by assumption. reflexivity. Qed.

Lemma Q2R_nonzero y : Q2R y <> 0 -> ~ (y == 0)%Q.
Proof. intros H E. apply H. rewrite (Qeq_eqR _ _ E). unfold Q2R; simpl. field. Qed.

Lemma mc_acc_morph c3x a : Q2R (QMountainCar.acc c3x a) = GymMountainCar.acc (Q2R c3x) a.
Proof.
  unfold QMountainCar.acc, GymMountainCar.acc, QMountainCar.force, QMountainCar.gravity, GymMountainCar.force, GymMountainCar.gravity.
  q2r. rewrite Q2R_inject_nat. generalize (Q2R c3x); intro r. unfold Q2R; simpl. field.
Qed.

(* CartPole accelerations: the Q twin is the restriction of the real formula to rational arguments
   (s, c stand for the sin / cos values; c * c <= 1 keeps the denominator away from 0) *)
Lemma Q2R_force a : Q2R (QCartPole.force a) = GymCartPole.force a.
Proof.
  unfold QCartPole.force, GymCartPole.force, QCartPole.force_mag, GymCartPole.force_mag.
  destruct (Nat.eqb a 1); [|rewrite Q2R_opp]; unfold Q2R; simpl; field.
Qed.

Lemma cp_total_mass : Q2R QCartPole.total_mass = GymCartPole.total_mass.
Proof. unfold QCartPole.total_mass, GymCartPole.total_mass, Q2R; simpl. unfold GymCartPole.masspole, GymCartPole.masscart. field. Qed.

Lemma cp_temp_morph s thd a : Q2R (QCartPole.temp s thd a) = GymCartPole.temp (Q2R s) (Q2R thd) a.
Proof.
  unfold QCartPole.temp, GymCartPole.temp.
  rewrite Q2R_div' by (apply Q2R_nonzero; rewrite cp_total_mass; unfold GymCartPole.total_mass, GymCartPole.masspole, GymCartPole.masscart; lra).
  q2r. rewrite Q2R_force, cp_total_mass. f_equal. f_equal.
  unfold QCartPole.polemass_length, GymCartPole.polemass_length, QCartPole.masspole, QCartPole.length, GymCartPole.masspole, GymCartPole.length.
  generalize (Q2R s) (Q2R thd); intros. unfold Q2R; simpl. field.
Qed.

Lemma cp_den_morph c :
  Q2R (QCartPole.length * ((4 # 3) - QCartPole.masspole * (c * c) / QCartPole.total_mass)) =
  GymCartPole.length * (4 / 3 - GymCartPole.masspole * (Q2R c * Q2R c) / GymCartPole.total_mass).
Proof.
  rewrite Q2R_mult, Q2R_minus.
  rewrite Q2R_div' by (apply Q2R_nonzero; rewrite cp_total_mass; unfold GymCartPole.total_mass, GymCartPole.masspole, GymCartPole.masscart; lra).
  q2r. rewrite cp_total_mass.
  unfold QCartPole.length, QCartPole.masspole, GymCartPole.length, GymCartPole.masspole.
  generalize (Q2R c); intros. unfold Q2R; simpl. field.
  unfold GymCartPole.total_mass, GymCartPole.masspole, GymCartPole.masscart; lra.
Qed.

Lemma cp_den_nonzero c : (c * c <= 1) ->
  GymCartPole.length * (4 / 3 - GymCartPole.masspole * (c * c) / GymCartPole.total_mass) <> 0.
Proof.
  unfold GymCartPole.length, GymCartPole.total_mass, GymCartPole.masscart. unfold GymCartPole.masspole. intros H.
  set (cc := c * c) in *. clearbody cc.
  replace (5 / 10 * (4 / 3 - 1 / 10 * cc / (1 / 10 + 1))) with (1 / 2 * (4 / 3 - cc / 11)) by field. apply Rgt_not_eq. lra.
Qed.

Lemma cp_thetaacc_morph s c thd a : Q2R c * Q2R c <= 1 ->
  Q2R (QCartPole.thetaacc s c thd a) = GymCartPole.thetaacc (Q2R s) (Q2R c) (Q2R thd) a.
Proof.
  intros Hc. unfold QCartPole.thetaacc, GymCartPole.thetaacc.
  rewrite Q2R_div' by (apply Q2R_nonzero; rewrite cp_den_morph; apply cp_den_nonzero; assumption).
  rewrite cp_den_morph. q2r. rewrite cp_temp_morph.
  unfold QCartPole.gravity, GymCartPole.gravity.
  replace (Q2R (98 # 10)) with (98 / 10) by (unfold Q2R; simpl; field). reflexivity.
Qed.

Lemma cp_xacc_morph s c thd a : Q2R c * Q2R c <= 1 ->
  Q2R (QCartPole.xacc s c thd a) = GymCartPole.xacc (Q2R s) (Q2R c) (Q2R thd) a.
Proof.
  intros Hc. unfold QCartPole.xacc, GymCartPole.xacc.
  rewrite Q2R_minus.
  rewrite Q2R_div' by (apply Q2R_nonzero; rewrite cp_total_mass; unfold GymCartPole.total_mass, GymCartPole.masspole, GymCartPole.masscart; lra).
  q2r. rewrite cp_temp_morph, cp_thetaacc_morph, cp_total_mass by assumption.
  unfold QCartPole.polemass_length, GymCartPole.polemass_length, QCartPole.masspole, QCartPole.length, GymCartPole.masspole, GymCartPole.length.
  rewrite Q2R_mult.
  replace (Q2R (1 # 10)) with (1 / 10) by (unfold Q2R; simpl; field).
  replace (Q2R (5 # 10)) with (5 / 10) by (unfold Q2R; simpl; field). reflexivity.
Qed.

Theorem cartpole_ref_twin s c x xd th thd a : Q2R c * Q2R c <= 1 ->
  map Q2R (QCartPole.field s c x xd th thd a) =
  [Q2R xd; GymCartPole.xacc (Q2R s) (Q2R c) (Q2R thd) a; Q2R thd; GymCartPole.thetaacc (Q2R s) (Q2R c) (Q2R thd) a].
Proof.
  intros Hc. unfold QCartPole.field. cbn [map]. rewrite cp_xacc_morph, cp_thetaacc_morph by assumption. reflexivity.
Qed.

Theorem mountaincar_ref_twin c3x x v a :
  map Q2R (QMountainCar.field c3x x v a) = [Q2R v; GymMountainCar.acc (Q2R c3x) a].
Proof. unfold QMountainCar.field. cbn [map]. rewrite mc_acc_morph. reflexivity. Qed.
