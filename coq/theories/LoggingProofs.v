From Coq Require Import List ZArith QArith Bool Lia Setoid.
From Lerax Require Import Common Env Tab OnPolicy Logging.
Import ListNotations.

Definition lstep (alpha : Q) := fun (s : lstate) (rd : Q * bool) => l_next alpha s (fst rd) (snd rd).

(* the in-progress totals carried by the state, with the reset-on-previous-done applied *)
Definition cur_ret (s : lstate) : Q := l_ret s * (1 - bQ (l_done s)).
Definition cur_len (s : lstate) : Z := (l_len s * (1 - bZ (l_done s)))%Z.

Lemma run_inv alpha : forall h s cs cl,
  cur_ret s == cs -> cur_len s = cl ->
  let s' := fold_left (lstep alpha) h s in
  cur_ret s' == tail_sum h cs /\ cur_len s' = tail_len h cl /\ l_step s' = (l_step s + Z.of_nat (length h))%Z.
Proof.
  induction h as [|[r d] tl IH]; intros s cs cl Hs Hl; cbn [fold_left tail_sum tail_len length].
  - repeat split; [assumption|assumption|lia].
  - set (s1 := lstep alpha s (r, d)).
    assert (H1: cur_ret s1 == (if d then 0 else cs + r)).
    { unfold s1, lstep, l_next, cur_ret; cbn [l_ret l_done fst snd]. fold (cur_ret s). rewrite Hs.
      destruct d; cbn [bQ]; ring. }
    assert (H2: cur_len s1 = (if d then 0 else cl + 1)%Z).
    { unfold s1, lstep, l_next, cur_len; cbn [l_len l_done fst snd]. fold (cur_len s). rewrite Hl.
      destruct d; cbn [bZ]; lia. }
    destruct (IH s1 _ _ H1 H2) as (A & B & C). repeat split; [exact A|exact B|].
    rewrite C. unfold s1, lstep, l_next; cbn [l_step]. lia.
Qed.

Lemma tail_sum_proper h : forall a b, a == b -> tail_sum h a == tail_sum h b.
Proof.
  induction h as [|[r d] tl IH]; intros a b H; cbn; [assumption|]. apply IH. destruct d; [reflexivity|]. rewrite H. reflexivity.
Qed.

(* at every episode end the statistics are blended with exactly the sum of rewards and the number of steps
   since the previous episode end; otherwise they are unchanged; the step counter counts steps *)
Theorem next_spec alpha h r d :
  let s := l_run alpha h in
  let s' := l_next alpha s r d in
  l_avg_ret s' == (if d then alpha * (tail_sum h 0 + r) + (1 - alpha) * l_avg_ret s else l_avg_ret s) /\
  l_avg_len s' == (if d then alpha * inject_Z (tail_len h 0 + 1) + (1 - alpha) * l_avg_len s else l_avg_len s) /\
  l_step s' = Z.of_nat (length h + 1).
Proof.
  cbv zeta. unfold l_run.
  destruct (run_inv alpha h l_init 0 0%Z) as (A & B & C).
  { unfold cur_ret, l_init; cbn. ring. }
  { reflexivity. }
  change (fun s rd => l_next alpha s (fst rd) (snd rd)) with (lstep alpha).
  set (s := fold_left (lstep alpha) h l_init) in *.
  unfold l_next; cbn [l_avg_ret l_avg_len l_step]. fold (cur_ret s). fold (cur_len s).
  repeat split.
  - destruct d; [|reflexivity]. rewrite A. reflexivity.
  - destruct d; [|reflexivity]. rewrite B. reflexivity.
  - rewrite C. cbn [l_step l_init]. lia.
Qed.

(* per-environment independence is structural: each environment threads its own state *)
Theorem per_env alpha (hs : list (list (Q * bool))) i h :
  nth_error hs i = Some h -> nth_error (map (l_run alpha) hs) i = Some (l_run alpha h).
Proof. intros H. rewrite nth_error_map, H. reflexivity. Qed.

(* cumulative number of environment steps reported by on_iteration *)
Theorem iter_steps alpha (hs : list (list (Q * bool))) :
  fst (fst (iter_record (map (l_run alpha) hs))) = Z.of_nat (length (concat hs)).
Proof.
  unfold iter_record; cbn [fst]. induction hs as [|h tl IH]; [reflexivity|].
  cbn [map fold_right concat]. rewrite IH, app_length.
  destruct (next_spec alpha h 0 false) as (_ & _ & Hs). cbv zeta in Hs. cbn [l_next l_step] in Hs. lia.
Qed.

(* ---------- evaluation helper ---------- *)
Section EvalFacts.
  Context {S PS O : Type}.
  Variable E : env S Q O.
  Variable P : acpol PS Q O.
  Variable det : bool.

  Lemma scan_done_zero st keys : qsum (scan_rewards E P det st true keys) == 0.
  Proof. induction keys as [|k tl IH]; cbn; [reflexivity|]. rewrite IH. ring. Qed.

  (* the scan accumulates exactly the rewards up to and including the first done (or the cap) *)
  Theorem scan_is_until_done st keys :
    qsum (scan_rewards E P det st false keys) == qsum (until_done (traj E P det st keys)).
  Proof.
    revert st. induction keys as [|k tl IH]; intros st; [reflexivity|].
    cbn [scan_rewards traj]. destruct (scan_step E P det st k) as [[st1 r] d].
    cbn [until_done]. destruct d; cbn [qsum fold_right].
    - rewrite scan_done_zero. reflexivity.
    - fold (qsum (scan_rewards E P det st1 false tl)). rewrite IH. reflexivity.
  Qed.

  Theorem rollout_scan_spec k max_steps :
    rollout_scan E P det k max_steps ==
    qsum (until_done (traj E P det (e_init E k, p_reset P k) (split_keys k max_steps))).
  Proof. unfold rollout_scan. apply scan_is_until_done. Qed.

  Lemma until_done_length l : (length (until_done l) <= length l)%nat.
  Proof. induction l as [|[r d] tl IH]; cbn; [lia|]. destruct d; cbn; lia. Qed.

  Lemma while_unfold f st k acc :
    while_loop E P det (Datatypes.S f) st k acc =
    if e_term E (fst st) k || e_trunc E (fst st) then Some acc
    else let '(s, ps) := st in
         let obs := e_obs E s (ks k 4 1) in
         let '(ps1, a) := call_policy P det ps obs (ks k 4 2) in
         let s1 := e_trans E s a (ks k 4 3) in
         while_loop E P det f (s1, ps1) (ks k 4 0) (acc + e_rew E s a s1 (ks k 4 0)).
  Proof. reflexivity. Qed.

  (* more fuel never changes a finished while-loop *)
  Theorem while_fuel_monotone f : forall st k acc v,
    while_loop E P det f st k acc = Some v -> while_loop E P det (Datatypes.S f) st k acc = Some v.
  Proof.
    induction f as [|f IH]; intros st k acc v H.
    - rewrite while_unfold. cbn in H. destruct (e_term E (fst st) k || e_trunc E (fst st)); [assumption|discriminate].
    - rewrite while_unfold in H. rewrite while_unfold.
      destruct (e_term E (fst st) k || e_trunc E (fst st)); [assumption|].
      destruct st as [s ps]. cbv zeta in *.
      destruct (call_policy P det ps (e_obs E s (ks k 4 1)) (ks k 4 2)) as [ps1 a].
      apply IH. exact H.
  Qed.
End EvalFacts.
