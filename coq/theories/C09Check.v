(* C09 correspondence.
   case  : one call sequence on a real RolloutBuffer whose every array leaf carries the
           sample id e*T+t: flatten_axes, then batch_indices / gather (or batches, or sample).
   ecase : one real PPO.train call on a gradient-tagging stub policy: which sample ids each
           minibatch of each epoch actually trained on.
   All numbers arrive as Z and are checked non-negative before conversion to nat. *)
From Coq Require Import List Arith ZArith Bool Lia Permutation.
From Lerax Require Import Common Env Batching BatchingProofs.
Import ListNotations.

(* ---------- boolean predicates on nat lists ---------- *)
Fixpoint nodupb (l : list nat) : bool :=
  match l with [] => true | x :: t => negb (existsb (Nat.eqb x) t) && nodupb t end.
Definition nl_eqb (a b : list nat) : bool := forallb2 Nat.eqb a b.
Definition nll_eqb (a b : list (list nat)) : bool := forallb2 nl_eqb a b.
Definition nlll_eqb (a b : list (list (list nat))) : bool := forallb2 nll_eqb a b.
Definition in_range (N : nat) (l : list nat) : bool := forallb (fun i => i <? N) l.
Definition is_permb (N : nat) (l : list nat) : bool := (length l =? N) && nodupb l && in_range N l.
(* all array leaves carry the same id sequence (and there is at least one leaf) *)
Definition all_same (l : list (list nat)) : bool :=
  match l with [] => false | x :: t => forallb (nl_eqb x) t end.
Definition par (l : list nat) : list nat := map (fun i => i mod 2) l.

(* index rows of one epoch: disjoint, in range, floor(N/B)*B used, intact rows *)
Definition rows_ok (N B : nat) (rows : list (list nat)) : bool :=
  (1 <=? B) && nodupb (concat rows) && in_range N (concat rows)
  && (length (concat rows) =? N / B * B) && forallb (fun r => length r =? B) rows
  && (length rows =? N / B).
(* sample(): one row of B distinct indices *)
Definition sample_ok (N B : nat) (rows : list (list nat)) : bool :=
  match rows with [r] => (length r =? B) && nodupb r && in_range N r | _ => false end.
Definition part_ok (sampling : bool) (N B : nat) (rows : list (list nat)) : bool :=
  if sampling then sample_ok N B rows else rows_ok N B rows.

(* ---------- nat view of a case ---------- *)
Record ncase := {
  n_sampling : bool;                 (* false: batch_indices+gather / batches; true: sample *)
  n_E : nat; n_T : nat; n_B : nat;
  n_perm : list nat;                 (* PRNG oracle: jr.permutation(key, N) (arange if key=None) / jr.choice *)
  n_rows : list (list nat);          (* index rows returned by lerax *)
  n_flat : list (list nat);          (* per array leaf of the flattened buffer: ids in order *)
  n_fpar : list nat;                 (* dones leaf of the flattened buffer (id mod 2) *)
  n_gath : list (list (list nat));   (* per minibatch, per array leaf: ids *)
  n_gpar : list (list nat) }.        (* per minibatch: dones leaf *)

Definition nN (c : ncase) : nat := n_E c * n_T c.

(* the property predicate, on implementation outputs only *)
Definition holds_nat (c : ncase) : bool :=
  let N := nN c in let B := n_B c in
  part_ok (n_sampling c) N B (n_rows c)
  && forallb (is_permb N) (n_flat c) && all_same (n_flat c)
  && nl_eqb (par (hd [] (n_flat c))) (n_fpar c)
  && (length (n_gath c) =? length (n_rows c))
  && forallb all_same (n_gath c)
  && part_ok (n_sampling c) N B (map (hd []) (n_gath c))
  && nll_eqb (map (fun g => par (hd [] g)) (n_gath c)) (n_gpar c).

Definition model_rows (sampling : bool) (B : nat) (perm : list nat) : list (list nat) :=
  if sampling then [perm] else batch_indices B perm.
Definition oracle_ok (sampling : bool) (N B : nat) (perm : list nat) : bool :=
  if sampling then sample_ok N B [perm] else (1 <=? B) && is_permb N perm.

(* model output == implementation output *)
Definition agree_nat (c : ncase) : bool :=
  let N := nN c in let B := n_B c in
  let ids := flatten2 (id_grid (n_E c) (n_T c)) in
  oracle_ok (n_sampling c) N B (n_perm c)
  && nll_eqb (model_rows (n_sampling c) B (n_perm c)) (n_rows c)
  && negb (length (n_flat c) =? 0) && forallb (nl_eqb ids) (n_flat c)
  && nl_eqb (par ids) (n_fpar c)
  && nlll_eqb (map (gather_soa 0 (n_flat c)) (n_rows c)) (n_gath c)
  && nll_eqb (map (gather 0 (n_fpar c)) (n_rows c)) (n_gpar c).

Definition model_ncase (sampling : bool) (E T B : nat) (perm : list nat) (F : nat) : ncase :=
  let ids := flatten2 (id_grid E T) in
  let flat := repeat ids F in
  let rows := model_rows sampling B perm in
  {| n_sampling := sampling; n_E := E; n_T := T; n_B := B; n_perm := perm; n_rows := rows;
     n_flat := flat; n_fpar := par ids;
     n_gath := map (gather_soa 0 flat) rows; n_gpar := map (gather 0 (par ids)) rows |}.

(* ---------- Z transport ---------- *)
Definition nn (l : list Z) : bool := forallb (Z.leb 0) l.
Definition zs (l : list Z) : list nat := map Z.to_nat l.

Record case := {
  c_sampling : bool; c_E : Z; c_T : Z; c_B : Z; c_perm : list Z; c_rows : list (list Z);
  c_flat : list (list Z); c_fpar : list Z; c_gath : list (list (list Z)); c_gpar : list (list Z) }.

Definition nonneg (c : case) : bool :=
  nn [c_E c; c_T c; c_B c] && nn (c_perm c) && forallb nn (c_rows c) && forallb nn (c_flat c)
  && nn (c_fpar c) && forallb (forallb nn) (c_gath c) && forallb nn (c_gpar c).
Definition to_ncase (c : case) : ncase :=
  {| n_sampling := c_sampling c; n_E := Z.to_nat (c_E c); n_T := Z.to_nat (c_T c); n_B := Z.to_nat (c_B c);
     n_perm := zs (c_perm c); n_rows := map zs (c_rows c); n_flat := map zs (c_flat c);
     n_fpar := zs (c_fpar c); n_gath := map (map zs) (c_gath c); n_gpar := map zs (c_gpar c) |}.
Definition zo (l : list nat) : list Z := map Z.of_nat l.
Definition of_ncase (c : ncase) : case :=
  {| c_sampling := n_sampling c; c_E := Z.of_nat (n_E c); c_T := Z.of_nat (n_T c); c_B := Z.of_nat (n_B c);
     c_perm := zo (n_perm c); c_rows := map zo (n_rows c); c_flat := map zo (n_flat c);
     c_fpar := zo (n_fpar c); c_gath := map (map zo) (n_gath c); c_gpar := map zo (n_gpar c) |}.

Definition holds (c : case) : bool := nonneg c && holds_nat (to_ncase c).
Definition agree (c : case) : bool := nonneg c && agree_nat (to_ncase c).
Definition model_case sampling E T B perm F : case := of_ncase (model_ncase sampling E T B perm F).

(* ---------- end-to-end epochs through PPO.train ---------- *)
Record necase := {
  ne_N : nat; ne_B : nat; ne_E : nat;
  ne_perms : list (list nat);               (* oracle: jr.permutation(jr.split(key, E)[i], N) *)
  ne_visits : list (list (list nat));       (* epoch x minibatch x ids trained on (observation channel, ascending) *)
  ne_aligned : list (list (list nat));      (* the same, decoded from the advantage/return channel *)
  ne_fresh : bool }.                        (* harness: enough distinguishable shuffles to demand distinct epochs *)

Fixpoint pairwise_distinct (l : list (list (list nat))) : bool :=
  match l with [] => true | x :: t => negb (existsb (nll_eqb x) t) && pairwise_distinct t end.
Definition count (l : list nat) (x : nat) : nat := length (filter (Nat.eqb x) l).
(* same multiset *)
Definition perm_eqb (a b : list nat) : bool :=
  (length a =? length b) && forallb (fun x => count a x =? count b x) a.

Definition eholds_nat (c : necase) : bool :=
  (length (ne_visits c) =? ne_E c)
  && forallb (rows_ok (ne_N c) (ne_B c)) (ne_visits c)
  && nlll_eqb (ne_aligned c) (ne_visits c)
  && (if ne_fresh c then pairwise_distinct (ne_visits c) else true).
Definition eagree_nat (c : necase) : bool :=
  (1 <=? ne_B c) && (length (ne_perms c) =? ne_E c) && forallb (is_permb (ne_N c)) (ne_perms c)
  && forallb2 (forallb2 perm_eqb) (map (batch_indices (ne_B c)) (ne_perms c)) (ne_visits c).
Definition model_necase (N B : nat) (perms : list (list nat)) : necase :=
  let v := map (batch_indices B) perms in
  {| ne_N := N; ne_B := B; ne_E := length perms; ne_perms := perms; ne_visits := v; ne_aligned := v; ne_fresh := false |}.

Record ecase := {
  e_N : Z; e_B : Z; e_E : Z; e_perms : list (list Z); e_visits : list (list (list Z));
  e_aligned : list (list (list Z)); e_fresh : bool }.
Definition enonneg (c : ecase) : bool :=
  nn [e_N c; e_B c; e_E c] && forallb nn (e_perms c) && forallb (forallb nn) (e_visits c)
  && forallb (forallb nn) (e_aligned c).
Definition to_necase (c : ecase) : necase :=
  {| ne_N := Z.to_nat (e_N c); ne_B := Z.to_nat (e_B c); ne_E := Z.to_nat (e_E c);
     ne_perms := map zs (e_perms c); ne_visits := map (map zs) (e_visits c);
     ne_aligned := map (map zs) (e_aligned c); ne_fresh := e_fresh c |}.
Definition of_necase (c : necase) : ecase :=
  {| e_N := Z.of_nat (ne_N c); e_B := Z.of_nat (ne_B c); e_E := Z.of_nat (ne_E c);
     e_perms := map zo (ne_perms c); e_visits := map (map zo) (ne_visits c);
     e_aligned := map (map zo) (ne_aligned c); e_fresh := ne_fresh c |}.
Definition eholds (c : ecase) : bool := enonneg c && eholds_nat (to_necase c).
Definition eagree (c : ecase) : bool := enonneg c && eagree_nat (to_necase c).
Definition model_ecase N B perms : ecase := of_necase (model_necase N B perms).

(* ================= reflection ================= *)
Lemma nodupb_NoDup l : nodupb l = true <-> NoDup l.
Proof.
  induction l as [|x t IH]; cbn; [split; [constructor | reflexivity]|].
  rewrite andb_true_iff, negb_true_iff, IH. split.
  - intros [Hx Ht]. constructor; [|assumption]. intro Hin.
    assert (existsb (Nat.eqb x) t = true) by (apply existsb_exists; exists x; split; [assumption | apply Nat.eqb_refl]).
    congruence.
  - intros H. inversion H; subst. split; [|assumption].
    destruct (existsb (Nat.eqb x) t) eqn:E; [|reflexivity].
    apply existsb_exists in E as (y & Hy & Hxy). apply Nat.eqb_eq in Hxy. subst. contradiction.
Qed.

Lemma in_range_Forall N l : in_range N l = true <-> Forall (fun i => i < N) l.
Proof.
  unfold in_range. rewrite forallb_forall, Forall_forall. split; intros H x Hx; specialize (H x Hx).
  - apply Nat.ltb_lt; assumption.
  - apply Nat.ltb_lt; assumption.
Qed.

Lemma nl_eqb_eq a b : nl_eqb a b = true <-> a = b.
Proof.
  unfold nl_eqb. rewrite forallb2_Forall2. split.
  - induction 1 as [|x y t1 t2 H _ IH]; [reflexivity|]. apply Nat.eqb_eq in H. congruence.
  - intros ->. induction b; constructor; [apply Nat.eqb_refl | assumption].
Qed.

Lemma nll_eqb_eq a b : nll_eqb a b = true <-> a = b.
Proof.
  unfold nll_eqb. rewrite forallb2_Forall2. split.
  - induction 1 as [|x y t1 t2 H _ IH]; [reflexivity|]. apply nl_eqb_eq in H. congruence.
  - intros ->. induction b; constructor; [apply nl_eqb_eq; reflexivity | assumption].
Qed.

Lemma nlll_eqb_eq a b : nlll_eqb a b = true <-> a = b.
Proof.
  unfold nlll_eqb. rewrite forallb2_Forall2. split.
  - induction 1 as [|x y t1 t2 H _ IH]; [reflexivity|]. apply nll_eqb_eq in H. congruence.
  - intros ->. induction b; constructor; [apply nll_eqb_eq; reflexivity | assumption].
Qed.

Lemma is_permb_Permutation N l : is_permb N l = true <-> Permutation l (seq 0 N).
Proof.
  unfold is_permb. rewrite !andb_true_iff, Nat.eqb_eq, nodupb_NoDup, in_range_Forall. split.
  - intros [[Hl Hnd] Hr]. apply NoDup_Permutation_bis; [assumption | rewrite seq_length; lia|].
    intros x Hx. rewrite Forall_forall in Hr. apply in_seq. specialize (Hr x Hx). lia.
  - intros H. destruct (perm_seq_facts N l H) as (Hl & Hnd & Hin). repeat split; try assumption.
    apply Forall_forall. intros x Hx. apply Hin; assumption.
Qed.

Lemma all_same_spec l : all_same l = true <-> exists x, l <> [] /\ Forall (fun y => y = x) l.
Proof.
  destruct l as [|x t]; cbn.
  - split; [discriminate | intros (x & H & _); congruence].
  - rewrite forallb_forall. split.
    + intros H. exists x. split; [discriminate|]. constructor; [reflexivity|].
      apply Forall_forall. intros y Hy. symmetry. apply nl_eqb_eq. apply H; assumption.
    + intros (x' & _ & HF). inversion HF; subst. intros y Hy. apply nl_eqb_eq.
      rewrite Forall_forall in H2. symmetry. apply H2; assumption.
Qed.

Lemma all_same_repeat x F : 1 <= F -> all_same (repeat x F) = true.
Proof.
  intros HF. apply all_same_spec. exists x. split; [destruct F; [lia | discriminate]|].
  apply Forall_forall. intros y Hy. eapply repeat_spec; eassumption.
Qed.

(* ---------- the row predicates mean what they say ---------- *)
Definition Partition (N B : nat) (rows : list (list nat)) : Prop :=
  1 <= B /\ NoDup (concat rows) /\ (forall i, In i (concat rows) -> i < N)
  /\ length (concat rows) = N / B * B /\ Forall (fun r => length r = B) rows /\ length rows = N / B.

Lemma rows_ok_Partition N B rows : rows_ok N B rows = true <-> Partition N B rows.
Proof.
  unfold rows_ok, Partition. rewrite !andb_true_iff, Nat.leb_le, nodupb_NoDup, in_range_Forall, !Nat.eqb_eq.
  rewrite Forall_forall, forallb_forall, Forall_forall.
  split.
  - intros (((((H1 & H2) & H3) & H4) & H5) & H6). repeat split; try assumption.
    intros r Hr. apply Nat.eqb_eq. apply H5; assumption.
  - intros (H1 & H2 & H3 & H4 & H5 & H6). repeat split; try assumption.
    intros r Hr. apply Nat.eqb_eq. apply H5; assumption.
Qed.

Lemma rows_ok_model N B p : 1 <= B -> is_permb N p = true -> rows_ok N B (batch_indices B p) = true.
Proof.
  intros HB Hp. apply rows_ok_Partition. apply is_permb_Permutation in Hp.
  destruct (batch_indices_partition N B p HB Hp) as (H1 & H2 & H3 & H4 & H5 & _).
  repeat split; assumption.
Qed.

Lemma part_ok_in_range sampling N B rows :
  part_ok sampling N B rows = true -> Forall (Forall (fun i => i < N)) rows.
Proof.
  destruct sampling; unfold part_ok.
  - unfold sample_ok. destruct rows as [|r [|]]; try discriminate. intros H.
    apply andb_true_iff in H as [_ H]. apply in_range_Forall in H. repeat constructor; assumption.
  - intros H. apply rows_ok_Partition in H as (_ & _ & H & _).
    apply Forall_forall. intros r Hr. apply Forall_forall. intros i Hi. apply H.
    apply in_concat. exists r; split; assumption.
Qed.

(* ---------- the model satisfies the predicate ---------- *)
Lemma gather_soa_repeat ids F row : gather_soa 0 (repeat ids F) row = repeat (gather 0 ids row) F.
Proof. unfold gather_soa. induction F; cbn; [reflexivity | f_equal; assumption]. Qed.

Lemma hd_repeat {A} (x : A) d F : 1 <= F -> hd d (repeat x F) = x.
Proof. destruct F; [lia | reflexivity]. Qed.

Lemma par_gather l row : gather 0 (par l) row = par (gather 0 l row).
Proof. unfold par. change 0 with ((fun i => i mod 2) 0) at 1. apply gather_map. Qed.

Theorem model_holds_nat sampling E T B perm F :
  1 <= F -> oracle_ok sampling (E * T) B perm = true ->
  holds_nat (model_ncase sampling E T B perm F) = true.
Proof.
  intros HF Ho. unfold holds_nat, model_ncase, nN; cbn [n_sampling n_E n_T n_B n_rows n_flat n_fpar n_gath n_gpar].
  rewrite flatten_id_grid. set (N := E * T). set (rows := model_rows sampling B perm).
  assert (Hpart : part_ok sampling N B rows = true).
  { subst rows. unfold part_ok, model_rows, oracle_ok in *. destruct sampling; [assumption|].
    apply andb_true_iff in Ho as [H1 H2]. apply Nat.leb_le in H1. apply rows_ok_model; assumption. }
  assert (Hr := part_ok_in_range _ _ _ _ Hpart).
  assert (Hg : map (hd []) (map (gather_soa 0 (repeat (seq 0 N) F)) rows) = rows).
  { rewrite map_map. rewrite <- (map_id rows) at 2. apply map_ext_in. intros row Hrow.
    rewrite gather_soa_repeat, hd_repeat by assumption. apply gather_ids.
    rewrite Forall_forall in Hr. apply Hr; assumption. }
  repeat (apply andb_true_intro; split).
  - assumption.
  - apply forallb_forall. intros x Hx. apply repeat_spec in Hx. subst. apply is_permb_Permutation. apply Permutation_refl.
  - apply all_same_repeat; assumption.
  - rewrite hd_repeat by assumption. apply nl_eqb_eq; reflexivity.
  - rewrite map_length. apply Nat.eqb_refl.
  - apply forallb_forall. intros g Hg'. apply in_map_iff in Hg' as (row & <- & _).
    rewrite gather_soa_repeat. apply all_same_repeat; assumption.
  - rewrite Hg. assumption.
  - apply nll_eqb_eq. rewrite !map_map. apply map_ext. intros row.
    rewrite gather_soa_repeat, hd_repeat by assumption. symmetry. apply par_gather.
Qed.

(* ---------- Z transport lemmas ---------- *)
Lemma zs_zo l : zs (zo l) = l.
Proof. unfold zs, zo. rewrite map_map. rewrite <- (map_id l) at 2. apply map_ext. intros; apply Nat2Z.id. Qed.
Lemma nn_zo l : nn (zo l) = true.
Proof. unfold nn, zo. apply forallb_forall. intros x Hx. apply in_map_iff in Hx as (n & <- & _). apply Z.leb_le. lia. Qed.
Lemma zs_zo2 l : map zs (map zo l) = l.
Proof. rewrite map_map. rewrite <- (map_id l) at 2. apply map_ext. intros; apply zs_zo. Qed.
Lemma nn_zo2 l : forallb nn (map zo l) = true.
Proof. apply forallb_forall. intros x Hx. apply in_map_iff in Hx as (n & <- & _). apply nn_zo. Qed.
Lemma zs_zo3 l : map (map zs) (map (map zo) l) = l.
Proof. rewrite map_map. rewrite <- (map_id l) at 2. apply map_ext. intros; apply zs_zo2. Qed.
Lemma nn_zo3 l : forallb (forallb nn) (map (map zo) l) = true.
Proof. apply forallb_forall. intros x Hx. apply in_map_iff in Hx as (n & <- & _). apply nn_zo2. Qed.

Lemma to_of_ncase c : to_ncase (of_ncase c) = c.
Proof.
  destruct c. unfold to_ncase, of_ncase; cbn. rewrite !Nat2Z.id, !zs_zo, !zs_zo2, zs_zo3. reflexivity.
Qed.
Lemma nonneg_of_ncase c : nonneg (of_ncase c) = true.
Proof.
  destruct c. unfold nonneg, of_ncase; cbn [c_E c_T c_B c_perm c_rows c_flat c_fpar c_gath c_gpar].
  rewrite !nn_zo, !nn_zo2, nn_zo3. cbn. rewrite !andb_true_r.
  repeat (apply andb_true_intro; split); apply Z.leb_le; lia.
Qed.

Theorem model_holds sampling E T B perm F :
  1 <= F -> oracle_ok sampling (E * T) B perm = true ->
  holds (model_case sampling E T B perm F) = true.
Proof.
  intros HF Ho. unfold holds, model_case. rewrite nonneg_of_ncase, to_of_ncase. apply model_holds_nat; assumption.
Qed.

(* whenever model and implementation outputs coincide the implementation output has the property *)
Lemma all_eq_repeat x (l : list (list nat)) : forallb (nl_eqb x) l = true -> l = repeat x (length l).
Proof.
  induction l as [|y l IH]; cbn; [reflexivity|]. rewrite andb_true_iff. intros [H1 H2].
  apply nl_eqb_eq in H1. subst. f_equal. apply IH; assumption.
Qed.

Theorem agree_holds_nat c : agree_nat c = true -> holds_nat c = true.
Proof.
  intros H. unfold agree_nat in H. rewrite !andb_true_iff in H.
  destruct H as ((((((H1 & H2) & H3) & H4) & H5) & H6) & H7).
  apply nll_eqb_eq in H2. apply all_eq_repeat in H4. apply nl_eqb_eq in H5. apply nlll_eqb_eq in H6. apply nll_eqb_eq in H7.
  apply negb_true_iff, Nat.eqb_neq in H3.
  assert (Hm : c = model_ncase (n_sampling c) (n_E c) (n_T c) (n_B c) (n_perm c) (length (n_flat c))).
  { destruct c; unfold model_ncase; cbn in *. subst n_gath0 n_gpar0 n_rows0 n_fpar0. rewrite <- H4. reflexivity. }
  rewrite Hm. apply model_holds_nat; [lia | assumption].
Qed.

Theorem agree_holds c : agree c = true -> holds c = true.
Proof.
  unfold agree, holds. rewrite !andb_true_iff. intros [H1 H2]. split; [assumption | apply agree_holds_nat; assumption].
Qed.

(* what `holds` establishes about the implementation's outputs of an epoch *)
Theorem holds_sound c : holds c = true -> c_sampling c = false ->
  let n := to_ncase c in
  Partition (nN n) (n_B n) (n_rows n)                                 (* index rows partition *)
  /\ Partition (nN n) (n_B n) (map (hd []) (n_gath n))                (* so do the sample ids trained on *)
  /\ Forall (fun leaf => Permutation leaf (seq 0 (nN n))) (n_flat n)  (* flatten: no loss, no duplicate *)
  /\ Forall (fun g => exists ids, g <> [] /\ Forall (fun leaf => leaf = ids) g) (n_gath n). (* fields aligned *)
Proof.
  intros H Hs. cbv zeta. unfold holds in H. apply andb_true_iff in H as [_ H].
  set (n := to_ncase c) in *. unfold holds_nat in H.
  assert (Hk : n_sampling n = false) by (subst n; cbn; assumption). rewrite Hk in H. cbn [part_ok] in H.
  rewrite !andb_true_iff in H. destruct H as (((((((H1 & H2) & H3) & H4) & H5) & H6) & H7) & H8).
  split; [|split; [|split]].
  - apply rows_ok_Partition; assumption.
  - apply rows_ok_Partition; assumption.
  - apply Forall_forall. intros leaf Hl. apply is_permb_Permutation. rewrite forallb_forall in H2. apply H2; assumption.
  - apply Forall_forall. intros g Hg. apply all_same_spec. rewrite forallb_forall in H6. apply H6; assumption.
Qed.

(* ---------- epochs ---------- *)
Lemma to_of_necase c : to_necase (of_necase c) = c.
Proof. destruct c. unfold to_necase, of_necase; cbn. rewrite !Nat2Z.id, zs_zo2, !zs_zo3. reflexivity. Qed.
Lemma enonneg_of_necase c : enonneg (of_necase c) = true.
Proof.
  destruct c. unfold enonneg, of_necase; cbn [e_N e_B e_E e_perms e_visits e_aligned].
  rewrite nn_zo2, !nn_zo3. cbn. rewrite !andb_true_r.
  repeat (apply andb_true_intro; split); apply Z.leb_le; lia.
Qed.

Theorem model_eholds N B perms :
  1 <= B -> forallb (is_permb N) perms = true -> eholds (model_ecase N B perms) = true.
Proof.
  intros HB Hp. unfold eholds, model_ecase. rewrite enonneg_of_necase, to_of_necase.
  unfold eholds_nat, model_necase; cbn [ne_N ne_B ne_E ne_visits ne_aligned ne_fresh].
  repeat (apply andb_true_intro; split); try reflexivity.
  - rewrite map_length. apply Nat.eqb_refl.
  - apply forallb_forall. intros rows Hr. apply in_map_iff in Hr as (p & <- & Hin).
    apply rows_ok_model; [assumption|]. rewrite forallb_forall in Hp. apply Hp; assumption.
  - apply nlll_eqb_eq; reflexivity.
Qed.

Theorem eholds_sound c : eholds c = true ->
  let n := to_necase c in
  length (ne_visits n) = ne_E n
  /\ Forall (Partition (ne_N n) (ne_B n)) (ne_visits n)
  /\ ne_aligned n = ne_visits n.
Proof.
  intros H. cbv zeta. unfold eholds in H. apply andb_true_iff in H as [_ H].
  set (n := to_necase c) in *. unfold eholds_nat in H.
  rewrite !andb_true_iff in H. destruct H as (((H1 & H2) & H3) & H4).
  split; [|split].
  - apply Nat.eqb_eq; assumption.
  - apply Forall_forall. intros rows Hr. apply rows_ok_Partition. rewrite forallb_forall in H2. apply H2; assumption.
  - apply nlll_eqb_eq; assumption.
Qed.
