(* C13: LeraxToGymEnv as an object with hidden state (compatibility/gym.py:375-410): self.key and self.state.
   reset(seed=s) re-keys the object with jr.key(s) (EVERY integer seed, 0 included) before drawing; reset() continues the key chain;
   step splits the chain once.  Executable definitions only; proofs in AdapterSMProofs.v. *)
From Coq Require Import List ZArith QArith Bool.
From Lerax Require Import Common Env.
Import ListNotations.

Section AdapterSM.
  Context {S A O : Type}.
  Variable E : env S A O.

  (* seed: the root key jr.key(seed), as a key path *)
  Inductive l2g_op := OReset (seed : option kpath) | OStep (a : A).
  Record l2g_obj := { g_key : kpath; g_state : option S }.
  Inductive l2g_out := OutReset (s : S) (o : O) (info : Q) | OutStep (out : @step_out S O) | OutError.

  Definition l2g_apply (g : l2g_obj) (op : l2g_op) : l2g_obj * l2g_out :=
    match op with
    | OReset sd =>
        let k := match sd with Some r => r | None => g_key g end in
        let '(k', (s, o, i)) := l2g_reset E k in
        ({| g_key := k'; g_state := Some s |}, OutReset s o i)
    | OStep a =>
        match g_state g with
        | None => (g, OutError)                      (* step before the first reset: self.state does not exist *)
        | Some s => let '(k', out) := l2g_step E (g_key g) s a in
                    ({| g_key := k'; g_state := Some (so_state out) |}, OutStep out)
        end
    end.

  Fixpoint l2g_trace (g : l2g_obj) (ops : list l2g_op) : list l2g_out :=
    match ops with
    | [] => []
    | op :: tl => let '(g', o) := l2g_apply g op in o :: l2g_trace g' tl
    end.
  Fixpoint l2g_after (g : l2g_obj) (ops : list l2g_op) : l2g_obj :=
    match ops with [] => g | op :: tl => l2g_after (fst (l2g_apply g op)) tl end.

  (* a freshly constructed adapter: self.key = jr.key(0), no state yet *)
  Definition l2g_new (key0 : kpath) : l2g_obj := {| g_key := key0; g_state := None |}.
End AdapterSM.
