(* C19 correspondence: LoggingCallbackStepState.next along histories; the evaluation helpers on finite MDPs;
   the scalars a recording backend receives from a real PPO learn() run. *)
From Coq Require Import List ZArith QArith Bool.
From Lerax Require Import Common Env Tab OnPolicy Logging.
Import ListNotations.

Definition ist := (Z * Q * Z * bool * Q * Q)%type.   (* step, episode_return, episode_length, episode_done, average_return, average_length *)

Inductive case :=
| CNext (alpha : Q) (h : list (Q * bool)) (sts : list ist)
| CEval (kf : bool) (t : tab) (rw : rawtbl) (stack : list wd) (p : ptab) (det : bool) (k : kpath) (max_steps nep : nat) (mode : nat) (v : Q)
| CLearn (t : tab) (rw : rawtbl) (stack : list wd) (p : ptab) (gamma alpha : Q) (N T iters : nat) (k : kpath) (recs : list (Z * Q * Q))
(* any learner (on- or off-policy, stock networks): hist = per environment the (reward, done) pairs an independent user step
   observer was handed, warm-up (L steps per environment) included; recs = what the backend received *)
| CLearnHist (alpha : Q) (N T L iters : nat) (hist : list (list (Q * bool))) (recs : list (Z * Q * Q)).

Definition ist_eqb (s : lstate) (i : ist) : bool :=
  let '(st, er, el, d, ar, al) := i in
  Z.eqb (l_step s) st && Qeq_bool (l_ret s) er && Z.eqb (l_len s) el && Bool.eqb (l_done s) d
  && Qeq_bool (l_avg_ret s) ar && Qeq_bool (l_avg_len s) al.

Fixpoint next_agree (alpha : Q) (s : lstate) (h : list (Q * bool)) (sts : list ist) : bool :=
  match h, sts with
  | [], [] => true
  | (r, d) :: h', i :: sts' => let s' := l_next alpha s r d in ist_eqb s' i && next_agree alpha s' h' sts'
  | _, _ => false
  end.

(* property form: blended with the totals since the previous episode end at a done step, unchanged otherwise;
   uses the implementation's own previous averages *)
Fixpoint next_holds (alpha : Q) (pre : list (Q * bool)) (prev_ar prev_al : Q) (h : list (Q * bool)) (sts : list ist) : bool :=
  match h, sts with
  | [], [] => true
  | (r, d) :: h', (st, _, _, _, ar, al) :: sts' =>
      Z.eqb st (Z.of_nat (length pre + 1))
      && Qeq_bool ar (if d then alpha * (tail_sum pre 0 + r) + (1 - alpha) * prev_ar else prev_ar)
      && Qeq_bool al (if d then alpha * inject_Z (tail_len pre 0 + 1) + (1 - alpha) * prev_al else prev_al)
      && next_holds alpha (pre ++ [(r, d)]) ar al h' sts'
  | _, _ => false
  end.

Definition env_of t rw stack := wrap_d stack (tab_env t rw).

(* one learn() run of an actor-critic on-policy algorithm with a logging callback (base_algorithm.py:208-257,
   on_policy.py:262-338): callback_start / reset / learn / callback_end = split(key,4); reset: step_key = split(reset_key,2)[0];
   iteration j: key split(learn_key, iters)[j], rollout_key = split(.,3)[0] *)
Section Learn.
  Variables (E : env (ws Z) Q (list Q)) (P : acpol Z Q (list Q)) (gamma alpha : Q) (N T : nat).
  Definition log_rows (s : lstate) (rows : list (@orow Z (list Q))) : lstate :=
    fold_left (fun s r => l_next alpha s (r_env_rew r) (r_done r)) rows s.
  Definition learn_iter (sts : list ((ws Z * Z) * lstate)) (ik : kpath) : list ((ws Z * Z) * lstate) :=
    let rk := ks ik 3 0 in
    map (fun p => let '((st, ls), i) := p in
                  let '(st', rows, _) := collect gamma E P T st (if Nat.eqb N 1 then rk else ks rk N i) in
                  (st', log_rows ls rows)) (combine sts (seq 0 N)).
  Fixpoint learn_loop (sts : list ((ws Z * Z) * lstate)) (keys : list kpath) : list (Z * Q * Q) :=
    match keys with
    | [] => []
    | ik :: tl => let sts' := learn_iter sts ik in iter_record (map snd sts') :: learn_loop sts' tl
    end.
  Definition learn_records (iters : nat) (k : kpath) : list (Z * Q * Q) :=
    let step_key := ks (ks k 4 1) 2 0 in
    let sts0 := map (fun i => (step_state_initial E P (if Nat.eqb N 1 then step_key else ks step_key N i), l_init)) (seq 0 N) in
    learn_loop sts0 (split_keys (ks k 4 2) iters).
End Learn.

Definition rec_eqb (a b : Z * Q * Q) : bool :=
  Z.eqb (fst (fst a)) (fst (fst b)) && Qeq_bool (snd (fst a)) (snd (fst b)) && Qeq_bool (snd a) (snd b).

Definition eval_ok t rw stack p det k max_steps nep mode v : bool :=
  let E := env_of t rw stack in let P := tab_pol p rw in
  match mode with
  | 0%nat => Qeq_bool (rollout_scan E P det k max_steps) v
  | 1%nat => match rollout_while E P det 400 k with Some m => Qeq_bool m v | None => false end
  | _ => Qeq_bool (average_reward E P det k nep max_steps) v
  end.

(* record j (1-based) is the aggregate of the per-environment statistics after L + j*T steps of each environment *)
Definition hist_records (alpha : Q) (T L iters : nat) (hist : list (list (Q * bool))) : list (Z * Q * Q) :=
  map (fun j => iter_record (map (fun h => l_run alpha (firstn (L + j * T) h)) hist)) (seq 1 iters).
(* the rewards of these runs are arbitrary floats (continuous actions enter the reward), so the implementation's float sums and
   the exact rational sums differ by rounding: step counts are compared exactly, the two statistics within 1e-9 (relative) *)
Definition rec_closeb (a b : Z * Q * Q) : bool :=
  Z.eqb (fst (fst a)) (fst (fst b)) && Qclose (1 # 1000000000) (snd (fst a)) (snd (fst b)) && Qclose (1 # 1000000000) (snd a) (snd b).
Definition hist_ok (alpha : Q) (N T L iters : nat) (hist : list (list (Q * bool))) (recs : list (Z * Q * Q)) : bool :=
  Nat.eqb (length hist) N && forallb (fun h => Nat.leb (L + iters * T) (length h)) hist
  && forallb2 rec_closeb (hist_records alpha T L iters hist) recs.

Definition agree (c : case) : bool :=
  match c with
  | CNext alpha h sts => next_agree alpha l_init h sts
  | CEval _ t rw stack p det k max_steps nep mode v => eval_ok t rw stack p det k max_steps nep mode v
  | CLearn t rw stack p gamma alpha N T iters k recs =>
      forallb2 rec_eqb (learn_records (env_of t rw stack) (tab_pol p rw) gamma alpha N T iters k) recs
  | CLearnHist alpha N T L iters hist recs => hist_ok alpha N T L iters hist recs
  end.

(* property predicates that do not depend on key routing: the EMA law on the implementation's own numbers;
   the cumulative step counts of the log records, in order *)
Definition holds (c : case) : bool :=
  match c with
  | CNext alpha h sts => next_holds alpha [] 0 0 h sts
  | CEval kf t _ stack p det k max_steps nep mode v => if kf then eval_ok t [([], 0%Z)] stack p det k max_steps nep mode v else true
  | CLearn _ _ _ _ _ _ N T iters _ recs =>
      forallb2 (fun j r => Z.eqb (fst (fst r)) (Z.of_nat (j * N * T))) (seq 1 iters) recs
  | CLearnHist alpha N T L iters hist recs => hist_ok alpha N T L iters hist recs
  end.
