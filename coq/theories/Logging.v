(* C19: LoggingCallbackStepState.next (callback/logging/callback.py:138-176), on_iteration aggregation
   (:501-531) and the evaluation helpers (benchmark/__init__.py).  Executable definitions only. *)
From Coq Require Import List ZArith QArith Bool.
From Lerax Require Import Common Env Tab OnPolicy.
Import ListNotations.

Record lstate := { l_step : Z; l_ret : Q; l_len : Z; l_done : bool; l_avg_ret : Q; l_avg_len : Q }.
Definition l_init : lstate := {| l_step := 0; l_ret := 0; l_len := 0; l_done := false; l_avg_ret := 0; l_avg_len := 0 |}.

Definition bQ (b : bool) : Q := if b then 1 else 0.
Definition bZ (b : bool) : Z := if b then 1%Z else 0%Z.

Definition l_next (alpha : Q) (s : lstate) (r : Q) (d : bool) : lstate :=
  let er := l_ret s * (1 - bQ (l_done s)) + r in
  let el := (l_len s * (1 - bZ (l_done s)) + 1)%Z in
  {| l_step := (l_step s + 1)%Z; l_ret := er; l_len := el; l_done := d;
     l_avg_ret := if d then alpha * er + (1 - alpha) * l_avg_ret s else l_avg_ret s;
     l_avg_len := if d then alpha * inject_Z el + (1 - alpha) * l_avg_len s else l_avg_len s |}.

Definition l_run (alpha : Q) (h : list (Q * bool)) : lstate :=
  fold_left (fun s rd => l_next alpha s (fst rd) (snd rd)) h l_init.

(* ---- the episode view: rewards and steps since the previous episode end ---- *)
(* sum / count of the trailing unfinished episode of a history (0 when it ends with a done step) *)
Fixpoint tail_sum (h : list (Q * bool)) (acc : Q) : Q :=
  match h with [] => acc | (r, d) :: tl => tail_sum tl (if d then 0 else acc + r) end.
Fixpoint tail_len (h : list (Q * bool)) (acc : Z) : Z :=
  match h with [] => acc | (r, d) :: tl => tail_len tl (if d then 0%Z else (acc + 1)%Z) end.

(* on_iteration: mean over environments and the cumulative number of steps *)
Definition qsum (l : list Q) : Q := fold_right Qplus 0 l.
Definition qmean (l : list Q) : Q := qsum l / inject_Z (Z.of_nat (length l)).
Definition iter_record (sts : list lstate) : Z * Q * Q :=
  (fold_right Z.add 0%Z (map l_step sts), qmean (map l_avg_ret sts), qmean (map l_avg_len sts)).

(* ---- evaluation helpers ---- *)
Section Eval.
  Context {S PS O : Type}.
  Variable E : env S Q O.
  Variable P : acpol PS Q O.
  Variable det : bool.        (* deterministic=True: the policy is called without a key (modelled as the key path []) *)

  Definition call_policy (ps : PS) (obs : O) (k : kpath) : PS * Q :=
    let '(ps1, a, _, _) := p_act P ps obs (if det then [] else k) None in (ps1, a).

  (* rollout_scan: split(key, 5) = carry(reward) / obs / action / transition / terminal *)
  Definition scan_step (st : S * PS) (k : kpath) : (S * PS) * Q * bool :=
    let '(s, ps) := st in
    let obs := e_obs E s (ks k 5 1) in
    let '(ps1, a) := call_policy ps obs (ks k 5 2) in
    let s1 := e_trans E s a (ks k 5 3) in
    let r := e_rew E s a s1 (ks k 5 0) in
    ((s1, ps1), r, e_term E s1 (ks k 5 4) || e_trunc E s1).

  Fixpoint scan_rewards (st : S * PS) (done : bool) (keys : list kpath) : list Q :=
    match keys with
    | [] => []
    | k :: tl => if done then 0 :: scan_rewards st true tl
                 else let '(st1, r, d) := scan_step st k in r :: scan_rewards st1 d tl
    end.

  (* env.initial(key=key); policy.reset(key=key); scan over jr.split(key, max_steps) *)
  Definition rollout_scan (k : kpath) (max_steps : nat) : Q :=
    qsum (scan_rewards (e_init E k, p_reset P k) false (split_keys k max_steps)).

  (* the bare trajectory that never stops *)
  Fixpoint traj (st : S * PS) (keys : list kpath) : list (Q * bool) :=
    match keys with
    | [] => []
    | k :: tl => let '(st1, r, d) := scan_step st k in (r, d) :: traj st1 tl
    end.
  (* rewards up to and including the first done *)
  Fixpoint until_done (l : list (Q * bool)) : list Q :=
    match l with [] => [] | (r, d) :: tl => if d then [r] else r :: until_done tl end.

  (* rollout_while: the carry key is threaded: split(key, 4) = carry(reward) / obs / action / transition;
     the loop condition evaluates terminal() with the current carry key *)
  Fixpoint while_loop (fuel : nat) (st : S * PS) (k : kpath) (acc : Q) : option Q :=
    if e_term E (fst st) k || e_trunc E (fst st) then Some acc
    else match fuel with
         | 0%nat => None
         | Datatypes.S f =>
             let '(s, ps) := st in
             let obs := e_obs E s (ks k 4 1) in
             let '(ps1, a) := call_policy ps obs (ks k 4 2) in
             let s1 := e_trans E s a (ks k 4 3) in
             while_loop f (s1, ps1) (ks k 4 0) (acc + e_rew E s a s1 (ks k 4 0))
         end.
  Definition rollout_while (fuel : nat) (k : kpath) : option Q :=
    while_loop fuel (e_init E k, p_reset P k) k 0.

  (* average_reward: mean over jr.split(key, num_episodes) *)
  Definition average_reward (k : kpath) (num_episodes max_steps : nat) : Q :=
    qmean (map (fun i => rollout_scan (ks k num_episodes i) max_steps) (seq 0 num_episodes)).
End Eval.
