(* Theorems about the Gym-style API and wrapper stacks (C01, C13). *)
From Coq Require Import List ZArith QArith Qround Qminmax Bool Lia Reals Lra.
From Lerax Require Import Common Env.
Import ListNotations.

(* ================= C01 ================= *)
Section GymFacts.
  Context {S A O : Type}.
  Variable E : env S A O.

  (* the one-step contract, for every environment (hence every wrapper stack) *)
  Theorem step_contract s a k :
    let o := gym_step E s a k in
    let s' := e_trans E s a (ks k 4 0) in
    so_rew o = e_rew E s a s' (ks k 4 1) /\
    so_term o = e_term E s' (ks k 4 2) /\
    so_trunc o = e_trunc E s' /\
    so_info o = e_tinfo E s a s' /\
    (so_term o || so_trunc o = true -> so_state o = e_init E (ks k 4 3)) /\
    (so_term o || so_trunc o = false -> so_state o = s') /\
    so_obs o = e_obs E (so_state o) k.
  Proof.
    cbv zeta. unfold gym_step. cbn [so_rew so_term so_trunc so_info so_state so_obs].
    repeat split; intros H; rewrite H; reflexivity.
  Qed.

  Theorem reset_contract k :
    let '(s, o, i) := gym_reset E k in
    s = e_init E (ks k 2 0) /\ o = e_obs E s (ks k 2 1) /\ i = e_sinfo E s.
  Proof. unfold gym_reset. repeat split. Qed.

  (* ---- refinement to an episodic semantics that knows nothing about auto-reset ---- *)
  (* one step of bare interaction: successor, reward, flags, key *)
  Record bare := { b_succ : S; b_rew : Q; b_term : bool; b_trunc : bool; b_info : Q; b_key : kpath }.
  Definition bare_step (s : S) (a : A) (k : kpath) : bare :=
    let s' := e_trans E s a (ks k 4 0) in
    {| b_succ := s'; b_rew := e_rew E s a s' (ks k 4 1); b_term := e_term E s' (ks k 4 2);
       b_trunc := e_trunc E s'; b_info := e_tinfo E s a s'; b_key := k |}.
  Definition b_done (b : bare) := b_term b || b_trunc b.

  (* one episode: follow transitions from s until the first raised flag *)
  Fixpoint episode (s : S) (ak : list (A * kpath)) : list bare * option (list (A * kpath)) :=
    match ak with
    | [] => ([], None)
    | (a, k) :: tl =>
        let b := bare_step s a k in
        if b_done b then ([b], Some tl)
        else let '(steps, rest) := episode (b_succ b) tl in (b :: steps, rest)
    end.

  Definition last_key (steps : list bare) : kpath :=
    match rev steps with b :: _ => b_key b | [] => [] end.

  (* episodes, each started from a fresh initial state drawn with the reset key of the step that ended the previous one *)
  Fixpoint episodes (fuel : nat) (s : S) (ak : list (A * kpath)) : list (list bare) :=
    match fuel with
    | 0%nat => []
    | Datatypes.S f =>
        match ak with
        | [] => []
        | _ =>
            let '(steps, rest) := episode s ak in
            steps :: match rest with
                     | None => []
                     | Some tl => episodes f (e_init E (ks (last_key steps) 4 3)) tl
                     end
        end
    end.

  (* what the Gym API reports for a bare step: the observation is the next
     episode's first observation when the episode ended *)
  Definition emit (b : bare) : @step_out S O :=
    let s2 := if b_done b then e_init E (ks (b_key b) 4 3) else b_succ b in
    {| so_state := s2; so_obs := e_obs E s2 (b_key b); so_rew := b_rew b; so_term := b_term b;
       so_trunc := b_trunc b; so_info := b_info b |}.

  Lemma gym_step_emit s a k : gym_step E s a k = emit (bare_step s a k).
  Proof. reflexivity. Qed.

  Lemma episode_spec s ak :
    let '(steps, rest) := episode s ak in
    run_gym E s ak = map emit steps ++
      match rest with None => [] | Some tl => run_gym E (e_init E (ks (last_key steps) 4 3)) tl end
    /\ match rest with None => True | Some tl => (length tl < length ak)%nat /\ steps <> [] end
    /\ (steps = [] -> ak = []).
  Proof.
    revert s. induction ak as [|[a k] tl IH]; intros s; cbn [episode].
    - repeat split; reflexivity.
    - destruct (b_done (bare_step s a k)) eqn:Hd.
      + cbn [map app run_gym]. rewrite gym_step_emit. unfold emit at 2. rewrite Hd. cbn [so_state].
        unfold last_key. cbn [rev app].
        split; [reflexivity|]. split; [split; [cbn [length]; lia | discriminate] | discriminate].
      + specialize (IH (b_succ (bare_step s a k))).
        destruct (episode (b_succ (bare_step s a k)) tl) as [steps rest].
        destruct IH as (IH1 & IH2 & IH3).
        cbn [map app run_gym]. rewrite gym_step_emit. unfold emit at 2. rewrite Hd. cbn [so_state].
        rewrite IH1. repeat split; try discriminate.
        * f_equal. destruct rest as [tl'|]; [|reflexivity].
          destruct IH2 as [_ Hne]. f_equal. f_equal.
          unfold last_key. cbn [rev]. destruct (rev steps) as [|b r] eqn:Hr.
          { apply (f_equal (@rev _)) in Hr. rewrite rev_involutive in Hr. cbn in Hr. contradiction. }
          reflexivity.
        * destruct rest as [tl'|]; [|exact I]. destruct IH2 as [Hl _]. split; [cbn [length]; lia | discriminate].
  Qed.

  Theorem refines_episodes s ak :
    run_gym E s ak = map emit (concat (episodes (length ak) s ak)).
  Proof.
    assert (G: forall fuel s ak, (length ak <= fuel)%nat ->
               run_gym E s ak = map emit (concat (episodes fuel s ak))).
    { induction fuel as [|f IH]; intros s0 ak0 Hl.
      - destruct ak0; [reflexivity | cbn in Hl; lia].
      - destruct ak0 as [|p tl0]; [reflexivity|].
        cbn [episodes]. pose proof (episode_spec s0 (p :: tl0)) as Hs.
        destruct (episode s0 (p :: tl0)) as [steps rest]. destruct Hs as (H1 & H2 & _).
        cbn [concat]. rewrite map_app, H1. f_equal.
        destruct rest as [tl'|]; [|reflexivity]. destruct H2 as [H2 _].
        apply IH. cbn [length] in *. lia. }
    apply G. lia.
  Qed.

  (* inside an episode only the last step raises a flag *)
  Theorem episode_flags s ak :
    let '(steps, rest) := episode s ak in
    Forall (fun b => b_done b = false) (removelast steps) /\
    match rest with
    | Some _ => exists pre b, steps = pre ++ [b] /\ b_done b = true
    | None => Forall (fun b => b_done b = false) steps
    end.
  Proof.
    revert s. induction ak as [|[a k] tl IH]; intros s; cbn [episode].
    - split; constructor.
    - destruct (b_done (bare_step s a k)) eqn:Hd.
      + split; [constructor|]. exists [], (bare_step s a k). split; [reflexivity|assumption].
      + specialize (IH (b_succ (bare_step s a k))).
        destruct (episode (b_succ (bare_step s a k)) tl) as [steps rest].
        destruct IH as [F1 F2]. split.
        * destruct steps as [|x steps']; [constructor|].
          change (removelast (bare_step s a k :: x :: steps')) with (bare_step s a k :: removelast (x :: steps')).
          constructor; assumption.
        * destruct rest as [tl'|].
          -- destruct F2 as (pre & b & -> & Hb). exists (bare_step s a k :: pre), b. split; [reflexivity|assumption].
          -- constructor; assumption.
  Qed.

  (* every episode after the first starts from an initial state *)
  Theorem reset_key_fresh (k : kpath) :
    ks k 4 3 <> ks k 4 0 /\ ks k 4 3 <> ks k 4 1 /\ ks k 4 3 <> ks k 4 2 /\ ks k 4 3 <> k.
  Proof.
    unfold ks. repeat split; intro H.
    1-3: apply app_inv_head in H; discriminate.
    apply (f_equal (@length _)) in H. rewrite app_length in H. cbn in H. lia.
  Qed.
End GymFacts.

(* ================= wrapper stacks (C01 counters, C13) ================= *)
Section WrapFacts.
  Context {S A O : Type}.
  Variable e : env S A O.

  Definition wf (stack : list (wdesc A O)) (s : ws S) : Prop :=
    length (fst s) = length (limits stack).

  Lemma init_counters stack k :
    e_init (wrap stack e) k = (repeat 0%Z (length (limits stack)), e_init e k).
  Proof.
    induction stack as [|w st IH]; [reflexivity|].
    unfold wrap in *. cbn [fold_right]. destruct w; cbn [wrap1 e_init limits length repeat]; try exact IH.
    rewrite IH. reflexivity.
  Qed.

  (* C01: a freshly drawn initial state has every wrapper counter restarted *)
  Theorem init_counters_zero stack k :
    Forall (fun c => c = 0%Z) (fst (e_init (wrap stack e) k)) /\ wf stack (e_init (wrap stack e) k).
  Proof.
    rewrite init_counters. cbn [fst]. split.
    - induction (length (limits stack)); constructor; auto.
    - unfold wf. cbn [fst]. apply repeat_length.
  Qed.

  (* C13: complete characterisation of an arbitrary wrapper stack *)
  Theorem stack_char stack : forall s, wf stack s ->
    let W := wrap stack e in
    (forall a k, e_trans W s a k = (map (fun c => c + 1)%Z (fst s), e_trans e (snd s) (act_map stack a) k)) /\
    (forall k, e_obs W s k = obs_map stack (e_obs e (snd s) k)) /\
    (forall a s' k, wf stack s' -> e_rew W s a s' k = rew_map stack (e_rew e (snd s) (act_map stack a) (snd s') k)) /\
    (forall k, e_term W s k = e_term e (snd s) k) /\
    (e_trunc W s = e_trunc e (snd s) || any_limit (limits stack) (fst s)) /\
    (forall k, e_mask W s k = e_mask e (snd s) k) /\
    (e_sinfo W s = e_sinfo e (snd s)) /\
    (forall a s', wf stack s' -> e_tinfo W s a s' = e_tinfo e (snd s) (act_map stack a) (snd s')) /\
    e_asp W = asp_of stack (e_asp e) /\ e_osp W = osp_of stack (e_osp e).
  Proof.
    induction stack as [|w st IH]; intros s Hwf.
    - cbn. destruct s as [cs x]. unfold wf in Hwf. cbn in Hwf. destruct cs; [|discriminate].
      cbn. rewrite orb_false_r. repeat split; reflexivity.
    - unfold wrap in *. cbn [fold_right]. set (W0 := fold_right wrap1 (lift e) st) in *.
      destruct w as [|n|f asp|g osp|h].
      + (* Identity *) cbn [wrap1 act_map obs_map rew_map limits asp_of osp_of]. apply IH. exact Hwf.
      + (* TimeLimit *)
        destruct s as [[|c cs] x]; [unfold wf in Hwf; cbn in Hwf; discriminate|].
        assert (Hwf': wf st (cs, x)) by (unfold wf in *; cbn in *; lia).
        destruct (IH (cs, x) Hwf') as (T & Ob & Rw & Te & Tr & Mk & Si & Ti & As & Os).
        cbn [wrap1 act_map obs_map rew_map limits asp_of osp_of e_trans e_obs e_rew e_term e_trunc e_mask e_sinfo e_tinfo e_asp e_osp].
        unfold pop, push. cbn [fst snd any_limit map].
        repeat split.
        * intros a k. rewrite T. reflexivity.
        * exact Ob.
        * intros a [[|c' cs'] x'] k Hw'; [unfold wf in Hw'; cbn in Hw'; discriminate|].
          cbn [fst snd]. apply (Rw a (cs', x') k). unfold wf in *; cbn in *; lia.
        * exact Te.
        * rewrite Tr. cbn [fst snd]. destruct (e_trunc e x), (n <=? c)%Z, (any_limit (limits st) cs); reflexivity.
        * exact Mk.
        * exact Si.
        * intros a [[|c' cs'] x'] Hw'; [unfold wf in Hw'; cbn in Hw'; discriminate|].
          cbn [fst snd]. apply (Ti a (cs', x')). unfold wf in *; cbn in *; lia.
        * exact As.
        * exact Os.
      + (* action wrapper *)
        assert (Hwf': wf st s) by exact Hwf.
        destruct (IH s Hwf') as (T & Ob & Rw & Te & Tr & Mk & Si & Ti & As & Os).
        cbn [wrap1 act_map obs_map rew_map limits asp_of osp_of e_trans e_obs e_rew e_term e_trunc e_mask e_sinfo e_tinfo e_asp e_osp].
        repeat split; auto.
      + (* observation wrapper *)
        assert (Hwf': wf st s) by exact Hwf.
        destruct (IH s Hwf') as (T & Ob & Rw & Te & Tr & Mk & Si & Ti & As & Os).
        cbn [wrap1 act_map obs_map rew_map limits asp_of osp_of e_trans e_obs e_rew e_term e_trunc e_mask e_sinfo e_tinfo e_asp e_osp].
        repeat split; auto. intros k. rewrite Ob. reflexivity.
      + (* reward wrapper *)
        assert (Hwf': wf st s) by exact Hwf.
        destruct (IH s Hwf') as (T & Ob & Rw & Te & Tr & Mk & Si & Ti & As & Os).
        cbn [wrap1 act_map obs_map rew_map limits asp_of osp_of e_trans e_obs e_rew e_term e_trunc e_mask e_sinfo e_tinfo e_asp e_osp].
        repeat split; auto. intros a s' k Hw. rewrite Rw by exact Hw. reflexivity.
  Qed.

  Lemma trans_wf stack s a k : wf stack s -> wf stack (e_trans (wrap stack e) s a k).
  Proof.
    intros H. destruct (stack_char stack s H) as (T & _). rewrite T.
    unfold wf in *. cbn [fst]. rewrite map_length. exact H.
  Qed.

  Lemma map_succ_repeat c m : map (fun c0 => (c0 + 1)%Z) (repeat c m) = repeat (c + 1)%Z m.
  Proof. induction m as [|m IHm]; cbn [map repeat]; [reflexivity | f_equal; exact IHm]. Qed.

  (* along any history of bare transitions from an initial state, every
     TimeLimit counter equals the number of transitions taken, and the inner
     state is the inner environment's run under the mapped actions *)
  Theorem run_char stack k0 : forall acts,
    let W := wrap stack e in
    run_trans W (e_init W k0) acts =
      (repeat (Z.of_nat (length acts)) (length (limits stack)),
       run_trans e (e_init e k0) (map (fun ak => (act_map stack (fst ak), snd ak)) acts)).
  Proof.
    intros acts W.
    assert (G: forall acts c x, 
      run_trans W (repeat c (length (limits stack)), x) acts =
      (repeat (c + Z.of_nat (length acts))%Z (length (limits stack)),
       run_trans e x (map (fun ak => (act_map stack (fst ak), snd ak)) acts))).
    { induction acts0 as [|[a k] tl IH]; intros c x.
      - cbn. rewrite Z.add_0_r. reflexivity.
      - cbn [run_trans map fst snd length].
        assert (Hwf: wf stack (repeat c (length (limits stack)), x)) by (unfold wf; cbn; apply repeat_length).
        destruct (stack_char stack _ Hwf) as (T & _). fold W in T. rewrite T. cbn [fst snd].
        rewrite map_succ_repeat, IH. f_equal. f_equal. lia. }
    unfold W at 2. rewrite init_counters. fold W. rewrite G. reflexivity.
  Qed.

  Lemma any_limit_repeat ns c :
    any_limit ns (repeat c (length ns)) = existsb (fun n => (n <=? c)%Z) ns.
  Proof. induction ns as [|n ns IH]; cbn; [reflexivity|]. rewrite IH. reflexivity. Qed.

  (* C13: TimeLimit is exact for every stack, every N and every episode history *)
  Theorem timelimit_exact stack k0 acts :
    let W := wrap stack e in
    e_trunc W (run_trans W (e_init W k0) acts) =
      e_trunc e (run_trans e (e_init e k0) (map (fun ak => (act_map stack (fst ak), snd ak)) acts))
      || existsb (fun n => (n <=? Z.of_nat (length acts))%Z) (limits stack).
  Proof.
    intros W. unfold W. rewrite run_char.
    set (x := run_trans e _ _).
    assert (Hwf: wf stack (repeat (Z.of_nat (length acts)) (length (limits stack)), x))
      by (unfold wf; cbn; apply repeat_length).
    destruct (stack_char stack _ Hwf) as (_ & _ & _ & _ & Tr & _).
    rewrite Tr. cbn [fst snd]. rewrite any_limit_repeat. reflexivity.
  Qed.

  (* the single-TimeLimit reading of the property: over an inner environment
     that never truncates, truncation is raised at the N-th step exactly *)
  Corollary timelimit_single n k0 acts :
    (forall s, e_trunc e s = false) ->
    let W := wrap [WTimeLimit n] e in
    e_trunc W (run_trans W (e_init W k0) acts) = (n <=? Z.of_nat (length acts))%Z.
  Proof.
    intros Hnt W. unfold W. rewrite timelimit_exact. rewrite Hnt. cbn. rewrite orb_false_r. reflexivity.
  Qed.
End WrapFacts.

(* ================= rescale_box is affine and hits the bounds exactly ================= *)
Open Scope R_scope.
Definition rsR_gradient (lo hi mn mx : R) := (mx - mn) / (hi - lo).
Definition rsR_intercept (lo hi mn mx : R) := mn - lo * rsR_gradient lo hi mn mx.
Definition rsR_forward (lo hi mn mx x : R) := rsR_gradient lo hi mn mx * x + rsR_intercept lo hi mn mx.
Definition rsR_backward (lo hi mn mx y : R) := (y - rsR_intercept lo hi mn mx) / rsR_gradient lo hi mn mx.

Theorem rescale_backward_affine lo hi mn mx y : lo < hi -> mn < mx ->
  rsR_backward lo hi mn mx y = lo + (y - mn) * ((hi - lo) / (mx - mn)).
Proof. intros. unfold rsR_backward, rsR_intercept, rsR_gradient. field. split; lra. Qed.

Theorem rescale_backward_bounds lo hi mn mx : lo < hi -> mn < mx ->
  rsR_backward lo hi mn mx mn = lo /\ rsR_backward lo hi mn mx mx = hi.
Proof. intros. rewrite !rescale_backward_affine by assumption. split; field; lra. Qed.

Theorem rescale_forward_affine lo hi mn mx x : lo < hi -> mn < mx ->
  rsR_forward lo hi mn mx x = mn + (x - lo) * ((mx - mn) / (hi - lo)).
Proof. intros. unfold rsR_forward, rsR_intercept, rsR_gradient. field. lra. Qed.

Theorem rescale_forward_bounds lo hi mn mx : lo < hi -> mn < mx ->
  rsR_forward lo hi mn mx lo = mn /\ rsR_forward lo hi mn mx hi = mx.
Proof. intros. rewrite !rescale_forward_affine by assumption. split; field; lra. Qed.

Theorem rescale_inverse lo hi mn mx x : lo < hi -> mn < mx ->
  rsR_backward lo hi mn mx (rsR_forward lo hi mn mx x) = x.
Proof. intros. unfold rsR_backward, rsR_forward, rsR_intercept, rsR_gradient. field. split; lra. Qed.

(* members of the new box are mapped into the original box *)
Theorem rescale_backward_range lo hi mn mx y : lo < hi -> mn < mx ->
  mn <= y <= mx -> lo <= rsR_backward lo hi mn mx y <= hi.
Proof.
  intros Hl Hm [H1 H2]. rewrite rescale_backward_affine by assumption.
  assert (0 < (hi - lo) / (mx - mn)) by (apply Rdiv_lt_0_compat; lra).
  split.
  - assert (0 <= (y - mn) * ((hi - lo) / (mx - mn))) by (apply Rmult_le_pos; lra). lra.
  - assert ((y - mn) * ((hi - lo) / (mx - mn)) <= (mx - mn) * ((hi - lo) / (mx - mn))) by (apply Rmult_le_compat_r; lra).
    replace ((mx - mn) * ((hi - lo) / (mx - mn))) with (hi - lo) in * by (field; lra). lra.
Qed.
Close Scope R_scope.

(* ================= adapters reproduce the adapted environment's trajectory ================= *)
Section AdapterFacts.
  Context {S A O : Type}.
  Variable E : env S A O.

  Theorem l2g_run_is_run_gym : forall acts key s,
    l2g_run E key s acts = run_gym E s (combine acts (l2g_keys key (length acts))).
  Proof.
    induction acts as [|a tl IH]; intros key s; [reflexivity|].
    cbn [l2g_run l2g_step length l2g_keys combine run_gym]. rewrite IH. reflexivity.
  Qed.

  Theorem l2g_reset_is_gym_reset key : snd (l2g_reset E key) = gym_reset E (ks key 2 1).
  Proof. reflexivity. Qed.

  Theorem l2x_step_is_gym_step key st a :
    let o := gym_step E (fst st) a key in
    l2x_step E key st a = (so_obs o, (so_state o, (snd st + 1)%Z), so_rew o, so_term o || so_trunc o, so_info o).
  Proof. reflexivity. Qed.

  Theorem l2x_reset_is_gym_reset key :
    let '(s, o, _) := gym_reset E key in l2x_reset E key = (o, (s, 0%Z)).
  Proof. reflexivity. Qed.
End AdapterFacts.

(* ================= concrete action wrappers feed the inner environment members of its action space ================= *)
Lemma clipQ_range lo hi a : (lo <= hi)%Q -> (lo <= clipQ (Fin lo) (Fin hi) a <= hi)%Q.
Proof.
  intros H. unfold clipQ, clip_hi, clip_lo. split.
  - apply Q.min_glb; [apply Q.le_max_r | exact H].
  - apply Q.le_min_r.
Qed.

Lemma clipQ_member_fixed lo hi a : (lo <= a <= hi)%Q -> clipQ (Fin lo) (Fin hi) a == a.
Proof.
  intros [H1 H2]. unfold clipQ, clip_hi, clip_lo. rewrite Q.max_l by exact H1. apply Q.min_l. exact H2.
Qed.
