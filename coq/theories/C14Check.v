(* C14 correspondence: one case = one observation of the real lerax spaces
   (src/lerax/space/*.py, compatibility/gym.py:30-91), compared by Coq with the
   model of Spaces.v.
     agree : model output == implementation output
     holds : the property predicate on the implementation output *)
From Coq Require Import String Ascii.
From Coq Require Import List ZArith QArith Qround Bool Arith.
From Lerax Require Import Common Spaces SpacesProofs.
Import ListNotations.

Inductive case :=
(* contains(x): None = the answer was not a scalar boolean (or the call raised) *)
| CContains (s : space) (v : value) (impl : option bool)
(* an output of sample() or canonical() *)
| CMember (s : space) (v : value)
(* Discrete(n).sample(mask=...) *)
| CMasked (n : Z) (mask : list bool) (v : value)
(* flatten_sample(v) and flat_size *)
| CFlatten (s : space) (v : value) (out : list xnum) (fs : nat)
(* two samples with their flattenings *)
| CFlatPair (s : space) (v1 v2 : value) (o1 o2 : list xnum)
(* a == b *)
| CEq (a b : space) (impl : option bool)
(* hash a == hash b; None = hash raised *)
| CHash (a b : space) (impl : option bool)
(* back = gym_space_to_lerax_space(lerax_to_gym_space(s)) read back structurally; impl = (back == s) *)
| CGym (s : space) (back : option space) (impl : option bool).

Definition obool_eqb (a : option bool) (b : bool) : bool :=
  match a with Some x => Bool.eqb x b | None => false end.
Definition xlist_eqb (a b : list xnum) : bool := all2b xeqb a b.

Definition masked_ok (mask : list bool) (v : value) : bool :=
  match v with
  | VArr [] [Fin q] _ => (0 <=? Qfloor q)%Z && nth (Z.to_nat (Qfloor q)) mask false
  | _ => false
  end.

Definition holds (c : case) : bool :=
  match c with
  | CContains s v impl => obool_eqb impl (contains s v)
  | CMember s v => contains s v
  | CMasked n mask v => contains (Discrete n) v && masked_ok mask v
  | CFlatten s v out fs => Nat.eqb (length out) fs
  | CFlatPair s v1 v2 o1 o2 =>
      contains s v1 && contains s v2 &&
      implb (xlist_eqb o1 o2) (xlist_eqb (flatten s v1) (flatten s v2))
  | CEq a b impl => obool_eqb impl (space_eqb a b)
  | CHash a b impl => match impl with Some h => implb (space_eqb a b) h | None => false end
  | CGym s back impl =>
      obool_eqb impl true && match back with Some s' => space_eqb s' s | None => false end
  end.

Definition agree (c : case) : bool :=
  match c with
  | CFlatten s v out fs => Nat.eqb fs (flat_size s) && xlist_eqb out (flatten s v)
  | CFlatPair s v1 v2 o1 o2 => xlist_eqb o1 (flatten s v1) && xlist_eqb o2 (flatten s v2)
  | CGym s back impl =>
      obool_eqb impl true && match back with Some s' => space_eqb_strict s' (gym_roundtrip s) | None => false end
  | _ => holds c
  end.

(* every generated space must be a well-formed construction (harness self-check) *)
Definition case_wf (c : case) : bool :=
  match c with
  | CContains s _ _ | CMember s _ | CFlatten s _ _ _ | CFlatPair s _ _ _ _ | CGym s _ _ => wfb s
  | CMasked n mask _ => (0 <? n)%Z && Z.eqb (Z.of_nat (length mask)) n && existsb (fun b => b) mask
  | CEq a b _ | CHash a b _ => wfb a && wfb b
  end.

(* ---------------------------------------------------------------- soundness of the predicates *)
Lemma obool_eqb_true a b : obool_eqb a b = true <-> a = Some b.
Proof.
  destruct a as [x|]; cbn; [|split; discriminate]. split.
  - intro H. apply Bool.eqb_prop in H. congruence.
  - intros [= ->]. apply Bool.eqb_reflx.
Qed.

Theorem holds_contains_sound s v impl :
  holds (CContains s v impl) = true -> exists b, impl = Some b /\ (b = true <-> member s v).
Proof.
  cbn. intro H. apply obool_eqb_true in H. exists (contains s v). split; [assumption | apply contains_iff_member].
Qed.

Theorem holds_member_sound s v : holds (CMember s v) = true -> member s v.
Proof. cbn. apply contains_iff_member. Qed.

Theorem holds_eq_sound a b impl :
  holds (CEq a b impl) = true -> exists e, impl = Some e /\ (e = true <-> space_same a b).
Proof.
  cbn. intro H. apply obool_eqb_true in H. exists (space_eqb a b). split; [assumption | apply space_eqb_iff].
Qed.

Theorem holds_gym_sound s back impl :
  holds (CGym s back impl) = true -> impl = Some true /\ exists s', back = Some s' /\ space_same s' s.
Proof.
  cbn. intro H. apply andb_prop in H as [H1 H2]. apply obool_eqb_true in H1. split; [assumption|].
  destruct back as [s'|]; [|discriminate]. exists s'. split; [reflexivity | apply space_eqb_iff, H2].
Qed.

Lemma xlist_eqb_refl l : xlist_eqb l l = true.
Proof. apply all2b_refl. intros; apply xeqb_refl. Qed.

Lemma xlist_eqb_length a b : xlist_eqb a b = true -> length a = length b.
Proof. unfold xlist_eqb. rewrite all2b_Forall2. apply Forall2_length. Qed.

(* the model's own outputs satisfy the predicates *)
Theorem model_holds_canonical s : wfb s = true -> holds (CMember s (canonical s)) = true.
Proof. intro W. cbn. apply contains_iff_member, canonical_member, W. Qed.

Theorem model_holds_sample s d : wfb s = true -> draws_ok s d -> holds (CMember s (sample s d)) = true.
Proof. intros W D. cbn. apply contains_iff_member, sample_member; assumption. Qed.

Theorem model_holds_flatten s v :
  wfb s = true -> member s v -> holds (CFlatten s v (flatten s v) (flat_size s)) = true.
Proof. intros W M. cbn. apply Nat.eqb_eq, flatten_size; assumption. Qed.

Theorem model_holds_gym s : wfb s = true -> holds (CGym s (Some (gym_roundtrip s)) (Some true)) = true.
Proof. intro W. cbn. apply gym_roundtrip_eq, W. Qed.

Theorem agree_holds_flatten s v out fs :
  wfb s = true -> member s v -> agree (CFlatten s v out fs) = true -> holds (CFlatten s v out fs) = true.
Proof.
  intros W M. cbn. intro H. apply andb_prop in H as [H1 H2]. apply Nat.eqb_eq in H1. apply xlist_eqb_length in H2.
  apply Nat.eqb_eq. rewrite H2, H1. apply flatten_size; assumption.
Qed.
