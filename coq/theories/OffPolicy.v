(* Off-policy collection: lerax/algorithm/off_policy.py:143-234 (step, warm-up, collect_rollout),
   :278-350 (reset / iteration).  Executable definitions only. *)
From Coq Require Import List ZArith QArith Qround Bool.
From Lerax Require Import Common Env Tab OnPolicy Replay.
Import ListNotations.

Section Off.
  Context {S PS O : Type}.
  Variable E : env S Q O.
  Variable P : acpol PS Q O.      (* behaviour policy: only reset and the action of p_act (mask None) are used *)

  Definition obuf := soa O Q PS.

  (* one step; key split 9 ways:
     0 action, 1 transition, 2 observation, 3 reward, 4 terminal, 5 next observation,
     6 env reset, 7 policy reset, 8 callback *)
  Definition off_step (st : (S * PS) * obuf) (k : kpath) : (S * PS) * obuf :=
    let '((es, ps), buf) := st in
    let obs := e_obs E es (ks k 9 2) in
    let '(ps1, a, _, _) := p_act P ps obs (ks k 9 0) None in
    let ca := clip_action E a in
    let es1 := e_trans E es ca (ks k 9 1) in
    (* the reward the environment produced for the EXECUTED (clipped) action *)
    let r := e_rew E es ca es1 (ks k 9 3) in
    let te := e_term E es1 (ks k 9 4) in
    let tr := e_trunc E es1 in
    let done := te || tr in
    let timeout := tr && negb te in
    (* successor observation of the pre-reset successor state *)
    let nobs := e_obs E es1 (ks k 9 5) in
    let es2 := if done then e_init E (ks k 9 6) else es1 in
    let ps2 := if done then p_reset P (ks k 9 7) else ps1 in
    ((es2, ps2),
     soa_add buf {| t_obs := obs; t_next := nobs; t_act := a; t_rew := r; t_done := done; t_timeout := timeout;
                    t_ps := ps; t_nps := ps1 |}).

  Definition off_scan (st : (S * PS) * obuf) (keys : list kpath) : (S * PS) * obuf := fold_left off_step keys st.

  (* AbstractOffPolicyStepState.initial + collect_learning_starts for one environment *)
  Definition off_reset_env (size L : nat) (canon_o : O) (canon_a : Q) (init_key starts_key : kpath) : (S * PS) * obuf :=
    let st0 := (e_init E (ks init_key 2 0), p_reset P (ks init_key 2 1)) in
    off_scan (st0, soa_empty size canon_o canon_a (snd st0)) (split_keys starts_key L).

  (* reset: init_key, starts_key, callback_key = jr.split(key, 3); N = 1 uses the keys directly,
     N > 1 vmaps over jr.split(., N) with buffers of size buffer_size // N *)
  Definition off_reset (N buffer_size L : nat) (canon_o : O) (canon_a : Q) (k : kpath) : list ((S * PS) * obuf) :=
    if Nat.eqb N 1 then [off_reset_env buffer_size L canon_o canon_a (ks k 3 0) (ks k 3 1)]
    else map (fun i => off_reset_env (buffer_size / N) L canon_o canon_a (ks (ks k 3 0) N i) (ks (ks k 3 1) N i)) (seq 0 N).

  (* the collection part of iteration(): rollout_key = jr.split(key, 3)[0] *)
  Definition off_collect (T : nat) (sts : list ((S * PS) * obuf)) (k : kpath) : list ((S * PS) * obuf) :=
    let rk := ks k 3 0 in
    let N := length sts in
    if Nat.eqb N 1 then map (fun st => off_scan st (split_keys rk T)) sts
    else map (fun p => off_scan (fst p) (split_keys (ks rk N (snd p)) T)) (combine sts (seq 0 N)).

  Fixpoint off_iterations (T : nat) (sts : list ((S * PS) * obuf)) (keys : list kpath) : list (list ((S * PS) * obuf)) :=
    match keys with
    | [] => []
    | k :: tl => let sts' := off_collect T sts k in sts' :: off_iterations T sts' tl
    end.
End Off.
