(* C15 / C16 — action distributions, masking, greedy / epsilon-greedy choice.
   Model of lerax/distribution/*.py (thin wrappers over distreqx), of
   ActionLayer masking (policy/actor.py:243-258), of the key / no-key branch
   of the actor-critic and SAC policies (actor_critic/mlp.py:117-134,
   sac/mlp.py:117-130) and of the Q policy (q/base_q.py:54-92).

   Definitions only.  The discrete kernels (masking, normalisation, arg-max,
   Gumbel-arg-max sampling, Bernoulli threshold sampling, epsilon-greedy
   choice, flat/sequence splitting) are written once over an abstract carrier
   and instantiated at R (theorems) and at Q (executable, run against lerax).
   exp / ln only exist at R; at Q their values are oracle inputs. *)
From Coq Require Import List Bool Reals.
Import ListNotations.

Section Carrier.
  Variable T : Type.
  Variables (zero one : T) (add mul sub div : T -> T -> T) (ltb : T -> T -> bool).

  Definition tsum (l : list T) : T := fold_right add zero l.

  (* jnp.where(mask, xs, none) on equal-length vectors *)
  Fixpoint zipmask {A} (none : A) (xs : list A) (m : list bool) : list A :=
    match xs, m with
    | x :: xs', b :: m' => (if b then x else none) :: zipmask none xs' m'
    | _, _ => []
    end.

  (* extended logits: None is -inf.  categorical.py:45-47 / multi_categorical.py:137-140 *)
  Definition mask_e (ls : list (option T)) (m : list bool) : list (option T) := zipmask None ls m.
  (* the same on weights exp(logit): exp(-inf) = 0 *)
  Definition mweights (ws : list T) (m : list bool) : list T := zipmask zero ws m.

  (* softmax on weights *)
  Definition normalise (ws : list T) : list T := let z := tsum ws in map (fun x => div x z) ws.
  Definition mprobs (ws : list T) (m : list bool) : list T := normalise (mweights ws m).

  (* jnp.argmax over extended values: first maximal entry; index 0 when all are -inf *)
  Fixpoint argmax_from (l : list (option T)) (i : nat) (best : option (nat * T)) : option (nat * T) :=
    match l with
    | [] => best
    | None :: tl => argmax_from tl (S i) best
    | Some x :: tl =>
        argmax_from tl (S i)
          (match best with
           | None => Some (i, x)
           | Some (j, y) => if ltb y x then Some (i, x) else best
           end)
    end.
  Definition argmax (l : list (option T)) : nat :=
    match argmax_from l 0%nat None with Some (i, _) => i | None => 0%nat end.

  (* logits + noise, -inf + finite = -inf *)
  Fixpoint perturb (ls : list (option T)) (g : list T) : list (option T) :=
    match ls, g with
    | l :: ls', n :: g' => option_map (fun x => add x n) l :: perturb ls' g'
    | _, _ => []
    end.

  (* distreqx Categorical.mode / jax.random.categorical (Gumbel-max trick), the noise
     vector being whatever the key produces *)
  Definition cat_mode (ls : list (option T)) : nat := argmax ls.
  Definition cat_sample (ls : list (option T)) (noise : list T) : nat := argmax (perturb ls noise).

  (* distreqx Bernoulli: sample = uniform < p ; mode = p > 1/2 ; p = 0 where masked *)
  Definition bern_sample (ps us : list T) : list bool := map (fun pu => ltb (snd pu) (fst pu)) (combine ps us).
  Definition bern_mode (half : T) (ps : list T) : list bool := map (fun p => ltb half p) ps.

  (* flat vs sequence parameterisation: jnp.split(arr, cumsum(dims[:-1])) *)
  Fixpoint split_dims {A} (flat : list A) (dims : list nat) : list (list A) :=
    match dims with
    | [] => []
    | d :: ds => firstn d flat :: split_dims (skipn d flat) ds
    end.

  (* MultiCategorical: independent components *)
  Definition mc_mask (cs : list (list (option T))) (ms : list (list bool)) : list (list (option T)) :=
    map (fun cm => mask_e (fst cm) (snd cm)) (combine cs ms).
  Definition mc_mode (cs : list (list (option T))) : list nat := map cat_mode cs.
  Definition mc_sample (cs : list (list (option T))) (noises : list (list T)) : list nat :=
    map (fun cn => cat_sample (fst cn) (snd cn)) (combine cs noises).

  (* ActionLayer.__call__ then MLPActorCriticPolicy.__call__: the mask is applied when given
     (all discrete laws are maskable); key None -> mode, else sample *)
  Definition apply_mask (ls : list (option T)) (m : option (list bool)) : list (option T) :=
    match m with Some mm => mask_e ls mm | None => ls end.
  Definition ac_act (ls : list (option T)) (m : option (list bool)) (noise : option (list T)) : nat :=
    let d := apply_mask ls m in
    match noise with None => cat_mode d | Some g => cat_sample d g end.

  (* AbstractQPolicy.__call__: q-values are the logits; greedy unless a key is given and epsilon > 0;
     then  uniform(epsilon_key) < epsilon ? sample(action_key) : mode *)
  Definition q_choose (eps : T) (u : option T) (greedy sampled : nat) : nat :=
    match u with
    | None => greedy
    | Some uu => if ltb zero eps then (if ltb uu eps then sampled else greedy) else greedy
    end.
  Definition q_act (qs : list (option T)) (m : option (list bool)) (eps : T) (draw : option (T * list T)) : nat :=
    let d := apply_mask qs m in
    q_choose eps (option_map fst draw) (cat_mode d)
             (match draw with Some (_, g) => cat_sample d g | None => cat_mode d end).
End Carrier.

Arguments zipmask {A}.
Arguments split_dims {A}.

(* ------------------------------------------------------------------ *)
(* Real-number laws                                                     *)
Open Scope R_scope.

Definition rsum (l : list R) : R := tsum R 0 Rplus l.
Definition Rltb (a b : R) : bool := if Rlt_dec a b then true else false.

(* weight of an extended logit *)
Definition ew (l : option R) : R := match l with Some x => exp x | None => 0 end.
Definition cat_Z (ls : list (option R)) : R := rsum (map ew ls).
(* jax.nn.softmax(logits) *)
Definition cat_probs (ls : list (option R)) : list R := normalise R 0 Rplus Rdiv (map ew ls).
(* normalised logits = log-probabilities: logits - logsumexp(logits) *)
Definition cat_logprobs (ls : list (option R)) : list (option R) :=
  map (option_map (fun x => x - ln (cat_Z ls))) ls.
Definition cat_prob (ls : list (option R)) (i : nat) : R := nth i (cat_probs ls) 0.
Definition cat_logprob (ls : list (option R)) (i : nat) : option R := nth i (cat_logprobs ls) None.
(* distreqx entropy: -sum(mul_exp(lp, lp)),  mul_exp(x, lp) = x * exp(lp), 0 where lp = -inf *)
Definition mul_exp_e (lp : option R) : R := match lp with Some v => v * exp v | None => 0 end.
Definition cat_entropy (ls : list (option R)) : R := - rsum (map mul_exp_e (cat_logprobs ls)).
(* -E[log p] written from the pmf: - sum_i p_i * ln p_i, 0 where p_i = 0 *)
Definition plogp (p : R) : R := if Req_EM_T p 0 then 0 else p * ln p.
Definition shannon (ps : list R) : R := - rsum (map plogp ps).

Definition Rmask_e := mask_e R.
Definition Rargmax := argmax R Rltb.
Definition Rcat_mode := cat_mode R Rltb.
Definition Rcat_sample := cat_sample R Rplus Rltb.

(* Bernoulli(logit) : p1 = sigmoid(logit), p0 = 1 - p1; a masked component has logit -inf *)
Definition sigmoid (x : R) : R := / (1 + exp (- x)).
Definition softplus (x : R) : R := ln (1 + exp x).
Definition bern_p1 (l : option R) : R := match l with Some x => sigmoid x | None => 0 end.
Definition bern_p0 (l : option R) : R := 1 - bern_p1 l.
(* log_probs0, log_probs1 = -softplus(l), -softplus(-l) *)
Definition bern_lp1 (l : option R) : option R := option_map (fun x => - softplus (- x)) l.
Definition bern_lp0 (l : option R) : option R := match l with Some x => Some (- softplus x) | None => Some 0 end.
Definition bern_entropy (l : option R) : R := - (mul_exp_e (bern_lp0 l) + mul_exp_e (bern_lp1 l)).

(* product law: the joint pmf of independent components is the product of the
   component masses (that is what independence means); everything else is derived *)
Fixpoint joint_prob (pss : list (list R)) (xs : list nat) : R :=
  match pss, xs with
  | [], [] => 1
  | ps :: pss', x :: xs' => nth x ps 0 * joint_prob pss' xs'
  | _, _ => 0
  end.
(* all outcomes (cartesian product of the index ranges) and their joint masses *)
Fixpoint outcomes (dims : list nat) : list (list nat) :=
  match dims with
  | [] => [[]]
  | d :: ds => flat_map (fun i => map (cons i) (outcomes ds)) (seq 0 d)
  end.
Fixpoint joint_masses (pss : list (list R)) : list R :=
  match pss with
  | [] => [1]
  | ps :: pss' => flat_map (fun p => map (Rmult p) (joint_masses pss')) ps
  end.
(* extended sum of log-probabilities: jnp.sum(jnp.stack(logps)) with -inf absorbing *)
Fixpoint esum (l : list (option R)) : option R :=
  match l with
  | [] => Some 0
  | None :: _ => None
  | Some x :: tl => match esum tl with Some s => Some (x + s) | None => None end
  end.
(* MultiCategorical.log_prob / entropy (multi_categorical.py:144-169) *)
Definition mc_logprob (cs : list (list (option R))) (xs : list nat) : option R :=
  esum (map (fun cx => cat_logprob (fst cx) (snd cx)) (combine cs xs)).
Definition mc_entropy (cs : list (list (option R))) : R := rsum (map cat_entropy cs).
Definition mc_joint (cs : list (list (option R))) (xs : list nat) : R := joint_prob (map cat_probs cs) xs.

(* ------------------------------------------------------------------ *)
(* continuous laws *)
Definition half_log2pi : R := ln (sqrt (2 * PI)).
(* distreqx Normal.log_prob *)
Definition normal_logpdf (mu sigma x : R) : R :=
  - (1 / 2) * ((x - mu) / sigma) ^ 2 - (half_log2pi + ln sigma).
Definition normal_pdf (mu sigma x : R) : R :=
  / (sigma * sqrt (2 * PI)) * exp (- ((x - mu) / sigma) ^ 2 / 2).
Definition normal_entropy (sigma : R) : R := 1 / 2 + (half_log2pi + ln sigma).

(* MultivariateNormalDiag = standard normal pushed through x = loc + scale_diag * z:
   log_prob = sum_i stdnormal_logpdf(z_i) - sum_i ln |scale_i| *)
Fixpoint zip3 (mus sigmas xs : list R) : list (R * R * R) :=
  match mus, sigmas, xs with
  | m :: mus', s :: sigmas', x :: xs' => (m, s, x) :: zip3 mus' sigmas' xs'
  | _, _, _ => []
  end.
Definition mvn_logpdf (mus sigmas xs : list R) : R :=
  rsum (map (fun t => let '(m, s, x) := t in normal_logpdf 0 1 ((x - m) / s)) (zip3 mus sigmas xs))
  - rsum (map (fun t => let '(m, s, x) := t in ln (Rabs s)) (zip3 mus sigmas xs)).
Definition mvn_logpdf_sum (mus sigmas xs : list R) : R :=
  rsum (map (fun t => let '(m, s, x) := t in normal_logpdf m s x) (zip3 mus sigmas xs)).
Definition mvn_entropy (sigmas : list R) : R := rsum (map normal_entropy sigmas).
(* coded: Transformed.entropy = entropy of n standard normals + constant forward log-det *)
Definition mvn_entropy_code (sigmas : list R) : R :=
  INR (length sigmas) * normal_entropy 1 + rsum (map (fun s => ln (Rabs s)) sigmas).

(* squashing bijector  Chain((ScalarAffine(shift=low, scale=high-low), Sigmoid())) *)
Definition squash (low high x : R) : R := (high - low) * sigmoid x + low.
(* Sigmoid.forward_log_det_jacobian *)
Definition sigmoid_fldj (x : R) : R := - softplus (- x) - softplus x.
(* Chain: sum of the log-dets; ScalarAffine: ln |scale| *)
Definition squash_fldj (low high x : R) : R := ln (Rabs (high - low)) + sigmoid_fldj x.
(* the derivative it is the logarithm of *)
Definition squash_deriv (low high x : R) : R := (high - low) * (sigmoid x * (1 - sigmoid x)).
(* Sigmoid.inverse and ScalarAffine.inverse *)
Definition logit (y : R) : R := ln y - ln (1 - y).
Definition squash_inv (low high y : R) : R := logit (/ (high - low) * (y - low)).
(* Transformed.log_prob: x, ildj = inverse_and_log_det(y); base.log_prob(x) + ildj, ildj = -fldj(x) *)
Definition squashed_logpdf (mu sigma low high y : R) : R :=
  let x := squash_inv low high y in normal_logpdf mu sigma x + - squash_fldj low high x.
(* Transformed.sample_and_log_prob: y, fldj = forward_and_log_det(x); lp = base_lp(x) - fldj *)
Definition squashed_sample_lp (mu sigma low high x : R) : R * R :=
  (squash low high x, normal_logpdf mu sigma x - squash_fldj low high x).
(* change of variables written from the density: p_Y(y) = p_X(x) / g'(x), x = g^-1(y) *)
Definition squashed_pdf (mu sigma low high y : R) : R :=
  let x := squash_inv low high y in normal_pdf mu sigma x / squash_deriv low high x.

(* SquashedMultivariateNormalDiag: Block(chain, ndims=1) sums the per-dimension log-dets *)
Fixpoint zip5 (mus sigmas lows highs ys : list R) : list (R * R * R * R * R) :=
  match mus, sigmas, lows, highs, ys with
  | m :: a, s :: b, l :: c, h :: d, y :: e => (m, s, l, h, y) :: zip5 a b c d e
  | _, _, _, _, _ => []
  end.
Definition sq_mvn_logpdf (mus sigmas lows highs ys : list R) : R :=
  let xs := map (fun t => let '(m, s, l, h, y) := t in squash_inv l h y) (zip5 mus sigmas lows highs ys) in
  mvn_logpdf mus sigmas xs
  + - rsum (map (fun t => let '(m, s, l, h, y) := t in squash_fldj l h (squash_inv l h y)) (zip5 mus sigmas lows highs ys)).
Definition sq_mvn_logpdf_sum (mus sigmas lows highs ys : list R) : R :=
  rsum (map (fun t => let '(m, s, l, h, y) := t in squashed_logpdf m s l h y) (zip5 mus sigmas lows highs ys)).
