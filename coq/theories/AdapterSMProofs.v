(* C13: what a Gymnasium user relies on: the episode after reset(seed=s) is a function of s and of the actions alone
   (whatever the adapter did before), it is the native Gym-style trajectory of the adapted environment under the documented
   key chain, and reset() without a seed continues the chain. *)
From Coq Require Import List ZArith QArith Bool Lia.
From Lerax Require Import Common Env EnvProofs AdapterSM.
Import ListNotations.

Section AdapterSMFacts.
  Context {S A O : Type}.
  Variable E : env S A O.

  (* reset(seed=r): the past is forgotten *)
  Theorem reseed_forgets_history (g1 g2 : l2g_obj) r ops :
    l2g_trace E g1 (OReset (Some r) :: ops) = l2g_trace E g2 (OReset (Some r) :: ops).
  Proof. reflexivity. Qed.

  Corollary reseed_after_any_use (g : l2g_obj) before r ops key0 :
    l2g_trace E (l2g_after E g before) (OReset (Some r) :: ops) = l2g_trace E (l2g_new key0) (OReset (Some r) :: ops).
  Proof. apply reseed_forgets_history. Qed.

  (* ... and what follows is the native trajectory: gym_reset under split(r)[1], then run_gym under the chain of split(.)[0] *)
  Lemma steps_trace : forall acts key s,
    l2g_trace E {| g_key := key; g_state := Some s |} (map (@OStep A) acts) = map (@OutStep S O) (l2g_run E key s acts).
  Proof.
    induction acts as [|a tl IH]; intros key s; [reflexivity|].
    cbn [map l2g_trace l2g_apply g_state g_key l2g_step l2g_run]. rewrite IH. reflexivity.
  Qed.

  Theorem episode_after_reseed (g : l2g_obj) r acts :
    let '(s, o, i) := gym_reset E (ks r 2 1) in
    l2g_trace E g (OReset (Some r) :: map (@OStep A) acts) =
    OutReset s o i :: map (@OutStep S O) (run_gym E s (combine acts (l2g_keys (ks r 2 0) (length acts)))).
  Proof.
    destruct (gym_reset E (ks r 2 1)) as [[s o] i] eqn:Hr.
    cbn [l2g_trace l2g_apply l2g_reset]. rewrite Hr. rewrite steps_trace, l2g_run_is_run_gym. reflexivity.
  Qed.

  (* the key chain: every operation on an initialised adapter splits the chain once; reset() without a seed continues it *)
  Fixpoint chain (k : kpath) (n : nat) : kpath := match n with 0%nat => k | Datatypes.S m => chain (ks k 2 0) m end.

  Lemma after_key_unseeded : forall ops g, g_state g <> None ->
    Forall (fun op => match op with OReset (Some _) => False | _ => True end) ops ->
    g_key (l2g_after E g ops) = chain (g_key g) (length ops) /\ g_state (l2g_after E g ops) <> None.
  Proof.
    induction ops as [|op tl IH]; intros g Hs Hall; [split; [reflexivity|exact Hs]|].
    apply Forall_cons_iff in Hall as [Hop Htl].
    cbn [l2g_after length chain].
    destruct op as [[r|]|a]; [contradiction| |].
    - cbn [l2g_apply l2g_reset]. destruct (gym_reset E (ks (g_key g) 2 1)) as [[s o] i]. cbn [fst].
      apply IH; [discriminate | exact Htl].
    - cbn [l2g_apply]. destruct (g_state g) as [s|] eqn:Hg; [|contradiction]. cbn [l2g_step fst].
      apply IH; [discriminate | exact Htl].
  Qed.

  Theorem unseeded_reset_continues (g : l2g_obj) ops :
    g_state g <> None ->
    Forall (fun op => match op with OReset (Some _) => False | _ => True end) ops ->
    exists s o i, l2g_trace E (l2g_after E g ops) [OReset None] = [OutReset s o i]
                  /\ (s, o, i) = gym_reset E (ks (chain (g_key g) (length ops)) 2 1).
  Proof.
    intros Hs Hall. destruct (after_key_unseeded ops g Hs Hall) as [Hk _].
    cbn [l2g_trace l2g_apply l2g_reset]. rewrite Hk.
    destruct (gym_reset E (ks (chain (g_key g) (length ops)) 2 1)) as [[s o] i].
    exists s, o, i. split; reflexivity.
  Qed.
End AdapterSMFacts.
