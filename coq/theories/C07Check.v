(* C07 correspondence: DQN loss on crafted batches with tabular Q-functions; SAC q_loss reported by sac_train on
   constant batches with a deterministic stub policy and tabular critics; SAC actor loss. *)
From Coq Require Import List ZArith QArith Qminmax Qround Bool.
From Lerax Require Import Common Losses C08Check Env Tab OnPolicy Replay OffPolicy C06Check.
Import ListNotations.

Definition tdQ := td_target Q 0 1 Qplus Qmult.
Definition dqn_lossQ := dqn_loss Q 0 1 (2#1) Qplus Qmult Qminus Qdiv qnat.
Definition sac_vnextQ := sac_vnext Q Qmult Qminus Qmin.
Definition sac_q_lossQ := sac_q_loss Q 0 (2#1) Qplus Qmult Qminus Qdiv qnat.
Definition sac_actorQ := sac_actor_loss Q 0 Qplus Qmult Qminus Qdiv Qmin qnat.

(* first index of the maximum (jnp.argmax) *)
Fixpoint argmax_from (l : list Q) (i : nat) (best : Q) (bi : nat) : nat :=
  match l with [] => bi | x :: tl => if Qlt_le_dec best x then argmax_from tl (S i) x i else argmax_from tl (S i) best bi end.
Definition argmax (l : list Q) : nat := match l with [] => 0%nat | x :: tl => argmax_from tl 1 x 0 end.

Inductive case :=
| CDqn (gamma : Q) (q_taken : list Q) (rewards : list Q) (next_online next_target : list (list Q)) (dones timeouts : list bool) (loss : Q)
| CSacQ (gamma alpha : Q) (q1 q2 : list Q) (rewards : list Q) (tq1 tq2 next_logp : list Q) (dones timeouts : list bool) (q_loss : Q)
| CSacActor (alpha : Q) (logps q1 q2 : list Q) (loss : Q)
(* end to end: transitions stored by the real warm-up collection on a key-free finite MDP (buffer not wrapped),
   then DQN.dqn_loss on that buffer with tabular online/target Q-functions *)
| CDqnE2E (t : tab) (stack : list wd) (p : ptab) (L : nat) (canon_a : Q) (key : kpath) (gamma : Q) (qon qtg : list (list Q)) (loss : Q)
(* the same for SAC: the q_loss reported by the real sac_train on the buffer stored by the real warm-up; tabular critics
   q(obs, a) = W[obs] + C * a (online pair, target pair), deterministic policy tables A (action) and LP (log-prob) *)
| CSacE2E (t : tab) (stack : list wd) (p : ptab) (L : nat) (canon_a : Q) (key : kpath) (gamma alpha : Q)
          (w1 : list Q) (c1 : Q) (w2 : list Q) (c2 : Q) (tw1 : list Q) (tc1 : Q) (tw2 : list Q) (tc2 : Q) (pa plp : list Q) (loss : Q).

Definition model (c : case) : Q :=
  match c with
  | CDqn gamma q_taken rewards no nt dones timeouts _ =>
      dqn_lossQ gamma q_taken rewards (map (fun p => nth (argmax (fst p)) (snd p) 0) (combine no nt)) dones timeouts
  | CSacQ gamma alpha q1 q2 rewards tq1 tq2 nlp dones timeouts _ =>
      let vn := map (fun p => sac_vnextQ alpha (fst (fst p)) (snd (fst p)) (snd p)) (combine (combine tq1 tq2) nlp) in
      let targets := map (fun p => tdQ gamma (fst (fst p)) (snd (fst p)) (fst (snd p)) (snd (snd p)))
                         (combine (combine rewards vn) (combine dones timeouts)) in
      sac_q_lossQ q1 q2 targets
  | CSacActor alpha logps q1 q2 _ => sac_actorQ alpha logps q1 q2
  | CDqnE2E t stack p L canon_a key gamma qon qtg _ =>
      let E := wrap_d stack (tab_env t []) in
      let P := tab_pol p [] in
      match off_reset E P 1 L L [0] canon_a key with
      | (_, buf) :: _ =>
          let rows := map (row_at d0 buf) (seq 0 L) in
          let qrow (tbl : list (list Q)) (o : list Q) := nthz tbl (obs_idx o) [] in
          dqn_lossQ gamma (map (fun r => nthz (qrow qon (t_obs r)) (Qfloor (t_act r)) 0) rows) (map (@t_rew _ _ _) rows)
                    (map (fun r => nth (argmax (qrow qon (t_next r))) (qrow qtg (t_next r)) 0) rows)
                    (map (@t_done _ _ _) rows) (map (@t_timeout _ _ _) rows)
      | [] => 0
      end
  | CSacE2E t stack p L canon_a key gamma alpha w1 c1 w2 c2 tw1 tc1 tw2 tc2 pa plp _ =>
      let E := wrap_d stack (tab_env t []) in
      let P := tab_pol p [] in
      match off_reset E P 1 L L [0] canon_a key with
      | (_, buf) :: _ =>
          let rows := map (row_at d0 buf) (seq 0 L) in
          let crit (w : list Q) (c : Q) (o : list Q) (a : Q) := nthz w (obs_idx o) 0 + c * a in
          let vn := map (fun r => let a' := nthz pa (obs_idx (t_next r)) 0 in
                                   sac_vnextQ alpha (crit tw1 tc1 (t_next r) a') (crit tw2 tc2 (t_next r) a') (nthz plp (obs_idx (t_next r)) 0)) rows in
          let targets := map (fun p => tdQ gamma (t_rew (fst p)) (snd p) (t_done (fst p)) (t_timeout (fst p))) (combine rows vn) in
          sac_q_lossQ (map (fun r => crit w1 c1 (t_obs r) (t_act r)) rows) (map (fun r => crit w2 c2 (t_obs r) (t_act r)) rows) targets
      | [] => 0
      end
  end.
Definition imp (c : case) : Q := match c with CDqn _ _ _ _ _ _ _ l => l | CSacQ _ _ _ _ _ _ _ _ _ _ l => l | CSacActor _ _ _ _ l => l | CDqnE2E _ _ _ _ _ _ _ _ _ l => l | CSacE2E _ _ _ _ _ _ _ _ _ _ _ _ _ _ _ _ _ _ l => l end.

Definition agree (c : case) : bool := Qclose (1 # 1000000000000) (model c) (imp c).   (* the mean over a batch whose size is not a power of two is rounded *)
Definition holds (c : case) : bool := agree c.
