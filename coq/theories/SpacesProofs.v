(* Proofs about the spaces model (Spaces.v): membership, samples, flattening,
   equality, hashing, Gymnasium round trip.  Stdlib only. *)
From Coq Require Import String Ascii.
From Coq Require Import List ZArith QArith Qround Qreduction Bool Lia Arith Permutation Lqa.
From Lerax Require Import Spaces.
Import ListNotations.

(* ================================================================ nested induction over spaces *)
Section SpaceInd.
  Variable P : space -> Prop.
  Hypothesis HD : forall n, P (Discrete n).
  Hypothesis HB : forall sh lo hi, P (Box sh lo hi).
  Hypothesis HMB : forall sh, P (MultiBinary sh).
  Hypothesis HMD : forall nv, P (MultiDiscrete nv).
  Hypothesis HT : forall l, Forall P l -> P (Tuple l).
  Hypothesis HDi : forall l, Forall (fun ks => P (snd ks)) l -> P (Dict l).
  Fixpoint space_nested_ind (s : space) : P s :=
    match s with
    | Discrete n => HD n
    | Box sh lo hi => HB sh lo hi
    | MultiBinary sh => HMB sh
    | MultiDiscrete nv => HMD nv
    | Tuple l => HT l ((fix go (l : list space) : Forall P l :=
                          match l with
                          | [] => Forall_nil _
                          | x :: t => Forall_cons _ (space_nested_ind x) (go t)
                          end) l)
    | Dict l => HDi l ((fix go (l : list (string * space)) : Forall (fun ks => P (snd ks)) l :=
                          match l with
                          | [] => Forall_nil _
                          | x :: t => Forall_cons _ (space_nested_ind (snd x)) (go t)
                          end) l)
    end.
End SpaceInd.

(* ================================================================ list helpers *)
Lemma all2b_Forall2 {A B} (f : A -> B -> bool) l1 l2 :
  all2b f l1 l2 = true <-> Forall2 (fun x y => f x y = true) l1 l2.
Proof.
  revert l2; induction l1 as [|x t1 IH]; intros [|y t2]; cbn; split; intro H;
    try discriminate; try constructor; try (inversion H; fail).
  - apply andb_prop in H; tauto.
  - apply IH. apply andb_prop in H; tauto.
  - inversion H; subst. apply andb_true_intro; split; [assumption | apply IH; assumption].
Qed.

Lemma all3b_Forall3 {A B C} (f : A -> B -> C -> bool) l1 l2 l3 :
  all3b f l1 l2 l3 = true <-> Forall3 (fun x y z => f x y z = true) l1 l2 l3.
Proof.
  revert l2 l3; induction l1 as [|x t1 IH]; intros [|y t2] [|z t3]; cbn; split; intro H;
    try discriminate; try constructor; try (inversion H; fail).
  - apply andb_prop in H; tauto.
  - apply IH. apply andb_prop in H; tauto.
  - inversion H; subst. apply andb_true_intro; split; [assumption | apply IH; assumption].
Qed.

Lemma Forall2_iff_l {A B} (R1 R2 : A -> B -> Prop) l1 l2 :
  Forall (fun a => forall b, R1 a b <-> R2 a b) l1 -> (Forall2 R1 l1 l2 <-> Forall2 R2 l1 l2).
Proof.
  intros H; revert l2; induction H as [|a t Ha Ht IH]; intros l2; split; intro F; inversion F; subst; constructor;
    try (apply Ha; assumption); try (apply IH; assumption).
Qed.

Lemma Forall2_iff {A B} (R1 R2 : A -> B -> Prop) l1 l2 :
  (forall a b, R1 a b <-> R2 a b) -> (Forall2 R1 l1 l2 <-> Forall2 R2 l1 l2).
Proof. intros H. apply Forall2_iff_l. apply Forall_forall. intros; apply H. Qed.

Lemma Forall3_iff {A B C} (R1 R2 : A -> B -> C -> Prop) l1 l2 l3 :
  (forall a b c, R1 a b c <-> R2 a b c) -> (Forall3 R1 l1 l2 l3 <-> Forall3 R2 l1 l2 l3).
Proof.
  intros H; split; induction 1; constructor; try assumption; apply H; assumption.
Qed.

Lemma Forall_iff_in {A} (P Q : A -> Prop) l :
  Forall (fun a => P a <-> Q a) l -> (Forall P l <-> Forall Q l).
Proof.
  induction 1 as [|a t Ha Ht IH]; split; intro F; try constructor; inversion F; subst;
    try (apply Ha; assumption); try (apply IH; assumption).
Qed.

Lemma Forall2_length {A B} (R : A -> B -> Prop) l1 l2 : Forall2 R l1 l2 -> length l1 = length l2.
Proof. induction 1; cbn; congruence. Qed.

Lemma Forall3_length {A B C} (R : A -> B -> C -> Prop) l1 l2 l3 :
  Forall3 R l1 l2 l3 -> length l1 = length l3 /\ length l2 = length l3.
Proof. induction 1; cbn; intuition congruence. Qed.

Lemma shape_eqb_eq a b : shape_eqb a b = true <-> a = b.
Proof.
  unfold shape_eqb. rewrite all2b_Forall2. split.
  - induction 1 as [|x y t1 t2 H _ IH]; [reflexivity|]. apply Nat.eqb_eq in H. congruence.
  - intros ->. induction b; constructor; [apply Nat.eqb_refl | assumption].
Qed.

Lemma Zlist_eqb_eq a b : all2b Z.eqb a b = true <-> a = b.
Proof.
  rewrite all2b_Forall2. split.
  - induction 1 as [|x y t1 t2 H _ IH]; [reflexivity|]. apply Z.eqb_eq in H. congruence.
  - intros ->. induction b; constructor; [apply Z.eqb_refl | assumption].
Qed.

Lemma opt_sat_iff {A} (P : A -> Prop) (f : A -> bool) o :
  (forall x, f x = true <-> P x) ->
  (match o with Some x => f x | None => false end = true <-> opt_sat P o).
Proof.
  intros H. destruct o as [x|]; split; intro G; try discriminate.
  - constructor. apply H, G.
  - inversion G; subst. apply H. assumption.
  - inversion G.
Qed.

(* ================================================================ numbers *)
Lemma xleb_iff a b : xleb a b = true <-> xle a b.
Proof.
  destruct a, b; cbn; try (split; [discriminate | tauto]); try tauto; try apply Qle_bool_iff.
Qed.

Lemma in_boxb_iff lo hi x : in_boxb lo hi x = true <-> in_box lo hi x.
Proof. unfold in_boxb, in_box. rewrite andb_true_iff, !xleb_iff. tauto. Qed.

Lemma in_rangeb_iff n x : in_rangeb n x = true <-> in_range n x.
Proof.
  destruct x as [q| | |]; cbn; try (split; [discriminate | tauto]).
  rewrite !andb_true_iff, Qeq_bool_iff, Z.leb_le, Z.ltb_lt. split.
  - intros [[H1 H2] H3]. exists (Qfloor q). split; [assumption | lia].
  - intros (z & Hq & Hz). assert (Qfloor q = z) as ->.
    { rewrite (Qfloor_comp _ _ Hq). apply Qfloor_Z. }
    repeat split; try lia. assumption.
Qed.

(* ================================================================ contains = member *)
Theorem contains_iff_member s : forall v, contains s v = true <-> member s v.
Proof.
  induction s as [n | sh lo hi | sh | nv | ss IH | kss IH] using space_nested_ind; intros v.
  - destruct v as [sh xs dt | | |]; cbn; try (split; [discriminate | intro H; inversion H]).
    destruct sh as [|d sh]; [|split; [discriminate | intro H; inversion H]].
    destruct xs as [|x [|y xs]]; try (split; [discriminate | intro H; inversion H]).
    rewrite in_rangeb_iff. split; intro H; [constructor; assumption | inversion H; assumption].
  - destruct v as [sh' xs dt | | |]; cbn; try (split; [discriminate | intro H; inversion H]).
    rewrite andb_true_iff, shape_eqb_eq, all3b_Forall3, (Forall3_iff _ in_box) by (intros; apply in_boxb_iff).
    split; [intros [-> H]; constructor; assumption | intro H; inversion H; subst; auto].
  - destruct v as [sh' xs dt | | |]; cbn; try (split; [discriminate | intro H; inversion H]).
    rewrite !andb_true_iff, shape_eqb_eq, Nat.eqb_eq, forallb_forall, <- Forall_forall.
    rewrite (Forall_iff_in (fun x => in_rangeb 2 x = true) (in_range 2))
      by (apply Forall_forall; intros; apply in_rangeb_iff).
    split; [intros [[-> H1] H2]; constructor; assumption | intro H; inversion H; subst; auto].
  - destruct v as [sh' xs dt | | |]; cbn; try (split; [discriminate | intro H; inversion H]).
    rewrite andb_true_iff, shape_eqb_eq, all2b_Forall2, (Forall2_iff _ in_range) by (intros; apply in_rangeb_iff).
    split; [intros [-> H]; constructor; assumption | intro H; inversion H; subst; auto].
  - destruct v as [| vs | |]; cbn; try (split; [discriminate | intro H; inversion H]).
    rewrite all2b_Forall2, (Forall2_iff_l _ member _ _ IH).
    split; intro H; [constructor; assumption | inversion H; assumption].
  - destruct v as [| | ord kvs |]; cbn; try (split; [discriminate | intro H; inversion H]).
    destruct ord; [|split; [discriminate | intro H; inversion H]].
    rewrite andb_true_iff, Nat.eqb_eq, forallb_forall, <- Forall_forall.
    rewrite (Forall_iff_in _ (fun ks => opt_sat (member (snd ks)) (lookup (fst ks) kvs))).
    + split; [intros [H1 H2]; constructor; assumption | intro H; inversion H; subst; auto].
    + eapply Forall_impl; [|exact IH]. cbn. intros ks Hks. apply opt_sat_iff. exact Hks.
Qed.

(* ================================================================ dict helpers *)
Lemma nodupb_NoDup l : nodupb l = true <-> NoDup l.
Proof.
  induction l as [|k t IH]; cbn; [split; [constructor | reflexivity]|].
  rewrite andb_true_iff, negb_true_iff, IH. split.
  - intros [H1 H2]. constructor; [|assumption]. intro Hin.
    assert (existsb (String.eqb k) t = true) as E; [|congruence].
    apply existsb_exists. exists k. split; [assumption | apply String.eqb_refl].
  - intro H; inversion H as [|? ? Hn Hd]; subst. split; [|assumption].
    destruct (existsb (String.eqb k) t) eqn:E; [|reflexivity].
    apply existsb_exists in E as (k' & Hin & Hk). apply String.eqb_eq in Hk; subst. contradiction.
Qed.

Lemma lookup_in_nodup {V} (l : list (string * V)) kv :
  NoDup (keys l) -> In kv l -> lookup (fst kv) l = Some (snd kv).
Proof.
  induction l as [|x t IH]; cbn; intros Hnd Hin; [contradiction|].
  inversion Hnd as [|? ? Hn Hd]; subst. destruct Hin as [->|Hin].
  - rewrite String.eqb_refl. reflexivity.
  - destruct (String.eqb (fst kv) (fst x)) eqn:E.
    + apply String.eqb_eq in E. exfalso. apply Hn. rewrite <- E. unfold keys. apply in_map. assumption.
    + apply IH; assumption.
Qed.

Lemma lookup_some_in {V} (l : list (string * V)) k v : lookup k l = Some v -> In (k, v) l.
Proof.
  induction l as [|x t IH]; cbn; [discriminate|]. destruct (String.eqb k (fst x)) eqn:E.
  - intros [= <-]. apply String.eqb_eq in E; subst. left. destruct x; reflexivity.
  - intro H. right. apply IH, H.
Qed.

Lemma Forall2_in_l {A B} (R : A -> B -> Prop) l1 l2 x :
  Forall2 R l1 l2 -> In x l1 -> exists y, In y l2 /\ R x y.
Proof.
  induction 1 as [|a b t1 t2 Hab _ IH]; cbn; [contradiction|]. intros [->|Hin].
  - exists b; auto.
  - destruct (IH Hin) as (y & Hy & Hr). exists y; auto.
Qed.

Lemma Forall2_keys {V W} (R : string * V -> string * W -> Prop) l1 l2 :
  Forall2 (fun a b => fst b = fst a /\ R a b) l1 l2 -> keys l2 = keys l1.
Proof. induction 1 as [|a b t1 t2 [H _] _ IH]; cbn; [reflexivity|]. unfold keys in IH. congruence. Qed.

Lemma dict_member_intro kss kvs :
  NoDup (keys kss) ->
  Forall2 (fun ks kv => fst kv = fst ks /\ member (snd ks) (snd kv)) kss kvs ->
  member (Dict kss) (VDict true kvs).
Proof.
  intros Hnd HF. constructor.
  - symmetry. eapply Forall2_length; eassumption.
  - apply Forall_forall. intros ks Hin.
    destruct (Forall2_in_l _ _ _ _ HF Hin) as (kv & Hkv & Hk & Hm).
    rewrite <- Hk, (lookup_in_nodup kvs kv); [constructor; assumption | | assumption].
    rewrite (Forall2_keys (fun a b => member (snd a) (snd b)) _ _ HF). assumption.
Qed.

(* ================================================================ canonical is a member *)
Lemma canon_comp_ok lo hi : box_okb lo hi = true -> in_box lo hi (canon_comp lo hi).
Proof.
  unfold in_box. destruct lo as [a| | |], hi as [b| | |]; cbn; try discriminate; intros H;
    try apply Qle_bool_iff in H; repeat split; try lra.
Qed.

Lemma box_canon_ok lo hi : all2b box_okb lo hi = true -> Forall3 in_box lo hi (map2 canon_comp lo hi).
Proof.
  rewrite all2b_Forall2. induction 1; cbn; constructor; [apply canon_comp_ok|]; assumption.
Qed.

Theorem canonical_member s : wfb s = true -> member s (canonical s).
Proof.
  induction s as [n | sh lo hi | sh | nv | ss IH | kss IH] using space_nested_ind; cbn; intro W.
  - constructor. cbn. exists 0%Z. apply Z.ltb_lt in W. split; [reflexivity | lia].
  - apply andb_prop in W as [_ W]. constructor. apply box_canon_ok, W.
  - constructor; [apply repeat_length|]. apply Forall_forall. intros x Hx. apply repeat_spec in Hx; subst.
    cbn. exists 0%Z. split; [reflexivity | lia].
  - apply andb_prop in W as [_ W]. constructor.
    rewrite forallb_forall in W. clear -W. induction nv as [|n nv IHn]; cbn; constructor.
    + cbn. exists 0%Z. specialize (W n (or_introl eq_refl)). apply Z.ltb_lt in W. split; [reflexivity | lia].
    + apply IHn. intros x Hx. apply W. right; assumption.
  - constructor. rewrite forallb_forall in W. induction IH as [|s ss Hs Hss IHss]; cbn; constructor.
    + apply Hs, W. left; reflexivity.
    + apply IHss. intros x Hx. apply W. right; assumption.
  - apply andb_prop in W as [Wk W]. apply dict_member_intro; [apply nodupb_NoDup, Wk|].
    rewrite forallb_forall in W. clear Wk. induction IH as [|ks kss Hs Hss IHss]; cbn; constructor.
    + split; [reflexivity|]. apply Hs, (W ks). left; reflexivity.
    + apply IHss. intros x Hx. apply W. right; assumption.
Qed.

(* ================================================================ samples are members *)
Lemma box_comp_ok lo hi d : box_okb lo hi = true -> bdraw_ok d -> in_box lo hi (box_comp lo hi d).
Proof.
  unfold in_box, bdraw_ok. intros H (H0 & H1 & H2 & H3).
  destruct lo as [a| | |], hi as [b| | |]; cbn in *; try discriminate;
    try apply Qle_bool_iff in H; repeat split; try lra.
  - assert (0 <= d_u d * (b - a))%Q by (apply Qmult_le_0_compat; lra). lra.
  - assert (d_u d * (b - a) <= 1 * (b - a))%Q by (apply Qmult_le_compat_r; lra). lra.
Qed.

Lemma box_sample_ok lo hi l :
  all2b box_okb lo hi = true -> length l = length lo -> Forall bdraw_ok l ->
  Forall3 in_box lo hi (map3 box_comp lo hi l).
Proof.
  rewrite all2b_Forall2. intros H; revert l. induction H as [|a b lo hi Hab _ IH]; intros [|d l] Hl Hd; cbn in *;
    try discriminate; constructor.
  - inversion Hd; subst. apply box_comp_ok; assumption.
  - inversion Hd; subst. apply IH; [congruence | assumption].
Qed.

Lemma ints_ok nv l :
  Forall2 (fun n z => (0 <= z < n)%Z) nv l -> Forall2 in_range nv (map (fun z => Fin (inject_Z z)) l).
Proof. induction 1; cbn; constructor; [|assumption]. cbn. eexists; split; [reflexivity | assumption]. Qed.

Theorem sample_member s : forall d, wfb s = true -> draws_ok s d -> member s (sample s d).
Proof.
  induction s as [n | sh lo hi | sh | nv | ss IH | kss IH] using space_nested_ind; intros d W Hd;
    inversion Hd; subst; cbn in *.
  - constructor. cbn. exists (Z.of_nat i). split; [reflexivity | lia].
  - apply andb_prop in W as [_ W]. constructor. apply box_sample_ok; assumption.
  - constructor; [rewrite map_length; assumption|]. apply Forall_forall. intros x Hx.
    apply in_map_iff in Hx as (b & <- & _). cbn. destruct b; [exists 1%Z | exists 0%Z]; split; try reflexivity; lia.
  - constructor. apply ints_ok. assumption.
  - constructor. rewrite forallb_forall in W.
    match goal with H : Forall2 draws_ok ss _ |- _ => rename H into HF end. clear Hd.
    revert ds HF. induction IH as [|s ss Hs Hss IHss]; intros ds HF; inversion HF; subst; cbn; constructor.
    + apply Hs; [apply W; left; reflexivity | assumption].
    + apply IHss; [intros x Hx; apply W; right; assumption | assumption].
  - apply andb_prop in W as [Wk W]. apply dict_member_intro; [apply nodupb_NoDup, Wk|].
    rewrite forallb_forall in W. clear Wk Hd.
    match goal with H : Forall2 _ kss _ |- _ => rename H into HF end.
    revert ds HF. induction IH as [|ks kss Hs Hss IHss]; intros ds HF; inversion HF; subst; cbn; constructor.
    + split; [reflexivity|]. apply Hs; [apply (W ks); left; reflexivity | assumption].
    + apply IHss; [intros x Hx; apply W; right; assumption | assumption].
Qed.

(* ---------------------------------------------------------------- masked Discrete sample *)
Lemma choice_cum_spec w : forall r,
  Forall (fun x => 0 <= x)%Q w -> (0 < r)%Q -> (r <= qsum w)%Q ->
  (choice_cum w r < length w)%nat /\ (0 < nth (choice_cum w r) w 0)%Q.
Proof.
  unfold qsum. induction w as [|x t IH]; intros r Hw H0 H1; cbn [fold_right choice_cum length nth] in *.
  - exfalso. lra.
  - inversion Hw; subst. destruct (Qle_bool r x) eqn:E.
    + apply Qle_bool_iff in E. split; [lia | lra].
    + assert (~ (r <= x)%Q) as N by (intro C; apply Qle_bool_iff in C; congruence).
      apply Qnot_le_lt in N. destruct (IH (r - x)%Q) as [A B]; [assumption | lra | lra |].
      split; [lia | assumption].
Qed.

Lemma mask_weights_nonneg m : Forall (fun x => 0 <= x)%Q (mask_weights m).
Proof. induction m as [|b m IH]; cbn; constructor; [destruct b; lra | assumption]. Qed.

Lemma qsum_nonneg w : Forall (fun x => 0 <= x)%Q w -> (0 <= qsum w)%Q.
Proof. unfold qsum. induction 1; cbn [fold_right]; lra. Qed.

Lemma mask_weights_pos m : existsb (fun b => b) m = true -> (0 < qsum (mask_weights m))%Q.
Proof.
  induction m as [|b m IH]; [discriminate|]. pose proof (qsum_nonneg _ (mask_weights_nonneg m)) as Hs.
  unfold qsum in *. cbn [mask_weights map fold_right existsb] in *. fold (mask_weights m) in *.
  destruct b; cbn [orb]; intro H; [lra|]. specialize (IH H). lra.
Qed.

Lemma mask_weight_nth m i : (0 < nth i (mask_weights m) 0)%Q -> nth i m false = true.
Proof.
  revert i; induction m as [|b m IH]; intros [|i]; cbn; intro H; try (exfalso; lra).
  - destruct b; [reflexivity | exfalso; lra].
  - apply IH, H.
Qed.

(* the masked sample is an allowed index and a member, for every uniform draw u in [0,1) *)
Theorem sample_masked_member n m u :
  Z.of_nat (length m) = n -> existsb (fun b => b) m = true -> (0 <= u)%Q -> (u < 1)%Q ->
  let w := mask_weights m in
  let i := choice_cum w (qsum w * (1 - u)) in
  nth i m false = true /\ member (Discrete n) (sample_masked m u).
Proof.
  intros Hn He H0 H1 w i. pose proof (mask_weights_pos m He) as Hp.
  destruct (choice_cum_spec w (qsum w * (1 - u))%Q) as [A B].
  - apply mask_weights_nonneg.
  - fold w in Hp. apply Qmult_lt_0_compat; lra.
  - fold w in Hp. assert ((1 - u) * qsum w <= 1 * qsum w)%Q by (apply Qmult_le_compat_r; lra). lra.
  - split; [apply mask_weight_nth, B|]. constructor. cbn. eexists. split; [reflexivity|].
    unfold w, mask_weights in A. rewrite map_length in A. subst n. split; [lia|]. apply Nat2Z.inj_lt. exact A.
Qed.

(* ================================================================ flattening *)
Lemma app_inj_length {A} (a a' b b' : list A) :
  length a = length a' -> a ++ b = a' ++ b' -> a = a' /\ b = b'.
Proof.
  revert a'; induction a as [|x a IH]; intros [|y a'] Hl H; cbn in *; try discriminate; [auto|].
  inversion H; subst. destruct (IH a') as [-> ->]; auto.
Qed.

Theorem flatten_size s : forall v, wfb s = true -> member s v -> length (flatten s v) = flat_size s.
Proof.
  induction s as [n | sh lo hi | sh | nv | ss IH | kss IH] using space_nested_ind; intros v W M;
    inversion M; subst; cbn in *.
  - reflexivity.
  - apply andb_prop in W as [W _]. apply Nat.eqb_eq in W.
    match goal with H : Forall3 _ _ _ _ |- _ => apply Forall3_length in H as [H1 _] end. congruence.
  - assumption.
  - match goal with H : Forall2 _ _ _ |- _ => apply Forall2_length in H end. congruence.
  - rewrite forallb_forall in W. match goal with H : Forall2 member ss _ |- _ => rename H into HF end. clear M.
    revert vs HF. induction IH as [|s ss Hs Hss IHss]; intros vs HF; inversion HF; subst; cbn; [reflexivity|].
    rewrite app_length, Hs, IHss; auto.
    + intros x Hx. apply W. right; assumption.
    + apply W. left; reflexivity.
  - apply andb_prop in W as [_ W]. rewrite forallb_forall in W.
    match goal with H : Forall _ kss |- _ => rename H into HF end. clear M.
    match goal with H : length kvs = _ |- _ => clear H end.
    induction IH as [|ks kss Hs Hss IHss]; cbn; [reflexivity|]. inversion HF as [|? ? Hk Hrest]; subst.
    inversion Hk as [x Hx Hl]. rewrite app_length, (Hs x), IHss; auto.
    + intros y Hy. apply W. right; assumption.
    + apply (W ks). left; reflexivity.
Qed.

Definition inj_at (s : space) : Prop :=
  forall v1 v2, wfb s = true -> member s v1 -> member s v2 -> flatten s v1 = flatten s v2 -> norm s v1 = norm s v2.

Lemma tuple_inj ss :
  Forall inj_at ss -> (forall x, In x ss -> wfb x = true) ->
  forall a1 a2, Forall2 member ss a1 -> Forall2 member ss a2 ->
  concat (map2 flatten ss a1) = concat (map2 flatten ss a2) -> map2 norm ss a1 = map2 norm ss a2.
Proof.
  induction 1 as [|s ss Hs Hss IHss]; intros W a1 a2 F1 F2 E; inversion F1; inversion F2; subst; cbn in *; [reflexivity|].
  assert (Ws : wfb s = true) by (apply W; left; reflexivity).
  apply app_inj_length in E as [E1 E2]; [|rewrite !flatten_size; auto].
  f_equal; [apply Hs; auto | apply IHss; auto].
Qed.

Lemma dict_inj kvs1 kvs2 kss :
  Forall (fun ks => inj_at (snd ks)) kss -> (forall x, In x kss -> wfb (snd x) = true) ->
  Forall (fun ks => opt_sat (member (snd ks)) (lookup (fst ks) kvs1)) kss ->
  Forall (fun ks => opt_sat (member (snd ks)) (lookup (fst ks) kvs2)) kss ->
  concat (map (fun ks => match lookup (fst ks) kvs1 with Some v => flatten (snd ks) v | None => [] end) kss) =
  concat (map (fun ks => match lookup (fst ks) kvs2 with Some v => flatten (snd ks) v | None => [] end) kss) ->
  map (fun ks => (fst ks, match lookup (fst ks) kvs1 with Some v => norm (snd ks) v | None => VForeign end)) kss =
  map (fun ks => (fst ks, match lookup (fst ks) kvs2 with Some v => norm (snd ks) v | None => VForeign end)) kss.
Proof.
  induction 1 as [|ks kss Hs Hss IHss]; intros W F1 F2 E; cbn in *; [reflexivity|].
  inversion F1 as [|? ? Hk1 Hr1]; inversion F2 as [|? ? Hk2 Hr2]; subst.
  inversion Hk1 as [x1 Hx1 Hl1]; inversion Hk2 as [x2 Hx2 Hl2]. rewrite <- Hl1, <- Hl2 in E.
  assert (Ws : wfb (snd ks) = true) by (apply (W ks); left; reflexivity).
  apply app_inj_length in E as [E1 E2]; [|rewrite !flatten_size; auto].
  f_equal; [f_equal; apply Hs; auto | apply IHss; auto].
Qed.

Theorem flatten_injective s : forall v1 v2, wfb s = true -> member s v1 -> member s v2 ->
  flatten s v1 = flatten s v2 -> norm s v1 = norm s v2.
Proof.
  induction s as [n | sh lo hi | sh | nv | ss IH | kss IH] using space_nested_ind; intros v1 v2 W M1 M2;
    inversion M1; inversion M2; subst; cbn in *; try (intros ->; reflexivity).
  - rewrite forallb_forall in W. intros E. f_equal. apply tuple_inj; auto.
  - apply andb_prop in W as [_ W]. rewrite forallb_forall in W. intros E. f_equal. apply dict_inj; auto.
Qed.

(* ================================================================ equality *)
Lemma xeqb_iff a b : xeqb a b = true <-> xsame a b.
Proof. destruct a, b; cbn; try (split; [discriminate | tauto]); try tauto. apply Qeq_bool_iff. Qed.

Theorem space_eqb_iff a : forall b, space_eqb a b = true <-> space_same a b.
Proof.
  induction a as [n | sh lo hi | sh | nv | ss IH | kss IH] using space_nested_ind; intros b;
    destruct b as [n' | sh' lo' hi' | sh' | nv' | ss' | kss']; cbn;
    try (split; [discriminate | intro H; inversion H]).
  - rewrite Z.eqb_eq. split; [intros ->; constructor | intro H; inversion H; reflexivity].
  - rewrite !andb_true_iff, shape_eqb_eq, !all2b_Forall2.
    rewrite (Forall2_iff _ xsame lo lo'), (Forall2_iff _ xsame hi hi') by (intros; apply xeqb_iff).
    split; [intros [[-> H1] H2]; constructor; assumption | intro H; inversion H; subst; auto].
  - rewrite shape_eqb_eq. split; [intros ->; constructor | intro H; inversion H; reflexivity].
  - rewrite Zlist_eqb_eq. split; [intros ->; constructor | intro H; inversion H; reflexivity].
  - rewrite all2b_Forall2, (Forall2_iff_l _ space_same _ _ IH).
    split; intro H; [constructor; assumption | inversion H; assumption].
  - rewrite andb_true_iff, Nat.eqb_eq, forallb_forall, <- Forall_forall.
    rewrite (Forall_iff_in _ (fun ks => opt_sat (space_same (snd ks)) (lookup (fst ks) kss'))).
    + split; [intros [H1 H2]; constructor; assumption | intro H; inversion H; subst; auto].
    + eapply Forall_impl; [|exact IH]. cbn. intros ks Hks. apply opt_sat_iff. exact Hks.
Qed.

Lemma xeqb_refl a : xeqb a a = true.
Proof. destruct a; cbn; try reflexivity. apply Qeq_bool_iff. reflexivity. Qed.

Lemma all2b_refl {A} (f : A -> A -> bool) l : (forall x, In x l -> f x x = true) -> all2b f l l = true.
Proof.
  induction l as [|x l IH]; cbn; intro H; [reflexivity|]. rewrite H by (left; reflexivity). apply IH.
  intros y Hy. apply H. right; assumption.
Qed.

Theorem space_eqb_refl s : wfb s = true -> space_eqb s s = true.
Proof.
  induction s as [n | sh lo hi | sh | nv | ss IH | kss IH] using space_nested_ind; cbn; intro W.
  - apply Z.eqb_refl.
  - rewrite (proj2 (shape_eqb_eq sh sh) eq_refl), !all2b_refl; auto using xeqb_refl.
  - apply shape_eqb_eq. reflexivity.
  - apply Zlist_eqb_eq. reflexivity.
  - rewrite forallb_forall in W. rewrite Forall_forall in IH. apply all2b_refl. intros x Hx. apply IH; auto.
  - apply andb_prop in W as [Wk W]. apply nodupb_NoDup in Wk. rewrite forallb_forall in W.
    rewrite Forall_forall in IH. rewrite Nat.eqb_refl. cbn. apply forallb_forall. intros ks Hks.
    rewrite (lookup_in_nodup kss ks Wk Hks). apply IH; auto.
Qed.

(* ================================================================ equality implies equal hash keys *)
Lemma xeqb_hash a b : xeqb a b = true -> xhash a = xhash b.
Proof.
  destruct a, b; cbn; try discriminate; try reflexivity. intro H. apply Qeq_bool_iff in H.
  rewrite (Qred_complete _ _ H). reflexivity.
Qed.

Lemma all2b_map_eq {A B} (f : A -> A -> bool) (h : A -> B) l l' :
  all2b f l l' = true -> (forall x y, In x l -> In y l' -> f x y = true -> h x = h y) -> map h l = map h l'.
Proof.
  revert l'; induction l as [|x l IH]; intros [|y l'] H Hh; cbn in *; try discriminate; [reflexivity|].
  apply andb_prop in H as [H1 H2]. f_equal; [apply Hh; auto | apply IH; auto].
Qed.

Lemma lookup_remove {V} (l1 l2 : list (string * V)) k v k2 :
  k2 <> k -> lookup k2 (l1 ++ (k, v) :: l2) = lookup k2 (l1 ++ l2).
Proof.
  intro N. induction l1 as [|x l1 IH]; cbn.
  - destruct (String.eqb k2 k) eqn:E; [apply String.eqb_eq in E; contradiction | reflexivity].
  - rewrite IH. reflexivity.
Qed.

Lemma dict_perm {V} (h : string * V -> Z) (l : list (string * V)) : forall l',
  NoDup (keys l) -> NoDup (keys l') -> length l = length l' ->
  Forall (fun ks => exists s', lookup (fst ks) l' = Some s' /\ h ks = h (fst ks, s')) l ->
  Permutation (map h l) (map h l').
Proof.
  induction l as [|ks t IH]; intros l' N N' L F.
  - destruct l'; [constructor | discriminate].
  - inversion F as [|? ? (s' & Hl & Hh) Ft]; subst. inversion N as [|? ? Nk Nt]; subst.
    pose proof (lookup_some_in _ _ _ Hl) as Hin. apply in_split in Hin as (l1 & l2 & ->).
    unfold keys in N'. rewrite map_app in N'. cbn in N'.
    pose proof (NoDup_remove_1 _ _ _ N') as N1. pose proof (NoDup_remove_2 _ _ _ N') as N2.
    rewrite map_app. cbn [map]. rewrite Hh. apply Permutation_cons_app. rewrite <- map_app. apply IH.
    + assumption.
    + unfold keys. rewrite map_app. assumption.
    + rewrite app_length in *. cbn in L. lia.
    + rewrite Forall_forall in *. intros ks2 H2. destruct (Ft ks2 H2) as (s2 & Hl2 & Hh2).
      exists s2. split; [|assumption]. rewrite <- Hl2. symmetry. apply lookup_remove.
      intro E. apply Nk. rewrite <- E. unfold keys. apply in_map. assumption.
Qed.

Lemma hsum_perm l l' : Permutation l l' -> hsum l = hsum l'.
Proof. unfold hsum. induction 1; cbn; lia. Qed.

Theorem eq_hash a : forall b, wfb a = true -> wfb b = true -> space_eqb a b = true -> hash_key a = hash_key b.
Proof.
  induction a as [n | sh lo hi | sh | nv | ss IH | kss IH] using space_nested_ind; intros b Wa Wb;
    destruct b as [n' | sh' lo' hi' | sh' | nv' | ss' | kss']; cbn [space_eqb wfb hash_key] in *; try discriminate; intro E.
  - apply Z.eqb_eq in E. subst. reflexivity.
  - apply andb_prop in E as [E E3]. apply andb_prop in E as [E1 E2]. apply shape_eqb_eq in E1; subst.
    rewrite (all2b_map_eq xeqb xhash lo lo' E2), (all2b_map_eq xeqb xhash hi hi' E3);
      auto using xeqb_hash.
  - apply shape_eqb_eq in E. subst. reflexivity.
  - apply Zlist_eqb_eq in E. subst. reflexivity.
  - rewrite forallb_forall in Wa, Wb. rewrite Forall_forall in IH.
    rewrite (all2b_map_eq space_eqb hash_key ss ss' E); [reflexivity|].
    intros x y Hx Hy Hxy. apply IH; auto.
  - apply andb_prop in Wa as [Na Wa]. apply andb_prop in Wb as [Nb Wb]. apply nodupb_NoDup in Na, Nb.
    rewrite forallb_forall in Wa, Wb. rewrite Forall_forall in IH.
    apply andb_prop in E as [EL E]. apply Nat.eqb_eq in EL. rewrite forallb_forall in E.
    do 2 f_equal. apply hsum_perm. apply dict_perm; auto.
    apply Forall_forall. intros ks Hks. specialize (E ks Hks).
    destruct (lookup (fst ks) kss') as [s'|] eqn:Hl; [|discriminate]. exists s'. split; [reflexivity|].
    cbn. f_equal. apply IH; auto. apply (Wb (fst ks, s')). apply lookup_some_in. assumption.
Qed.

(* ================================================================ Gymnasium round trip *)
Lemma insert_in {V} (x y : string * V) l : In x (insert_by_key y l) <-> x = y \/ In x l.
Proof.
  induction l as [|z t IH]; cbn; [intuition|]. destruct (String.leb (fst y) (fst z)); cbn; [intuition|].
  rewrite IH. intuition.
Qed.

Lemma sort_in {V} (x : string * V) l : In x (sort_by_key l) <-> In x l.
Proof. induction l as [|y t IH]; cbn; [tauto|]. rewrite insert_in, IH. intuition. Qed.

Lemma insert_length {V} (y : string * V) l : length (insert_by_key y l) = S (length l).
Proof. induction l as [|z t IH]; cbn; [reflexivity|]. destruct (String.leb (fst y) (fst z)); cbn; congruence. Qed.

Lemma sort_length {V} (l : list (string * V)) : length (sort_by_key l) = length l.
Proof. unfold sort_by_key. induction l as [|y t IH]; cbn [fold_right length]; [reflexivity|]. rewrite insert_length, IH. reflexivity. Qed.

Theorem gym_roundtrip_eq s : wfb s = true -> space_eqb (gym_roundtrip s) s = true.
Proof.
  unfold gym_roundtrip.
  induction s as [n | sh lo hi | sh | nv | ss IH | kss IH] using space_nested_ind; intro W;
    try (apply space_eqb_refl; assumption).
  - cbn in *. rewrite forallb_forall in W. induction IH as [|s ss Hs Hss IHss]; cbn; [reflexivity|].
    rewrite Hs by (apply W; left; reflexivity). apply IHss. intros x Hx. apply W. right; assumption.
  - cbn in *. apply andb_prop in W as [Wk W]. apply nodupb_NoDup in Wk. rewrite forallb_forall in W.
    rewrite Forall_forall in IH. rewrite map_length, sort_length, map_length, Nat.eqb_refl. cbn.
    apply forallb_forall. intros e He. apply in_map_iff in He as (kg & <- & Hkg).
    apply (proj1 (sort_in _ _)) in Hkg. apply in_map_iff in Hkg as (ks & <- & Hks). cbn.
    rewrite (lookup_in_nodup kss ks Wk Hks). apply IH; auto.
Qed.

Theorem gym_roundtrip_same s : wfb s = true -> space_same (gym_roundtrip s) s.
Proof. intro W. apply space_eqb_iff, gym_roundtrip_eq, W. Qed.

(* ================================================================ explicit rejections *)
Lemma Forall3_in3 {A B C} (R : A -> B -> C -> Prop) l1 l2 l3 z :
  Forall3 R l1 l2 l3 -> In z l3 -> exists x y, R x y z.
Proof.
  induction 1 as [|x y z' t1 t2 t3 Hr _ IH]; cbn; [contradiction|]. intros [->|Hin]; [eauto | apply IH, Hin].
Qed.

Lemma Forall2_in_r {A B} (R : A -> B -> Prop) l1 l2 y :
  Forall2 R l1 l2 -> In y l2 -> exists x, R x y.
Proof.
  induction 1 as [|a b t1 t2 Hab _ IH]; cbn; [contradiction|]. intros [->|Hin]; [eauto | apply IH, Hin].
Qed.

Lemma xle_nan_r a : ~ xle a NaN.
Proof. destruct a; cbn; tauto. Qed.

(* a non-number or an infinite entry is never an index *)
Lemma in_range_fin n x : in_range n x -> exists q, x = Fin q.
Proof. destruct x; cbn; try tauto. eauto. Qed.

Theorem nan_rejected s sh xs dt : In NaN xs -> ~ member s (VArr sh xs dt).
Proof.
  intros Hin M. inversion M; subst.
  - destruct Hin as [->|[]]. match goal with H : in_range _ NaN |- _ => exact H end.
  - match goal with H : Forall3 _ _ _ _ |- _ => destruct (Forall3_in3 _ _ _ _ _ H Hin) as (a & b & Ha & _) end.
    exact (xle_nan_r _ Ha).
  - match goal with H : Forall _ xs |- _ => rewrite Forall_forall in H; apply (H _ Hin) end.
  - match goal with H : Forall2 _ _ xs |- _ => destruct (Forall2_in_r _ _ _ _ H Hin) as (a & Ha) end. exact Ha.
Qed.

Theorem foreign_rejected s : ~ member s VForeign.
Proof. intro M. inversion M. Qed.

(* integral where required, inside [0, n): negative and too-large indices are rejected *)
Theorem index_bounds n x : in_range n x ->
  exists q z, x = Fin q /\ (q == inject_Z z)%Q /\ (0 <= z)%Z /\ (z < n)%Z.
Proof. destruct x as [q| | |]; cbn; try tauto. intros (z & Hq & Hz). exists q, z. repeat split; try assumption; lia. Qed.

Theorem mdiscrete_components nv sh xs dt :
  member (MultiDiscrete nv) (VArr sh xs dt) -> sh = [length nv] /\ Forall2 in_range nv xs.
Proof. intro M. inversion M; subst. auto. Qed.

Theorem discrete_components n sh xs dt :
  member (Discrete n) (VArr sh xs dt) -> sh = [] /\ exists x, xs = [x] /\ in_range n x.
Proof. intro M. inversion M; subst. eauto. Qed.

(* ================================================================ Dict membership = same key set, member components *)
Lemma in_keys {V} (l : list (string * V)) k : In k (keys l) <-> exists v, In (k, v) l.
Proof.
  unfold keys. rewrite in_map_iff. split.
  - intros ([k' v] & <- & H). exists v. exact H.
  - intros (v & H). exists (k, v). auto.
Qed.

Theorem dict_member_keys kss kvs :
  NoDup (keys kss) -> NoDup (keys kvs) ->
  (member (Dict kss) (VDict true kvs) <->
   (forall k, In k (keys kvs) <-> In k (keys kss)) /\
   (forall k s, In (k, s) kss -> exists v, In (k, v) kvs /\ member s v)).
Proof.
  intros Ns Nv. split.
  - intro M. inversion M as [| | | | |? ? HL HF]; subst. rewrite Forall_forall in HF.
    assert (Hcomp : forall k s, In (k, s) kss -> exists v, In (k, v) kvs /\ member s v).
    { intros k s Hin. specialize (HF _ Hin). cbn in HF. inversion HF as [v Hm Hl]. exists v. split; [|assumption].
      apply lookup_some_in. auto. }
    assert (Hincl : incl (keys kss) (keys kvs)).
    { intros k Hk. apply in_keys in Hk as (s & Hs). destruct (Hcomp _ _ Hs) as (v & Hv & _). apply in_keys. eauto. }
    split; [|assumption]. intro k. split; [|apply Hincl].
    apply (NoDup_length_incl Ns); [|assumption]. unfold keys. rewrite !map_length. lia.
  - intros [Hk Hc]. constructor.
    + apply Nat.le_antisymm.
      * replace (length kvs) with (length (keys kvs)) by apply map_length.
        replace (length kss) with (length (keys kss)) by apply map_length.
        apply NoDup_incl_length; [assumption|]. intros k. apply Hk.
      * replace (length kvs) with (length (keys kvs)) by apply map_length.
        replace (length kss) with (length (keys kss)) by apply map_length.
        apply NoDup_incl_length; [assumption|]. intros k. apply Hk.
    + apply Forall_forall. intros [k s] Hin. cbn. destruct (Hc _ _ Hin) as (v & Hv & Hm).
      pose proof (lookup_in_nodup kvs (k, v) Nv Hv) as L. cbn in L. rewrite L. constructor. exact Hm.
Qed.

(* ================================================================ == is symmetric *)
Lemma xeqb_sym a b : xeqb a b = xeqb b a.
Proof.
  destruct a, b; cbn; try reflexivity. destruct (Qeq_bool q q0) eqn:E.
  - symmetry. apply Qeq_bool_iff. symmetry. apply Qeq_bool_iff. exact E.
  - destruct (Qeq_bool q0 q) eqn:E2; [|reflexivity]. apply Qeq_bool_iff in E2. symmetry in E2.
    apply Qeq_bool_iff in E2. congruence.
Qed.

Lemma all2b_sym_gen {A} (f : A -> A -> bool) l : forall l',
  (forall x y, In x l -> In y l' -> f x y = true -> f y x = true) -> all2b f l l' = true -> all2b f l' l = true.
Proof.
  induction l as [|x l IH]; intros [|y l'] H E; cbn in *; try discriminate; [reflexivity|].
  apply andb_prop in E as [E1 E2]. rewrite (H x y), (IH l'); auto.
Qed.

Theorem space_eqb_sym a : forall b, wfb a = true -> wfb b = true -> space_eqb a b = true -> space_eqb b a = true.
Proof.
  induction a as [n | sh lo hi | sh | nv | ss IH | kss IH] using space_nested_ind; intros b Wa Wb;
    destruct b as [n' | sh' lo' hi' | sh' | nv' | ss' | kss']; cbn [space_eqb wfb] in *; try discriminate; intro E.
  - rewrite Z.eqb_sym. exact E.
  - apply andb_prop in E as [E E3]. apply andb_prop in E as [E1 E2].
    apply shape_eqb_eq in E1; subst. rewrite (proj2 (shape_eqb_eq sh' sh') eq_refl). cbn.
    rewrite !(all2b_sym_gen xeqb _ _ (fun x y _ _ H => eq_trans (xeqb_sym y x) H)); auto.
  - apply shape_eqb_eq in E; subst. apply shape_eqb_eq. reflexivity.
  - apply Zlist_eqb_eq in E; subst. apply Zlist_eqb_eq. reflexivity.
  - rewrite forallb_forall in Wa, Wb. rewrite Forall_forall in IH.
    apply (all2b_sym_gen space_eqb ss ss'); [|exact E]. intros x y Hx Hy. apply IH; auto.
  - apply andb_prop in Wa as [Na Wa]. apply andb_prop in Wb as [Nb Wb]. apply nodupb_NoDup in Na, Nb.
    rewrite forallb_forall in Wa, Wb. rewrite Forall_forall in IH.
    apply andb_prop in E as [EL E]. apply Nat.eqb_eq in EL. rewrite forallb_forall in E.
    rewrite <- EL, Nat.eqb_refl. cbn. apply forallb_forall. intros [k' s'] Hin'. cbn.
    assert (Hincl : incl (keys kss) (keys kss')).
    { intros k Hk. apply in_keys in Hk as (s & Hs). specialize (E _ Hs). cbn in E.
      destruct (lookup k kss') as [s2|] eqn:L; [|discriminate]. apply in_keys. exists s2. apply lookup_some_in, L. }
    assert (Hk' : In k' (keys kss)).
    { assert (Hrev : incl (keys kss') (keys kss)).
      { apply (NoDup_length_incl Na); [unfold keys; rewrite !map_length; lia | assumption]. }
      apply Hrev. apply in_keys. eauto. }
    apply in_keys in Hk' as (s & Hs). pose proof (lookup_in_nodup kss (k', s) Na Hs) as L1. cbn in L1. rewrite L1.
    pose proof (E _ Hs) as E1. cbn in E1. pose proof (lookup_in_nodup kss' (k', s') Nb Hin') as L2. cbn in L2.
    rewrite L2 in E1.
    apply (IH (k', s) Hs); auto; first [apply (Wa (k', s)); assumption | apply (Wb (k', s')); assumption].
Qed.

(* ================================================================ satisfiability examples *)
Example ex_space : space :=
  Dict [("b"%string, Tuple [Discrete 3; Box [2%nat] [Fin (-1); NInf] [Fin 1; PInf]]);
        ("a"%string, MultiBinary [2%nat; 2%nat]); ("c"%string, MultiDiscrete [2%Z; 3%Z])].
Example ex_wf : wfb ex_space = true.
Proof. reflexivity. Qed.
Example ex_canonical : contains ex_space (canonical ex_space) = true.
Proof. vm_compute. reflexivity. Qed.
Example ex_roundtrip_order : keys (match gym_roundtrip ex_space with Dict l => l | _ => [] end) = ["a"; "b"; "c"]%string.
Proof. vm_compute. reflexivity. Qed.
Example ex_draws_ok : draws_ok (Tuple [Discrete 3; Box [1%nat] [Fin 0] [PInf]])
                        (DSub [DIdx 2; DBox [{| d_u := 0; d_g := 0; d_eu := 0; d_el := 1 |}]]).
Proof.
  repeat constructor; cbn; try lia; unfold bdraw_ok; cbn; repeat split; try lra.
Qed.
