(* Finite (tabular) MDPs with an explicit draw oracle, and the concrete
   wrapper alphabet of lerax.wrapper.  Mirror of /verif/harness/stubs.py
   (TabEnv).  Executable definitions only. *)
From Coq Require Import List ZArith QArith Qround Qminmax Bool.
From Lerax Require Import Common Env.
Import ListNotations.

(* raw draw oracle: the stub environments/policies draw exactly one integer
   jr.randint(key, (), 0, 2^20) per key they are handed; the harness tabulates
   it for every key path of the split tree *)
Definition rawtbl := list (kpath * Z).
Fixpoint raw (t : rawtbl) (k : kpath) : Z :=
  match t with
  | [] => (-1)%Z
  | (p, v) :: tl => if kpath_eqb p k then v else raw tl k
  end.

Definition nthz {X} (l : list X) (i : Z) (d : X) : X := nth (Z.to_nat i) l d.
Definition lenz {X} (l : list X) : Z := Z.of_nat (length l).
Definition pick {X} (l : list X) (r : Z) (d : X) : X := nthz l (r mod lenz l)%Z d.

Record tab := {
  tP  : list (list (list Z));   (* next-state choices  P[s][a][k]   *)
  tR  : list (list (list Q));   (* rewards             R[s][a][s']  *)
  tRA : Q;                      (* reward += RA * action value      *)
  tRN : list Q;                 (* reward += RN[raw mod len]        *)
  tT  : list (list bool);       (* terminal            T[s][k]      *)
  tTR : list bool;              (* inner truncation    TR[s]        *)
  tI  : list Z;                 (* initial-state choices            *)
  tO  : list (list Q);          (* observation         O[s][k]      *)
  tMK : option (list (list bool)); (* action mask      MK[s]        *)
  tNA : Z;                      (* number of actions / action bins  *)
  tAsp : sp;
  tOsp : sp }.

(* action -> table index.  Discrete: the action itself.  Box(lo,hi):
   clip(floor((a-lo)*NA/(hi-lo)), 0, NA-1) *)
Definition aidx (t : tab) (a : Q) : Z :=
  match tAsp t with
  | SpDisc _ => Qfloor a
  | SpBox _ (Fin lo) (Fin hi) =>
      Z.max 0 (Z.min (tNA t - 1) (Qfloor ((a - lo) * inject_Z (tNA t) / (hi - lo))))
  (* half-bounded boxes (one finite bound): clip(floor(a - bound), 0, NA-1) resp. clip(floor(bound - a), 0, NA-1) *)
  | SpBox _ (Fin lo) _ => Z.max 0 (Z.min (tNA t - 1) (Qfloor (a - lo)))
  | SpBox _ _ (Fin hi) => Z.max 0 (Z.min (tNA t - 1) (Qfloor (hi - a)))
  | _ => 0%Z
  end.

Definition tab_env (t : tab) (rw : rawtbl) : env Z Q (list Q) :=
  Build_env
    (fun k => pick (tI t) (raw rw k) 0%Z)
    (fun s a k => pick (nthz (nthz (tP t) s []) (aidx t a) []) (raw rw k) 0%Z)
    (fun s k => [pick (nthz (tO t) s []) (raw rw k) 0])
    (fun s a s' k => nthz (nthz (nthz (tR t) s []) (aidx t a) []) s' 0 + tRA t * a + pick (tRN t) (raw rw k) 0)
    (fun s k => pick (nthz (tT t) s []) (raw rw k) false)
    (fun s => nthz (tTR t) s false)
    (fun s k => match tMK t with None => None | Some m => Some (nthz m s []) end)
    (fun s => inject_Z s)
    (fun s a s' => nthz (nthz (nthz (tR t) s []) (aidx t a) []) s' 0 + (tRA t + 1) * a)
    (tAsp t) (tOsp t).

(* ---------- the wrapper alphabet of lerax.wrapper.__all__ ---------- *)
Inductive wd :=
| DIdentity
| DTimeLimit (n : Z)
| DClipAction
| DRescaleAction (mn mx : Q)
| DTransformAction (c d : Q)        (* harness uses func = c*a + d, same action space *)
| DClipObs
| DRescaleObs (mn mx : Q)
| DFlattenObs
| DTransformObs (c d : Q)           (* func = c*o + d, space Box(-inf, inf) of the same shape *)
| DClipReward (lo hi : Q)
| DTransformReward (c d : Q).

Definition sp_vec (s : sp) : bool := match s with SpBox v _ _ => v | SpDisc _ => false end.

Definition denote {S} (d : wd) (E : env (ws S) Q (list Q)) : wdesc Q (list Q) :=
  match d with
  | DIdentity => WIdentity
  | DTimeLimit n => WTimeLimit n
  | DClipAction =>
      match e_asp E with
      | SpBox v lo hi => WAct (clipQ lo hi) (SpBox v NInf PInf)
      | _ => WIdentity   (* ClipAction raises ValueError on non-Box spaces: not generated *)
      end
  | DRescaleAction mn mx =>
      match e_asp E with
      | SpBox v (Fin lo) (Fin hi) => WAct (rs_backward lo hi mn mx) (SpBox v (Fin mn) (Fin mx))
      | _ => WIdentity
      end
  | DTransformAction c d => WAct (fun a => c * a + d) (e_asp E)
  | DClipObs =>
      match e_osp E with
      | SpBox v lo hi => WObs (map (clipQ lo hi)) (SpBox v lo hi)
      | _ => WIdentity
      end
  | DRescaleObs mn mx =>
      match e_osp E with
      | SpBox v (Fin lo) (Fin hi) => WObs (map (rs_forward lo hi mn mx)) (SpBox v (Fin mn) (Fin mx))
      | _ => WIdentity
      end
  | DFlattenObs => WObs (fun o => o) (SpBox true NInf PInf)
  | DTransformObs c d => WObs (map (fun o => c * o + d)) (SpBox (sp_vec (e_osp E)) NInf PInf)
  | DClipReward lo hi => WRew (fun r => Qmin (Qmax r lo) hi)
  | DTransformReward c d => WRew (fun r => c * r + d)
  end.

(* stack listed outermost first; each layer is interpreted against the
   environment it wraps (its spaces determine clip bounds / rescale maps) *)
Fixpoint denote_stack {S} (stack : list wd) (e : env S Q (list Q)) : list (wdesc Q (list Q)) :=
  match stack with
  | [] => []
  | d :: tl => let inner := denote_stack tl e in denote d (wrap inner e) :: inner
  end.
Definition wrap_d {S} (stack : list wd) (e : env S Q (list Q)) : env (ws S) Q (list Q) :=
  wrap (denote_stack stack e) e.
