(* C19 / C10: the model of learn() used by the C19 correspondence (C19Check.learn_records) emits exactly one record per
   iteration, in order, and the j-th record carries the cumulative number of environment steps j * N * T. *)
From Coq Require Import List Arith ZArith QArith Bool Lia.
From Lerax Require Import Common Env Tab OnPolicy OnPolicyProofs Logging LoggingProofs C19Check.
Import ListNotations.

Section LearnFacts.
  Variables (E : env (ws Z) Q (list Q)) (P : acpol Z Q (list Q)) (gamma alpha : Q) (N T : nat).

  Lemma log_rows_step rows : forall ls, l_step (log_rows alpha ls rows) = (l_step ls + Z.of_nat (length rows))%Z.
  Proof.
    unfold log_rows. induction rows as [|r tl IH]; intros ls; cbn [fold_left length]; [lia|].
    rewrite IH. cbn [l_next l_step]. lia.
  Qed.

  Definition all_steps (c : Z) (sts : list ((ws Z * Z) * lstate)) : Prop := Forall (fun p => l_step (snd p) = c) sts.

  Lemma learn_iter_steps sts ik c : length sts = N -> all_steps c sts ->
    length (learn_iter E P gamma alpha N T sts ik) = N /\ all_steps (c + Z.of_nat T)%Z (learn_iter E P gamma alpha N T sts ik).
  Proof.
    intros HL HA. unfold learn_iter. split.
    - rewrite map_length, combine_length, seq_length. lia.
    - unfold all_steps in *. apply Forall_forall. intros x Hx. apply in_map_iff in Hx as ([[st ls] i] & <- & Hin).
      apply in_combine_l in Hin. rewrite Forall_forall in HA. specialize (HA _ Hin). cbn [snd] in HA.
      pose proof (collect_length gamma E P T st (if Nat.eqb N 1 then ks ik 3 0 else ks (ks ik 3 0) N i)) as HC.
      destruct (collect gamma E P T st _) as [[st' rows] last]. cbn [fst snd] in *.
      rewrite log_rows_step, HA, HC. reflexivity.
  Qed.

  Lemma sum_steps c : forall sts : list ((ws Z * Z) * lstate), all_steps c sts ->
    fold_right Z.add 0%Z (map l_step (map snd sts)) = (Z.of_nat (length sts) * c)%Z.
  Proof.
    induction sts as [|x tl IH]; intros H; [cbn; lia|].
    apply Forall_cons_iff in H as [Hy Hl]. cbn [map fold_right length]. rewrite IH by assumption. rewrite Hy. lia.
  Qed.

  (* one record per iteration, in order; record j (1-based) reports j * N * T environment steps *)
  Theorem learn_loop_steps : forall keys sts c, length sts = N -> all_steps c sts ->
    map (fun r => fst (fst r)) (learn_loop E P gamma alpha N T sts keys) =
    map (fun j => (Z.of_nat N * (c + Z.of_nat (j * T)))%Z) (seq 1 (length keys)).
  Proof.
    induction keys as [|ik tl IH]; intros sts c HL HA; [reflexivity|].
    cbn [learn_loop map length seq]. destruct (learn_iter_steps sts ik c HL HA) as [HL' HA'].
    f_equal.
    - unfold iter_record. cbn [fst]. rewrite (sum_steps _ _ HA'), HL'. f_equal. lia.
    - rewrite (IH _ _ HL' HA'). rewrite <- (seq_shift (length tl) 1), map_map. apply map_ext. intros j. f_equal. lia.
  Qed.

  Theorem learn_records_steps iters k :
    map (fun r => fst (fst r)) (learn_records E P gamma alpha N T iters k) =
    map (fun j => Z.of_nat (j * N * T)) (seq 1 iters).
  Proof.
    unfold learn_records. rewrite (learn_loop_steps _ _ 0%Z).
    - unfold split_keys. rewrite map_length, seq_length. apply map_ext. intros j. lia.
    - rewrite map_length, seq_length. reflexivity.
    - unfold all_steps. apply Forall_forall. intros x Hx. apply in_map_iff in Hx as (i & <- & _). reflexivity.
  Qed.
End LearnFacts.

(* ---- any learner, warm-up included (C19Check.hist_records): record j reports N * (L + j*T) environment steps, in order,
        and its statistics are those of each environment's own first L + j*T steps ---- *)
Lemma l_run_step alpha h : l_step (l_run alpha h) = Z.of_nat (length h).
Proof.
  destruct (next_spec alpha h 0 false) as (_ & _ & Hs). cbv zeta in Hs. cbn [l_next l_step] in Hs. lia.
Qed.

Theorem hist_records_steps alpha T L iters (hist : list (list (Q * bool))) :
  Forall (fun h => (L + iters * T <= length h)%nat) hist ->
  map (fun r => fst (fst r)) (hist_records alpha T L iters hist) =
  map (fun j => Z.of_nat (length hist * (L + j * T))) (seq 1 iters).
Proof.
  intros Hlen. unfold hist_records. rewrite map_map. apply map_ext_in. intros j Hj.
  apply in_seq in Hj. unfold iter_record. cbn [fst].
  induction hist as [|h tl IH]; [reflexivity|].
  apply Forall_cons_iff in Hlen as [Hh Htl]. cbn [map fold_right length].
  rewrite IH by assumption. rewrite l_run_step, firstn_length_le by nia. lia.
Qed.

Theorem hist_records_per_env alpha T L iters (hist : list (list (Q * bool))) j :
  In j (seq 1 iters) ->
  exists r, nth_error (hist_records alpha T L iters hist) (j - 1) = Some r /\
            r = iter_record (map (fun h => l_run alpha (firstn (L + j * T) h)) hist).
Proof.
  intros Hj. apply in_seq in Hj. unfold hist_records. eexists. split; [|reflexivity].
  rewrite nth_error_map. rewrite nth_error_nth' with (d := 0%nat) by (rewrite seq_length; lia).
  rewrite seq_nth by lia. replace (1 + (j - 1))%nat with j by lia. reflexivity.
Qed.
