(* Replay buffer: lerax/buffer/replay.py:67-163.  Executable definitions only. *)
From Coq Require Import List Arith ZArith QArith Bool.
From Lerax Require Import Common.
Import ListNotations.

(* x.at[i].set(v) *)
Fixpoint upd {X} (l : list X) (i : nat) (x : X) : list X :=
  match l, i with
  | [], _ => []
  | _ :: tl, 0%nat => x :: tl
  | h :: tl, S k => h :: upd tl k x
  end.

Section Ring.
  (* a stored transition; the field types are left abstract *)
  Context {Ob Ac Ps : Type}.

  Record trow := { t_obs : Ob; t_next : Ob; t_act : Ac; t_rew : Q; t_done : bool; t_timeout : bool;
                   t_ps : Ps; t_nps : Ps }.

  (* struct of arrays, exactly the fields of ReplayBuffer *)
  Record soa := {
    b_size : nat; b_pos : nat;
    f_obs : list Ob; f_next : list Ob; f_act : list Ac; f_rew : list Q;
    f_done : list bool; f_timeout : list bool; f_ps : list Ps; f_nps : list Ps }.

  (* __init__: every leaf broadcast from a canonical example *)
  Definition soa_empty (C : nat) (o : Ob) (a : Ac) (p : Ps) : soa :=
    {| b_size := C; b_pos := 0;
       f_obs := repeat o C; f_next := repeat o C; f_act := repeat a C; f_rew := repeat 0%Q C;
       f_done := repeat false C; f_timeout := repeat false C; f_ps := repeat p C; f_nps := repeat p C |}.

  (* add: idx = position % size; every field written at idx; position + 1 *)
  Definition soa_add (b : soa) (x : trow) : soa :=
    let idx := (b_pos b mod b_size b)%nat in
    {| b_size := b_size b; b_pos := S (b_pos b);
       f_obs := upd (f_obs b) idx (t_obs x); f_next := upd (f_next b) idx (t_next x);
       f_act := upd (f_act b) idx (t_act x); f_rew := upd (f_rew b) idx (t_rew x);
       f_done := upd (f_done b) idx (t_done x); f_timeout := upd (f_timeout b) idx (t_timeout x);
       f_ps := upd (f_ps b) idx (t_ps x); f_nps := upd (f_nps b) idx (t_nps x) |}.

  Definition soa_run (C : nat) (o : Ob) (a : Ac) (p : Ps) (xs : list trow) : soa :=
    fold_left soa_add xs (soa_empty C o a p).

  (* current_size = min(position, size) *)
  Definition current_size (b : soa) : nat := Nat.min (b_pos b) (b_size b).

  (* the row of slot i, all fields read at the same index *)
  Definition row_at (d : trow) (b : soa) (i : nat) : trow :=
    {| t_obs := nth i (f_obs b) (t_obs d); t_next := nth i (f_next b) (t_next d); t_act := nth i (f_act b) (t_act d);
       t_rew := nth i (f_rew b) (t_rew d); t_done := nth i (f_done b) (t_done d);
       t_timeout := nth i (f_timeout b) (t_timeout d); t_ps := nth i (f_ps b) (t_ps d); t_nps := nth i (f_nps b) (t_nps d) |}.

  (* sample(): valid_mask = arange(size) < current_size ; several per-environment buffers
     are flattened env-major: flat index = e * size + slot *)
  Definition valid_mask (b : soa) : list bool :=
    map (fun i => Nat.ltb i (current_size b)) (seq 0 (b_size b)).
  Definition valid_mask_vec (bs : list soa) : list bool := concat (map valid_mask bs).

  (* the interface assumed of jr.choice(replace=False, p): distinct indices of non-zero probability *)
  Fixpoint nodupb (l : list nat) : bool :=
    match l with [] => true | x :: tl => negb (existsb (Nat.eqb x) tl) && nodupb tl end.
  Definition sample_ok (mask : list bool) (idxs : list nat) : bool :=
    nodupb idxs && forallb (fun i => nth i mask false) idxs.

  (* rows returned by take(flat, idxs) for same-capacity per-env buffers *)
  Definition take_vec (d : trow) (bs : list soa) (C : nat) (idxs : list nat) : list trow :=
    map (fun i => row_at d (nth (i / C) bs (soa_empty C (t_obs d) (t_act d) (t_ps d))) (i mod C)) idxs.
End Ring.
Arguments trow : clear implicits.
Arguments soa : clear implicits.
