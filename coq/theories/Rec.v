(* C01 for the built-in environments: a RECORDED environment.  The harness calls the real functional components
   (initial / transition / observation / reward / terminal / truncate) of a built-in environment separately, with the
   keys base_env.py:240-286 prescribes, names every state and observation it sees by an integer id (float leaves matched
   within tolerance), and records the component results as finite tables.  Coq then runs the SAME gym_step / gym_reset
   model (Lerax.Env) over that table environment and compares with what the real env.step / env.reset returned. *)
From Coq Require Import List ZArith QArith Bool.
From Lerax Require Import Common Env.
Import ListNotations.

Record rec := {
  rc_init  : list (kpath * Z);
  rc_trans : list ((Z * Z * kpath) * Z);
  rc_obs   : list ((Z * kpath) * Z);
  rc_rew   : list ((Z * Z * Z * kpath) * Q);
  rc_term  : list ((Z * kpath) * bool);
  rc_trunc : list (Z * bool) }.

Fixpoint assoc {K V} (eqb : K -> K -> bool) (l : list (K * V)) (k : K) (d : V) : V :=
  match l with [] => d | (k', v) :: tl => if eqb k' k then v else assoc eqb tl k d end.

Definition k1 (a b : Z * kpath) := Z.eqb (fst a) (fst b) && kpath_eqb (snd a) (snd b).
Definition k2 (a b : Z * Z * kpath) := Z.eqb (fst (fst a)) (fst (fst b)) && Z.eqb (snd (fst a)) (snd (fst b)) && kpath_eqb (snd a) (snd b).
Definition k3 (a b : Z * Z * Z * kpath) :=
  Z.eqb (fst (fst (fst a))) (fst (fst (fst b))) && Z.eqb (snd (fst (fst a))) (snd (fst (fst b))) && Z.eqb (snd (fst a)) (snd (fst b)) && kpath_eqb (snd a) (snd b).

(* missing table entries give the id -1 / reward -12345: a lookup outside the recorded components never matches the implementation *)
Definition rec_env (r : rec) : env Z Z Z :=
  Build_env (fun k => assoc kpath_eqb (rc_init r) k (-1)%Z)
            (fun s a k => assoc k2 (rc_trans r) (s, a, k) (-1)%Z)
            (fun s k => assoc k1 (rc_obs r) (s, k) (-1)%Z)
            (fun s a s' k => assoc k3 (rc_rew r) (s, a, s', k) (-12345 # 1))
            (fun s k => assoc k1 (rc_term r) (s, k) false)
            (fun s => assoc Z.eqb (rc_trunc r) s false)
            (fun _ _ => None) (fun _ => 0) (fun _ _ _ => 0) (SpDisc 1) (SpDisc 1).

Record rout := { ro_state : Z; ro_obs : Z; ro_rew : Q; ro_term : bool; ro_trunc : bool }.
Record case := {
  c_rec : rec;
  c_reset_key : kpath; c_reset_state : Z; c_reset_obs : Z;
  c_steps : list (Z * kpath);       (* action id, key *)
  c_outs : list rout }.

Definition tolr : Q := 1 # 10000.
Definition out_ok (m : @step_out Z Z) (o : rout) : bool :=
  Z.eqb (so_state m) (ro_state o) && Z.eqb (so_obs m) (ro_obs o) && Qclose tolr (so_rew m) (ro_rew o)
  && Bool.eqb (so_term m) (ro_term o) && Bool.eqb (so_trunc m) (ro_trunc o).

Fixpoint steps_ok (E : env Z Z Z) (s : Z) (ak : list (Z * kpath)) (outs : list rout) : bool :=
  match ak, outs with
  | [], [] => true
  | (a, k) :: ak', o :: outs' => out_ok (gym_step E s a k) o && steps_ok E (ro_state o) ak' outs'
  | _, _ => false
  end.

Definition holds (c : case) : bool :=
  let E := rec_env (c_rec c) in
  let '(s, o, _) := gym_reset E (c_reset_key c) in
  Z.eqb s (c_reset_state c) && Z.eqb o (c_reset_obs c)
  && steps_ok E (c_reset_state c) (c_steps c) (c_outs c).
Definition agree (c : case) : bool := holds c.
