(* C15: the squashing bijector is differentiable with the derivative whose logarithm the
   code reports as log-det-Jacobian; it is strictly increasing (so events are transported:
   g X <= g b  <->  X <= b).  Kept apart because Coquelicot's auto_derive brings in
   Classical_Prop.classic. *)
From Coq Require Import Reals Lra.
From Coquelicot Require Import Coquelicot.
From Lerax Require Import Distributions DistributionsProofs.
Open Scope R_scope.

Theorem squash_derivative low high x : derivable_pt_lim (squash low high) x (squash_deriv low high x).
Proof.
  apply is_derive_Reals. unfold squash, squash_deriv, sigmoid.
  auto_derive.
  - pose proof (exp_pos (- x)). lra.
  - pose proof (exp_pos (- x)). field. lra.
Qed.

Lemma sigmoid_increasing a b : a < b -> sigmoid a < sigmoid b.
Proof.
  intros H. unfold sigmoid. pose proof (exp_pos (- a)). pose proof (exp_pos (- b)).
  apply Rinv_lt_contravar; [apply Rmult_lt_0_compat; lra|].
  apply Rplus_lt_compat_l, exp_increasing. lra.
Qed.

Theorem squash_increasing low high a b : low < high -> a < b -> squash low high a < squash low high b.
Proof.
  intros H Hab. unfold squash. pose proof (sigmoid_increasing a b Hab). nra.
Qed.

(* event transport: the squashed sample is below g(b) exactly when the base sample is below b *)
Theorem squash_event_iff low high x b : low < high -> (squash low high x <= squash low high b <-> x <= b).
Proof.
  intros H. split; intros Hle.
  - destruct (Rle_or_lt x b) as [|Hlt]; [assumption|].
    pose proof (squash_increasing low high b x H Hlt). lra.
  - destruct Hle as [Hlt | ->]; [left; apply squash_increasing; assumption | right; reflexivity].
Qed.
