(* Shared helpers for the executable models and the correspondence checks.
   Stdlib only.  No proofs about lerax here. *)
From Coq Require Import List ZArith QArith Qabs Qminmax Bool Lia.
Import ListNotations.

(* indices (from 0) of the cases on which a boolean check fails: the
   correspondence harness evaluates this with vm_compute and reads the list *)
Fixpoint failing_from {A} (f : A -> bool) (n : nat) (l : list A) : list nat :=
  match l with
  | [] => []
  | x :: tl => if f x then failing_from f (S n) tl else n :: failing_from f (S n) tl
  end.
Definition failing {A} (f : A -> bool) (l : list A) : list nat := failing_from f 0 l.

Lemma failing_from_nil {A} (f : A -> bool) l n :
  failing_from f n l = [] <-> forallb f l = true.
Proof.
  revert n; induction l as [|x tl IH]; intros n; cbn; [tauto|].
  destruct (f x); cbn; [apply IH|]. split; discriminate.
Qed.

Fixpoint forallb2 {A B} (f : A -> B -> bool) (l1 : list A) (l2 : list B) : bool :=
  match l1, l2 with
  | [], [] => true
  | x :: t1, y :: t2 => f x y && forallb2 f t1 t2
  | _, _ => false
  end.

Lemma forallb2_Forall2 {A B} (f : A -> B -> bool) l1 l2 :
  forallb2 f l1 l2 = true <-> Forall2 (fun x y => f x y = true) l1 l2.
Proof.
  revert l2; induction l1 as [|x t1 IH]; intros [|y t2]; cbn; split; intro H;
    try discriminate; try constructor; try (inversion H; fail).
  - apply andb_prop in H; tauto.
  - apply IH. apply andb_prop in H; tauto.
  - inversion H; subst. apply andb_true_intro; split; [assumption | apply IH; assumption].
Qed.

Definition Qeqb_list (a b : list Q) : bool := forallb2 Qeq_bool a b.

(* |a - b| <= tol * max(1, |b|) *)
Definition Qclose (tol a b : Q) : bool :=
  Qle_bool (Qabs (a - b)) (tol * Qmax 1 (Qabs b)).
Definition Qclose_list (tol : Q) (a b : list Q) : bool := forallb2 (Qclose tol) a b.

Definition Zeqb_list (a b : list Z) : bool := forallb2 Z.eqb a b.
Definition beqb_list (a b : list bool) : bool := forallb2 Bool.eqb a b.

Lemma Zeqb_list_eq a b : Zeqb_list a b = true <-> a = b.
Proof.
  unfold Zeqb_list. rewrite forallb2_Forall2. split.
  - induction 1 as [|x y t1 t2 H _ IH]; [reflexivity|]. apply Z.eqb_eq in H. congruence.
  - intros ->. induction b; constructor; [apply Z.eqb_refl | assumption].
Qed.

Lemma beqb_list_eq a b : beqb_list a b = true <-> a = b.
Proof.
  unfold beqb_list. rewrite forallb2_Forall2. split.
  - induction 1 as [|x y t1 t2 H _ IH]; [reflexivity|]. apply Bool.eqb_prop in H. congruence.
  - intros ->. induction b; constructor; [apply Bool.eqb_reflx | assumption].
Qed.

Definition option_eqb {A} (f : A -> A -> bool) (a b : option A) : bool :=
  match a, b with
  | None, None => true
  | Some x, Some y => f x y
  | _, _ => false
  end.
