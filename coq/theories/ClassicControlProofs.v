(* C17: the translator-generated lerax classic-control definitions (Gen_*.v, regenerated from the lerax
   source on every run of the check) against the Gymnasium reference formulas (ClassicControl.v).
   Everything here holds of the lerax tree as it is; the ContinuousMountainCar statements that need the
   proposed repairs live in coq/pending/C17_cmc_*.v (compiled by the check, not by the build). *)
From Coq Require Import Reals List Bool Lra Lia Psatz ZArith.
From Lerax Require Import CCBase ClassicControl Gen_CartPole Gen_MountainCar Gen_ContinuousMountainCar Gen_Acrobot.
Import ListNotations.
Local Open Scope R_scope.

Module CP := Gen_CartPole.
Module MC := Gen_MountainCar.
Module CMC := Gen_ContinuousMountainCar.
Module AC := Gen_Acrobot.

Lemma cos_sq_le1 t : cos t * cos t <= 1.
Proof. pose proof (COS_bound t). nra. Qed.

(* case analysis on every real-number decision in the goal, innermost first *)
Ltac rdec :=
  repeat match goal with
  | |- context [Rle_dec ?a ?b] =>
      lazymatch a with context [Rle_dec] => fail | context [Rlt_dec] => fail | context [Req_EM_T] => fail | _ =>
      lazymatch b with context [Rle_dec] => fail | context [Rlt_dec] => fail | context [Req_EM_T] => fail | _ =>
        destruct (Rle_dec a b) end end
  | |- context [Rlt_dec ?a ?b] =>
      lazymatch a with context [Rle_dec] => fail | context [Rlt_dec] => fail | context [Req_EM_T] => fail | _ =>
      lazymatch b with context [Rle_dec] => fail | context [Rlt_dec] => fail | context [Req_EM_T] => fail | _ =>
        destruct (Rlt_dec a b) end end
  | |- context [Req_EM_T ?a ?b] =>
      lazymatch a with context [Rle_dec] => fail | context [Rlt_dec] => fail | context [Req_EM_T] => fail | _ =>
      lazymatch b with context [Rle_dec] => fail | context [Rlt_dec] => fail | context [Req_EM_T] => fail | _ =>
        destruct (Req_EM_T a b) end end
  end.
(* split an equation between explicit lists (of options) into its scalar components *)
Ltac lst :=
  repeat match goal with
  | |- (_ :: _) = (_ :: _) => apply f_equal2
  | |- Some _ = Some _ => apply f_equal
  | |- @nil _ = @nil _ => reflexivity
  | |- @None _ = @None _ => reflexivity
  end.
Ltac unfold_cmp := unfold Rclip, Rmin, Rmax, Rleb, Rltb, Reqb, b2R in *.

(* Gymnasium's two-sided "if v > hi: v = hi; if v < lo: v = lo" is clip *)
Lemma gym_clip_eq v lo hi : lo <= hi ->
  (if Rltb (if Rltb hi v then hi else v) lo then lo else if Rltb hi v then hi else v) = Rclip v lo hi.
Proof. intros H. unfold_cmp. rdec; lra. Qed.

(* ========================================================================== CartPole *)
Ltac cp_unfold :=
  unfold CP.dynamics, CP.terminal, CP.reward, CP.clip,
    GymCartPole.field, GymCartPole.step_euler, GymCartPole.xacc, GymCartPole.thetaacc, GymCartPole.temp,
    GymCartPole.force, GymCartPole.terminated, GymCartPole.reward, GymCartPole.limits,
    CP.c_force_mag, CP.c_polemass_length, CP.c_total_mass, CP.c_pole_mass, CP.c_cart_mass, CP.c_length, CP.c_gravity,
    CP.c_dt, CP.c_x_threshold, CP.c_theta_threshold_radians,
    GymCartPole.force_mag, GymCartPole.polemass_length, GymCartPole.total_mass, GymCartPole.masspole,
    GymCartPole.masscart, GymCartPole.length, GymCartPole.gravity, GymCartPole.tau, GymCartPole.x_threshold,
    GymCartPole.theta_threshold_radians.

Lemma cartpole_field y0 y1 y2 y3 a : (a < CP.n_actions)%nat ->
  CP.dynamics y0 y1 y2 y3 a = GymCartPole.field y0 y1 y2 y3 a.
Proof.
  unfold CP.n_actions. intros Ha. assert (Hc := cos_sq_le1 y2).
  destruct a as [|[|a]]; [| |lia]; cp_unfold; cbn [Nat.eqb INR]; cbv zeta;
    lst; field; nra.
Qed.

Lemma cartpole_euler y0 y1 y2 y3 a : (a < CP.n_actions)%nat ->
  euler_step CP.c_dt [y0; y1; y2; y3] (CP.dynamics y0 y1 y2 y3 a) = GymCartPole.step_euler y0 y1 y2 y3 a.
Proof.
  unfold CP.n_actions. intros Ha. assert (Hc := cos_sq_le1 y2).
  destruct a as [|[|a]]; [| |lia]; cp_unfold; cbn [Nat.eqb INR euler_step]; cbv zeta;
    lst; field; nra.
Qed.

Lemma cartpole_n_actions : CP.n_actions = GymCartPole.n_actions.
Proof. reflexivity. Qed.

Lemma cartpole_terminal s0 s1 s2 s3 : CP.terminal s0 s1 s2 s3 = GymCartPole.terminated s0 s2.
Proof.
  cp_unfold. cbv zeta. unfold_cmp. pose proof PI_RGT_0.
  rdec; cbn; try reflexivity; exfalso; lra.
Qed.

Lemma cartpole_reward s0 s1 s2 s3 a n0 n1 n2 n3 : CP.reward s0 s1 s2 s3 a n0 n1 n2 n3 = GymCartPole.reward.
Proof. reflexivity. Qed.

Lemma cartpole_limits y0 y1 y2 y3 : CP.clip y0 y1 y2 y3 = GymCartPole.limits y0 y1 y2 y3.
Proof. reflexivity. Qed.

Lemma cartpole_obs_bounds : CP.obs_low = GymCartPole.obs_low /\ CP.obs_high = GymCartPole.obs_high.
Proof.
  unfold CP.obs_low, CP.obs_high, GymCartPole.obs_low, GymCartPole.obs_high; cp_unfold.
  split; lst; field.
Qed.

Lemma cartpole_observation s0 s1 s2 s3 : CP.observation s0 s1 s2 s3 = [s0; s1; s2; s3].
Proof. reflexivity. Qed.

Lemma cartpole_initial : CP.init_low = GymCartPole.init_low /\ CP.init_high = GymCartPole.init_high.
Proof.
  unfold CP.init_low, CP.init_high, GymCartPole.init_low, GymCartPole.init_high.
  split; lst; field.
Qed.

(* ========================================================================== MountainCar *)
Ltac mc_unfold :=
  unfold MC.dynamics, MC.terminal, MC.reward, MC.clip,
    GymMountainCar.field, GymMountainCar.step, GymMountainCar.limits, GymMountainCar.acc,
    GymMountainCar.terminated, GymMountainCar.reward,
    MC.c_dt, MC.c_force, MC.c_gravity, MC.c_goal_position, MC.c_goal_velocity, MC.c_max_speed,
    MC.c_min_position, MC.c_max_position,
    GymMountainCar.force, GymMountainCar.gravity, GymMountainCar.goal_position, GymMountainCar.goal_velocity,
    GymMountainCar.max_speed, GymMountainCar.min_position, GymMountainCar.max_position.

Lemma mountaincar_field x v a : MC.dynamics x v a = GymMountainCar.field x v a.
Proof. mc_unfold. cbv zeta. lst; field. Qed.

Lemma mountaincar_limits x v : MC.clip x v = GymMountainCar.limits x v.
Proof.
  (* by cases on every comparison: independent of how the source spells the clips (jnp.clip, minimum(maximum(..)), where) *)
  mc_unfold. cbv zeta. unfold_cmp. rdec; cbn; lst; try lra; exfalso; lra.
Qed.

(* Gymnasium's discrete step = lerax's clip after one unit semi-implicit Euler step of lerax's field
   (new velocity first, speed limit applied before the position update) *)
Lemma mountaincar_step x v a :
  GymMountainCar.step x v a =
  let v1 := v + MC.c_dt * nth 1 (MC.dynamics x v a) 0 in
  let vc := Rclip v1 (- MC.c_max_speed) MC.c_max_speed in
  MC.clip (x + MC.c_dt * vc) v1.
Proof.
  rewrite mountaincar_field. cbv zeta. rewrite mountaincar_limits.
  unfold GymMountainCar.step, GymMountainCar.limits, GymMountainCar.field. cbn [nth]. cbv zeta.
  unfold MC.c_dt, MC.c_max_speed, GymMountainCar.max_speed.
  rewrite !Rmult_1_l. reflexivity.
Qed.

Lemma mountaincar_terminal x v : MC.terminal x v = GymMountainCar.terminated x v.
Proof.
  mc_unfold. cbv zeta. unfold_cmp. rdec; cbn; try reflexivity; exfalso; lra.
Qed.

Lemma mountaincar_reward s0 s1 a n0 n1 : MC.reward s0 s1 a n0 n1 = GymMountainCar.reward.
Proof. reflexivity. Qed.

Lemma mountaincar_obs_bounds : MC.obs_low = GymMountainCar.obs_low /\ MC.obs_high = GymMountainCar.obs_high.
Proof.
  unfold MC.obs_low, MC.obs_high, GymMountainCar.obs_low, GymMountainCar.obs_high; mc_unfold.
  split; lst; field.
Qed.

Lemma mountaincar_initial : MC.init_low = GymMountainCar.init_low /\ MC.init_high = GymMountainCar.init_high.
Proof.
  unfold MC.init_low, MC.init_high, GymMountainCar.init_low, GymMountainCar.init_high.
  split; lst; field.
Qed.

Lemma mountaincar_n_actions : MC.n_actions = GymMountainCar.n_actions.
Proof. reflexivity. Qed.

(* ========================================================================== ContinuousMountainCar
   (the parts that hold of the unrepaired lerax source: vector field, action clip, bounds, initial range) *)
Ltac cmc_unfold :=
  unfold CMC.dynamics, CMC.terminal, CMC.reward, CMC.clip,
    GymContinuousMountainCar.field, GymContinuousMountainCar.step, GymContinuousMountainCar.limits,
    GymContinuousMountainCar.acc, GymContinuousMountainCar.force, GymContinuousMountainCar.terminated,
    GymContinuousMountainCar.reward, GymContinuousMountainCar.reward_with,
    CMC.c_dt, CMC.c_power, CMC.c_goal_position, CMC.c_goal_velocity, CMC.c_max_speed, CMC.c_min_action, CMC.c_max_action,
    CMC.c_min_position, CMC.c_max_position,
    GymContinuousMountainCar.power, GymContinuousMountainCar.goal_position, GymContinuousMountainCar.goal_velocity,
    GymContinuousMountainCar.max_speed, GymContinuousMountainCar.min_position, GymContinuousMountainCar.max_position,
    GymContinuousMountainCar.min_action, GymContinuousMountainCar.max_action.

(* every real action, also outside [-1, 1]: both sides clip it *)
Lemma cmc_field x v a : CMC.dynamics x v a = GymContinuousMountainCar.field x v a.
Proof. cmc_unfold. cbv zeta. unfold Rclip. lst; field. Qed.

Lemma cmc_action_bounds :
  CMC.act_low = GymContinuousMountainCar.min_action /\ CMC.act_high = GymContinuousMountainCar.max_action.
Proof. unfold CMC.act_low, CMC.act_high; cmc_unfold. split; field. Qed.

Lemma cmc_obs_bounds :
  CMC.obs_low = GymContinuousMountainCar.obs_low /\ CMC.obs_high = GymContinuousMountainCar.obs_high.
Proof.
  unfold CMC.obs_low, CMC.obs_high, GymContinuousMountainCar.obs_low, GymContinuousMountainCar.obs_high; cmc_unfold.
  split; lst; field.
Qed.

Lemma cmc_initial :
  CMC.init_low = GymContinuousMountainCar.init_low /\ CMC.init_high = GymContinuousMountainCar.init_high.
Proof.
  unfold CMC.init_low, CMC.init_high, GymContinuousMountainCar.init_low, GymContinuousMountainCar.init_high.
  split; lst; field.
Qed.

(* ========================================================================== Acrobot *)
Ltac ac_unfold :=
  unfold AC.dynamics, AC.terminal, AC.reward, AC.clip, AC.observation,
    GymAcrobot.field, GymAcrobot.dsdt, GymAcrobot.dsdt_sc, GymAcrobot.terminated, GymAcrobot.reward, GymAcrobot.get_ob,
    GymAcrobot.bound,
    AC.c_torques, AC.c_gravity, AC.c_link_length_1, AC.c_link_length_2, AC.c_link_mass_1, AC.c_link_mass_2,
    AC.c_link_com_pos_1, AC.c_link_com_pos_2, AC.c_link_moi, AC.c_max_vel_1, AC.c_max_vel_2, AC.c_dt,
    GymAcrobot.AVAIL_TORQUE, GymAcrobot.g, GymAcrobot.LINK_LENGTH_1, GymAcrobot.LINK_LENGTH_2, GymAcrobot.LINK_MASS_1,
    GymAcrobot.LINK_MASS_2, GymAcrobot.LINK_COM_POS_1, GymAcrobot.LINK_COM_POS_2, GymAcrobot.LINK_MOI,
    GymAcrobot.MAX_VEL_1, GymAcrobot.MAX_VEL_2, GymAcrobot.dt.

(* the "book" dynamics; all three torques; the two denominators never vanish (shown, not assumed) *)
Lemma acrobot_field y0 y1 y2 y3 a : (a < AC.n_actions)%nat ->
  AC.dynamics y0 y1 y2 y3 a = GymAcrobot.field y0 y1 y2 y3 a.
Proof.
  unfold AC.n_actions. intros Ha.
  assert (Hc := COS_bound y1).
  ac_unfold; cbv zeta.
  generalize (nth a [- 1; 0; 1] 0); intros tq.
  generalize dependent (cos y1); intros c2 Hc.
  generalize (sin y1) (cos (y0 + y1 - PI / 2)) (cos (y0 - PI / 2)); intros s2 c12 c1.
  lst; try reflexivity; (field; nra).
Qed.

Lemma acrobot_terminal s0 s1 s2 s3 : AC.terminal s0 s1 s2 s3 = GymAcrobot.terminated s0 s1.
Proof. ac_unfold. cbv zeta. replace (s1 + s0) with (s0 + s1) by ring. reflexivity. Qed.

(* 0 on the step that reaches the goal height, -1 otherwise: decided on the NEXT state *)
Lemma acrobot_reward s0 s1 s2 s3 a n0 n1 n2 n3 :
  AC.reward s0 s1 s2 s3 a n0 n1 n2 n3 = GymAcrobot.reward n0 n1.
Proof.
  ac_unfold. unfold GymAcrobot.terminated. cbv zeta. replace (n1 + n0) with (n0 + n1) by ring.
  unfold b2R. destruct (Rltb 1 (- cos n0 - cos (n0 + n1))); ring.
Qed.

Lemma acrobot_observation s0 s1 s2 s3 : AC.observation s0 s1 s2 s3 = GymAcrobot.get_ob s0 s1 s2 s3.
Proof. reflexivity. Qed.

(* floor-mod wrap of lerax: a representative of the angle modulo 2 pi in [-pi, pi) *)
Lemma fmod_wrap x : let r := Rfmod (x + PI) (2 * PI) - PI in
  - PI <= r < PI /\ exists k : Z, r = x + IZR k * (2 * PI).
Proof.
  cbv zeta. unfold Rfmod. pose proof PI_RGT_0 as Hpi.
  set (q := (x + PI) / (2 * PI)).
  destruct (base_Int_part q) as [H1 H2].
  assert (Hq : x + PI = q * (2 * PI)) by (unfold q; field; lra).
  split.
  - split; nra.
  - exists (- Int_part q)%Z. rewrite opp_IZR. ring.
Qed.

(* general floor-mod fact, for whatever offset / span expression the source uses *)
Lemma fmod_spec a m : 0 < m -> 0 <= Rfmod a m < m /\ exists k : Z, Rfmod a m = a + IZR k * m.
Proof.
  intros Hm. unfold Rfmod. set (q := a / m).
  destruct (base_Int_part q) as [H1 H2].
  assert (Hq : a = q * m) by (unfold q; field; lra).
  split.
  - split; nra.
  - exists (- Int_part q)%Z. rewrite opp_IZR. ring.
Qed.

Lemma list4_eq (a b c d a' b' c' d' : R) : a = a' -> b = b' -> c = c' -> d = d' -> [a; b; c; d] = [a'; b'; c'; d'].
Proof. intros -> -> -> ->. reflexivity. Qed.

(* min/max nests in any spelling (jnp.clip, minimum(maximum(..)), maximum(minimum(..))) *)
Ltac minmax_solve :=
  unfold Rclip, Rmin, Rmax; pose proof PI_RGT_0;
  repeat match goal with |- context [Rle_dec ?a ?b] => destruct (Rle_dec a b) end; lra.

(* r = (expression with one floor-mod of period 2 pi) is a representative of x in [-pi, pi] *)
Ltac wrap_solve :=
  unfold GymAcrobot.wrap_spec; pose proof PI_RGT_0 as Hpi;
  match goal with |- context [Rfmod ?a ?m] =>
    let H := fresh in
    assert (H : 0 < m) by lra;
    destruct (fmod_spec a m H) as [[? ?] [k Hk]];
    split; [lra | exists k; rewrite Hk; ring]
  end.

Lemma acrobot_limits y0 y1 y2 y3 :
  exists r1 r2,
    AC.clip y0 y1 y2 y3 =
      [r1; r2; GymAcrobot.bound y2 (- GymAcrobot.MAX_VEL_1) GymAcrobot.MAX_VEL_1;
               GymAcrobot.bound y3 (- GymAcrobot.MAX_VEL_2) GymAcrobot.MAX_VEL_2]
    /\ GymAcrobot.wrap_spec y0 r1 /\ GymAcrobot.wrap_spec y1 r2.
Proof.
  eexists; eexists. split; [|split].
  - ac_unfold; cbv zeta. apply list4_eq; [reflexivity | reflexivity | first [reflexivity | minmax_solve] | first [reflexivity | minmax_solve]].
  - cbv beta. wrap_solve.
  - cbv beta. wrap_solve.
Qed.

Lemma acrobot_obs_bounds : AC.obs_low = GymAcrobot.obs_low /\ AC.obs_high = GymAcrobot.obs_high.
Proof. split; reflexivity. Qed.

Lemma acrobot_initial : AC.init_low = GymAcrobot.init_low /\ AC.init_high = GymAcrobot.init_high.
Proof.
  unfold AC.init_low, AC.init_high, GymAcrobot.init_low, GymAcrobot.init_high. split; lst; field.
Qed.

Lemma acrobot_n_actions : AC.n_actions = GymAcrobot.n_actions.
Proof. reflexivity. Qed.

Lemma acrobot_dt : AC.c_dt = GymAcrobot.dt.
Proof. unfold AC.c_dt, GymAcrobot.dt. field. Qed.

(* any two representatives allowed by wrap_spec are the same angle: same cos / sin, hence same observation *)
Lemma trig_period_Z x (k : Z) : cos (x + IZR k * (2 * PI)) = cos x /\ sin (x + IZR k * (2 * PI)) = sin x.
Proof.
  destruct (Z_le_gt_dec 0 k) as [Hk|Hk].
  - rewrite <- (Z2Nat.id k) by assumption. rewrite <- INR_IZR_INZ.
    replace (x + INR (Z.to_nat k) * (2 * PI)) with (x + 2 * INR (Z.to_nat k) * PI) by ring.
    split; [apply cos_period | apply sin_period].
  - set (n := Z.to_nat (- k)).
    assert (Hn : IZR k = - INR n).
    { unfold n. rewrite INR_IZR_INZ, Z2Nat.id by lia. rewrite opp_IZR. ring. }
    rewrite Hn.
    pose proof (cos_period (x + - INR n * (2 * PI)) n) as Hc.
    pose proof (sin_period (x + - INR n * (2 * PI)) n) as Hs.
    replace (x + - INR n * (2 * PI) + 2 * INR n * PI) with x in Hc, Hs by ring.
    split; congruence.
Qed.

Lemma wrap_same_angle x r : GymAcrobot.wrap_spec x r -> cos r = cos x /\ sin r = sin x.
Proof. intros [_ [k ->]]. apply trig_period_Z. Qed.

(* the hypotheses used above are satisfiable *)
Example cartpole_has_actions : (1 < CP.n_actions)%nat. Proof. unfold CP.n_actions; lia. Qed.
Example acrobot_has_actions : (2 < AC.n_actions)%nat. Proof. unfold AC.n_actions; lia. Qed.
Example wrap_spec_inhabited : GymAcrobot.wrap_spec (3 * PI) PI.
Proof. pose proof PI_RGT_0. split; [lra|]. exists (-1)%Z. simpl. ring. Qed.
