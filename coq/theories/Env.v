(* Environments, the Gym-style API and wrappers.
   Models: lerax/env/base_env.py:240-286 (reset/step), lerax/wrapper/*.py.
   Definitions only (executable); theorems are in EnvProofs.v. *)
From Coq Require Import List ZArith QArith Qround Qminmax Bool.
From Lerax Require Import Common.
Import ListNotations.

(* ---------- PRNG keys as split paths ---------- *)
(* (n,i) = the i-th output of jr.split(key, n) *)
Definition kpath := list (nat * nat).
Definition ks (k : kpath) (n i : nat) : kpath := k ++ [(n, i)].

Definition kstep_eqb (a b : nat * nat) := Nat.eqb (fst a) (fst b) && Nat.eqb (snd a) (snd b).
Definition kpath_eqb (a b : kpath) : bool := forallb2 kstep_eqb a b.

(* ---------- space descriptors (scalar boxes are enough for the stub MDPs) ---------- *)
Inductive xb := Fin (q : Q) | NInf | PInf.
(* SpBox vec lo hi : Box(lo, hi) of shape () (vec=false) or (1,) (vec=true) *)
Inductive sp := SpDisc (n : Z) | SpBox (vec : bool) (lo hi : xb).

Definition xb_eqb (a b : xb) : bool :=
  match a, b with
  | Fin x, Fin y => Qeq_bool x y | NInf, NInf => true | PInf, PInf => true | _, _ => false
  end.
Definition sp_eqb (a b : sp) : bool :=
  match a, b with
  | SpDisc n, SpDisc m => Z.eqb n m
  | SpBox v l h, SpBox v' l' h' => Bool.eqb v v' && xb_eqb l l' && xb_eqb h h'
  | _, _ => false
  end.

(* jnp.clip(x, lo, hi) = minimum(maximum(x, lo), hi) with possibly infinite bounds *)
Definition clip_lo (lo : xb) (x : Q) : Q := match lo with Fin l => Qmax x l | _ => x end.
Definition clip_hi (hi : xb) (x : Q) : Q := match hi with Fin h => Qmin x h | _ => x end.
Definition clipQ (lo hi : xb) (x : Q) : Q := clip_hi hi (clip_lo lo x).

(* ---------- environments ---------- *)
Record env (S A O : Type) := {
  e_init  : kpath -> S;
  e_trans : S -> A -> kpath -> S;
  e_obs   : S -> kpath -> O;
  e_rew   : S -> A -> S -> kpath -> Q;
  e_term  : S -> kpath -> bool;
  e_trunc : S -> bool;
  e_mask  : S -> kpath -> option (list bool);
  e_sinfo : S -> Q;
  e_tinfo : S -> A -> S -> Q;
  e_asp   : sp;
  e_osp   : sp }.
Arguments Build_env {S A O}.
Arguments e_init {S A O}. Arguments e_trans {S A O}. Arguments e_obs {S A O}.
Arguments e_rew {S A O}. Arguments e_term {S A O}. Arguments e_trunc {S A O}.
Arguments e_mask {S A O}. Arguments e_sinfo {S A O}. Arguments e_tinfo {S A O}.
Arguments e_asp {S A O}. Arguments e_osp {S A O}.

(* ---------- Gym-style API: base_env.py:240-286 ---------- *)
Section Gym.
  Context {S A O : Type}.
  Variable E : env S A O.

  (* initial_key, observation_key = jr.split(key, 2) *)
  Definition gym_reset (k : kpath) : S * O * Q :=
    let s := e_init E (ks k 2 0) in (s, e_obs E s (ks k 2 1), e_sinfo E s).

  Record step_out := { so_state : S; so_obs : O; so_rew : Q; so_term : bool; so_trunc : bool; so_info : Q }.

  (* transition_key, reward_key, terminal_key, reset_key = jr.split(key, 4);
     state = lax.cond(terminal | truncate, initial(reset_key), next_state);
     observation = self.observation(state, key=key)                        *)
  Definition gym_step (s : S) (a : A) (k : kpath) : step_out :=
    let s' := e_trans E s a (ks k 4 0) in
    let r  := e_rew E s a s' (ks k 4 1) in
    let te := e_term E s' (ks k 4 2) in
    let tr := e_trunc E s' in
    let info := e_tinfo E s a s' in
    let s2 := if te || tr then e_init E (ks k 4 3) else s' in
    {| so_state := s2; so_obs := e_obs E s2 k; so_rew := r; so_term := te; so_trunc := tr; so_info := info |}.

  (* iterate the API over a list of (action, key) *)
  Fixpoint run_gym (s : S) (ak : list (A * kpath)) : list step_out :=
    match ak with
    | [] => []
    | (a, k) :: tl => let o := gym_step s a k in o :: run_gym (so_state o) tl
    end.

  (* iterate the bare transition function (no reset logic) *)
  Fixpoint run_trans (s : S) (ak : list (A * kpath)) : S :=
    match ak with [] => s | (a, k) :: tl => run_trans (e_trans E s a k) tl end.
End Gym.
Arguments Build_step_out {S O}.
Arguments so_state {S O}. Arguments so_obs {S O}. Arguments so_rew {S O}.
Arguments so_term {S O}. Arguments so_trunc {S O}. Arguments so_info {S O}.

(* ---------- wrappers ---------- *)
(* One universal wrapper state: the step counters of the TimeLimit layers
   (outermost first) and the innermost environment state.  All other
   wrapper states of lerax are plain boxes around env_state. *)
Definition ws (S : Type) := (list Z * S)%type.

Inductive wdesc (A O : Type) :=
| WIdentity
| WTimeLimit (n : Z)
| WAct (f : A -> A) (asp : sp)      (* TransformAction / ClipAction / RescaleAction *)
| WObs (g : O -> O) (osp : sp)      (* TransformObservation / Clip / Rescale / Flatten *)
| WRew (h : Q -> Q).                (* TransformReward / ClipReward *)
Arguments WIdentity {A O}. Arguments WTimeLimit {A O}. Arguments WAct {A O}.
Arguments WObs {A O}. Arguments WRew {A O}.

Section Wrap.
  Context {S A O : Type}.

  Definition lift (e : env S A O) : env (ws S) A O :=
    Build_env (fun k => ([], e_init e k))
              (fun s a k => (fst s, e_trans e (snd s) a k))
              (fun s k => e_obs e (snd s) k)
              (fun s a s' k => e_rew e (snd s) a (snd s') k)
              (fun s k => e_term e (snd s) k)
              (fun s => e_trunc e (snd s))
              (fun s k => e_mask e (snd s) k)
              (fun s => e_sinfo e (snd s))
              (fun s a s' => e_tinfo e (snd s) a (snd s'))
              (e_asp e) (e_osp e).

  Definition pop (s : ws S) : Z * ws S :=
    match fst s with [] => (0%Z, s) | c :: cs => (c, (cs, snd s)) end.
  Definition push (c : Z) (s : ws S) : ws S := (c :: fst s, snd s).

  Definition wrap1 (w : wdesc A O) (e : env (ws S) A O) : env (ws S) A O :=
    match w with
    | WIdentity => e
    | WTimeLimit n =>
        (* misc.py:154-191 : initial -> step_count=0; transition -> step_count+1;
           truncate = env_truncate | (step_count >= max_episode_steps) *)
        Build_env (fun k => push 0%Z (e_init e k))
                  (fun s a k => push (fst (pop s) + 1)%Z (e_trans e (snd (pop s)) a k))
                  (fun s k => e_obs e (snd (pop s)) k)
                  (fun s a s' k => e_rew e (snd (pop s)) a (snd (pop s')) k)
                  (fun s k => e_term e (snd (pop s)) k)
                  (fun s => e_trunc e (snd (pop s)) || (n <=? fst (pop s))%Z)
                  (fun s k => e_mask e (snd (pop s)) k)
                  (fun s => e_sinfo e (snd (pop s)))
                  (fun s a s' => e_tinfo e (snd (pop s)) a (snd (pop s')))
                  (e_asp e) (e_osp e)
    | WAct f asp =>
        (* transform_action.py:67-122 : func applied in transition, reward and transition_info *)
        Build_env (e_init e) (fun s a k => e_trans e s (f a) k) (e_obs e)
                  (fun s a s' k => e_rew e s (f a) s' k) (e_term e) (e_trunc e) (e_mask e)
                  (e_sinfo e) (fun s a s' => e_tinfo e s (f a) s') asp (e_osp e)
    | WObs g osp =>
        Build_env (e_init e) (e_trans e) (fun s k => g (e_obs e s k)) (e_rew e) (e_term e) (e_trunc e)
                  (e_mask e) (e_sinfo e) (e_tinfo e) (e_asp e) osp
    | WRew h =>
        Build_env (e_init e) (e_trans e) (e_obs e) (fun s a s' k => h (e_rew e s a s' k)) (e_term e)
                  (e_trunc e) (e_mask e) (e_sinfo e) (e_tinfo e) (e_asp e) (e_osp e)
    end.

  (* stack listed outermost first *)
  Definition wrap (stack : list (wdesc A O)) (e : env S A O) : env (ws S) A O :=
    fold_right wrap1 (lift e) stack.

  (* what a stack does to actions / observations / rewards, and its time limits *)
  Fixpoint act_map (stack : list (wdesc A O)) (a : A) : A :=
    match stack with
    | [] => a
    | WAct f _ :: tl => act_map tl (f a)
    | _ :: tl => act_map tl a
    end.
  Fixpoint obs_map (stack : list (wdesc A O)) (o : O) : O :=
    match stack with
    | [] => o
    | WObs g _ :: tl => g (obs_map tl o)
    | _ :: tl => obs_map tl o
    end.
  Fixpoint rew_map (stack : list (wdesc A O)) (r : Q) : Q :=
    match stack with
    | [] => r
    | WRew h :: tl => h (rew_map tl r)
    | _ :: tl => rew_map tl r
    end.
  Fixpoint limits (stack : list (wdesc A O)) : list Z :=
    match stack with
    | [] => []
    | WTimeLimit n :: tl => n :: limits tl
    | _ :: tl => limits tl
    end.
  Fixpoint asp_of (stack : list (wdesc A O)) (inner : sp) : sp :=
    match stack with
    | [] => inner
    | WAct _ asp :: _ => asp
    | _ :: tl => asp_of tl inner
    end.
  Fixpoint osp_of (stack : list (wdesc A O)) (inner : sp) : sp :=
    match stack with
    | [] => inner
    | WObs _ osp :: _ => osp
    | _ :: tl => osp_of tl inner
    end.

  (* some limit reached by its counter *)
  Fixpoint any_limit (ns cs : list Z) : bool :=
    match ns, cs with
    | n :: ns', c :: cs' => (n <=? c)%Z || any_limit ns' cs'
    | _, _ => false
    end.
End Wrap.

(* ---------- rescale_box : wrapper/utils.py:15-60 (one dimension) ---------- *)
(* box = [lo, hi] (original), target = [mn, mx].  Only the bounded case is
   given a total rational model; gradient/intercept as in the code. *)
Definition rs_gradient (lo hi mn mx : Q) : Q := (mx - mn) / (hi - lo).
Definition rs_intercept (lo hi mn mx : Q) : Q := mn - lo * rs_gradient lo hi mn mx.
Definition rs_forward (lo hi mn mx x : Q) : Q := rs_gradient lo hi mn mx * x + rs_intercept lo hi mn mx.
Definition rs_backward (lo hi mn mx y : Q) : Q := (y - rs_intercept lo hi mn mx) / rs_gradient lo hi mn mx.

(* ---------- adapters: compatibility/gym.py:378-398, compatibility/gymnax.py:215-250 ---------- *)
Section Adapters.
  Context {S A O : Type}.
  Variable E : env S A O.

  (* LeraxToGymEnv: self.key, sub = jr.split(self.key); env.reset/step(key=sub) *)
  Definition l2g_reset (key : kpath) : kpath * (S * O * Q) := (ks key 2 0, gym_reset E (ks key 2 1)).
  Definition l2g_step (key : kpath) (s : S) (a : A) : kpath * @step_out S O :=
    (ks key 2 0, gym_step E s a (ks key 2 1)).
  Fixpoint l2g_run (key : kpath) (s : S) (acts : list A) : list (@step_out S O) :=
    match acts with
    | [] => []
    | a :: tl => let '(key', o) := l2g_step key s a in o :: l2g_run key' (so_state o) tl
    end.
  (* the keys the adapter hands to env.step, one per action *)
  Fixpoint l2g_keys (key : kpath) (n : nat) : list kpath :=
    match n with 0%nat => [] | Datatypes.S m => ks key 2 1 :: l2g_keys (ks key 2 0) m end.

  (* LeraxToGymnaxEnv.reset_env / step_env *)
  Definition l2x_reset (key : kpath) : O * (S * Z) :=
    let s := e_init E (ks key 2 0) in (e_obs E s (ks key 2 1), (s, 0%Z)).
  Definition l2x_step (key : kpath) (st : S * Z) (a : A) : O * (S * Z) * Q * bool * Q :=
    let o := gym_step E (fst st) a key in
    (so_obs o, (so_state o, (snd st + 1)%Z), so_rew o, so_term o || so_trunc o, so_info o).
End Adapters.
