(* Theorems about Lerax.Batching (property C09). Stdlib only. *)
From Coq Require Import List Arith Bool Lia Permutation FinFun.
From Lerax Require Import Common Env Batching.
Import ListNotations.

(* ================= flatten: (e,t) |-> e*T+t is a bijection ================= *)
Lemma flat_index_lt E T e t : e < E -> t < T -> flat_index T e t < E * T.
Proof. unfold flat_index. nia. Qed.

Lemma unflat_flat T e t : t < T -> unflat_index T (flat_index T e t) = (e, t).
Proof.
  intros Ht. unfold unflat_index, flat_index. f_equal.
  - rewrite Nat.div_add_l by lia. rewrite Nat.div_small by lia. lia.
  - rewrite Nat.add_comm, Nat.mod_add by lia. apply Nat.mod_small; lia.
Qed.

Lemma flat_unflat T i : 0 < T -> flat_index T (fst (unflat_index T i)) (snd (unflat_index T i)) = i.
Proof.
  intros HT. unfold unflat_index, flat_index; cbn [fst snd].
  pose proof (Nat.div_mod i T ltac:(lia)). lia.
Qed.

Lemma unflat_lt E T i : i < E * T -> fst (unflat_index T i) < E /\ snd (unflat_index T i) < T.
Proof.
  intros Hi. assert (0 < T) by (destruct T; lia). unfold unflat_index; cbn [fst snd]. split.
  - apply Nat.div_lt_upper_bound; lia.
  - apply Nat.mod_upper_bound; lia.
Qed.

Lemma flat_index_inj T e t e' t' :
  t < T -> t' < T -> flat_index T e t = flat_index T e' t' -> e = e' /\ t = t'.
Proof.
  intros Ht Ht' H. pose proof (unflat_flat T e t Ht) as H1. pose proof (unflat_flat T e' t' Ht') as H2.
  rewrite H in H1. rewrite H1 in H2. inversion H2; auto.
Qed.

(* every flat index below E*T comes from exactly one (e, t) *)
Theorem flatten_bijection E T i : i < E * T ->
  exists e t, e < E /\ t < T /\ flat_index T e t = i /\
    forall e' t', t' < T -> flat_index T e' t' = i -> e' = e /\ t' = t.
Proof.
  intros Hi. assert (0 < T) by (destruct T; lia).
  destruct (unflat_lt E T i Hi) as [He Ht].
  exists (fst (unflat_index T i)), (snd (unflat_index T i)). repeat split; auto.
  - apply flat_unflat; assumption.
  - pose proof (flat_unflat T i H) as Hf. rewrite <- Hf in H1.
    apply (flat_index_inj T e' t' _ _ H0 Ht H1).
  - pose proof (flat_unflat T i H) as Hf. rewrite <- Hf in H1.
    apply (flat_index_inj T e' t' _ _ H0 Ht H1).
Qed.

Lemma length_flatten2 {A} T (x : list (list A)) :
  Forall (fun r => length r = T) x -> length (flatten2 x) = length x * T.
Proof.
  unfold flatten2. induction 1 as [|r x Hr _ IH]; cbn; [reflexivity|]. rewrite app_length, IH, Hr. reflexivity.
Qed.

(* reshape puts element (e,t) of a leaf at flat position e*T+t *)
Theorem nth_flatten2 {A} T (x : list (list A)) e t d :
  Forall (fun r => length r = T) x -> e < length x -> t < T ->
  nth (flat_index T e t) (flatten2 x) d = nth t (nth e x []) d.
Proof.
  unfold flatten2, flat_index. intros HF. revert e. induction HF as [|r x Hr _ IH]; intros e He Ht; cbn in *; [lia|].
  destruct e as [|e].
  - cbn. apply app_nth1. lia.
  - rewrite app_nth2 by (cbn; lia). rewrite Hr. replace (Datatypes.S e * T + t - T) with (e * T + t) by (cbn; lia).
    apply IH; lia.
Qed.

Lemma map_add_seq a n : map (fun t => a + t) (seq 0 n) = seq a n.
Proof.
  assert (G: forall s, map (fun t => a + t) (seq s n) = seq (a + s) n).
  { induction n as [|n IH]; intros s; cbn; [reflexivity|]. rewrite IH. do 2 f_equal. lia. }
  rewrite G. f_equal. lia.
Qed.

(* flattening the grid of ids gives 0..E*T-1: nothing lost, nothing duplicated *)
Theorem flatten_id_grid E T : flatten2 (id_grid E T) = seq 0 (E * T).
Proof.
  unfold flatten2, id_grid. induction E as [|E IH]; [reflexivity|].
  rewrite seq_S, map_app, concat_app, IH. cbn [map concat plus]. rewrite app_nil_r.
  unfold flat_index. rewrite map_add_seq.
  replace (Datatypes.S E * T) with (E * T + T) by lia. rewrite seq_app. reflexivity.
Qed.

Lemma id_grid_shape E T : length (id_grid E T) = E /\ Forall (fun r => length r = T) (id_grid E T).
Proof.
  unfold id_grid. split; [rewrite map_length, seq_length; reflexivity|].
  apply Forall_forall. intros r Hr. apply in_map_iff in Hr as (e & <- & _). rewrite map_length, seq_length. reflexivity.
Qed.

(* flattening a struct-of-arrays = the struct-of-arrays of the flattened samples:
   every leaf is rearranged by the same map, so the fields of a sample stay together *)
Theorem flatten_soa_of {S A} (fields : list (S -> A)) (grid : list (list S)) :
  flatten_soa (soa2_of fields grid) = soa_of fields (flatten2 grid).
Proof.
  unfold flatten_soa, soa2_of, soa_of, flatten2. rewrite map_map. apply map_ext. intros f.
  symmetry. apply concat_map.
Qed.

(* ================= chunks / batch_indices ================= *)
Lemma firstn_plus {A} a b (l : list A) : firstn (a + b) l = firstn a l ++ firstn b (skipn a l).
Proof. revert l; induction a as [|a IH]; intros [|x l]; cbn; try reflexivity; [destruct b; reflexivity | f_equal; apply IH]. Qed.

Lemma concat_chunks {A} B n (l : list A) : concat (chunks B n l) = firstn (n * B) l.
Proof.
  revert l; induction n as [|n IH]; intros l; cbn [chunks concat]; [reflexivity|].
  rewrite IH. replace (Datatypes.S n * B) with (B + n * B) by lia. symmetry. apply firstn_plus.
Qed.

Lemma chunks_length {A} B n (l : list A) : length (chunks B n l) = n.
Proof. revert l; induction n; intros; cbn; auto. Qed.

Lemma chunks_rows {A} B n (l : list A) : n * B <= length l -> Forall (fun r => length r = B) (chunks B n l).
Proof.
  revert l; induction n as [|n IH]; intros l Hl; cbn [chunks]; constructor.
  - rewrite firstn_length. lia.
  - apply IH. rewrite skipn_length. lia.
Qed.

Lemma nth_firstn_lt {A} j B (l : list A) d : j < B -> nth j (firstn B l) d = nth j l d.
Proof. revert B l; induction j as [|j IH]; intros [|B] [|x l] H; cbn; try lia; auto. apply IH; lia. Qed.

Lemma nth_skipn_add {A} B k (l : list A) d : nth k (skipn B l) d = nth (B + k) l d.
Proof. revert l; induction B as [|B IH]; intros [|x l]; cbn; auto. destruct k; reflexivity. Qed.

(* reshape(-1, B): entry j of row i is entry i*B+j of the 1-D array *)
Lemma nth_chunks {A} B n (l : list A) i j d :
  i < n -> j < B -> nth j (nth i (chunks B n l) []) d = nth (i * B + j) l d.
Proof.
  revert l i; induction n as [|n IH]; intros l i Hi Hj; [lia|]. cbn [chunks].
  destruct i as [|i]; cbn [nth].
  - apply nth_firstn_lt; assumption.
  - rewrite IH by lia. rewrite nth_skipn_add. f_equal. lia.
Qed.

Lemma trim_eq {A} B (p : list A) : B <> 0 -> trim B p = firstn (length p / B * B) p.
Proof.
  intros HB. unfold trim. f_equal. pose proof (Nat.div_mod (length p) B HB). lia.
Qed.

Lemma trim_length {A} B (p : list A) : B <> 0 -> length (trim B p) = length p / B * B.
Proof.
  intros HB. rewrite trim_eq by assumption. rewrite firstn_length.
  pose proof (Nat.mul_div_le (length p) B HB). lia.
Qed.

Lemma batch_indices_eq {A} B (p : list A) : B <> 0 ->
  batch_indices B p = chunks B (length p / B) (firstn (length p / B * B) p).
Proof.
  intros HB. unfold batch_indices. rewrite trim_length by assumption.
  rewrite Nat.div_mul by assumption. rewrite trim_eq by assumption. reflexivity.
Qed.

Lemma batch_indices_concat {A} B (p : list A) : B <> 0 ->
  concat (batch_indices B p) = firstn (length p / B * B) p.
Proof.
  intros HB. rewrite batch_indices_eq by assumption. rewrite concat_chunks, firstn_firstn. f_equal. lia.
Qed.

Lemma NoDup_firstn {A} k (l : list A) : NoDup l -> NoDup (firstn k l).
Proof.
  intros H. rewrite <- (firstn_skipn k l) in H. revert H. generalize (firstn k l) (skipn k l).
  induction l0 as [|x l0 IH]; intros l1 H; [constructor|]. cbn in H. inversion H; subst. constructor.
  - intro Hin. apply H2. apply in_or_app; left; assumption.
  - eapply IH; eassumption.
Qed.

Lemma In_firstn {A} k (l : list A) x : In x (firstn k l) -> In x l.
Proof. intros H. rewrite <- (firstn_skipn k l). apply in_or_app; left; assumption. Qed.

Lemma perm_seq_facts N p : Permutation p (seq 0 N) -> length p = N /\ NoDup p /\ forall i, In i p <-> i < N.
Proof.
  intros H. split; [|split].
  - rewrite (Permutation_length H). apply seq_length.
  - apply (Permutation_NoDup (Permutation_sym H)). apply seq_NoDup.
  - intros i. split; intro Hi.
    + apply (Permutation_in _ H) in Hi. apply in_seq in Hi. lia.
    + apply (Permutation_in _ (Permutation_sym H)). apply in_seq. lia.
Qed.

(* THE PARTITION THEOREM: for any permutation p of 0..N-1 and any B >= 1 *)
Theorem batch_indices_partition N B p :
  1 <= B -> Permutation p (seq 0 N) ->
  let rows := batch_indices B p in
  NoDup (concat rows)                                   (* rows pairwise disjoint, no repeats *)
  /\ (forall i, In i (concat rows) -> i < N)            (* every index is a collected sample *)
  /\ length (concat rows) = N / B * B                   (* exactly floor(N/B)*B used *)
  /\ Forall (fun r => length r = B) rows                (* intact minibatches *)
  /\ length rows = N / B
  /\ N - length (concat rows) = N mod B /\ N mod B < B. (* fewer than B dropped *)
Proof.
  intros HB Hp rows. destruct (perm_seq_facts N p Hp) as (Hl & Hnd & Hin).
  assert (HB0 : B <> 0) by lia.
  assert (Hc : concat rows = firstn (N / B * B) p) by (subst rows; rewrite batch_indices_concat, Hl by assumption; reflexivity).
  pose proof (Nat.mul_div_le N B HB0) as Hle.
  assert (Hlen : length (concat rows) = N / B * B) by (rewrite Hc, firstn_length; lia).
  repeat split.
  - rewrite Hc. apply NoDup_firstn; assumption.
  - intros i Hi. rewrite Hc in Hi. apply Hin. eapply In_firstn; eassumption.
  - assumption.
  - subst rows. rewrite batch_indices_eq by assumption. apply chunks_rows. rewrite firstn_length, Hl. nia.
  - subst rows. rewrite batch_indices_eq by assumption. rewrite chunks_length, Hl. reflexivity.
  - rewrite Hlen. pose proof (Nat.div_mod N B HB0). lia.
  - apply Nat.mod_upper_bound; assumption.
Qed.

(* every collected sample is used in at most one minibatch of the epoch, at most once *)
Corollary sample_used_at_most_once N B p s :
  1 <= B -> Permutation p (seq 0 N) -> count_occ Nat.eq_dec (concat (batch_indices B p)) s <= 1.
Proof.
  intros HB Hp. destruct (batch_indices_partition N B p HB Hp) as (Hnd & _).
  apply (proj1 (NoDup_count_occ Nat.eq_dec _) Hnd).
Qed.

(* two different rows share no index *)
Corollary rows_disjoint N B p i j x :
  1 <= B -> Permutation p (seq 0 N) -> i < j -> j < N / B ->
  In x (nth i (batch_indices B p) []) -> ~ In x (nth j (batch_indices B p) []).
Proof.
  intros HB Hp Hij Hj Hi Hjn. destruct (perm_seq_facts N p Hp) as (Hl & Hnd & _).
  assert (HB0 : B <> 0) by lia.
  pose proof (Nat.mul_div_le N B HB0) as Hle.
  rewrite batch_indices_eq in Hi, Hjn by assumption. rewrite Hl in *.
  set (q := firstn (N / B * B) p) in *.
  assert (Hq : NoDup q) by (apply NoDup_firstn; assumption).
  assert (Hql : length q = N / B * B) by (unfold q; rewrite firstn_length; lia).
  assert (Hrow : forall k, k < N / B -> forall y, In y (nth k (chunks B (N / B) q) []) ->
                  exists m, m < B /\ nth (k * B + m) q 0 = y).
  { intros k Hk y Hy. destruct (In_nth _ _ 0 Hy) as (m & Hm & Hnm).
    assert (Hrl : length (nth k (chunks B (N / B) q) []) = B).
    { assert (HF := chunks_rows B (N / B) q ltac:(lia)). rewrite Forall_forall in HF. apply HF. apply nth_In. rewrite chunks_length. assumption. }
    rewrite Hrl in Hm. exists m. split; [assumption|]. rewrite <- Hnm. symmetry. apply nth_chunks; assumption. }
  destruct (Hrow i ltac:(lia) x Hi) as (m & Hm & Hxm). destruct (Hrow j Hj x Hjn) as (m' & Hm' & Hxm').
  assert (i * B + m < length q) by nia. assert (j * B + m' < length q) by nia.
  assert (Heq : i * B + m = j * B + m').
  { apply (proj1 (NoDup_nth q 0) Hq); try assumption. congruence. }
  nia.
Qed.

(* when B divides N every sample is used exactly once per epoch *)
Theorem divisible_epoch_is_permutation N B p :
  1 <= B -> N mod B = 0 -> Permutation p (seq 0 N) -> Permutation (concat (batch_indices B p)) (seq 0 N).
Proof.
  intros HB Hm Hp. destruct (perm_seq_facts N p Hp) as (Hl & _).
  rewrite batch_indices_concat by lia. rewrite Hl.
  assert (N / B * B = N) by (pose proof (Nat.div_mod N B ltac:(lia)); lia).
  rewrite H. replace (firstn N p) with p by (rewrite <- Hl; symmetry; apply firstn_all). assumption.
Qed.

(* the shape of the rows: row i, column j is p[i*B+j] (reshape) *)
Theorem batch_indices_nth {A} B (p : list A) i j d :
  B <> 0 -> i < length p / B -> j < B ->
  nth j (nth i (batch_indices B p) []) d = nth (i * B + j) p d.
Proof.
  intros HB Hi Hj. rewrite batch_indices_eq by assumption. rewrite nth_chunks by assumption.
  apply nth_firstn_lt. pose proof (Nat.mul_div_le (length p) B HB). nia.
Qed.

(* key=None: sequential indices; row i is i*B, i*B+1, ..., i*B+B-1 *)
Theorem sequential_rows N B i j :
  1 <= B -> i < N / B -> j < B -> nth j (nth i (batch_indices B (sequential N)) []) 0 = i * B + j.
Proof.
  intros HB Hi Hj. unfold sequential. rewrite batch_indices_nth by (rewrite ?seq_length; lia).
  pose proof (Nat.mul_div_le N B ltac:(lia)). rewrite seq_nth by nia. reflexivity.
Qed.

Lemma sequential_is_permutation N : Permutation (sequential N) (seq 0 N).
Proof. apply Permutation_refl. Qed.

(* ================= gather: alignment ================= *)
(* gather then project = project then gather *)
Theorem gather_map {S A} (f : S -> A) (ds : S) (samples : list S) idx :
  gather (f ds) (map f samples) idx = map f (gather ds samples idx).
Proof. unfold gather. rewrite map_map. apply map_ext. intros i. apply map_nth. Qed.

(* a minibatch of a struct-of-arrays is the struct-of-arrays of the selected samples:
   row j of EVERY leaf is the corresponding field of the one sample idx[j] *)
Theorem gather_soa_aligned {S A} (fields : list (S -> A)) (d : A) (ds : S) (samples : list S) idx :
  Forall (fun i => i < length samples) idx ->
  gather_soa d (soa_of fields samples) idx = soa_of fields (gather ds samples idx).
Proof.
  intros Hidx. unfold gather_soa, soa_of. rewrite map_map. apply map_ext. intros f.
  rewrite <- gather_map. unfold gather. apply map_ext_in. intros i Hi.
  rewrite Forall_forall in Hidx. apply nth_indep. rewrite map_length. apply Hidx; assumption.
Qed.

Lemma gather_length {A} (d : A) x idx : length (gather d x idx) = length idx.
Proof. apply map_length. Qed.

(* the id leaf of a minibatch is the index row itself *)
Lemma gather_ids N idx : Forall (fun i => i < N) idx -> gather 0 (seq 0 N) idx = idx.
Proof.
  intros H. unfold gather. rewrite <- (map_id idx) at 2. apply map_ext_in. intros i Hi.
  rewrite Forall_forall in H. rewrite seq_nth by (apply H; assumption). reflexivity.
Qed.

(* batches: minibatch k of every leaf is gather with row k *)
Theorem batches_nth {A} (d : A) B p (x : list A) k :
  nth k (map (gather d x) (batch_indices B p)) [] = gather d x (nth k (batch_indices B p) []).
Proof. change (@nil A) with (gather d x []). apply map_nth. Qed.

(* flatten + gather end to end: the minibatch row j holds, in every leaf, the field of the
   sample collected at (e,t) = divmod(idx[j], T) *)
Theorem flatten_gather_sample {S A} (fields : list (S -> A)) (d : A) (ds : S) (grid : list (list S)) T idx :
  Forall (fun r => length r = T) grid ->
  Forall (fun i => i < length grid * T) idx ->
  gather_soa d (flatten_soa (soa2_of fields grid)) idx =
  soa_of fields (map (fun i => nth (snd (unflat_index T i)) (nth (fst (unflat_index T i)) grid []) ds) idx).
Proof.
  intros Hg Hidx. rewrite flatten_soa_of. rewrite (gather_soa_aligned fields d ds).
  - f_equal. unfold gather. apply map_ext_in. intros i Hi. rewrite Forall_forall in Hidx.
    specialize (Hidx i Hi). assert (0 < T) by (destruct T; lia).
    destruct (unflat_lt _ _ _ Hidx) as [He Ht].
    rewrite <- (flat_unflat T i H) at 1. apply nth_flatten2; assumption.
  - rewrite (length_flatten2 T) by assumption. assumption.
Qed.

(* sample without replacement: distinct indices = distinct whole samples *)
Theorem sample_distinct N idx :
  NoDup idx -> Forall (fun i => i < N) idx ->
  gather 0 (seq 0 N) idx = idx /\ NoDup (gather 0 (seq 0 N) idx).
Proof. intros Hnd Hr. rewrite gather_ids by assumption. split; [reflexivity | assumption]. Qed.

(* ================= keys ================= *)
Lemma ks_inj k n i j : ks k n i = ks k n j -> i = j.
Proof. unfold ks. intros H. apply app_inv_head in H. inversion H; reflexivity. Qed.

Lemma ks_inj_full k k' n n' i j : ks k n i = ks k' n' j -> k = k' /\ n = n' /\ i = j.
Proof.
  unfold ks. intros H. apply app_inj_tail in H as [H1 H2]. inversion H2; auto.
Qed.

Lemma ks_neq_parent k n i : ks k n i <> k.
Proof. unfold ks. intro H. apply (f_equal (@length _)) in H. rewrite app_length in H. cbn in H. lia. Qed.

Theorem epoch_keys_NoDup key E : NoDup (epoch_keys key E).
Proof.
  unfold epoch_keys. apply Injective_map_NoDup; [|apply seq_NoDup].
  intros i j H. eapply ks_inj; eassumption.
Qed.

Lemma epoch_keys_length key E : length (epoch_keys key E) = E.
Proof. unfold epoch_keys. rewrite map_length, seq_length. reflexivity. Qed.

Lemma epoch_keys_nth key E i : i < E -> nth i (epoch_keys key E) [] = ks key E i.
Proof.
  intros Hi. unfold epoch_keys. rewrite (nth_indep _ [] (ks key E 0)) by (rewrite map_length, seq_length; assumption).
  rewrite map_nth, seq_nth by assumption. reflexivity.
Qed.

(* the shuffle keys of the epochs of one update are pairwise distinct *)
Theorem epoch_keys_distinct key E i j :
  i < E -> j < E -> i <> j -> nth i (epoch_keys key E) [] <> nth j (epoch_keys key E) [].
Proof.
  intros Hi Hj Hij. rewrite !epoch_keys_nth by assumption. intro H. apply Hij. eapply ks_inj; eassumption.
Qed.

(* over a whole learn() call: (update, epoch) |-> shuffle key is injective, and no shuffle
   key coincides with a key used to collect a rollout *)
Theorem shuffle_key_inj key M E j i j' i' :
  shuffle_key key M E j i = shuffle_key key M E j' i' -> j = j' /\ i = i'.
Proof.
  unfold shuffle_key, train_key, iteration_key. intros H.
  apply ks_inj_full in H as (H1 & _ & Hi). apply ks_inj_full in H1 as (H2 & _ & _).
  apply ks_inj_full in H2 as (_ & _ & Hj). auto.
Qed.

Theorem shuffle_key_not_rollout key M E j i j' :
  shuffle_key key M E j i <> rollout_key (iteration_key key M j').
Proof.
  unfold shuffle_key, train_key, rollout_key, iteration_key, ks. intro H.
  apply (f_equal (@length _)) in H. rewrite !app_length in H. cbn in H. lia.
Qed.

(* ================= train_epoch / train ================= *)
Lemma fold_left_concat {C X} (f : C -> X -> C) (ls : list (list X)) c :
  fold_left f (concat ls) c = fold_left (fun c l => fold_left f l c) ls c.
Proof. revert c; induction ls as [|l ls IH]; intros c; cbn; [reflexivity|]. rewrite fold_left_app. apply IH. Qed.

Lemma fold_left_map {C X Y} (f : C -> Y -> C) (g : X -> Y) l c :
  fold_left f (map g l) c = fold_left (fun c x => f c (g x)) l c.
Proof. revert c; induction l; intros; cbn; auto. Qed.

Section TrainProofs.
  Variable perm : kpath -> nat -> list nat.
  Hypothesis perm_ok : forall k n, Permutation (perm k n) (seq 0 n).
  Context {C A : Type}.
  Variable step : C -> soa A -> C.
  Variable d : A.

  (* an update processes exactly the minibatches gather(flat, row) for the rows of
     train_rows, epoch after epoch, in order *)
  Theorem train_is_fold_over_rows B E buf c key :
    train perm step d B E buf c key =
    fold_left (fun c row => step c (gather_soa d (flatten_soa buf) row))
              (concat (train_rows perm B (soa_len (flatten_soa buf)) E key)) c.
  Proof.
    unfold train, train_rows. rewrite fold_left_concat, fold_left_map. reflexivity.
  Qed.

  (* every epoch of the update is a partition in the sense of batch_indices_partition *)
  Theorem train_epoch_partition B N E key i :
    1 <= B -> i < E ->
    let rows := nth i (train_rows perm B N E key) [] in
    rows = batch_indices B (perm (ks key E i) N)
    /\ NoDup (concat rows) /\ (forall s, In s (concat rows) -> s < N)
    /\ length (concat rows) = N / B * B
    /\ Forall (fun r => length r = B) rows /\ length rows = N / B.
  Proof.
    intros HB Hi rows.
    assert (Hr : rows = batch_indices B (perm (ks key E i) N)).
    { subst rows. unfold train_rows.
      rewrite (nth_indep _ [] (epoch_rows perm B N [])) by (rewrite map_length, epoch_keys_length; assumption).
      rewrite map_nth, epoch_keys_nth by assumption. reflexivity. }
    split; [assumption|]. rewrite Hr.
    destruct (batch_indices_partition N B _ HB (perm_ok (ks key E i) N)) as (H1 & H2 & H3 & H4 & H5 & _).
    repeat split; assumption.
  Qed.

  Lemma count_occ_concat_le (ls : list (list nat)) s :
    Forall (fun l => count_occ Nat.eq_dec l s <= 1) ls -> count_occ Nat.eq_dec (concat ls) s <= length ls.
  Proof. induction 1 as [|l ls H _ IH]; cbn; [lia|]. rewrite count_occ_app. lia. Qed.

  Lemma count_occ_concat_eq (ls : list (list nat)) s :
    Forall (fun l => count_occ Nat.eq_dec l s = 1) ls -> count_occ Nat.eq_dec (concat ls) s = length ls.
  Proof. induction 1 as [|l ls H _ IH]; cbn; [lia|]. rewrite count_occ_app. lia. Qed.

  (* over the whole update a sample is visited at most num_epochs times ... *)
  Theorem train_visits_le B N E key s :
    1 <= B ->
    count_occ Nat.eq_dec (concat (map (@concat nat) (train_rows perm B N E key))) s <= E.
  Proof.
    intros HB. unfold train_rows.
    eapply Nat.le_trans; [apply count_occ_concat_le | rewrite !map_length, epoch_keys_length; lia].
    apply Forall_forall. intros l Hl.
    apply in_map_iff in Hl as (rows & <- & Hrows). apply in_map_iff in Hrows as (k & <- & _).
    apply (sample_used_at_most_once N B); [assumption | apply perm_ok].
  Qed.

  (* ... and exactly num_epochs times (once per epoch) when the batch size divides N *)
  Theorem train_visits_divisible B N E key s :
    1 <= B -> N mod B = 0 -> s < N ->
    count_occ Nat.eq_dec (concat (map (@concat nat) (train_rows perm B N E key))) s = E.
  Proof.
    intros HB Hm Hs. unfold train_rows.
    rewrite count_occ_concat_eq; [rewrite !map_length; apply epoch_keys_length|].
    apply Forall_forall. intros l Hl.
    apply in_map_iff in Hl as (rows & <- & Hrows). apply in_map_iff in Hrows as (k & <- & _).
    unfold epoch_rows.
    pose proof (divisible_epoch_is_permutation N B _ HB Hm (perm_ok k N)) as Hp.
    rewrite (proj1 (Permutation_count_occ Nat.eq_dec _ _) Hp).
    apply (proj1 (NoDup_count_occ' Nat.eq_dec _) (seq_NoDup N 0)). apply in_seq. lia.
  Qed.
End TrainProofs.

(* ================= non-vacuity ================= *)
Example partition_example :
  batch_indices 3 [4; 0; 6; 2; 5; 1; 3] = [[4; 0; 6]; [2; 5; 1]]
  /\ Permutation [4; 0; 6; 2; 5; 1; 3] (seq 0 7)
  /\ flatten2 (id_grid 2 3) = [0; 1; 2; 3; 4; 5]
  /\ gather_soa 0 [[10; 11; 12; 13]; [20; 21; 22; 23]] [2; 0] = [[12; 10]; [22; 20]]
  /\ epoch_keys [(0, 0)] 2 = [[(0, 0); (2, 0)]; [(0, 0); (2, 1)]].
Proof.
  repeat split; try reflexivity.
  apply NoDup_Permutation_bis.
  - repeat constructor; cbn; intuition discriminate.
  - cbn; lia.
  - intros x Hx. cbn in *. intuition.
Qed.
