(* C11: observers cannot influence training.  Skeleton of learn()/iteration() (base_algorithm.py:208-276,
   on_policy.py:262-338, off_policy.py:322-366) with ARBITRARY collection/training and ARBITRARY callbacks:
   the callback state is threaded next to the training state and is never an input of the core. *)
From Coq Require Import List Arith Lia.
From Lerax Require Import Common Env OnPolicy.
Import ListNotations.

Section Learn.
  Variable St : Type.                       (* everything training depends on: policy, optimiser state, env states, buffers, counter *)
  Variable core_reset : kpath -> St.
  Variable core_iter : St -> kpath -> kpath -> St.    (* rollout key, train key *)

  Section WithCallback.
    Variable CB : Type.                     (* callback state *)
    Variable cb_reset : kpath -> CB.
    Variable cb_start : CB -> St -> kpath -> CB.
    Variable cb_iter : CB -> St -> kpath -> CB.
    Variable cb_end : CB -> St -> kpath -> CB.

    (* rollout_key, train_key, callback_key = jr.split(key, 3) *)
    Definition iteration (s : St * CB) (k : kpath) : St * CB :=
      let s' := core_iter (fst s) (ks k 3 0) (ks k 3 1) in (s', cb_iter (snd s) s' (ks k 3 2)).

    (* callback_start_key, reset_key, learn_key, callback_end_key = jr.split(key, 4);
       reset: step_key, callback_key = jr.split(reset_key, 2) *)
    Definition learn (n : nat) (k : kpath) : St * CB :=
      let s0 := core_reset (ks (ks k 4 1) 2 0) in
      let c0 := cb_start (cb_reset (ks (ks k 4 1) 2 1)) s0 (ks k 4 0) in
      let '(s, c) := fold_left iteration (split_keys (ks k 4 2) n) (s0, c0) in
      (s, cb_end c s (ks k 4 3)).
  End WithCallback.
End Learn.

(* ---------- observers inside the CONCRETE collection models (the ones validated against the real
   collect_rollout by the C04 / C05 checks): the step callback state is threaded through the scan with its own key
   (index 8 of the 9-way split) and never feeds back into the interaction ---------- *)
From Lerax Require Import Replay OffPolicy.
From Coq Require Import QArith.

Section ConcreteCollect.
  Context {S PS O CS : Type}.
  Variable gamma : Q.
  Variable E : env S Q O.
  Variable P : acpol PS Q O.
  (* an arbitrary step observer: sees the row (incl. environment reward and done flag) and its own key *)
  Variable cb_step : CS -> @orow PS O -> kpath -> CS.

  Fixpoint scan_steps_cb (st : S * PS) (c : CS) (keys : list kpath) : (S * PS) * CS * list (@orow PS O) :=
    match keys with
    | [] => (st, c, [])
    | k :: tl => let '(st1, row) := op_step gamma E P st k in
                 let c1 := cb_step c row (ks k 9 8) in
                 let '(st2, c2, rows) := scan_steps_cb st1 c1 tl in (st2, c2, row :: rows)
    end.

  Variable cb_off : CS -> trow O Q PS -> kpath -> CS.
  Fixpoint off_scan_cb (st : (S * PS) * @obuf PS O) (c : CS) (keys : list kpath) : ((S * PS) * @obuf PS O) * CS :=
    match keys with
    | [] => (st, c)
    | k :: tl => let st1 := off_step E P st k in
                 (* the observer is shown the slot just written *)
                 let c1 := cb_off c (row_at {| t_obs := e_obs E (fst (fst st)) k; t_next := e_obs E (fst (fst st)) k; t_act := 0%Q; t_rew := 0%Q;
                                              t_done := false; t_timeout := false; t_ps := snd (fst st); t_nps := snd (fst st) |}
                                           (snd st1) (b_pos (snd st) mod b_size (snd st))) (ks k 9 8) in
                 off_scan_cb st1 c1 tl
    end.
End ConcreteCollect.
