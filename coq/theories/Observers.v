(* C11: observers cannot influence training.  Skeleton of learn()/iteration() (base_algorithm.py:208-276,
   on_policy.py:262-338, off_policy.py:322-366) with ARBITRARY collection/training and ARBITRARY callbacks:
   the callback state is threaded next to the training state and is never an input of the core. *)
From Coq Require Import List Arith Lia.
From Lerax Require Import Common Env OnPolicy.
Import ListNotations.

Section Learn.
  Variable St : Type.                       (* everything training depends on: policy, optimiser state, env states, buffers, counter *)
  Variable core_reset : kpath -> St.
  Variable core_iter : St -> kpath -> kpath -> St.    (* rollout key, train key *)

  Section WithCallback.
    Variable CB : Type.                     (* callback state *)
    Variable cb_reset : kpath -> CB.
    Variable cb_start : CB -> St -> kpath -> CB.
    Variable cb_iter : CB -> St -> kpath -> CB.
    Variable cb_end : CB -> St -> kpath -> CB.

    (* rollout_key, train_key, callback_key = jr.split(key, 3) *)
    Definition iteration (s : St * CB) (k : kpath) : St * CB :=
      let s' := core_iter (fst s) (ks k 3 0) (ks k 3 1) in (s', cb_iter (snd s) s' (ks k 3 2)).

    (* callback_start_key, reset_key, learn_key, callback_end_key = jr.split(key, 4);
       reset: step_key, callback_key = jr.split(reset_key, 2) *)
    Definition learn (n : nat) (k : kpath) : St * CB :=
      let s0 := core_reset (ks (ks k 4 1) 2 0) in
      let c0 := cb_start (cb_reset (ks (ks k 4 1) 2 1)) s0 (ks k 4 0) in
      let '(s, c) := fold_left iteration (split_keys (ks k 4 2) n) (s0, c0) in
      (s, cb_end c s (ks k 4 3)).
  End WithCallback.
End Learn.
