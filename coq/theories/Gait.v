(* C20 — executable / real-number model of
     src/lerax/env/unitree/g1/gait.py       (gait phase, desired foot height)
     src/lerax/env/unitree/g1/randomize.py  (domain randomisation of MJX model fields)
   Definitions only.  Proofs are in GaitProofs.v.

   gait.py, as coded:
     initial_gait_phase()            = [0, pi]
     advance_gait_phase(ph, f, dt)   = fmod(ph + 2*pi*f*dt + pi, 2*pi) - pi      (both feet, same f, dt)
     desired_foot_height(ph, h)      : x = (ph + pi)/(2*pi);
                                       bezier(t) = t**3 + 3*(t**2*(1-t));
                                       where(x <= 0.5, 0 + (h-0)*bezier(2x), h + (0-h)*bezier(2x-1))
   jnp.fmod is C fmod: x - trunc(x/y)*y, the sign follows the dividend.

   Everything is parametric in the half period `hp` (pi in the code) so that the
   same definitions can be run on rationals with an oracle value for pi. *)
From Coq Require Import Reals List ZArith QArith.
Import ListNotations.

(* ------------------------------------------------------------------ *)
(* real-number model                                                   *)
(* ------------------------------------------------------------------ *)
Open Scope R_scope.

(* truncation toward zero, as an integer *)
Definition Rtrunc (x : R) : Z :=
  if Rle_dec 0 x then Int_part x else (- Int_part (- x))%Z.

(* C fmod *)
Definition fmodR (x y : R) : R := x - IZR (Rtrunc (x / y)) * y.

Definition phases := (R * R)%type.          (* (left, right) *)

Section GaitR.
  Variable hp : R.                          (* half period; PI in gait.py *)

  Definition initial_phase : phases := (0, hp).

  Definition phase_increment (f dt : R) : R := 2 * hp * f * dt.

  Definition advance1 (ph f dt : R) : R :=
    fmodR (ph + phase_increment f dt + hp) (2 * hp) - hp.

  Definition advance (p : phases) (f dt : R) : phases :=
    (advance1 (fst p) f dt, advance1 (snd p) f dt).

  (* states after each control step of a history of (frequency, dt) pairs *)
  Fixpoint trajectory (p : phases) (steps : list (R * R)) : list phases :=
    match steps with
    | [] => []
    | (f, dt) :: tl => let p' := advance p f dt in p' :: trajectory p' tl
    end.

  Fixpoint run (p : phases) (steps : list (R * R)) : phases :=
    match steps with
    | [] => p
    | (f, dt) :: tl => run (advance p f dt) tl
    end.

  (* total unwrapped phase travelled along a history *)
  Fixpoint travelled (steps : list (R * R)) : R :=
    match steps with
    | [] => 0
    | (f, dt) :: tl => phase_increment f dt + travelled tl
    end.

  Definition bezier (x : R) : R := x ^ 3 + 3 * (x ^ 2 * (1 - x)).
  Definition cubic_bezier (y_start y_end x : R) : R := y_start + (y_end - y_start) * bezier x.

  Definition foot_height (ph h : R) : R :=
    let x := (ph + hp) / (2 * hp) in
    if Rle_dec x (1 / 2) then cubic_bezier 0 h (2 * x) else cubic_bezier h 0 (2 * x - 1).

  (* predicates of the property *)
  Definition in_range (x : R) : Prop := - hp <= x <= hp.
  Definition in_half_open (x : R) : Prop := - hp <= x < hp.
  (* a = b modulo the full period 2*hp *)
  Definition congr (a b : R) : Prop := exists k : Z, a = b + 2 * hp * IZR k.
  (* the two feet are half a cycle apart *)
  Definition half_apart (p : phases) : Prop := congr (snd p) (fst p + hp).
  Definition coherent (p : phases) : Prop :=
    in_range (fst p) /\ in_range (snd p) /\ half_apart p.
End GaitR.

(* ------------------------------------------------------------------ *)
(* domain randomisation: a record model of the MJX model               *)
(* ------------------------------------------------------------------ *)
(* The four fields randomize.py touches are explicit; `Rest` stands for every
   other field of mjx.Model (318 dataclass fields in the pinned version). *)
Record mjmodel (Rest : Type) := {
  pair_friction    : list (list R);   (* npair x 5 *)
  dof_frictionloss : list R;          (* nv *)
  dof_armature     : list R;          (* nv *)
  body_mass        : list R;          (* nbody *)
  rest             : Rest
}.
Arguments pair_friction {Rest}. Arguments dof_frictionloss {Rest}. Arguments dof_armature {Rest}.
Arguments body_mass {Rest}. Arguments rest {Rest}. Arguments Build_mjmodel {Rest}.

Section Randomize.
  Context {Rest : Type}.
  Notation model := (mjmodel Rest).

  (* x.at[0:n].set(v) : the first n entries (those that exist) become v *)
  Definition set_prefix {A} (n : nat) (v : A) (l : list A) : list A :=
    repeat v (Nat.min n (length l)) ++ skipn n l.

  (* m.at[0:2, 0:2].set(v) *)
  Definition set_block22 (v : R) (m : list (list R)) : list (list R) :=
    map (set_prefix 2 v) (firstn 2 m) ++ skipn 2 m.

  (* x.at[6:].set(y)  (len y = len x - 6) *)
  Definition set_from6 (x y : list R) : list R := firstn 6 x ++ y.

  Fixpoint map2 (f : R -> R -> R) (a b : list R) : list R :=
    match a, b with
    | x :: ta, y :: tb => f x y :: map2 f ta tb
    | _, _ => []
    end.

  (* x.at[i].set(x[i] + d) *)
  Fixpoint add_at (i : nat) (d : R) (l : list R) : list R :=
    match l, i with
    | [], _ => []
    | x :: tl, O => (x + d) :: tl
    | x :: tl, S j => x :: add_at j d tl
    end.

  (* randomize.py:17-38; `friction` is the uniform draw *)
  Definition randomize_friction (m : model) (friction : R) : model :=
    {| pair_friction := set_block22 friction (pair_friction m);
       dof_frictionloss := dof_frictionloss m; dof_armature := dof_armature m;
       body_mass := body_mass m; rest := rest m |}.

  (* randomize.py:41-68; `scales` are the uniform draws *)
  Definition randomize_friction_loss (m : model) (nominal scales : list R) : model :=
    {| pair_friction := pair_friction m;
       dof_frictionloss := set_from6 (dof_frictionloss m) (map2 Rmult nominal scales);
       dof_armature := dof_armature m; body_mass := body_mass m; rest := rest m |}.

  (* randomize.py:71-95 *)
  Definition randomize_armature (m : model) (nominal scales : list R) : model :=
    {| pair_friction := pair_friction m; dof_frictionloss := dof_frictionloss m;
       dof_armature := set_from6 (dof_armature m) (map2 Rmult nominal scales);
       body_mass := body_mass m; rest := rest m |}.

  (* randomize.py:98-132 *)
  Definition randomize_body_mass (m : model) (nominal scales : list R) (torso : nat) (offset : R) : model :=
    {| pair_friction := pair_friction m; dof_frictionloss := dof_frictionloss m;
       dof_armature := dof_armature m;
       body_mass := add_at torso offset (map2 Rmult nominal scales); rest := rest m |}.

  (* all the draws of one randomize_model call *)
  Record draws := {
    d_friction : R; d_floss : list R; d_armature : list R; d_mass : list R; d_torso : R
  }.

  (* randomize.py:135-190 *)
  Definition randomize_model (m : model) (nom_floss nom_arm nom_mass : list R) (torso : nat) (d : draws) : model :=
    let m1 := randomize_friction m (d_friction d) in
    let m2 := randomize_friction_loss m1 nom_floss (d_floss d) in
    let m3 := randomize_armature m2 nom_arm (d_armature d) in
    randomize_body_mass m3 nom_mass (d_mass d) torso (d_torso d).

  (* value lies between the two scaled ends, whichever the sign of the nominal value *)
  Definition between_scaled (nominal lo hi v : R) : Prop :=
    Rmin (nominal * lo) (nominal * hi) <= v <= Rmax (nominal * lo) (nominal * hi).
End Randomize.

Close Scope R_scope.

(* ------------------------------------------------------------------ *)
(* executable rational model (run against lerax with an oracle for pi) *)
(* ------------------------------------------------------------------ *)
Open Scope Q_scope.

Definition Qtrunc (q : Q) : Z := Z.quot (Qnum q) (Zpos (Qden q)).
Definition fmodQ (x y : Q) : Q := Qred (x - inject_Z (Qtrunc (x / y)) * y).

Definition phase_incrementQ (hp f dt : Q) : Q := 2 * hp * f * dt.
Definition advance1Q (hp ph f dt : Q) : Q :=
  Qred (fmodQ (ph + phase_incrementQ hp f dt + hp) (2 * hp) - hp).

Definition bezierQ (x : Q) : Q := x * x * x + 3 * (x * x * (1 - x)).
Definition cubic_bezierQ (ys ye x : Q) : Q := ys + (ye - ys) * bezierQ x.
Definition foot_heightQ (hp ph h : Q) : Q :=
  let x := (ph + hp) / (2 * hp) in
  Qred (if Qle_bool x (1 # 2) then cubic_bezierQ 0 h (2 * x) else cubic_bezierQ h 0 (2 * x - 1)).

Fixpoint runQ (hp : Q) (p : Q * Q) (steps : list (Q * Q)) : Q * Q :=
  match steps with
  | [] => p
  | (f, dt) :: tl => runQ hp (advance1Q hp (fst p) f dt, advance1Q hp (snd p) f dt) tl
  end.

Close Scope Q_scope.
