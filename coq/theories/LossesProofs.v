From Coq Require Import Reals Lra List Bool Psatz.
From Coquelicot Require Import Coquelicot.
From Lerax Require Import Losses.
Import ListNotations.
Open Scope R_scope.

(* ---------- instances over R ---------- *)
Definition surrogateR := surrogate R 1 Rplus Rmult Rminus Rmin Rmax.
Definition ppo_policy_lossR := ppo_policy_loss R 0 1 Rplus Rmult Rminus Rdiv Ropp Rmin Rmax INR.
Definition approx_klR := approx_kl R 0 1 Rplus Rminus Rdiv INR.
Definition meanR := mean R 0 Rplus Rdiv INR.
Definition td_targetR := td_target R 0 1 Rplus Rmult.
Definition sac_vnextR := sac_vnext R Rmult Rminus Rmin.

(* ---------- C08: the clipped surrogate ---------- *)
(* a sample whose ratio left the clip interval in the direction its advantage favours has a constant objective *)
Theorem surrogate_flat_above eps r A : 0 <= eps -> 1 + eps < r -> 0 < A -> surrogateR eps r A = A * (1 + eps).
Proof.
  intros He Hr HA. unfold surrogateR, surrogate, clip.
  rewrite (Rmax_left r (1 - eps)) by lra. rewrite (Rmin_right r (1 + eps)) by lra.
  apply Rmin_right. apply Rmult_le_compat_l; lra.
Qed.

Theorem surrogate_flat_below eps r A : 0 <= eps -> r < 1 - eps -> A < 0 -> surrogateR eps r A = A * (1 - eps).
Proof.
  intros He Hr HA. unfold surrogateR, surrogate, clip.
  rewrite (Rmax_right r (1 - eps)) by lra. rewrite (Rmin_left (1 - eps) (1 + eps)) by lra.
  apply Rmin_right. apply Rmult_le_compat_neg_l; lra.
Qed.

(* hence no policy gradient: the derivative with respect to the ratio is 0 there *)
Theorem no_gradient_above eps r A : 0 <= eps -> 1 + eps < r -> 0 < A ->
  is_derive (fun x => surrogateR eps x A) r 0.
Proof.
  intros He Hr HA.
  apply (is_derive_ext_loc (fun _ => A * (1 + eps))).
  - assert (Hd: 0 < r - (1 + eps)) by lra.
    exists (mkposreal _ Hd). intros y Hy. symmetry. apply surrogate_flat_above; try assumption.
    unfold ball in Hy. cbn in Hy. unfold AbsRing_ball, abs, minus, plus, opp in Hy. cbn in Hy.
    apply Rabs_def2 in Hy. lra.
  - apply @is_derive_const.
Qed.

Theorem no_gradient_below eps r A : 0 <= eps -> r < 1 - eps -> A < 0 ->
  is_derive (fun x => surrogateR eps x A) r 0.
Proof.
  intros He Hr HA.
  apply (is_derive_ext_loc (fun _ => A * (1 - eps))).
  - assert (Hd: 0 < (1 - eps) - r) by lra.
    exists (mkposreal _ Hd). intros y Hy. symmetry. apply surrogate_flat_below; try assumption.
    unfold ball in Hy. cbn in Hy. unfold AbsRing_ball, abs, minus, plus, opp in Hy. cbn in Hy.
    apply Rabs_def2 in Hy. lra.
  - apply @is_derive_const.
Qed.

(* inside the clip interval the surrogate is the plain importance-weighted advantage *)
Theorem surrogate_inside eps r A : 0 <= eps -> 1 - eps <= r <= 1 + eps -> surrogateR eps r A = A * r.
Proof.
  intros He [H1 H2]. unfold surrogateR, surrogate, clip.
  rewrite (Rmax_left r (1 - eps)) by lra. rewrite (Rmin_left r (1 + eps)) by lra. apply Rmin_left. lra.
Qed.

(* on data collected by the current policy every ratio is 1, the approximate KL is 0 and the policy loss is -mean(A) *)
Lemma map2_repeat_one_sub n : map2 R Rminus (repeat 1 n) (repeat 0 n) = repeat 1 n.
Proof. unfold map2. induction n as [|n IH]; cbn; [reflexivity|]. rewrite IH. f_equal. lra. Qed.

Lemma tsum_repeat c n : tsum R 0 Rplus (repeat c n) = INR n * c.
Proof. induction n as [|n IH]; [cbn; lra|]. rewrite S_INR. cbn [repeat tsum fold_right] in *. unfold tsum in IH. rewrite IH. lra. Qed.

Theorem ratio_one_kl_zero n : (0 < n)%nat -> approx_klR (repeat 1 n) (repeat 0 n) = 0.
Proof.
  intros Hn. unfold approx_klR, approx_kl, mean. rewrite map2_repeat_one_sub, tsum_repeat, repeat_length.
  assert (INR n <> 0) by (apply not_0_INR; lia). field. assumption.
Qed.

Theorem ratio_one_policy_loss eps advs : 0 <= eps ->
  ppo_policy_lossR eps (repeat 1 (length advs)) advs = - meanR advs.
Proof.
  intros He. unfold ppo_policy_lossR, ppo_policy_loss, meanR. f_equal. unfold mean. f_equal.
  - f_equal. unfold map2. induction advs as [|a tl IH]; [reflexivity|].
    cbn [length repeat combine map fst snd]. rewrite IH. f_equal.
    change (surrogate R 1 Rplus Rmult Rminus Rmin Rmax eps 1 a) with (surrogateR eps 1 a).
    rewrite surrogate_inside by lra. lra.
  - unfold map2. rewrite map_length, combine_length, repeat_length, Nat.min_id. reflexivity.
Qed.

(* the PPO2 clipped value term is never smaller than the unclipped squared error (it is the larger of the two) *)
Theorem value_clip_is_larger a b : a <= Rmax a b /\ b <= Rmax a b.
Proof. split; [apply Rmax_l | apply Rmax_r]. Qed.

(* ---------- global-norm gradient clipping (optax.clip_by_global_norm) ---------- *)
Definition gnorm (g : list R) : R := sqrt (fold_right (fun x acc => x * x + acc) 0 g).
Definition clip_by_global_norm (c : R) (g : list R) : list R :=
  if Rlt_dec (gnorm g) c then g else map (fun x => x / gnorm g * c) g.

Lemma sumsq_nonneg g : 0 <= fold_right (fun x acc => x * x + acc) 0 g.
Proof. induction g as [|x tl IH]; cbn; [lra|]. nra. Qed.

Lemma sumsq_scale s g : fold_right (fun x acc => x * x + acc) 0 (map (fun x => x * s) g) = s * s * fold_right (fun x acc => x * x + acc) 0 g.
Proof. induction g as [|x tl IH]; cbn; [lra|]. rewrite IH. ring. Qed.

Theorem clip_norm_bounded c g : 0 < c -> gnorm (clip_by_global_norm c g) <= c.
Proof.
  intros Hc. unfold clip_by_global_norm. destruct (Rlt_dec (gnorm g) c) as [H|H]; [lra|].
  assert (Hn: 0 < gnorm g) by lra.
  assert (Hm: map (fun x => x / gnorm g * c) g = map (fun x => x * (c / gnorm g)) g).
  { apply map_ext. intros x. field. lra. }
  rewrite Hm. unfold gnorm at 1. rewrite sumsq_scale.
  rewrite sqrt_mult; [|nra|apply sumsq_nonneg].
  rewrite sqrt_square by (apply Rlt_le, Rdiv_lt_0_compat; lra).
  fold (gnorm g). right. field. lra.
Qed.

(* direction preserved: the clipped gradient is a non-negative multiple of the original *)
Theorem clip_direction c g : 0 < c -> exists s, 0 < s <= 1 /\ clip_by_global_norm c g = map (fun x => x * s) g.
Proof.
  intros Hc. unfold clip_by_global_norm. destruct (Rlt_dec (gnorm g) c) as [H|H].
  - exists 1. split; [lra|]. rewrite <- (map_id g) at 1. apply map_ext. intros; lra.
  - assert (Hn: 0 < gnorm g) by lra. exists (c / gnorm g). split.
    + split; [apply Rdiv_lt_0_compat; lra|]. apply Rle_div_l; lra.
    + apply map_ext. intros x. field. lra.
Qed.

(* ---------- C07: TD targets ---------- *)
(* with the storage rule of C05 (done = terminated or truncated, timeout = truncated and not terminated)
   the code's mask  ~done | timeout  is exactly  not terminated, for all four flag combinations *)
Theorem mask_is_not_terminated term trunc : not_terminal (term || trunc) (trunc && negb term) = negb term.
Proof. destruct term, trunc; reflexivity. Qed.

Theorem target_no_bootstrap_on_termination gamma r v trunc :
  td_targetR gamma r v (true || trunc) (trunc && negb true) = r.
Proof. unfold td_targetR, td_target. rewrite mask_is_not_terminated. cbn. ring. Qed.

Theorem target_bootstraps_through_timeout gamma r v :
  td_targetR gamma r v (false || true) (true && negb false) = r + gamma * v.
Proof. unfold td_targetR, td_target. rewrite mask_is_not_terminated. cbn. ring. Qed.

Theorem target_formula gamma r v term trunc :
  td_targetR gamma r v (term || trunc) (trunc && negb term) = r + gamma * (1 - (if term then 1 else 0)) * v.
Proof. unfold td_targetR, td_target. rewrite mask_is_not_terminated. destruct term; cbn; ring. Qed.

(* what the mask does on flag pairs the collector can never store (done = false, timeout = true): it bootstraps *)
Theorem mask_on_unreachable_pair : not_terminal false true = true.
Proof. reflexivity. Qed.

(* SAC: V' = min of the two target critics minus alpha * log pi *)
Theorem sac_vnext_formula alpha q1 q2 lp : sac_vnextR alpha q1 q2 lp = Rmin q1 q2 - alpha * lp.
Proof. reflexivity. Qed.
