(* C10: training schedule.  base_algorithm.py:208-257 (learn), :75-99 (state.next), on_policy.py:125 /
   off_policy.py:134 (num_iterations), dqn.py:122-131 (hard target copy), sac.py:452-535 (gating),
   sac.py:564-588 (Polyak).  The gradient steps themselves are ARBITRARY functions (Section variables). *)
From Coq Require Import List ZArith QArith Bool Reals.
Import ListNotations.

Definition num_iterations (total N T : Z) : Z := (total / (N * T))%Z.

(* ---------- DQN ---------- *)
Section Dqn.
  Variable X : Type.                      (* network parameters *)
  Variable train : X -> nat -> X.         (* one gradient update at iteration index i: arbitrary *)
  Variable interval : nat.

  Record dqn := { d_count : nat; d_online : X; d_target : X }.
  Definition dqn_reset (x0 : X) : dqn := {| d_count := 0; d_online := x0; d_target := x0 |}.
  (* iteration: train, state.next (count+1), per_iteration: target := online if count % interval == 0 *)
  Definition dqn_iter (s : dqn) : dqn :=
    let o := train (d_online s) (d_count s) in
    let c := S (d_count s) in
    {| d_count := c; d_online := o; d_target := if Nat.eqb (c mod interval) 0 then o else d_target s |}.
  Fixpoint dqn_run (k : nat) (s : dqn) : dqn := match k with 0%nat => s | S k' => dqn_iter (dqn_run k' s) end.
  (* the online parameters after k iterations *)
  Fixpoint online_at (x0 : X) (k : nat) : X := match k with 0%nat => x0 | S k' => train (online_at x0 k') k' end.
End Dqn.

(* ---------- SAC ---------- *)
Section Sac.
  Variable tau : R.
  (* Polyak on one scalar parameter: theta' <- tau*theta + (1-tau)*theta' *)
  Definition polyak (online target : R) : R := (tau * online + (1 - tau) * target)%R.
  (* target after the online values theta_1 .. theta_k (newest last), starting from target0 *)
  Definition polyak_run (target0 : R) (onlines : list R) : R := fold_left (fun t o => polyak o t) onlines target0.
  (* closed form *)
  Fixpoint polyak_closed (target0 : R) (onlines : list R) : R :=
    match onlines with
    | [] => target0
    | o :: tl => polyak_closed (polyak o target0) tl
    end.
  Fixpoint weighted (onlines : list R) : R :=   (* sum_j tau (1-tau)^(k-j) theta_j  for theta_1..theta_k *)
    match onlines with
    | [] => 0%R
    | o :: tl => ((1 - tau) ^ length tl * tau * o + weighted tl)%R
    end.

  Variable A : Type.                     (* actor parameters / temperature *)
  Variable upd : A -> nat -> A.
  Variable freq : nat.
  (* should_update = iteration_count % policy_frequency == 0, evaluated on the pre-increment counter *)
  Definition gated (autotune : bool) (a : A) (count : nat) : A :=
    if autotune && Nat.eqb (count mod freq) 0 then upd a count else a.
  Fixpoint gated_run (autotune : bool) (a0 : A) (k : nat) : A :=
    match k with 0%nat => a0 | S k' => gated autotune (gated_run autotune a0 k') k' end.
End Sac.
