(* Executable model of the lerax spaces (src/lerax/space/*.py) and of the
   Gymnasium conversion (src/lerax/compatibility/gym.py:30-91).
   Definitions only.  Proofs: SpacesProofs.v.

   Numbers are extended rationals (floats are dyadic rationals, +-inf, NaN).
   A candidate value is what Python hands to `contains`: an array-like
   (shape, flat data, dtype tag), a tuple, a dict (OrderedDict or plain), or a
   foreign object (str, None, ...).  Spaces nest arbitrarily. *)
From Coq Require Import String Ascii.
From Coq Require Import List ZArith QArith Qround Qreduction Bool Lia Arith.
Import ListNotations.

Inductive xnum := Fin (q : Q) | PInf | NInf | NaN.
Inductive dtype := DInt | DFloat | DBool.

Inductive value :=
| VArr (sh : list nat) (xs : list xnum) (dt : dtype)
| VTuple (l : list value)
| VDict (ordered : bool) (l : list (string * value))
| VForeign.

Inductive space :=
| Discrete (n : Z)
| Box (sh : list nat) (lo hi : list xnum)
| MultiBinary (sh : list nat)
| MultiDiscrete (nvec : list Z)
| Tuple (l : list space)
| Dict (l : list (string * space)).

(* ---------------------------------------------------------------- lists *)
Section All2.
  Context {A B : Type}.
  Variable f : A -> B -> bool.
  Fixpoint all2b (l1 : list A) (l2 : list B) : bool :=
    match l1, l2 with
    | [], [] => true
    | x :: t1, y :: t2 => f x y && all2b t1 t2
    | _, _ => false
    end.
End All2.

Section All3.
  Context {A B C : Type}.
  Variable f : A -> B -> C -> bool.
  Fixpoint all3b (l1 : list A) (l2 : list B) (l3 : list C) : bool :=
    match l1, l2, l3 with
    | [], [], [] => true
    | x :: t1, y :: t2, z :: t3 => f x y z && all3b t1 t2 t3
    | _, _, _ => false
    end.
  Variable R : A -> B -> C -> Prop.
  Inductive Forall3 : list A -> list B -> list C -> Prop :=
  | Forall3_nil : Forall3 [] [] []
  | Forall3_cons x y z t1 t2 t3 : R x y z -> Forall3 t1 t2 t3 -> Forall3 (x :: t1) (y :: t2) (z :: t3).
End All3.

Section Map2.
  Context {A B C : Type}.
  Variable f : A -> B -> C.
  Fixpoint map2 (l1 : list A) (l2 : list B) : list C :=
    match l1, l2 with
    | x :: t1, y :: t2 => f x y :: map2 t1 t2
    | _, _ => []
    end.
End Map2.

Section Map3.
  Context {A B C D : Type}.
  Variable f : A -> B -> C -> D.
  Fixpoint map3 (l1 : list A) (l2 : list B) (l3 : list C) : list D :=
    match l1, l2, l3 with
    | x :: t1, y :: t2, z :: t3 => f x y z :: map3 t1 t2 t3
    | _, _, _ => []
    end.
End Map3.

Fixpoint lookup {V} (k : string) (l : list (string * V)) : option V :=
  match l with
  | [] => None
  | kv :: t => if String.eqb k (fst kv) then Some (snd kv) else lookup k t
  end.
Definition keys {V} (l : list (string * V)) : list string := map fst l.
Fixpoint nodupb (l : list string) : bool :=
  match l with
  | [] => true
  | k :: t => negb (existsb (String.eqb k) t) && nodupb t
  end.

Inductive opt_sat {A} (P : A -> Prop) : option A -> Prop :=
| opt_sat_some x : P x -> opt_sat P (Some x).

Definition numel (sh : list nat) : nat := fold_right Nat.mul 1%nat sh.
Definition shape_eqb (a b : list nat) : bool := all2b Nat.eqb a b.

(* ---------------------------------------------------------------- numbers *)
(* IEEE comparison extended to rationals: NaN compares false with everything *)
Definition xle (a b : xnum) : Prop :=
  match a, b with
  | NaN, _ => False
  | _, NaN => False
  | NInf, _ => True
  | _, PInf => True
  | Fin p, Fin q => (p <= q)%Q
  | _, _ => False
  end.
Definition xleb (a b : xnum) : bool :=
  match a, b with
  | NaN, _ => false
  | _, NaN => false
  | NInf, _ => true
  | _, PInf => true
  | Fin p, Fin q => Qle_bool p q
  | _, _ => false
  end.

(* an integer index in [0, n) *)
Definition in_range (n : Z) (x : xnum) : Prop :=
  match x with
  | Fin q => exists z : Z, (q == inject_Z z)%Q /\ (0 <= z < n)%Z
  | _ => False
  end.
Definition in_rangeb (n : Z) (x : xnum) : bool :=
  match x with
  | Fin q => Qeq_bool q (inject_Z (Qfloor q)) && (0 <=? Qfloor q)%Z && (Qfloor q <? n)%Z
  | _ => false
  end.

Definition in_box (lo hi x : xnum) : Prop := xle lo x /\ xle x hi.
Definition in_boxb (lo hi x : xnum) : bool := xleb lo x && xleb x hi.

(* ---------------------------------------------------------------- membership: the specification *)
Inductive member : space -> value -> Prop :=
| m_discrete n x dt : in_range n x -> member (Discrete n) (VArr [] [x] dt)
| m_box sh lo hi xs dt : Forall3 in_box lo hi xs -> member (Box sh lo hi) (VArr sh xs dt)
| m_mbinary sh xs dt : length xs = numel sh -> Forall (in_range 2) xs -> member (MultiBinary sh) (VArr sh xs dt)
| m_mdiscrete nv xs dt : Forall2 in_range nv xs -> member (MultiDiscrete nv) (VArr [length nv] xs dt)
| m_tuple ss vs : Forall2 member ss vs -> member (Tuple ss) (VTuple vs)
| m_dict kss kvs :
    length kvs = length kss ->
    Forall (fun ks => opt_sat (member (snd ks)) (lookup (fst ks) kvs)) kss ->
    member (Dict kss) (VDict true kvs).

(* ---------------------------------------------------------------- contains: what the code must compute *)
Fixpoint contains (s : space) (v : value) {struct s} : bool :=
  match s, v with
  | Discrete n, VArr sh xs _ =>
      match sh, xs with
      | [], [x] => in_rangeb n x
      | _, _ => false
      end
  | Box sh lo hi, VArr sh' xs _ => shape_eqb sh' sh && all3b in_boxb lo hi xs
  | MultiBinary sh, VArr sh' xs _ => shape_eqb sh' sh && Nat.eqb (length xs) (numel sh) && forallb (in_rangeb 2) xs
  | MultiDiscrete nv, VArr sh' xs _ => shape_eqb sh' [length nv] && all2b in_rangeb nv xs
  | Tuple ss, VTuple vs => all2b contains ss vs
  | Dict kss, VDict true kvs =>
      Nat.eqb (length kvs) (length kss) &&
      forallb (fun ks => match lookup (fst ks) kvs with Some v => contains (snd ks) v | None => false end) kss
  | _, _ => false
  end.

(* ---------------------------------------------------------------- well-formed constructions *)
Definition box_okb (lo hi : xnum) : bool :=
  match lo, hi with
  | NaN, _ => false
  | _, NaN => false
  | PInf, _ => false
  | _, NInf => false
  | _, _ => xleb lo hi
  end.
Definition is_nil {A} (l : list A) : bool := match l with [] => true | _ => false end.

Fixpoint wfb (s : space) : bool :=
  match s with
  | Discrete n => (0 <? n)%Z
  | Box sh lo hi => Nat.eqb (length lo) (numel sh) && all2b box_okb lo hi
  | MultiBinary sh => true
  | MultiDiscrete nv => negb (is_nil nv) && forallb (fun n => (0 <? n)%Z) nv
  | Tuple l => forallb wfb l
  | Dict l => nodupb (keys l) && forallb (fun ks => wfb (snd ks)) l
  end.

(* ---------------------------------------------------------------- flattening *)
Fixpoint flat_size (s : space) : nat :=
  match s with
  | Discrete _ => 1%nat
  | Box sh _ _ => numel sh
  | MultiBinary sh => numel sh
  | MultiDiscrete nv => length nv
  | Tuple l => list_sum (map flat_size l)
  | Dict l => list_sum (map (fun ks => flat_size (snd ks)) l)
  end.

Fixpoint flatten (s : space) (v : value) {struct s} : list xnum :=
  match s, v with
  | Tuple ss, VTuple vs => concat (map2 flatten ss vs)
  | Dict kss, VDict _ kvs =>
      concat (map (fun ks => match lookup (fst ks) kvs with Some v => flatten (snd ks) v | None => [] end) kss)
  | Tuple _, _ => []
  | Dict _, _ => []
  | _, VArr _ xs _ => xs
  | _, _ => []
  end.

(* the sample up to its dtype tags and the order of its dict entries *)
Fixpoint norm (s : space) (v : value) {struct s} : value :=
  match s, v with
  | Tuple ss, VTuple vs => VTuple (map2 norm ss vs)
  | Dict kss, VDict _ kvs =>
      VDict true (map (fun ks => (fst ks, match lookup (fst ks) kvs with Some v => norm (snd ks) v | None => VForeign end)) kss)
  | Tuple _, _ => v
  | Dict _, _ => v
  | _, VArr sh xs _ => VArr sh xs DFloat
  | _, _ => v
  end.

(* ---------------------------------------------------------------- canonical element *)
Definition canon_comp (lo hi : xnum) : xnum :=
  match lo, hi with
  | Fin a, Fin b => Fin ((a + b) * (1 # 2))
  | Fin a, _ => Fin a
  | _, Fin b => Fin b
  | _, _ => Fin 0
  end.

Fixpoint canonical (s : space) : value :=
  match s with
  | Discrete _ => VArr [] [Fin 0] DInt
  | Box sh lo hi => VArr sh (map2 canon_comp lo hi) DFloat
  | MultiBinary sh => VArr sh (repeat (Fin 0) (numel sh)) DBool
  | MultiDiscrete nv => VArr [length nv] (map (fun _ => Fin 0) nv) DInt
  | Tuple l => VTuple (map canonical l)
  | Dict l => VDict true (map (fun ks => (fst ks, canonical (snd ks))) l)
  end.

(* ---------------------------------------------------------------- sampling from abstract primitive draws *)
(* one Box component consumes a uniform, a normal and two exponential draws (box.py:65-100) *)
Record bdraw := { d_u : Q; d_g : Q; d_eu : Q; d_el : Q }.
Definition bdraw_ok (d : bdraw) : Prop := (0 <= d_u d)%Q /\ (d_u d < 1)%Q /\ (0 <= d_eu d)%Q /\ (0 <= d_el d)%Q.

Inductive draws :=
| DIdx (i : nat)            (* jr.choice *)
| DBox (l : list bdraw)
| DBits (l : list bool)     (* jr.bernoulli *)
| DInts (l : list Z)        (* jr.randint *)
| DSub (l : list draws).    (* split keys *)

(* isfinite-driven selection: bounded -> uniform in [lo,hi); one-sided -> bound -+ exponential; free -> normal *)
Definition box_comp (lo hi : xnum) (d : bdraw) : xnum :=
  match lo, hi with
  | Fin a, Fin b => Fin (a + d_u d * (b - a))
  | Fin a, _ => Fin (a + d_el d)
  | _, Fin b => Fin (b - d_eu d)
  | _, _ => Fin (d_g d)
  end.

Fixpoint sample (s : space) (d : draws) {struct s} : value :=
  match s, d with
  | Discrete n, DIdx i => VArr [] [Fin (inject_Z (Z.of_nat i))] DInt
  | Box sh lo hi, DBox l => VArr sh (map3 box_comp lo hi l) DFloat
  | MultiBinary sh, DBits l => VArr sh (map (fun b : bool => Fin (if b then 1 else 0)) l) DBool
  | MultiDiscrete nv, DInts l => VArr [length nv] (map (fun z => Fin (inject_Z z)) l) DInt
  | Tuple ss, DSub ds => VTuple (map2 sample ss ds)
  | Dict kss, DSub ds => VDict true (map2 (fun ks d => (fst ks, sample (snd ks) d)) kss ds)
  | _, _ => VForeign
  end.

(* interface of the primitive samplers *)
Inductive draws_ok : space -> draws -> Prop :=
| ok_discrete n i : (Z.of_nat i < n)%Z -> draws_ok (Discrete n) (DIdx i)
| ok_box sh lo hi l : length l = length lo -> Forall bdraw_ok l -> draws_ok (Box sh lo hi) (DBox l)
| ok_bits sh l : length l = numel sh -> draws_ok (MultiBinary sh) (DBits l)
| ok_ints nv l : Forall2 (fun n z => (0 <= z < n)%Z) nv l -> draws_ok (MultiDiscrete nv) (DInts l)
| ok_tuple ss ds : Forall2 draws_ok ss ds -> draws_ok (Tuple ss) (DSub ds)
| ok_dict kss ds : Forall2 (fun ks d => draws_ok (snd ks) d) kss ds -> draws_ok (Dict kss) (DSub ds).

(* Discrete.sample(mask): jr.choice(key, n, p = mask / sum mask) = inverse CDF:
   r = total * (1 - u), u uniform in [0,1), index = first i with cumsum_i >= r
   (jax/_src/random: cumsum + searchsorted side='left') *)
Fixpoint choice_cum (w : list Q) (r : Q) : nat :=
  match w with
  | [] => 0%nat
  | x :: t => if Qle_bool r x then 0%nat else S (choice_cum t (r - x))
  end.
Definition qsum (w : list Q) : Q := fold_right Qplus 0 w.
Definition mask_weights (m : list bool) : list Q := map (fun b : bool => if b then 1 else 0) m.
Definition sample_masked (m : list bool) (u : Q) : value :=
  let w := mask_weights m in
  VArr [] [Fin (inject_Z (Z.of_nat (choice_cum w (qsum w * (1 - u)))))] DInt.

(* ---------------------------------------------------------------- equality and hashing *)
Definition xsame (a b : xnum) : Prop :=
  match a, b with
  | Fin p, Fin q => (p == q)%Q
  | PInf, PInf => True
  | NInf, NInf => True
  | NaN, NaN => True
  | _, _ => False
  end.
Definition xeqb (a b : xnum) : bool :=
  match a, b with
  | Fin p, Fin q => Qeq_bool p q
  | PInf, PInf => true
  | NInf, NInf => true
  | NaN, NaN => true
  | _, _ => false
  end.

(* specification: same structure, same numbers; a Dict is a finite map (entry order does not count) *)
Inductive space_same : space -> space -> Prop :=
| ss_discrete n : space_same (Discrete n) (Discrete n)
| ss_box sh lo hi lo' hi' : Forall2 xsame lo lo' -> Forall2 xsame hi hi' -> space_same (Box sh lo hi) (Box sh lo' hi')
| ss_mbinary sh : space_same (MultiBinary sh) (MultiBinary sh)
| ss_mdiscrete nv : space_same (MultiDiscrete nv) (MultiDiscrete nv)
| ss_tuple l l' : Forall2 space_same l l' -> space_same (Tuple l) (Tuple l')
| ss_dict l l' :
    length l = length l' ->
    Forall (fun ks => opt_sat (space_same (snd ks)) (lookup (fst ks) l')) l ->
    space_same (Dict l) (Dict l').

Fixpoint space_eqb (a b : space) {struct a} : bool :=
  match a, b with
  | Discrete n, Discrete m => (n =? m)%Z
  | Box sh lo hi, Box sh' lo' hi' => shape_eqb sh sh' && all2b xeqb lo lo' && all2b xeqb hi hi'
  | MultiBinary sh, MultiBinary sh' => shape_eqb sh sh'
  | MultiDiscrete nv, MultiDiscrete nv' => all2b Z.eqb nv nv'
  | Tuple l, Tuple l' => all2b space_eqb l l'
  | Dict l, Dict l' =>
      Nat.eqb (length l) (length l') &&
      forallb (fun ks => match lookup (fst ks) l' with Some s' => space_eqb (snd ks) s' | None => false end) l
  | _, _ => false
  end.

(* entry order matters here: used to compare a conversion result literally *)
Fixpoint space_eqb_strict (a b : space) {struct a} : bool :=
  match a, b with
  | Tuple l, Tuple l' => all2b space_eqb_strict l l'
  | Dict l, Dict l' =>
      all2b (fun ks ks' => String.eqb (fst ks) (fst ks') && space_eqb_strict (snd ks) (snd ks')) l l'
  | Tuple _, _ => false
  | Dict _, _ => false
  | _, _ => space_eqb a b
  end.

Definition xhash (x : xnum) : Z :=
  match x with
  | Fin q => let r := Qred q in (4 + 7 * Qnum r + 13 * Zpos (Qden r))%Z
  | PInf => 1%Z
  | NInf => 2%Z
  | NaN => 3%Z
  end.
Fixpoint str_code (s : string) : Z :=
  match s with
  | EmptyString => 1%Z
  | String c t => (Z.of_N (N_of_ascii c) + 257 * str_code t)%Z
  end.
Definition hlist (l : list Z) : Z := fold_right (fun h acc => h + 31 * acc)%Z 7%Z l.
Definition hsum (l : list Z) : Z := fold_right Z.add 0%Z l.

(* a hash key: order-sensitive for sequences, order-insensitive over Dict entries *)
Fixpoint hash_key (s : space) : Z :=
  match s with
  | Discrete n => (1 + 11 * n)%Z
  | Box sh lo hi => (2 + 11 * hlist [hlist (map Z.of_nat sh); hlist (map xhash lo); hlist (map xhash hi)])%Z
  | MultiBinary sh => (3 + 11 * hlist (map Z.of_nat sh))%Z
  | MultiDiscrete nv => (4 + 11 * hlist nv)%Z
  | Tuple l => (5 + 11 * hlist (map hash_key l))%Z
  | Dict l => (6 + 11 * hsum (map (fun ks => str_code (fst ks) * 1000003 + hash_key (snd ks)) l))%Z
  end.

(* ---------------------------------------------------------------- Gymnasium image *)
Inductive gspace :=
| GDiscrete (n : Z)
| GBox (sh : list nat) (lo hi : list xnum)
| GMultiBinary (sh : list nat)
| GMultiDiscrete (nvec : list Z)
| GTuple (l : list gspace)
| GDict (l : list (string * gspace)).

Section Sort.
  Context {V : Type}.
  Fixpoint insert_by_key (x : string * V) (l : list (string * V)) : list (string * V) :=
    match l with
    | [] => [x]
    | y :: t => if String.leb (fst x) (fst y) then x :: l else y :: insert_by_key x t
    end.
  Definition sort_by_key (l : list (string * V)) : list (string * V) := fold_right insert_by_key [] l.
End Sort.

(* lerax_to_gym_space: gymnasium.spaces.Dict(<plain dict>) sorts its keys *)
Fixpoint to_gym (s : space) : gspace :=
  match s with
  | Discrete n => GDiscrete n
  | Box sh lo hi => GBox sh lo hi
  | MultiBinary sh => GMultiBinary sh
  | MultiDiscrete nv => GMultiDiscrete nv
  | Tuple l => GTuple (map to_gym l)
  | Dict l => GDict (sort_by_key (map (fun ks => (fst ks, to_gym (snd ks))) l))
  end.

(* gym_space_to_lerax_space: keeps Gymnasium's order *)
Fixpoint of_gym (g : gspace) : space :=
  match g with
  | GDiscrete n => Discrete n
  | GBox sh lo hi => Box sh lo hi
  | GMultiBinary sh => MultiBinary sh
  | GMultiDiscrete nv => MultiDiscrete nv
  | GTuple l => Tuple (map of_gym l)
  | GDict l => Dict (map (fun kg => (fst kg, of_gym (snd kg))) l)
  end.

Definition gym_roundtrip (s : space) : space := of_gym (to_gym s).
