(* C03 — Generalised Advantage Estimation.
   Model of lerax/buffer/rollout.py:63-92 (compute_returns_and_advantages),
   written once over an abstract carrier and instantiated at R (theorems) and
   at Q (the executable model run against the implementation). *)
From Coq Require Import List Bool.
Import ListNotations.

Section Carrier.
  Variable T : Type.
  Variables (zero one : T) (add mul sub : T -> T -> T).

  Record row := { rw : T; vl : T; dn : bool }.

  (* next_non_terminals = 1.0 - dones.astype(float) *)
  Definition nt (b : bool) : T := if b then zero else one.

  (* next_values = concatenate([values[1:], last_value[None]]) *)
  Fixpoint next_values (xs : list row) (last : T) : list T :=
    match xs with
    | [] => []
    | _ :: tl => match tl with [] => [last] | y :: _ => vl y :: next_values tl last end
    end.

  (* deltas = rewards + gamma * next_values * next_non_terminals - values *)
  Definition deltas (g : T) (xs : list row) (last : T) : list T :=
    map (fun p => sub (add (rw (fst p)) (mul (mul g (snd p)) (nt (dn (fst p))))) (vl (fst p)))
        (combine xs (next_values xs last)).

  (* discounts = gamma * gae_lambda * next_non_terminals *)
  Definition discounts (g l : T) (xs : list row) : list T :=
    map (fun x => mul (mul g l) (nt (dn x))) xs.

  (* lax.scan(scan_fn, 0.0, (deltas, discounts), reverse=True):
     advantage = delta + discount * carry ; return advantage, advantage *)
  Definition scan_rev (ds cs : list T) : list T :=
    snd (fold_right (fun dc acc => let a := add (fst dc) (mul (snd dc) (fst acc)) in (a, a :: snd acc))
                    (zero, []) (combine ds cs)).

  Definition gae_code (g l last : T) (xs : list row) : list T :=
    scan_rev (deltas g xs last) (discounts g l xs).

  (* returns = advantages + values *)
  Definition returns_code (advs : list T) (xs : list row) : list T :=
    map (fun p => add (fst p) (vl (snd p))) (combine advs xs).

  (* The property's own recursion:
       A_t = delta_t + gamma*lambda*(1-done_t)*A_{t+1}
       delta_t = r_t + gamma*(1-done_t)*V_{t+1} - V_t,   V_T = last,  A_T = 0 *)
  Fixpoint gae_spec (g l last : T) (xs : list row) : list T :=
    match xs with
    | [] => []
    | x :: tl =>
      let rest := gae_spec g l last tl in
      let vnext := match tl with [] => last | y :: _ => vl y end in
      let anext := match rest with [] => zero | a :: _ => a end in
      add (sub (add (rw x) (mul (mul g (nt (dn x))) vnext)) (vl x))
          (mul (mul (mul g l) (nt (dn x))) anext) :: rest
    end.

  (* With N parallel environments the estimator is vmapped: one stream each. *)
  Definition gae_vec (g l : T) (streams : list (list row * T)) : list (list T) :=
    map (fun s => gae_code g l (snd s) (fst s)) streams.
End Carrier.

Arguments Build_row {T}.
Arguments rw {T}. Arguments vl {T}. Arguments dn {T}.

Definition map_row {A B} (f : A -> B) (x : row A) : row B :=
  Build_row (f (rw x)) (f (vl x)) (dn x).
