From Coq Require Import Reals Lra List Bool QArith Qreals Lia.
From Lerax Require Import Common Gae.
Import ListNotations.
Open Scope R_scope.

(* ---------- instances ---------- *)
Definition rowR := row R.
Definition gaeR := gae_code R 0 1 Rplus Rmult Rminus.
Definition specR := gae_spec R 0 1 Rplus Rmult Rminus.
Definition retR := returns_code R Rplus.
Definition ntR := nt R 0 1.

Definition gaeQ := gae_code Q 0%Q 1%Q Qplus Qmult Qminus.
Definition specQ := gae_spec Q 0%Q 1%Q Qplus Qmult Qminus.
Definition retQ := returns_code Q Qplus.

(* ---------- the code-shaped reverse scan is the GAE recursion ---------- *)
Lemma next_values_length xs last :
  length (next_values R xs last) = length xs.
Proof. induction xs as [|x [|y tl] IH]; simpl in *; auto. Qed.

Lemma gaeR_cons g l last x tl :
  gaeR g l last (x :: tl) =
  let rest := gaeR g l last tl in
  let vnext := match tl with [] => last | y :: _ => vl y end in
  let anext := match rest with [] => 0 | a :: _ => a end in
  (rw x + g * vnext * ntR (dn x) - vl x + g * l * ntR (dn x) * anext) :: rest.
Proof.
  unfold gaeR, gae_code, scan_rev, deltas, discounts.
  destruct tl as [|y tl]; cbn [next_values map combine fold_right snd fst].
  - reflexivity.
  - set (F := fold_right _ _ _). destruct F as [carry out] eqn:E. cbn [fst snd].
    assert (match out with [] => 0 | a :: _ => a end = carry) as ->.
    { subst F. cbn [next_values map combine fold_right] in E.
      destruct tl as [|z tl']; cbn in E.
      - inversion E; reflexivity.
      - match type of E with (?a, ?a :: _) = _ => inversion E; reflexivity end. }
    reflexivity.
Qed.

Theorem gae_eq_spec g l last xs : gaeR g l last xs = specR g l last xs.
Proof.
  induction xs as [|x tl IH]; [reflexivity|].
  rewrite gaeR_cons. unfold specR in *. cbn [gae_spec]. rewrite <- IH. cbv zeta.
  f_equal. unfold ntR. ring.
Qed.

(* explicit statement of the recursion in the words of the property *)
Definition nth0 (l : list R) (t : nat) := nth t l 0.
Theorem gae_recursion g l last xs t x :
  nth_error xs t = Some x ->
  let A := specR g l last xs in
  let Vnext := match nth_error xs (S t) with Some y => vl y | None => last end in
  let delta := rw x + g * (1 - (if dn x then 1 else 0)) * Vnext - vl x in
  nth0 A t = delta + g * l * (1 - (if dn x then 1 else 0)) * nth0 A (S t).
Proof.
  revert t x. induction xs as [|y tl IH]; intros t x Hx; [destruct t; discriminate|].
  destruct t as [|t].
  - cbn in Hx. inversion Hx; subst y. cbv zeta. unfold specR, nth0. cbn [gae_spec nth nth_error].
    destruct tl as [|y tl']; cbn [gae_spec nth nth_error]; unfold nt; destruct (dn x); ring.
  - cbn [nth_error] in Hx. specialize (IH t x Hx). cbv zeta in *.
    unfold specR, nth0 in *. cbn [gae_spec nth nth_error]. exact IH.
Qed.

Lemma spec_length g l last xs : length (specR g l last xs) = length xs.
Proof. unfold specR. induction xs as [|x tl IH]; cbn [gae_spec length]; [reflexivity|]. rewrite IH. reflexivity. Qed.

(* A_T = 0 : beyond the rollout the advantage is the scan's initial carry *)
Lemma nth0_beyond g l last xs : nth0 (specR g l last xs) (length xs) = 0.
Proof. unfold nth0. apply nth_overflow. rewrite spec_length. lia. Qed.

(* returns = advantages + values *)
Theorem returns_eq g l last xs t x :
  nth_error xs t = Some x ->
  nth t (retR (gaeR g l last xs) xs) 0 = nth t (specR g l last xs) 0 + vl x.
Proof.
  rewrite gae_eq_spec. unfold retR, returns_code.
  revert t. generalize (spec_length g l last xs). generalize (specR g l last xs) as A.
  induction xs as [|y tl IH]; intros A HA t Hx; [destruct t; discriminate|].
  destruct A as [|a A]; [discriminate|]. destruct t as [|t]; cbn in *.
  - inversion Hx; subst. reflexivity.
  - apply IH; [lia | assumption].
Qed.

(* ---------- nothing after an episode end influences estimates before it ---------- *)
Theorem cut_at_done g l last last' pre x post post' :
  dn x = true ->
  firstn (S (length pre)) (specR g l last (pre ++ x :: post)) =
  firstn (S (length pre)) (specR g l last' (pre ++ x :: post')).
Proof.
  intros Hd. unfold specR. induction pre as [|p pre IH].
  - cbn. rewrite Hd. cbn. f_equal. ring.
  - cbn [app length gae_spec]. cbn [firstn] in *.
    remember (S (length pre)) as n.
    assert (Hh: forall post last, match pre ++ x :: post with [] => last | y :: _ => vl y end
                = match pre ++ x :: nil with [] => 0 | y :: _ => vl y end)
      by (intros; destruct pre; reflexivity).
    rewrite (Hh post last), (Hh post' last').
    assert (Ha: match gae_spec R 0 1 Rplus Rmult Rminus g l last (pre ++ x :: post) with [] => 0 | a :: _ => a end =
                match gae_spec R 0 1 Rplus Rmult Rminus g l last' (pre ++ x :: post') with [] => 0 | a :: _ => a end).
    { subst n. cbn [firstn] in IH.
      destruct (gae_spec R 0 1 Rplus Rmult Rminus g l last (pre ++ x :: post)) eqn:E1,
               (gae_spec R 0 1 Rplus Rmult Rminus g l last' (pre ++ x :: post')) eqn:E2;
        cbn in IH; try congruence; try (destruct pre; discriminate). }
    rewrite Ha. f_equal. exact IH.
Qed.

(* ---------- lambda = 1 : discounted Monte-Carlo returns ---------- *)
(* G_t = r_t + gamma (1-d_t) G_{t+1},  G_T = last ;  A_t = G_t - V_t *)
Fixpoint mc_return (g last : R) (xs : list rowR) : list R :=
  match xs with
  | [] => []
  | x :: tl =>
    let rest := mc_return g last tl in
    let gnext := match rest with [] => last | a :: _ => a end in
    rw x + g * ntR (dn x) * gnext :: rest
  end.

Lemma mc_length g last xs : length (mc_return g last xs) = length xs.
Proof. induction xs; cbn; congruence. Qed.

Theorem lambda1_montecarlo g last xs :
  specR g 1 last xs = map (fun p => fst p - vl (snd p)) (combine (mc_return g last xs) xs).
Proof.
  unfold specR. induction xs as [|x tl IH]; [reflexivity|].
  cbn [gae_spec mc_return combine map fst snd]. rewrite IH. f_equal.
  destruct tl as [|y tl']; cbn [mc_return combine map fst snd gae_spec].
  - unfold ntR. ring.
  - unfold ntR. ring.
Qed.

(* ---------- lambda = 0 : one-step TD errors ---------- *)
Theorem lambda0_td g last xs :
  specR g 0 last xs =
  map (fun p => rw (fst p) + g * ntR (dn (fst p)) * snd p - vl (fst p))
      (combine xs (next_values R xs last)).
Proof.
  unfold specR. induction xs as [|x tl IH]; [reflexivity|].
  cbn [gae_spec]. rewrite IH. destruct tl as [|y tl']; cbn; f_equal; unfold ntR; ring.
Qed.

(* ---------- parallel environments: each stream on its own ---------- *)
Theorem per_env g l streams i xs last :
  nth_error streams i = Some (xs, last) ->
  nth_error (gae_vec R 0 1 Rplus Rmult Rminus g l streams) i = Some (specR g l last xs).
Proof.
  intros H. unfold gae_vec. rewrite nth_error_map, H. cbn. f_equal. apply gae_eq_spec.
Qed.

(* ---------- the executable Q model is the restriction of the R model ---------- *)
Section Morphism.
  Variables (A B : Type) (phi : A -> B).
  Variables (zA oA : A) (addA mulA subA : A -> A -> A).
  Variables (zB oB : B) (addB mulB subB : B -> B -> B).
  Hypothesis phi0 : phi zA = zB.
  Hypothesis phi1 : phi oA = oB.
  Hypothesis phi_add : forall x y, phi (addA x y) = addB (phi x) (phi y).
  Hypothesis phi_mul : forall x y, phi (mulA x y) = mulB (phi x) (phi y).
  Hypothesis phi_sub : forall x y, phi (subA x y) = subB (phi x) (phi y).

  Lemma spec_morph g l last xs :
    map phi (gae_spec A zA oA addA mulA subA g l last xs) =
    gae_spec B zB oB addB mulB subB (phi g) (phi l) (phi last) (map (map_row phi) xs).
  Proof.
    induction xs as [|x tl IH]; [reflexivity|].
    cbn [gae_spec map]. rewrite <- IH. f_equal.
    rewrite phi_add, phi_sub, phi_add, !phi_mul. cbn [map_row rw vl dn].
    assert (Hnt: forall b, phi (nt A zA oA b) = nt B zB oB b) by (intros []; assumption).
    rewrite Hnt. f_equal; [f_equal; f_equal; f_equal|f_equal].
    - destruct tl; reflexivity.
    - destruct (gae_spec A zA oA addA mulA subA g l last tl); cbn; [assumption|reflexivity].
  Qed.

  Lemma next_values_morph xs last :
    map phi (next_values A xs last) = next_values B (map (map_row phi) xs) (phi last).
  Proof.
    induction xs as [|x [|y tl] IH]; [reflexivity|reflexivity|].
    change (next_values A (x :: y :: tl) last) with (vl y :: next_values A (y :: tl) last).
    cbn [map]. rewrite IH. reflexivity.
  Qed.

  Lemma nt_morph b : phi (nt A zA oA b) = nt B zB oB b.
  Proof. destruct b; assumption. Qed.

  Lemma scan_rev_morph ds cs :
    map phi (scan_rev A zA addA mulA ds cs) = scan_rev B zB addB mulB (map phi ds) (map phi cs).
  Proof.
    unfold scan_rev.
    assert (G: forall ds cs,
      let r := fold_right (fun dc acc => let a := addA (fst dc) (mulA (snd dc) (fst acc)) in (a, a :: snd acc))
                          (zA, []) (combine ds cs) in
      fold_right (fun dc acc => let a := addB (fst dc) (mulB (snd dc) (fst acc)) in (a, a :: snd acc))
                 (zB, []) (combine (map phi ds) (map phi cs)) = (phi (fst r), map phi (snd r))).
    { induction ds0 as [|d ds0 IH]; intros [|c cs0]; cbn [combine map fold_right fst snd]; try (rewrite phi0; reflexivity).
      cbv zeta in *. rewrite IH. cbn [fst snd]. rewrite phi_add, phi_mul. reflexivity. }
    specialize (G ds cs). cbv zeta in G. rewrite G. reflexivity.
  Qed.

  Lemma code_morph g l last xs :
    map phi (gae_code A zA oA addA mulA subA g l last xs) =
    gae_code B zB oB addB mulB subB (phi g) (phi l) (phi last) (map (map_row phi) xs).
  Proof.
    unfold gae_code. rewrite scan_rev_morph. f_equal.
    - unfold deltas. rewrite <- next_values_morph.
      generalize (next_values A xs last) as nv. induction xs as [|x tl IH]; intros [|v nv]; try reflexivity.
      cbn [map combine fst snd]. rewrite IH. f_equal.
      rewrite phi_sub, phi_add, !phi_mul, nt_morph. reflexivity.
    - unfold discounts. rewrite !map_map. apply map_ext. intros x.
      rewrite !phi_mul, nt_morph. reflexivity.
  Qed.
End Morphism.

Theorem specQ_restricts_specR g l last xs :
  map Q2R (specQ g l last xs) = specR (Q2R g) (Q2R l) (Q2R last) (map (map_row Q2R) xs).
Proof.
  apply spec_morph.
  - apply RMicromega.Q2R_0.
  - apply RMicromega.Q2R_1.
  - apply Q2R_plus.
  - apply Q2R_mult.
  - apply Q2R_minus.
Qed.

Theorem gaeQ_restricts_gaeR g l last xs :
  map Q2R (gaeQ g l last xs) = gaeR (Q2R g) (Q2R l) (Q2R last) (map (map_row Q2R) xs).
Proof.
  apply code_morph.
  - apply RMicromega.Q2R_0.
  - apply RMicromega.Q2R_1.
  - apply Q2R_plus.
  - apply Q2R_mult.
  - apply Q2R_minus.
Qed.

(* what the correspondence check establishes about the implementation, lifted:
   whenever the executable model reproduces the implementation's advantages on
   rational data, those advantages are the GAE recursion over the reals *)
Corollary gaeQ_is_spec g l last xs :
  map Q2R (gaeQ g l last xs) = specR (Q2R g) (Q2R l) (Q2R last) (map (map_row Q2R) xs).
Proof. rewrite gaeQ_restricts_gaeR. apply gae_eq_spec. Qed.

(* non-vacuity: a rollout with an episode end strictly inside, lambda, gamma = 1/2 *)
Example spec_example :
  Qeqb_list
    (specQ (1#2) (1#2) 4 [Build_row 1 2 false; Build_row 3 1 true; Build_row (-1) 0 false]%Q)
    (gaeQ (1#2) (1#2) 4 [Build_row 1 2 false; Build_row 3 1 true; Build_row (-1) 0 false]%Q) = true.
Proof. vm_compute. reflexivity. Qed.
