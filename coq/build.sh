#!/bin/bash
# full .vo build of the Coq development (never -vos)
set -e
cd "$(dirname "$0")"
{ cat _CoqProject.head; ls theories/*.v; ls props/*.v 2>/dev/null || true; } > _CoqProject
coq_makefile -f _CoqProject -o Makefile >/dev/null
timeout 1800 make -j16 "$@"
