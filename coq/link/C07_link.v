(* C07 link: the TD-target code REGENERATED from lerax/algorithm/dqn.py (DQN.dqn_loss) and lerax/algorithm/sac.py
   (compute_target inside SAC.sac_train) equals the hand-written kernels of Losses.v, about which props/C07.v proves
   "bootstrap through truncation, never through termination".  The link also pins WHICH network sees WHICH inputs:
     DQN  y = r + gamma * Q_target(s', argmax_a Q_online(s', a)) * not_terminal, compared with Q_online(s, a_taken);
     SAC  y = r + gamma * (min(Q1', Q2')(s', a') - alpha * log pi(a'|s')) * not_terminal, a' drawn at s' with the per-sample key. *)
From Coq Require Import Reals List ZArith Bool Lra.
From Lerax Require Import KBase KBaseProofs Losses LossesProofs.
From LeraxGen Require Import GenK_C07.
Import ListNotations.
Open Scope R_scope.

Section Sac.
  Variables Ob Act Key : Type.
  Variable pi_act : Ob -> Key -> Act.
  Variable pi_logp : Ob -> Key -> R.
  Variables q1t q2t : Ob -> Act -> R.

  Theorem gen_sac_target_eq_model gamma alpha o r done timeout key :
    gen_sac_target Ob Act Key pi_act pi_logp q1t q2t gamma alpha o r done timeout key =
    let a' := pi_act o key in
    td_targetR gamma r (sac_vnextR alpha (q1t o a') (q2t o a') (pi_logp o key)) done timeout.
  Proof.
    unfold gen_sac_target, td_targetR, td_target, sac_vnextR, sac_vnext, b2t, not_terminal, b2R. cbv zeta.
    destruct done, timeout; cbn; ring.
  Qed.
End Sac.

Section Dqn.
  Variables Pol Xs : Type.
  Variables online target : Pol.
  Variable qv : Pol -> list Xs -> list Xs -> list (list R).

  (* Q(s, a) of the action taken / of the online network's greedy action under the target network *)
  Definition q_taken (rows : list (list R)) (acts : list Z) : list R := kzip2 (fun row a => nth (Z.to_nat a) row 0) rows acts.
  Definition q_double (trows orows : list (list R)) : list R := kzip2 (fun trow orow => nth (Z.to_nat (kargmax orow)) trow 0) trows orows.

  (* the vector of TD targets *)
  Lemma dqn_targets gamma rew (T O : list (list R)) d t :
    kzip5 (fun e0 e1 e2 e3 e4 => e0 + gamma * nth (Z.to_nat (kargmax e2)) e1 0 * b2R (orb (negb e3) e4)) rew T O d t =
    map (fun p => td_targetR gamma (fst (fst p)) (snd (fst p)) (fst (snd p)) (snd (snd p)))
        (combine (combine rew (q_double T O)) (combine d t)).
  Proof.
    revert T O d t.
    induction rew as [|r rew IH]; intros T O d t; [reflexivity|].
    destruct T as [|tr T]; [reflexivity|].
    destruct O as [|orow O]; [reflexivity|].
    destruct d as [|dd d]; [reflexivity|].
    destruct t as [|tt t]; [reflexivity|].
    cbn [kzip5 kzip2 q_double combine map fst snd].
    match goal with |- ?x :: ?l = ?y :: ?l' => assert (Hh : x = y); [|rewrite Hh; apply f_equal; apply IH] end.
    unfold td_targetR, td_target, b2t, not_terminal, b2R. destruct dd, tt; cbn; ring.
  Qed.

  Lemma sq_diff_lists (a b : list R) :
    kzip2 (fun x y => (x - y) * (x - y)) a b = map (sq R Rmult) (map2 R Rminus a b).
  Proof.
    rewrite kzip2_combine. unfold map2. rewrite map_map. reflexivity.
  Qed.

  Theorem gen_dqn_loss_eq_model states obs next_states next_obs actions rewards dones timeouts gamma :
    gen_dqn_loss Pol Xs online target qv states obs next_states next_obs actions rewards dones timeouts gamma =
    dqn_loss R 0 1 2 Rplus Rmult Rminus Rdiv INR gamma
      (q_taken (qv online states obs) actions) rewards
      (q_double (qv target next_states next_obs) (qv online next_states next_obs)) dones timeouts.
  Proof.
    unfold gen_dqn_loss, dqn_loss, kmean, mean.
    fold (q_taken (qv online states obs) actions).
    rewrite dqn_targets, sq_diff_lists. reflexivity.
  Qed.
End Dqn.

Print Assumptions gen_sac_target_eq_model.
Print Assumptions gen_dqn_loss_eq_model.
