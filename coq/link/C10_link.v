(* C10 link: the schedule arithmetic REGENERATED from the lerax source equals the hand-written Schedule.v model:
     num_iterations (on- and off-policy)  = floor(total / (num_envs * num_steps));
     DQN.per_iteration                    : target := online iff iteration_count mod target_update_interval = 0 (count as stored in the
                                            state when per_iteration runs, i.e. after the increment), nothing else changes;
     SAC _soft_update_targets             : theta' <- tau*theta + (1-tau)*theta' for both target critics, online critics untouched. *)
From Coq Require Import Reals List ZArith Bool Lia.
From Lerax Require Import KBase Env OnPolicy Schedule.
From LeraxGen Require Import GenK_C10.

Theorem gen_num_iterations_eq_model total N T :
  gen_on_num_iterations_value total N T = num_iterations total N T /\
  gen_off_num_iterations_value total N T = num_iterations total N T.
Proof. split; reflexivity. Qed.

(* the copy rule used inside Schedule.dqn_iter *)
Theorem gen_dqn_per_iteration_eq_model {X : Type} (interval count : nat) (online target : X) :
  (0 < interval)%nat ->
  gen_dqn_per_iteration_target interval count online target =
  if Nat.eqb (count mod interval) 0 then online else target.
Proof.
  intros H. unfold gen_dqn_per_iteration_target.
  rewrite <- Nat2Z.inj_mod.
  destruct (Nat.eqb_spec (count mod interval) 0) as [E|E].
  - rewrite E. reflexivity.
  - destruct (Z.eqb_spec (Z.of_nat (count mod interval)) 0) as [E'|E']; [lia | reflexivity].
Qed.

Theorem gen_dqn_iter_target {X : Type} (train : X -> nat -> X) (interval : nat) (s : dqn X) :
  (0 < interval)%nat ->
  d_target X (dqn_iter X train interval s) =
  gen_dqn_per_iteration_target interval (S (d_count X s)) (train (d_online X s) (d_count X s)) (d_target X s).
Proof. intros H. rewrite gen_dqn_per_iteration_eq_model by exact H. reflexivity. Qed.

Theorem gen_polyak_eq_model tau q1 t1 q2 t2 :
  gen_polyak_t1 tau q1 t1 q2 t2 = polyak tau q1 t1 /\ gen_polyak_t2 tau q1 t1 q2 t2 = polyak tau q2 t2.
Proof. split; reflexivity. Qed.

(* SAC.sac_train executed symbolically (gradient and optimiser calls are oracles returning the primed values): the critics and their
   optimiser state are replaced on EVERY iteration; the actor and its optimiser state only when iteration_count mod policy_frequency = 0
   (count as passed in, i.e. before the increment); the temperature and its optimiser state only under the same gate AND autotune;
   otherwise each of them is returned unchanged (bit-identical: the very same value) *)
Section SacTrain.
  Context {X : Type}.
  Variables (autotune : bool) (freq count : nat).
  Variables (policy policy' opt opt' qf1 qf1' qf2 qf2' q_opt q_opt' alpha_opt alpha_opt' : X) (la la' : R).
  Notation G f := (f X autotune freq count policy policy' opt opt' qf1 qf1' qf2 qf2' q_opt q_opt' alpha_opt alpha_opt' la la').

  Theorem gen_sactrain_gating :
    (0 < freq)%nat ->
    G (@gen_sactrain_policy) = gated X (fun _ _ => policy') freq true policy count /\
    G (@gen_sactrain_opt_state) = gated X (fun _ _ => opt') freq true opt count /\
    G (@gen_sactrain_log_alpha) = gated R (fun _ _ => la') freq autotune la count /\
    G (@gen_sactrain_alpha_opt_state) = gated X (fun _ _ => alpha_opt') freq autotune alpha_opt count /\
    G (@gen_sactrain_qf1) = qf1' /\ G (@gen_sactrain_qf2) = qf2' /\ G (@gen_sactrain_q_opt_state) = q_opt'.
  Proof.
    intros H.
    unfold gen_sactrain_policy, gen_sactrain_opt_state, gen_sactrain_log_alpha, gen_sactrain_alpha_opt_state,
      gen_sactrain_qf1, gen_sactrain_qf2, gen_sactrain_q_opt_state, gated.
    rewrite <- Nat2Z.inj_mod.
    assert (E : Z.eqb (Z.of_nat (count mod freq)) 0 = Nat.eqb (count mod freq) 0).
    { destruct (Nat.eqb_spec (count mod freq) 0) as [E|E]; [rewrite E; reflexivity|].
      destruct (Z.eqb_spec (Z.of_nat (count mod freq)) 0); [lia | reflexivity]. }
    rewrite E. destruct autotune, (Nat.eqb (count mod freq) 0); repeat split; reflexivity.
  Qed.
End SacTrain.

(* learn() (base_algorithm.py, with the on-policy num_iterations executed symbolically; reset, iteration and the training-start / -end
   observers are arbitrary functions): the key is split four ways (start observer, reset, iterations, end observer); the state is reset
   with the reset key, and iteration is folded over EXACTLY floor(total / (num_envs * num_steps)) keys split from the learn key; the
   policy of the final state is returned *)
Section LearnSpec.
  Context {ST X CB SCB : Type}.
  Variables (a_reset : kpath -> ST) (a_iter : ST -> kpath -> ST) (st_with_cb : ST -> CB -> ST) (st_cb : ST -> CB) (st_scb : ST -> SCB)
            (st_pol : ST -> X) (cb_start cb_end : CB -> SCB -> X -> kpath -> CB).
  Variables (N T total : Z) (k : kpath).

  Definition learn_spec : X :=
    let s0 := a_reset (ks k 4 1) in
    let s1 := st_with_cb s0 (cb_start (st_cb s0) (st_scb s0) (st_pol s0) (ks k 4 0)) in
    let s2 := fold_left a_iter (split_keys (ks k 4 2) (Z.to_nat (num_iterations total N T))) s1 in
    st_pol (st_with_cb s2 (cb_end (st_cb s2) (st_scb s2) (st_pol s2) (ks k 4 3))).

  Theorem gen_learn_eq_spec :
    gen_learn_policy a_reset a_iter st_with_cb st_cb st_scb st_pol cb_start cb_end N T total k = learn_spec.
  Proof. reflexivity. Qed.

  Theorem gen_learn_iteration_count :
    length (split_keys (ks k 4 2) (Z.to_nat (num_iterations total N T))) = Z.to_nat (total / (N * T)).
  Proof. unfold split_keys, num_iterations. now rewrite map_length, seq_length. Qed.
End LearnSpec.

(* DQN.iteration (dqn.py) with DQN.per_iteration and AbstractAlgorithmState.next inlined; collection, dqn_train and the observer are
   arbitrary functions: the counter advances by one; the online network is the result of dqn_train on the buffer of the NEW step state with
   the CURRENT target and the train key; the target network becomes that new online network iff the NEW count is a multiple of
   target_update_interval and is otherwise the very same value = one step of Schedule.dqn_iter *)
Section DqnIter.
  Context {SS X OS BUF LOG CB SCB : Type}.
  Variables (N interval count : nat) (collect1 : X -> SS -> kpath -> SS) (collectN : X -> SS -> list kpath -> SS)
            (ss_buf : SS -> BUF) (ss_cb : SS -> SCB) (train : X -> OS -> BUF -> X -> kpath -> X * OS * LOG)
            (cb_iter : CB -> Z -> SCB -> X -> OS -> kpath -> CB) (ss : SS) (pol target : X) (opt : OS) (cbs : CB) (k : kpath).
  Notation G f := (f SS X OS BUF LOG CB SCB N interval count collect1 collectN ss_buf ss_cb train cb_iter ss pol target opt cbs k).

  Theorem gen_dqniter_eq_model :
    (0 < interval)%nat ->
    let pol' := G (@gen_dqniter_policy) in
    let s' := dqn_iter X (fun _ _ => pol') interval {| d_count := count; d_online := pol; d_target := target |} in
    G (@gen_dqniter_count) = Z.of_nat (d_count X s') /\ pol' = d_online X s' /\ G (@gen_dqniter_target) = d_target X s'.
  Proof.
    intros H. cbv zeta. unfold gen_dqniter_count, gen_dqniter_target, dqn_iter. cbn [d_count d_online d_target].
    repeat split; [lia|].
    replace (Z.of_nat count + 1)%Z with (Z.of_nat (S count)) by lia.
    rewrite <- Nat2Z.inj_mod.
    destruct (Nat.eqb_spec (S count mod interval) 0) as [E|E].
    - rewrite E. reflexivity.
    - destruct (Z.eqb_spec (Z.of_nat (S count mod interval)) 0); [lia | reflexivity].
  Qed.
End DqnIter.

(* SAC.iteration (sac.py) with SAC.per_iteration, _soft_update_targets and AbstractAlgorithmState.next inlined; sac_train is an oracle
   whose CALL is checked by the translator: it is handed the buffer of the new step state, the current networks / temperature, the
   PRE-increment iteration count (the count the gating of gen_sactrain_gating refers to) and the train key.  The counter advances by one,
   the critics / temperature are the ones sac_train returned, and each target critic is moved exactly once, towards the NEW online critic:
   theta' <- tau * theta_new + (1 - tau) * theta' *)
Theorem gen_saciter_eq_model {SS X OS BUF CB SCB : Type} (N count : nat) collect1 collectN (ss_buf : SS -> BUF) (ss_cb : SS -> SCB)
        (cb_iter : CB -> Z -> SCB -> X -> OS -> kpath -> CB) (ss : SS) (pol pol' : X) (opt opt' : OS) (cbs : CB) (tau q1 q1' q2 q2' t1 t2 la la' : R) (k : kpath) :
  let G := fun (Y : Type) (f : forall SS X OS BUF CB SCB : Type, nat -> nat -> (X -> SS -> kpath -> SS) -> (X -> SS -> list kpath -> SS) -> (SS -> BUF) -> (SS -> SCB) ->
                       (CB -> Z -> SCB -> X -> OS -> kpath -> CB) -> SS -> X -> X -> OS -> OS -> CB -> R -> R -> R -> R -> R -> R -> R -> R -> R -> kpath -> Y) =>
             f SS X OS BUF CB SCB N count collect1 collectN ss_buf ss_cb cb_iter ss pol pol' opt opt' cbs tau q1 q1' q2 q2' t1 t2 la la' k in
  G Z (@gen_saciter_count) = (Z.of_nat count + 1)%Z /\
  G R (@gen_saciter_qf1) = q1' /\ G R (@gen_saciter_qf2) = q2' /\ G R (@gen_saciter_log_alpha) = la' /\
  G R (@gen_saciter_t1) = polyak tau q1' t1 /\ G R (@gen_saciter_t2) = polyak tau q2' t2.
Proof. cbv zeta. repeat split; reflexivity. Qed.

Print Assumptions gen_saciter_eq_model.
Print Assumptions gen_dqniter_eq_model.
Print Assumptions gen_learn_eq_spec.
Print Assumptions gen_learn_iteration_count.
Print Assumptions gen_sactrain_gating.
Print Assumptions gen_num_iterations_eq_model.
Print Assumptions gen_dqn_iter_target.
Print Assumptions gen_polyak_eq_model.
