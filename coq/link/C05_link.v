(* C05 link: the off-policy step REGENERATED from lerax/algorithm/off_policy.py (AbstractOffPolicyAlgorithm.step) equals the
   hand-written OffPolicy.off_step for EVERY environment record, behaviour policy, state, buffer and key:
   the stored transition is (observation acted on, observation of the PRE-RESET successor state, chosen action, reward of the
   executed (bounds-clipped) action, done = terminal || truncated, timeout = truncated && not terminal, policy state before and
   after acting), inserted with ReplayBuffer.add; environment and policy state restart after a done step.
   props/C05.v proves the stored-transition theorems about off_step / off_scan. *)
From Coq Require Import List ZArith QArith Bool.
From Lerax Require Import KBase Env OnPolicy Replay OffPolicy.
From LeraxGen Require Import GenK_C05.

Section Link.
  Context {S PS O CB : Type}.
  Variable E : env S Q O.
  Variable P : acpol PS Q O.
  Variables (es : S) (ps : PS) (cbs : CB) (k : kpath).
  Variable buf : obuf (PS := PS) (O := O).

  Notation G f := (f S PS O CB E P es ps cbs k).

  Theorem gen_offstep_eq_model :
    off_step E P ((es, ps), buf) k =
    ((G (@gen_offstep_env_state), G (@gen_offstep_policy_state)),
     soa_add buf {| t_obs := G (@gen_offstep_obs); t_next := G (@gen_offstep_next_obs); t_act := G (@gen_offstep_act);
                    t_rew := G (@gen_offstep_rew); t_done := G (@gen_offstep_done); t_timeout := G (@gen_offstep_timeout);
                    t_ps := G (@gen_offstep_ps); t_nps := G (@gen_offstep_nps) |}).
  Proof.
    unfold off_step, gen_offstep_env_state, gen_offstep_policy_state, gen_offstep_obs, gen_offstep_next_obs, gen_offstep_act,
      gen_offstep_rew, gen_offstep_done, gen_offstep_timeout, gen_offstep_ps, gen_offstep_nps.
    destruct (p_act P ps (e_obs E es (ks k 9 2)) (ks k 9 0) None) as [[[ps1 a] v] lp].
    cbn [fst snd]. unfold clip_action, sp_is_box, sp_lo, sp_hi.
    destruct (e_asp E); reflexivity.
  Qed.

  (* what the step callback is handed: the environment's reward for the executed action, done, its own key *)
  Theorem gen_offstep_callback :
    G (@gen_offstep_cb_reward) = G (@gen_offstep_rew) /\ G (@gen_offstep_cb_done) = G (@gen_offstep_done) /\
    G (@gen_offstep_cb_key) = ks k 9 8.
  Proof. repeat split; reflexivity. Qed.
End Link.

Print Assumptions gen_offstep_eq_model.
Print Assumptions gen_offstep_callback.

(* ---------------------------------------------------------------------------------------------------------------------------
   collect_learning_starts and collect_rollout (off_policy.py), executed symbolically together with the step they scan: the step is
   folded over jr.split(key, learning_starts) resp. jr.split(key, num_steps), threading (buffer, callback state, environment state,
   policy state); = OffPolicy.off_scan over the same keys.  props/C05.v proves "warm-up stores exactly learning_starts transitions,
   every collection adds num_steps" about off_scan. *)
Section Scans.
  Context {S PS O CB : Type}.
  Variable E : env S Q O.
  Variable P : acpol PS Q O.
  Variable cb_step : CB -> bool -> Q -> kpath -> CB.

  Section Generic.
    Variable F : @obuf PS O * CB * S * PS -> kpath -> (@obuf PS O * CB * S * PS) * unit.
    Hypothesis HF : forall b c es ps k,
      let r := fst (F (b, c, es, ps) k) in
      ((snd (fst r), snd r), fst (fst (fst r))) = off_step E P ((es, ps), b) k.

    Lemma kfoldmap_off_scan keys : forall b c es ps,
      let r := fst (kfoldmap F (b, c, es, ps) keys) in
      ((let '(p0, p1, p2, p3) := r in p2, let '(p0, p1, p2, p3) := r in p3), let '(p0, p1, p2, p3) := r in p0) = off_scan E P ((es, ps), b) keys.
    Proof.
      induction keys as [|k keys IH]; intros b c es ps; [reflexivity|].
      cbn [kfoldmap off_scan fold_left]. cbv zeta.
      pose proof (HF b c es ps k) as H. cbv zeta in H.
      destruct (F (b, c, es, ps) k) as [[[[b' c'] es'] ps'] u]. cbn [fst snd] in *.
      rewrite <- H. specialize (IH b' c' es' ps'). cbv zeta in IH. exact IH.
    Qed.
  End Generic.

  Variables (n : nat) (es : S) (ps : PS) (cbs : CB) (k : kpath).
  Variable buf : @obuf PS O.

  Theorem gen_offwarm_eq_model :
    ((@gen_offwarm_env_state S PS O CB n E P cb_step es ps cbs buf k, @gen_offwarm_policy_state S PS O CB n E P cb_step es ps cbs buf k),
     @gen_offwarm_buffer S PS O CB n E P cb_step es ps cbs buf k) = off_scan E P ((es, ps), buf) (split_keys k n).
  Proof.
    unfold gen_offwarm_env_state, gen_offwarm_policy_state, gen_offwarm_buffer.
    rewrite !Nat2Z.id.
    change (ksplit_keys k n) with (split_keys k n).
    unfold kfoldmapi.
    match goal with |- context [kfoldmap ?f _ _] => set (F := f) end.
    assert (HF : forall b c es0 ps0 k0,
      let r := fst (F (b, c, es0, ps0) k0) in
      ((snd (fst r), snd r), fst (fst (fst r))) = off_step E P ((es0, ps0), b) k0).
    { intros b c es0 ps0 k0. subst F. unfold off_step. cbv beta iota zeta.
      destruct (p_act P ps0 (e_obs E es0 (ks k0 9 2)) (ks k0 9 0) None) as [[[ps1 a] v] lp].
      cbn [fst snd]. unfold clip_action, sp_is_box, sp_lo, sp_hi. destruct (e_asp E); reflexivity. }
    pose proof (kfoldmap_off_scan F HF (split_keys k n) buf cbs es ps) as HK. cbv zeta in HK.
    exact HK.
  Qed.

  Theorem gen_offcollect_eq_model :
    ((@gen_offcollect_env_state S PS O CB n E P cb_step es ps cbs buf k, @gen_offcollect_policy_state S PS O CB n E P cb_step es ps cbs buf k),
     @gen_offcollect_buffer S PS O CB n E P cb_step es ps cbs buf k) = off_scan E P ((es, ps), buf) (split_keys k n).
  Proof.
    unfold gen_offcollect_env_state, gen_offcollect_policy_state, gen_offcollect_buffer.
    rewrite !Nat2Z.id.
    change (ksplit_keys k n) with (split_keys k n).
    unfold kfoldmapi.
    match goal with |- context [kfoldmap ?f _ _] => set (F := f) end.
    assert (HF : forall b c es0 ps0 k0,
      let r := fst (F (b, c, es0, ps0) k0) in
      ((snd (fst r), snd r), fst (fst (fst r))) = off_step E P ((es0, ps0), b) k0).
    { intros b c es0 ps0 k0. subst F. unfold off_step. cbv beta iota zeta.
      destruct (p_act P ps0 (e_obs E es0 (ks k0 9 2)) (ks k0 9 0) None) as [[[ps1 a] v] lp].
      cbn [fst snd]. unfold clip_action, sp_is_box, sp_lo, sp_hi. destruct (e_asp E); reflexivity. }
    pose proof (kfoldmap_off_scan F HF (split_keys k n) buf cbs es ps) as HK. cbv zeta in HK.
    exact HK.
  Qed.
End Scans.

Print Assumptions gen_offwarm_eq_model.
Print Assumptions gen_offcollect_eq_model.
