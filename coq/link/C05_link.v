(* C05 link: the off-policy step REGENERATED from lerax/algorithm/off_policy.py (AbstractOffPolicyAlgorithm.step) equals the
   hand-written OffPolicy.off_step for EVERY environment record, behaviour policy, state, buffer and key:
   the stored transition is (observation acted on, observation of the PRE-RESET successor state, chosen action, reward of the
   executed (bounds-clipped) action, done = terminal || truncated, timeout = truncated && not terminal, policy state before and
   after acting), inserted with ReplayBuffer.add; environment and policy state restart after a done step.
   props/C05.v proves the stored-transition theorems about off_step / off_scan. *)
From Coq Require Import List ZArith QArith Bool.
From Lerax Require Import KBase Env OnPolicy Replay OffPolicy.
From LeraxGen Require Import GenK_C05.

Section Link.
  Context {S PS O CB : Type}.
  Variable E : env S Q O.
  Variable P : acpol PS Q O.
  Variables (es : S) (ps : PS) (cbs : CB) (k : kpath).
  Variable buf : obuf (PS := PS) (O := O).

  Notation G f := (f S PS O CB E P es ps cbs k).

  Theorem gen_offstep_eq_model :
    off_step E P ((es, ps), buf) k =
    ((G (@gen_offstep_env_state), G (@gen_offstep_policy_state)),
     soa_add buf {| t_obs := G (@gen_offstep_obs); t_next := G (@gen_offstep_next_obs); t_act := G (@gen_offstep_act);
                    t_rew := G (@gen_offstep_rew); t_done := G (@gen_offstep_done); t_timeout := G (@gen_offstep_timeout);
                    t_ps := G (@gen_offstep_ps); t_nps := G (@gen_offstep_nps) |}).
  Proof.
    unfold off_step, gen_offstep_env_state, gen_offstep_policy_state, gen_offstep_obs, gen_offstep_next_obs, gen_offstep_act,
      gen_offstep_rew, gen_offstep_done, gen_offstep_timeout, gen_offstep_ps, gen_offstep_nps.
    destruct (p_act P ps (e_obs E es (ks k 9 2)) (ks k 9 0) None) as [[[ps1 a] v] lp].
    cbn [fst snd]. unfold clip_action, sp_is_box, sp_lo, sp_hi.
    destruct (e_asp E); reflexivity.
  Qed.

  (* what the step callback is handed: the environment's reward for the executed action, done, its own key *)
  Theorem gen_offstep_callback :
    G (@gen_offstep_cb_reward) = G (@gen_offstep_rew) /\ G (@gen_offstep_cb_done) = G (@gen_offstep_done) /\
    G (@gen_offstep_cb_key) = ks k 9 8.
  Proof. repeat split; reflexivity. Qed.
End Link.

Print Assumptions gen_offstep_eq_model.
Print Assumptions gen_offstep_callback.
