(* C13 link: every method of TimeLimit REGENERATED from lerax/wrapper/misc.py equals the TimeLimit layer of the hand-written
   wrapper model (Env.wrap1 (WTimeLimit n)), for every inner environment, limit, counter, inner state, action and key:
   initial starts the count at 0, transition adds exactly 1 and steps the inner environment with the same action and key,
   truncate = inner truncation || (limit <= count), everything else is the inner environment's on the inner state.
   props/C13.v proves "truncation at exactly the N-th step, restarted on reset" about wrap1. *)
From Coq Require Import List ZArith QArith Bool.
From Lerax Require Import KBase Env.
From LeraxGen Require Import GenK_C13.

Section TL.
  Context {S A O : Type}.
  Variable e : env (ws S) A O.
  Variable n : Z.
  Notation W := (wrap1 (WTimeLimit n) e).

  Theorem gen_tl_initial_eq_model k :
    e_init W k = push (gen_tl_initial_count e n k) (gen_tl_initial_env_state e n k).
  Proof. reflexivity. Qed.

  Theorem gen_tl_transition_eq_model s a k :
    e_trans W s a k =
    push (gen_tl_transition_count e n (fst (pop s)) (snd (pop s)) a k) (gen_tl_transition_env_state e n (fst (pop s)) (snd (pop s)) a k).
  Proof. reflexivity. Qed.

  Theorem gen_tl_truncate_eq_model s :
    e_trunc W s = gen_tl_truncate_value e n (fst (pop s)) (snd (pop s)).
  Proof. reflexivity. Qed.

  Theorem gen_tl_passthrough_eq_model s a s' k :
    e_obs W s k = gen_tl_observation_value e n (fst (pop s)) (snd (pop s)) k /\
    e_rew W s a s' k = gen_tl_reward_value e n (fst (pop s)) (snd (pop s)) a (fst (pop s')) (snd (pop s')) k /\
    e_term W s k = gen_tl_terminal_value e n (fst (pop s)) (snd (pop s)) k /\
    e_mask W s k = gen_tl_action_mask_value e n (fst (pop s)) (snd (pop s)) k /\
    e_tinfo W s a s' = gen_tl_transition_info_value e n (fst (pop s)) (snd (pop s)) a (fst (pop s')) (snd (pop s')).
  Proof. repeat split; reflexivity. Qed.
End TL.

(* action wrappers (TransformAction / ClipAction / RescaleAction share AbstractPureTransformActionWrapper): the inner environment
   is fed the MAPPED action for dynamics, reward and info alike; flags pass through *)
Section AW.
  Context {S A O : Type}.
  Variable e : env (ws S) A O.
  Variable f : A -> A.
  Variable asp : sp.
  Notation W := (wrap1 (WAct f asp) e).

  Theorem gen_aw_eq_model s a s' k :
    e_trans W s a k = gen_aw_transition_env_state e f s a k /\
    e_rew W s a s' k = gen_aw_reward_value e f s a s' k /\
    e_tinfo W s a s' = gen_aw_transition_info_value e f s a s' /\
    e_trunc W s = gen_aw_truncate_value e f s /\
    e_term W s k = gen_aw_terminal_value e f s k.
  Proof. repeat split; reflexivity. Qed.
End AW.

(* observation wrappers (TransformObservation / Clip / Rescale / Flatten share AbstractPureObservationWrapper) and reward wrappers
   (TransformReward / ClipReward share AbstractPureTransformRewardWrapper): ONLY the declared signal is post-processed, every other
   component is the inner environment's on the inner state, for every method of the wrapper *)
Section OW.
  Context {S A O : Type}.
  Variable e : env (ws S) A O.
  Variable g : O -> O.
  Variable osp : sp.
  Notation W := (wrap1 (WObs g osp) e).

  Theorem gen_ow_eq_model s a s' k :
    e_init W k = gen_ow_initial_env_state e g k /\
    e_trans W s a k = gen_ow_transition_env_state e g s a k /\
    e_obs W s k = gen_ow_observation_value e g s k /\
    e_rew W s a s' k = gen_ow_reward_value e g s a s' k /\
    e_term W s k = gen_ow_terminal_value e g s k /\
    e_trunc W s = gen_ow_truncate_value e g s /\
    e_mask W s k = gen_ow_action_mask_value e g s k /\
    e_tinfo W s a s' = gen_ow_transition_info_value e g s a s'.
  Proof. repeat split; reflexivity. Qed.
End OW.

Section RW.
  Context {S A O : Type}.
  Variable e : env (ws S) A O.
  Variable h : Q -> Q.
  Notation W := (wrap1 (WRew h) e).

  Theorem gen_rw_eq_model s a s' k :
    e_init W k = gen_rw_initial_env_state e h k /\
    e_trans W s a k = gen_rw_transition_env_state e h s a k /\
    e_obs W s k = gen_rw_observation_value e h s k /\
    e_rew W s a s' k = gen_rw_reward_value e h s a s' k /\
    e_term W s k = gen_rw_terminal_value e h s k /\
    e_trunc W s = gen_rw_truncate_value e h s /\
    e_mask W s k = gen_rw_action_mask_value e h s k /\
    e_tinfo W s a s' = gen_rw_transition_info_value e h s a s'.
  Proof. repeat split; reflexivity. Qed.
End RW.

(* rescale_box (wrapper/utils.py) on a bounded component (all four bounds finite): the advertised box is [min, max] and forward /
   backward are the affine map rs_forward and its inverse rs_backward of Env.v, about which props/C13.v proves that the new bounds are
   taken exactly onto the original bounds *)
Theorem gen_rescale_eq_model lo hi mn mx x :
  gen_rescale_new_low lo hi mn mx x = mn /\ gen_rescale_new_high lo hi mn mx x = mx /\
  gen_rescale_forward lo hi mn mx x = rs_forward lo hi mn mx x /\
  gen_rescale_backward lo hi mn mx x = rs_backward lo hi mn mx x.
Proof. repeat split; reflexivity. Qed.

Print Assumptions gen_rescale_eq_model.
Print Assumptions gen_ow_eq_model.
Print Assumptions gen_rw_eq_model.
Print Assumptions gen_aw_eq_model.
Print Assumptions gen_tl_initial_eq_model.
Print Assumptions gen_tl_transition_eq_model.
Print Assumptions gen_tl_truncate_eq_model.
Print Assumptions gen_tl_passthrough_eq_model.
