(* C18 link: where Serializable.serialize writes, REGENERATED from lerax/utils.py (pathlib operations on the file name modelled on the
   dot-separated components of Serial.v; the write itself recorded as an effect: exactly one file): the name handed to
   eqx.tree_serialise_leaves is Serial.resolve_name of the given name (".eqx" APPENDED unless it already is the suffix, an existing
   other suffix kept), and the literal name when no_suffix is set; missing parent directories are created with parents=True, exist_ok=True.
   props/C18.v proves "p, p.eqx and paths with other suffixes name the same file on save and load" about resolve. *)
From Coq Require Import List String Bool.
From Lerax Require Import KBase Serial.
From LeraxGen Require Import GenK_C18.

Theorem gen_serialize_path_eq_model (nm : name) :
  gen_serialize_written_name nm false = resolve_name nm /\ gen_serialize_written_name nm true = nm.
Proof.
  unfold gen_serialize_written_name, resolve_name. destruct (has_eqx nm); cbn; split; reflexivity.
Qed.

Print Assumptions gen_serialize_path_eq_model.
