(* C11 link: iteration() of the on-policy learners REGENERATED from lerax/algorithm/on_policy.py (with AbstractAlgorithmState.next and
   .with_callback_states of base_algorithm.py executed symbolically; collection, training and the observer are arbitrary functions) is
   the skeleton Observers.iteration about which props/C11.v proves that observers cannot influence training:
     rollout_key, train_key, callback_key = split(key, 3); one environment collects with rollout_key, N > 1 environments with
     split(rollout_key, N) (the translator insists on in_axes = (None, None, if_array(0), None, 0): environment, policy and callback shared,
     step state and keys per environment); the policy is trained on that rollout with train_key; the counter advances by one; the
     iteration observer is shown the UPDATED state and its own key; its state is threaded next to the training state. *)
From Coq Require Import List ZArith Bool Lia.
From Lerax Require Import KBase Env OnPolicy Observers.
From LeraxGen Require Import GenK_C11.

Section Iter.
  Context {SS X OS BUF LOG CB SCB : Type}.
  Variable N : nat.
  Variable collect1 : X -> SS -> kpath -> SS * BUF.
  Variable collectN : X -> SS -> list kpath -> SS * BUF.
  Variable train : X -> OS -> BUF -> kpath -> X * OS * LOG.
  Variable ss_cb : SS -> SCB.
  Variable cb_iter : CB -> Z -> SCB -> X -> OS -> kpath -> CB.

  Definition St : Type := (Z * SS * X * OS)%type.
  Definition core_iter (s : St) (rk tk : kpath) : St :=
    let '(cnt, ss, pol, opt) := s in
    let cb := if Nat.eqb N 1 then collect1 pol ss rk else collectN pol ss (split_keys rk N) in
    let t := train pol opt (snd cb) tk in
    ((cnt + 1)%Z, fst cb, fst (fst t), snd (fst t)).
  Definition cb_iter' (c : CB) (s : St) (key : kpath) : CB :=
    let '(cnt, ss, pol, opt) := s in cb_iter c cnt (ss_cb ss) pol opt key.

  Notation G f := (f SS X OS BUF LOG CB SCB N collect1 collectN train ss_cb cb_iter).

  Lemma n_is_one : Z.eqb (Z.of_nat N) 1 = Nat.eqb N 1.
  Proof. destruct (Nat.eqb_spec N 1) as [->|H]; [reflexivity|]. destruct (Z.eqb_spec (Z.of_nat N) 1); [lia | reflexivity]. Qed.

  Theorem gen_oniter_eq_model cnt ss pol opt cbs k :
    iteration St core_iter CB cb_iter' ((cnt, ss, pol, opt), cbs) k =
    ((G (@gen_oniter_count) cnt ss pol opt cbs k, G (@gen_oniter_step_state) cnt ss pol opt cbs k,
      G (@gen_oniter_policy) cnt ss pol opt cbs k, G (@gen_oniter_opt_state) cnt ss pol opt cbs k),
     G (@gen_oniter_callback_state) cnt ss pol opt cbs k).
  Proof.
    unfold iteration, core_iter, cb_iter', gen_oniter_count, gen_oniter_step_state, gen_oniter_policy, gen_oniter_opt_state,
      gen_oniter_callback_state. cbn [fst snd].
    rewrite n_is_one, !Nat2Z.id. change (ksplit_keys (ks k 3 0) N) with (split_keys (ks k 3 0) N).
    destruct (Nat.eqb N 1); reflexivity.
  Qed.
End Iter.

(* the training part of the regenerated iteration does not depend on the observer or on its state *)
Theorem gen_oniter_noninterference {SS X OS BUF LOG CB CB' SCB : Type} N collect1 collectN train ss_cb
        (cb_iter : CB -> Z -> SCB -> X -> OS -> kpath -> CB) (cb_iter2 : CB' -> Z -> SCB -> X -> OS -> kpath -> CB') cnt ss pol opt cbs cbs2 k :
  (@gen_oniter_count SS X OS BUF LOG CB SCB N collect1 collectN train ss_cb cb_iter cnt ss pol opt cbs k,
   @gen_oniter_step_state SS X OS BUF LOG CB SCB N collect1 collectN train ss_cb cb_iter cnt ss pol opt cbs k,
   @gen_oniter_policy SS X OS BUF LOG CB SCB N collect1 collectN train ss_cb cb_iter cnt ss pol opt cbs k,
   @gen_oniter_opt_state SS X OS BUF LOG CB SCB N collect1 collectN train ss_cb cb_iter cnt ss pol opt cbs k) =
  (@gen_oniter_count SS X OS BUF LOG CB' SCB N collect1 collectN train ss_cb cb_iter2 cnt ss pol opt cbs2 k,
   @gen_oniter_step_state SS X OS BUF LOG CB' SCB N collect1 collectN train ss_cb cb_iter2 cnt ss pol opt cbs2 k,
   @gen_oniter_policy SS X OS BUF LOG CB' SCB N collect1 collectN train ss_cb cb_iter2 cnt ss pol opt cbs2 k,
   @gen_oniter_opt_state SS X OS BUF LOG CB' SCB N collect1 collectN train ss_cb cb_iter2 cnt ss pol opt cbs2 k).
Proof. reflexivity. Qed.

Print Assumptions gen_oniter_eq_model.
Print Assumptions gen_oniter_noninterference.
