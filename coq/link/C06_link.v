(* C06 link: the definitions REGENERATED from lerax/buffer/replay.py (ReplayBuffer.add, current_size) equal the hand-written
   struct-of-arrays model Replay.soa_add / current_size for every buffer of positive capacity and every inserted transition:
   every field is written at position mod size, the position advances by exactly one, nothing else changes.
   The property theorems of props/C06.v (the ring holds the most recent min(n, C) insertions, fields of one slot come from
   one insertion) are proved about soa_add. *)
From Coq Require Import List ZArith QArith Bool Lia.
From Lerax Require Import KBase Env Replay.
From LeraxGen Require Import GenK_C06.

Lemma idx_nat p C : (0 < C)%nat -> Z.to_nat (Z.of_nat p mod Z.of_nat C) = (p mod C)%nat.
Proof. intros H. rewrite <- Nat2Z.inj_mod. apply Nat2Z.id. Qed.

Theorem gen_add_eq_model {Ob Ac Ps : Type} (b : @soa Ob Ac Ps) (x : @trow Ob Ac Ps) :
  (0 < b_size b)%nat ->
  let n := soa_add b x in
  gen_add_position b x = Z.of_nat (b_pos n) /\
  gen_add_observations b x = f_obs n /\ gen_add_next_observations b x = f_next n /\ gen_add_actions b x = f_act n /\
  gen_add_rewards b x = f_rew n /\ gen_add_dones b x = f_done n /\ gen_add_timeouts b x = f_timeout n /\
  gen_add_states b x = f_ps n /\ gen_add_next_states b x = f_nps n.
Proof.
  intros H. cbv zeta.
  unfold gen_add_position, gen_add_observations, gen_add_next_observations, gen_add_actions, gen_add_rewards, gen_add_dones,
    gen_add_timeouts, gen_add_states, gen_add_next_states, soa_add;
    cbn [b_pos f_obs f_next f_act f_rew f_done f_timeout f_ps f_nps].
  rewrite !idx_nat by exact H.
  repeat split; try reflexivity. lia.
Qed.

Theorem gen_current_size_eq_model {Ob Ac Ps : Type} (b : @soa Ob Ac Ps) :
  gen_current_size_value b = Z.of_nat (current_size b).
Proof. unfold gen_current_size_value, current_size. lia. Qed.

Print Assumptions gen_add_eq_model.
Print Assumptions gen_current_size_eq_model.

(* ReplayBuffer.sample on a single (unstacked) buffer: the index population is the capacity, indices are drawn WITHOUT replacement
   (the literal `replace=False` as translated), exactly batch_size of them, every leaf is gathered with the same indices, and the
   probability handed to the sampler is exactly zero on every slot at or beyond current_size (the unwritten ones) and positive below.
   These are the hypotheses of the sampler-interface theorem of props/C06.v (sampled rows are stored rows, none twice). *)
Lemma nth_map_kiota {Y} (f : Z -> Y) (n i : nat) (d : Y) :
  (i < n)%nat -> nth i (map f (kiota (Z.of_nat n))) d = f (Z.of_nat i).
Proof.
  intros H. unfold kiota. rewrite Nat2Z.id, map_map.
  rewrite (nth_indep _ d (f (Z.of_nat 0))) by (rewrite map_length, seq_length; exact H).
  rewrite (map_nth (fun x => f (Z.of_nat x)) (seq 0 n) 0%nat i), seq_nth by exact H. reflexivity.
Qed.

Theorem gen_sample_interface {Ob Ac Ps : Type} (b : @soa Ob Ac Ps) (batch : nat) (k : kpath) :
  gen_sample_population b batch k = Z.of_nat (b_size b) /\ gen_sample_replace b batch k = false /\
  length (gen_sample_probs b batch k) = b_size b /\
  forall i, (i < b_size b)%nat ->
    ((current_size b <= i)%nat -> Qeq (nth i (gen_sample_probs b batch k) 0%Q) 0%Q) /\
    ((i < current_size b)%nat -> ~ Qeq (nth i (gen_sample_probs b batch k) 0%Q) 0%Q).
Proof.
  unfold gen_sample_population, gen_sample_replace, gen_sample_probs, kzip1.
  repeat split.
  - unfold kiota. now rewrite !map_length, seq_length, Nat2Z.id.
  - intros Hle. rewrite nth_map_kiota by assumption.
    destruct (Z.ltb_spec (Z.of_nat i) (Z.of_nat (current_size b))); [lia|]. unfold b2Q. apply Qmult_0_l.
  - intros Hlt. rewrite nth_map_kiota by assumption.
    destruct (Z.ltb_spec (Z.of_nat i) (Z.of_nat (current_size b))) as [_|Hc]; [|lia]. unfold b2Q.
    set (c := kcount _).
    assert (Hc : (0 < c)%Z).
    { subst c. unfold kcount. apply (Nat2Z.inj_lt 0). 
      assert (Hin : In true (map (fun e0 : Z => (e0 <? Z.of_nat (current_size b))%Z) (kiota (Z.of_nat (b_size b))))).
      { apply in_map_iff. exists (Z.of_nat i). split; [apply Z.ltb_lt; lia|].
        unfold kiota. rewrite Nat2Z.id. apply in_map, in_seq. lia. }
      destruct (filter (fun b0 : bool => b0) _) eqn:E; [|cbn; lia].
      exfalso. assert (In true nil) by (rewrite <- E; apply filter_In; split; [exact Hin | reflexivity]). contradiction. }
    intro H0. unfold Qdiv in H0. apply Qmult_integral in H0. destruct H0 as [H0|H0]; [discriminate|].
    assert (Hq : ~ Qeq (inject_Z c) 0%Q) by (unfold Qeq, inject_Z; cbn; lia).
    apply Hq. rewrite <- (Qinv_involutive (inject_Z c)). rewrite H0. reflexivity.
Qed.

Print Assumptions gen_sample_interface.
