(* C06 link: the definitions REGENERATED from lerax/buffer/replay.py (ReplayBuffer.add, current_size) equal the hand-written
   struct-of-arrays model Replay.soa_add / current_size for every buffer of positive capacity and every inserted transition:
   every field is written at position mod size, the position advances by exactly one, nothing else changes.
   The property theorems of props/C06.v (the ring holds the most recent min(n, C) insertions, fields of one slot come from
   one insertion) are proved about soa_add. *)
From Coq Require Import List ZArith QArith Bool Lia.
From Lerax Require Import KBase Replay.
From LeraxGen Require Import GenK_C06.

Lemma idx_nat p C : (0 < C)%nat -> Z.to_nat (Z.of_nat p mod Z.of_nat C) = (p mod C)%nat.
Proof. intros H. rewrite <- Nat2Z.inj_mod. apply Nat2Z.id. Qed.

Theorem gen_add_eq_model {Ob Ac Ps : Type} (b : @soa Ob Ac Ps) (x : @trow Ob Ac Ps) :
  (0 < b_size b)%nat ->
  let n := soa_add b x in
  gen_add_position b x = Z.of_nat (b_pos n) /\
  gen_add_observations b x = f_obs n /\ gen_add_next_observations b x = f_next n /\ gen_add_actions b x = f_act n /\
  gen_add_rewards b x = f_rew n /\ gen_add_dones b x = f_done n /\ gen_add_timeouts b x = f_timeout n /\
  gen_add_states b x = f_ps n /\ gen_add_next_states b x = f_nps n.
Proof.
  intros H. cbv zeta.
  unfold gen_add_position, gen_add_observations, gen_add_next_observations, gen_add_actions, gen_add_rewards, gen_add_dones,
    gen_add_timeouts, gen_add_states, gen_add_next_states, soa_add;
    cbn [b_pos f_obs f_next f_act f_rew f_done f_timeout f_ps f_nps].
  rewrite !idx_nat by exact H.
  repeat split; try reflexivity. lia.
Qed.

Theorem gen_current_size_eq_model {Ob Ac Ps : Type} (b : @soa Ob Ac Ps) :
  gen_current_size_value b = Z.of_nat (current_size b).
Proof. unfold gen_current_size_value, current_size. lia. Qed.

Print Assumptions gen_add_eq_model.
Print Assumptions gen_current_size_eq_model.
