(* C03 link: the definition REGENERATED from lerax/buffer/rollout.py (coq/gen/C03/GenK_C03.v, written by
   harness/translate/kernels.py on every run of the C03 check) computes the GAE recursion of the property text, for
   every rollout length, done pattern, gamma, lambda and bootstrap value; returns = advantages + values.
   The property theorems of props/C03.v (cut at done, lambda = 0 / 1, per-environment) are stated about specR. *)
From Coq Require Import Reals List Lra.
From Lerax Require Import KBase KBaseProofs Gae GaeProofs.
From LeraxGen Require Import GenK_C03.
Import ListNotations.
Open Scope R_scope.

Definition head0 (l : list R) : R := match l with [] => 0 | a :: _ => a end.

Section Link.
  Variables g l last : R.

  Lemma gen_cons x (tl : list (row R)) :
    gen_gae_advantages g l last (map rw (x :: tl)) (map vl (x :: tl)) (map dn (x :: tl)) =
    let rest := gen_gae_advantages g l last (map rw tl) (map vl tl) (map dn tl) in
    let vnext := match tl with [] => last | y :: _ => vl y end in
    (rw x + g * ntR (dn x) * vnext - vl x + g * l * ntR (dn x) * head0 rest) :: rest.
  Proof.
    unfold gen_gae_advantages.
    destruct tl as [|y tl].
    - cbn. unfold ntR, nt, b2R. destruct (dn x); f_equal; ring.
    - cbn [map List.tl app kzip4 kzip1].
      rewrite kscanr2_cons. cbv zeta. cbn [fst snd].
      rewrite kscanr2_carry by (intros; reflexivity).
      unfold head0, ntR, nt, b2R.
      match goal with |- context [snd ?S] => destruct (snd S) end; destruct (dn x); f_equal; ring.
  Qed.

  Theorem gen_advantages_eq_spec (xs : list (row R)) :
    gen_gae_advantages g l last (map rw xs) (map vl xs) (map dn xs) = specR g l last xs.
  Proof.
    induction xs as [|x tl IH]; [reflexivity|].
    rewrite gen_cons. cbv zeta. rewrite IH.
    unfold specR. cbn [gae_spec]. fold (specR g l last tl).
    unfold head0, ntR, nt. destruct (specR g l last tl); destruct (dn x); f_equal; ring.
  Qed.

  Theorem gen_returns_eq (xs : list (row R)) :
    gen_gae_returns g l last (map rw xs) (map vl xs) (map dn xs) =
    kzip2 Rplus (specR g l last xs) (map vl xs).
  Proof.
    unfold gen_gae_returns. fold (gen_gae_advantages g l last (map rw xs) (map vl xs) (map dn xs)).
    rewrite gen_advantages_eq_spec. reflexivity.
  Qed.
End Link.

(* the generated estimator therefore agrees with the hand-written code model the correspondence check runs *)
Theorem gen_advantages_eq_model g l last xs :
  gen_gae_advantages g l last (map rw xs) (map vl xs) (map dn xs) = gaeR g l last xs.
Proof. rewrite gen_advantages_eq_spec. symmetry. apply gae_eq_spec. Qed.

Print Assumptions gen_advantages_eq_spec.
Print Assumptions gen_returns_eq.
