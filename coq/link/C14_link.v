(* C14 link: the membership tests REGENERATED from lerax/space/discrete.py, box.py and multi_discrete.py, in their per-component view on a
   value that is already an array of the right shape with FINITE rational entries, equal the component predicates of the hand-written
   Spaces.contains (in_rangeb / in_boxb): integral and 0 <= x < n, resp. low <= x <= high with both bounds inclusive.
   props/C14.v proves contains = true <-> member for nested spaces about Spaces.contains; shapes, dtypes, NaN / infinities, foreign types
   and nesting are covered by the correspondence check only. *)
From Coq Require Import List ZArith QArith Qround Bool Lia.
From Lerax Require Import KBase Spaces.
From LeraxGen Require Import GenK_C14.

Lemma integral_cmp (x : Q) (n : Z) :
  Qeq_bool x (inject_Z (Qfloor x)) = true ->
  Qle_bool 0 x = (0 <=? Qfloor x)%Z /\ negb (Qle_bool (inject_Z n) x) = (Qfloor x <? n)%Z.
Proof.
  intros H. apply Qeq_bool_iff in H. split.
  - destruct (Z.leb_spec 0 (Qfloor x)) as [Hz|Hz].
    + apply Qle_bool_iff. rewrite H. change 0%Q with (inject_Z 0). rewrite <- Zle_Qle. exact Hz.
    + destruct (Qle_bool 0 x) eqn:E; [|reflexivity]. apply Qle_bool_iff in E. rewrite H in E.
      change 0%Q with (inject_Z 0) in E. rewrite <- Zle_Qle in E. lia.
  - destruct (Z.ltb_spec (Qfloor x) n) as [Hz|Hz].
    + destruct (Qle_bool (inject_Z n) x) eqn:E; [|reflexivity]. apply Qle_bool_iff in E. rewrite H in E.
      rewrite <- Zle_Qle in E. lia.
    + cbn. apply negb_false_iff. apply Qle_bool_iff. rewrite H. rewrite <- Zle_Qle. exact Hz.
Qed.

Theorem gen_discrete_contains_eq_model (n : Z) (x : Q) :
  gen_discrete_contains_value n x = in_rangeb n (Fin x) /\ gen_multidiscrete_contains_value n x = in_rangeb n (Fin x).
Proof.
  unfold gen_discrete_contains_value, gen_multidiscrete_contains_value, in_rangeb, Qeqb, Qleb, Qltb.
  destruct (Qeq_bool x (inject_Z (Qfloor x))) eqn:E; cbn [negb andb]; [|split; reflexivity].
  destruct (integral_cmp x n E) as [H1 H2].
  change (0 # 1)%Q with 0%Q. rewrite H1, H2. split; reflexivity.
Qed.

Theorem gen_box_contains_eq_model (lo hi x : Q) :
  gen_box_contains_value lo hi x = in_boxb (Fin lo) (Fin hi) (Fin x).
Proof. reflexivity. Qed.

Print Assumptions gen_discrete_contains_eq_model.
Print Assumptions gen_box_contains_eq_model.
