(* C12 link: iteration() of the on-policy learners REGENERATED from lerax/algorithm/on_policy.py for N > 1 parallel environments, with the
   step state as the LIST of per-environment states (the translator insists on in_axes = (None, None, if_array(0), None, 0) and models that
   vmap as a zip): environment i's new step state and rollout are those of a SINGLE-environment collection from ITS OWN state and ITS OWN
   key split(rollout_key, N)[i], for an arbitrary single-environment collection function; nothing of environment j enters.
   props/C12.v proves the same about the hand-written OnPolicy.collect_vec; this is the statement about the code's own call site. *)
From Coq Require Import List ZArith QArith Bool Lia.
From Lerax Require Import KBase KBaseProofs Env OnPolicy Replay OffPolicy.
From LeraxGen Require Import GenK_C12.
Import ListNotations.

Lemma combine_map_r {A B C} (g : B -> C) (a : list A) (l : list B) :
  combine a (map g l) = map (fun p => (fst p, g (snd p))) (combine a l).
Proof. revert l; induction a as [|x a IH]; intros [|y l]; cbn; auto. now rewrite IH. Qed.

Section Vec.
  Context {SS X OS BUF LOG CB SCB : Type}.
  Variable N : nat.
  Variable collect1 : X -> SS -> kpath -> SS * BUF.
  Variable train : X -> OS -> list BUF -> kpath -> X * OS * LOG.
  Variable ss_cb : list SS -> SCB.
  Variable cb_iter : CB -> Z -> SCB -> X -> OS -> kpath -> CB.
  Variables (cnt : Z) (ss : list SS) (pol : X) (opt : OS) (cbs : CB) (k : kpath).

  Definition singles : list (SS * BUF) :=
    map (fun p => collect1 pol (fst p) (ks (ks k 3 0) N (snd p))) (combine ss (seq 0 N)).

  Theorem gen_oniterN_eq_singles :
    gen_oniterN_step_states N collect1 train ss_cb cb_iter cnt ss pol opt cbs k = map fst singles /\
    gen_oniterN_policy N collect1 train ss_cb cb_iter cnt ss pol opt cbs k = fst (fst (train pol opt (map snd singles) (ks k 3 1))).
  Proof.
    unfold gen_oniterN_step_states, gen_oniterN_policy, singles.
    rewrite !Nat2Z.id. unfold ksplit_keys.
    rewrite kzip2_combine, combine_map_r, !map_map. cbn [fst snd]. split; reflexivity.
  Qed.

  (* environment i on its own *)
  Corollary gen_oniterN_env_i i s :
    nth_error ss i = Some s -> (i < N)%nat ->
    nth_error (gen_oniterN_step_states N collect1 train ss_cb cb_iter cnt ss pol opt cbs k) i =
    Some (fst (collect1 pol s (ks (ks k 3 0) N i))).
  Proof.
    intros Hs Hi. destruct gen_oniterN_eq_singles as [-> _]. unfold singles. rewrite map_map.
    rewrite nth_error_map.
    assert (Hg : forall (l : list SS) b i n s0, nth_error l i = Some s0 -> (i < n)%nat ->
                 nth_error (combine l (seq b n)) i = Some (s0, (b + i)%nat)).
    { induction l as [|x l IH]; intros b j n s0 Hs0 Hj; [destruct j; discriminate|].
      destruct n as [|n]; [lia|]. destruct j as [|j]; cbn in *.
      - inversion Hs0; subst. now rewrite Nat.add_0_r.
      - rewrite (IH (S b) j n s0 Hs0 ltac:(lia)). f_equal. f_equal. lia. }
    assert (Hc : nth_error (combine ss (seq 0 N)) i = Some (s, i)) by (rewrite (Hg ss 0%nat i N s Hs Hi); reflexivity).
    rewrite Hc. reflexivity.
  Qed.
End Vec.

Print Assumptions gen_oniterN_eq_singles.
Print Assumptions gen_oniterN_env_i.

(* reset() of the off-policy learners for N > 1 parallel environments (off_policy.py; the translator insists on the in_axes of the two
   vmaps): environment i gets ITS OWN buffer of capacity buffer_size // N, initial state from split(init_key, N)[i] and warm-up with
   split(starts_key, N)[i]; the iteration counter starts at 0; the observer is reset with its own key *)
Section OffReset.
  Context {SS CB : Type}.
  Variables (N B : nat) (ss_init : Z -> kpath -> SS) (warm : SS -> kpath -> SS) (cb_reset : kpath -> CB) (k : kpath).

  Theorem gen_offresetN_eq_singles :
    gen_offresetN_step_states N B ss_init warm cb_reset k =
    map (fun i => warm (ss_init (Z.of_nat B / Z.of_nat N) (ks (ks k 3 0) N i)) (ks (ks k 3 1) N i)) (seq 0 N) /\
    gen_offresetN_count N B ss_init warm cb_reset k = 0%Z /\
    gen_offresetN_callback_state N B ss_init warm cb_reset k = cb_reset (ks k 3 2).
  Proof.
    unfold gen_offresetN_step_states, gen_offresetN_count, gen_offresetN_callback_state.
    rewrite !Nat2Z.id. unfold ksplit_keys. rewrite map_map.
    rewrite (kzip2_map (fun s0 k0 => warm s0 k0)). repeat split; reflexivity.
  Qed.
End OffReset.

(* instantiated with the concrete initial state and warm-up of the off-policy model: this is OffPolicy.off_reset for N <> 1 *)
Theorem gen_offresetN_eq_model {S PS O : Type} (E : env S Q O) (P : acpol PS Q O) (N B L : nat) (canon_o : O) (canon_a : Q) (k : kpath) :
  N <> 1%nat ->
  gen_offresetN_step_states N B
    (fun size ik => ((e_init E (ks ik 2 0), p_reset P (ks ik 2 1)), soa_empty (Z.to_nat size) canon_o canon_a (p_reset P (ks ik 2 1))))
    (fun st sk => off_scan E P st (split_keys sk L)) (fun _ => tt) k =
  off_reset E P N B L canon_o canon_a k.
Proof.
  intros HN. destruct (gen_offresetN_eq_singles N B
    (fun size ik => ((e_init E (ks ik 2 0), p_reset P (ks ik 2 1)), soa_empty (Z.to_nat size) canon_o canon_a (p_reset P (ks ik 2 1))))
    (fun st sk => off_scan E P st (split_keys sk L)) (fun _ => tt) k) as [-> _].
  unfold off_reset. destruct (Nat.eqb_spec N 1) as [->|_]; [congruence|].
  apply map_ext. intros i. unfold off_reset_env. cbn [fst snd].
  rewrite <- Nat2Z.inj_div, Nat2Z.id. reflexivity.
Qed.

Print Assumptions gen_offresetN_eq_singles.
Print Assumptions gen_offresetN_eq_model.
