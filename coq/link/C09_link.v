(* C09 link: AbstractBuffer.batch_indices REGENERATED from lerax/buffer/base_buffer.py equals Batching.batch_indices for EVERY index vector
   the shuffle may return and every batch size B > 0: the permutation is trimmed to floor(N/B)*B entries and cut into consecutive rows of B.
   props/C09.v proves (for any permutation) that these rows are pairwise disjoint, in range and use exactly floor(N/B)*B indices. *)
From Coq Require Import List ZArith Arith Lia.
From Lerax Require Import KBase Env Batching.
From LeraxGen Require Import GenK_C09.

Lemma kchunks_chunks {A} B n (l : list A) : kchunks B n l = chunks B n l.
Proof. revert l; induction n as [|n IH]; intros l; cbn; [reflexivity | now rewrite IH]. Qed.

Theorem gen_batch_indices_eq_model (B : nat) (perm : list nat) (k : kpath) :
  (0 < B)%nat -> gen_batch_indices_rows B perm k = batch_indices B perm.
Proof.
  intros HB. unfold gen_batch_indices_rows, batch_indices, trim, kreshape.
  rewrite Nat2Z.id.
  assert (E : Z.to_nat (Z.of_nat (length perm) - Z.of_nat (length perm) mod Z.of_nat B) = (length perm - length perm mod B)%nat).
  { rewrite <- Nat2Z.inj_mod. rewrite <- Nat2Z.inj_sub by (apply Nat.mod_le; lia). apply Nat2Z.id. }
  rewrite E. apply kchunks_chunks.
Qed.

Print Assumptions gen_batch_indices_eq_model.

(* PPO.train with PPO.train_epoch inlined (ppo.py; train_batch is an arbitrary function `step` of the carry (policy, optimiser state) and a
   gathered minibatch; jr.permutation is an arbitrary function `perm` of key and size): the carry is threaded through num_epochs epochs, epoch e
   shuffles with ITS OWN key split(key, num_epochs)[e], and inside an epoch through EVERY row of batch_indices(batch_size, that key), in order,
   each row gathered from the flattened buffer = Batching.train, about which props/C09.v proves the partition / fresh-shuffle statements *)
Lemma kfoldmap_fold {C K Y : Type} (F : C -> K -> C * Y) (G : C -> K -> C) :
  (forall c k, fst (F c k) = G c k) -> forall l c, fst (kfoldmap F c l) = fold_left G l c.
Proof.
  intros H l. induction l as [|k l IH]; intros c; [reflexivity|].
  cbn [kfoldmap fold_left]. cbv zeta. cbn [fst]. rewrite IH, H. reflexivity.
Qed.

Lemma fold_left_ext {C K : Type} (G H : C -> K -> C) : (forall c k, G c k = H c k) -> forall l c, fold_left G l c = fold_left H l c.
Proof. intros E l. induction l as [|k l IH]; intros c; cbn; [reflexivity | now rewrite E, IH]. Qed.

Theorem gen_ppotrain_eq_model {X OS A ST : Type} (stat : ST) (perm : kpath -> nat -> list nat) (step : X * OS -> soa A -> X * OS) (d : A)
        (B E : nat) (buf : soa2 A) (pol : X) (opt : OS) (k : kpath) :
  (gen_ppotrain_policy stat perm step d B E buf pol opt k, gen_ppotrain_opt_state stat perm step d B E buf pol opt k) =
  train perm step d B E buf (pol, opt) k.
Proof.
  unfold gen_ppotrain_policy, gen_ppotrain_opt_state, train, kfoldmapi.
  rewrite Nat2Z.id.
  match goal with |- context [kfoldmap ?f (pol, opt) _] => set (F := f) end.
  transitivity (fst (kfoldmap F (pol, opt) (ksplit_keys k E))).
  { destruct (fst (kfoldmap F (pol, opt) (ksplit_keys k E))); reflexivity. }
  rewrite (kfoldmap_fold F (fun c k0 => fst (F c k0))) by reflexivity.
  unfold ksplit_keys, epoch_keys. apply fold_left_ext. intros [c0 c1] k0. subst F. cbv beta iota.
  unfold train_epoch. cbn [fst].
  match goal with |- context [kfoldmap ?f (c0, c1) _] => set (Fi := f) end.
  transitivity (fst (kfoldmap Fi (c0, c1) (batch_indices B (perm k0 (soa_len (flatten_soa buf)))))).
  { destruct (fst (kfoldmap Fi (c0, c1) (batch_indices B (perm k0 (soa_len (flatten_soa buf)))))); reflexivity. }
  apply kfoldmap_fold. intros [a b] row. subst Fi. cbn [fst].
  destruct (step (a, b) (gather_soa d (flatten_soa buf) row)); reflexivity.
Qed.

Print Assumptions gen_ppotrain_eq_model.
