(* C09 link: AbstractBuffer.batch_indices REGENERATED from lerax/buffer/base_buffer.py equals Batching.batch_indices for EVERY index vector
   the shuffle may return and every batch size B > 0: the permutation is trimmed to floor(N/B)*B entries and cut into consecutive rows of B.
   props/C09.v proves (for any permutation) that these rows are pairwise disjoint, in range and use exactly floor(N/B)*B indices. *)
From Coq Require Import List ZArith Arith Lia.
From Lerax Require Import KBase Env Batching.
From LeraxGen Require Import GenK_C09.

Lemma kchunks_chunks {A} B n (l : list A) : kchunks B n l = chunks B n l.
Proof. revert l; induction n as [|n IH]; intros l; cbn; [reflexivity | now rewrite IH]. Qed.

Theorem gen_batch_indices_eq_model (B : nat) (perm : list nat) (k : kpath) :
  (0 < B)%nat -> gen_batch_indices_rows B perm k = batch_indices B perm.
Proof.
  intros HB. unfold gen_batch_indices_rows, batch_indices, trim, kreshape.
  rewrite Nat2Z.id.
  assert (E : Z.to_nat (Z.of_nat (length perm) - Z.of_nat (length perm) mod Z.of_nat B) = (length perm - length perm mod B)%nat).
  { rewrite <- Nat2Z.inj_mod. rewrite <- Nat2Z.inj_sub by (apply Nat.mod_le; lia). apply Nat2Z.id. }
  rewrite E. apply kchunks_chunks.
Qed.

Print Assumptions gen_batch_indices_eq_model.
