(* C20 link: the gait functions REGENERATED from lerax/env/unitree/g1/gait.py (per-foot view: the code is elementwise over the
   two feet) equal the hand-written real-number model Gait.v at half period PI, for every phase, frequency, time step and swing
   height.  props/C20.v proves phase range / congruence / half-a-cycle-apart along any history and the Bezier height bounds about
   advance1, advance and foot_height. *)
From Coq Require Import Reals List ZArith Lra.
From Lerax Require Import KBase Gait.
From LeraxGen Require Import GenK_C20.
Open Scope R_scope.

Theorem gen_gait_initial_eq_model : (gen_gait_initial_left tt, gen_gait_initial_right tt) = initial_phase PI.
Proof. reflexivity. Qed.

Theorem gen_gait_advance_eq_model ph f dt : gen_gait_advance_value ph f dt = advance1 PI ph f dt.
Proof.
  unfold gen_gait_advance_value, advance1, phase_increment.
  replace (ph + 2 * PI * f * dt + PI) with (ph + 2 * PI * f * dt + PI) by ring. reflexivity.
Qed.

(* both feet are advanced with the same frequency and time step *)
Theorem gen_gait_advance_pair p f dt :
  (gen_gait_advance_value (fst p) f dt, gen_gait_advance_value (snd p) f dt) = advance PI p f dt.
Proof. unfold advance. now rewrite !gen_gait_advance_eq_model. Qed.

Theorem gen_gait_height_eq_model ph h : gen_gait_height_value ph h = foot_height PI ph h.
Proof.
  unfold gen_gait_height_value, foot_height, cubic_bezier, bezier, Rleb. cbv zeta.
  destruct (Rle_dec ((ph + PI) / (2 * PI)) (1 / 2)); ring.
Qed.

Print Assumptions gen_gait_initial_eq_model.
Print Assumptions gen_gait_advance_pair.
Print Assumptions gen_gait_height_eq_model.
