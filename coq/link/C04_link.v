(* C04 link: the on-policy step REGENERATED from lerax/algorithm/on_policy.py (AbstractActorCriticOnPolicyAlgorithm.step) equals the
   hand-written OnPolicy.op_step for EVERY environment record, actor-critic policy, state pair and key:
   nine-way key split; observation and mask of the current state; the policy's own action / value / log-prob for that observation;
   the environment driven, and its reward computed, with the action clipped into a Box action space; done = terminal || truncated;
   gamma * V(successor observation) added on a pure truncation only; environment and policy state restarted after a done step;
   the buffer row stores the UNCLIPPED sample with its own log-prob and the policy state BEFORE the step; the step callback is
   handed the environment's reward (not the bootstrapped one), done, and its own key (index 8 of 9).
   props/C04.v proves the faithful-record theorems about op_step / collect. *)
From Coq Require Import List ZArith QArith Bool.
From Lerax Require Import KBase Env OnPolicy.
From LeraxGen Require Import GenK_C04.

Section Link.
  Context {S PS O CB : Type}.
  Variable gamma : Q.
  Variable E : env S Q O.
  Variable P : acpol PS Q O.
  Variables (es : S) (ps : PS) (cbs : CB) (k : kpath).

  Notation G f := (f S PS O CB gamma E P es ps cbs k).

  Theorem gen_onstep_eq_model :
    let out := op_step gamma E P (es, ps) k in
    let row := snd out in
    fst out = (G (@gen_onstep_env_state), G (@gen_onstep_policy_state)) /\
    r_obs row = G (@gen_onstep_obs) /\ r_act row = G (@gen_onstep_act) /\ r_rew row = G (@gen_onstep_rew) /\
    r_done row = G (@gen_onstep_done) /\ r_logp row = G (@gen_onstep_logp) /\ r_val row = G (@gen_onstep_val) /\
    r_pstate row = G (@gen_onstep_pstate) /\ r_mask row = G (@gen_onstep_mask) /\
    (* what the step callback sees *)
    r_env_rew row = G (@gen_onstep_cb_reward) /\ r_done row = G (@gen_onstep_cb_done) /\ G (@gen_onstep_cb_key) = ks k 9 8.
  Proof.
    cbv zeta.
    unfold op_step, gen_onstep_env_state, gen_onstep_policy_state, gen_onstep_obs, gen_onstep_act, gen_onstep_rew, gen_onstep_done,
      gen_onstep_logp, gen_onstep_val, gen_onstep_pstate, gen_onstep_mask, gen_onstep_cb_reward, gen_onstep_cb_done, gen_onstep_cb_key.
    destruct (p_act P ps (e_obs E es (ks k 9 2)) (ks k 9 0) (e_mask E es (ks k 9 2))) as [[[ps1 a] v] lp].
    cbn [fst snd r_obs r_act r_rew r_done r_logp r_val r_pstate r_mask r_env_rew].
    unfold clip_action, sp_is_box, sp_lo, sp_hi.
    destruct (e_asp E); repeat split; reflexivity.
  Qed.
End Link.

Print Assumptions gen_onstep_eq_model.

(* ---------------------------------------------------------------------------------------------------------------------------
   collect_rollout (on_policy.py), executed symbolically TOGETHER WITH the step and post_collect methods it calls: the key is split in
   two, the step is scanned over jr.split(key0, num_steps) threading (callback state, environment state, policy state), the rows are
   collected in order, and the bootstrap value handed to the GAE kernel (C03) is the policy's value of the observation of the FINAL
   state under the post-collect key, with the learner's own gamma and lambda.  = OnPolicy.collect. *)
Section Collect.
  Context {S PS O CB : Type}.
  Variables gamma lam : Q.
  Variable E : env S Q O.
  Variable P : acpol PS Q O.
  Variable cb_step : CB -> bool -> Q -> kpath -> CB.

  Definition row_tuple (r : @orow PS O) := (r_mask r, r_act r, r_done r, r_logp r, r_obs r, r_rew r, r_pstate r, r_val r).

  Section Scan.
    Variable F : CB * S * PS -> kpath -> (CB * S * PS) * (option (list bool) * Q * bool * Q * O * Q * PS * Q).
    Hypothesis HF : forall c0 es ps k,
      snd (fst (fst (F (c0, es, ps) k))) = fst (fst (op_step gamma E P (es, ps) k)) /\
      snd (fst (F (c0, es, ps) k)) = snd (fst (op_step gamma E P (es, ps) k)) /\
      snd (F (c0, es, ps) k) = row_tuple (snd (op_step gamma E P (es, ps) k)).

    Lemma kfoldmap_scan_steps keys : forall c0 es ps,
      let R := kfoldmap F (c0, es, ps) keys in
      let M := scan_steps gamma E P (es, ps) keys in
      (snd (fst (fst R)), snd (fst R)) = fst M /\ snd R = map row_tuple (snd M).
    Proof.
      induction keys as [|k keys IH]; intros c0 es ps; [split; reflexivity|].
      cbn [kfoldmap scan_steps]. cbv zeta.
      destruct (HF c0 es ps k) as (H1 & H2 & H3).
      destruct (F (c0, es, ps) k) as [[[c0' es'] ps'] row] eqn:EF. cbn [fst snd] in *.
      destruct (op_step gamma E P (es, ps) k) as [[es1 ps1] r1] eqn:EO. cbn [fst snd] in *. subst es' ps' row.
      specialize (IH c0' es1 ps1). cbv zeta in IH.
      destruct (scan_steps gamma E P (es1, ps1) keys) as [st2 rows] eqn:ES. cbn [fst snd] in *.
      destruct IH as [IH1 IH2]. split; [exact IH1 | rewrite IH2; reflexivity].
    Qed.
  End Scan.

  Variables (T : nat) (es : S) (ps : PS) (cbs : CB) (k : kpath).
  Notation G f := (f S PS O CB gamma lam T E P cb_step es ps cbs k).

  Theorem gen_collect_eq_model :
    let M := collect gamma E P T (es, ps) k in
    fst (fst M) = (G (@gen_collect_env_state), G (@gen_collect_policy_state)) /\
    map r_obs (snd (fst M)) = G (@gen_collect_observations) /\ map r_act (snd (fst M)) = G (@gen_collect_actions) /\
    map r_rew (snd (fst M)) = G (@gen_collect_rewards) /\ map r_done (snd (fst M)) = G (@gen_collect_dones) /\
    map r_logp (snd (fst M)) = G (@gen_collect_log_probs) /\ map r_val (snd (fst M)) = G (@gen_collect_values) /\
    map r_pstate (snd (fst M)) = G (@gen_collect_states) /\ map r_mask (snd (fst M)) = G (@gen_collect_action_masks) /\
    snd M = G (@gen_collect_last_value) /\ G (@gen_collect_gae_gamma) = gamma /\ G (@gen_collect_gae_lambda) = lam.
  Proof.
    cbv zeta.
    unfold gen_collect_env_state, gen_collect_policy_state, gen_collect_observations, gen_collect_actions, gen_collect_rewards,
      gen_collect_dones, gen_collect_log_probs, gen_collect_values, gen_collect_states, gen_collect_action_masks,
      gen_collect_last_value, gen_collect_gae_gamma, gen_collect_gae_lambda, collect.
    rewrite !Nat2Z.id.
    change (ksplit_keys (ks k 2 0) T) with (split_keys (ks k 2 0) T).
    unfold kfoldmapi.
    match goal with |- context [kfoldmap ?f _ _] => set (F := f) end.
    assert (HF : forall c0 es0 ps0 k0,
      snd (fst (fst (F (c0, es0, ps0) k0))) = fst (fst (op_step gamma E P (es0, ps0) k0)) /\
      snd (fst (F (c0, es0, ps0) k0)) = snd (fst (op_step gamma E P (es0, ps0) k0)) /\
      snd (F (c0, es0, ps0) k0) = row_tuple (snd (op_step gamma E P (es0, ps0) k0))).
    { intros c0 es0 ps0 k0. subst F. unfold op_step, row_tuple. cbv beta iota.
      destruct (p_act P ps0 (e_obs E es0 (ks k0 9 2)) (ks k0 9 0) (e_mask E es0 (ks k0 9 2))) as [[[ps1 a] v] lp].
      cbn [fst snd r_obs r_act r_rew r_done r_logp r_val r_pstate r_mask].
      unfold clip_action, sp_is_box, sp_lo, sp_hi. destruct (e_asp E); repeat split; reflexivity. }
    pose proof (kfoldmap_scan_steps F HF (split_keys (ks k 2 0) T) cbs es ps) as HK. cbv zeta in HK.
    destruct (scan_steps gamma E P (es, ps) (split_keys (ks k 2 0) T)) as [st1 rows] eqn:ES.
    destruct (kfoldmap F (cbs, es, ps) (split_keys (ks k 2 0) T)) as [[[c0' es'] ps'] R] eqn:EK.
    cbn [fst snd] in *. destruct HK as [HK1 HK2]. subst st1 R.
    rewrite !map_map. cbn [fst snd]. unfold row_tuple.
    repeat split; try reflexivity.
  Qed.
End Collect.

Print Assumptions gen_collect_eq_model.
