(* C04 link: the on-policy step REGENERATED from lerax/algorithm/on_policy.py (AbstractActorCriticOnPolicyAlgorithm.step) equals the
   hand-written OnPolicy.op_step for EVERY environment record, actor-critic policy, state pair and key:
   nine-way key split; observation and mask of the current state; the policy's own action / value / log-prob for that observation;
   the environment driven, and its reward computed, with the action clipped into a Box action space; done = terminal || truncated;
   gamma * V(successor observation) added on a pure truncation only; environment and policy state restarted after a done step;
   the buffer row stores the UNCLIPPED sample with its own log-prob and the policy state BEFORE the step; the step callback is
   handed the environment's reward (not the bootstrapped one), done, and its own key (index 8 of 9).
   props/C04.v proves the faithful-record theorems about op_step / collect. *)
From Coq Require Import List ZArith QArith Bool.
From Lerax Require Import KBase Env OnPolicy.
From LeraxGen Require Import GenK_C04.

Section Link.
  Context {S PS O CB : Type}.
  Variable gamma : Q.
  Variable E : env S Q O.
  Variable P : acpol PS Q O.
  Variables (es : S) (ps : PS) (cbs : CB) (k : kpath).

  Notation G f := (f S PS O CB gamma E P es ps cbs k).

  Theorem gen_onstep_eq_model :
    let out := op_step gamma E P (es, ps) k in
    let row := snd out in
    fst out = (G (@gen_onstep_env_state), G (@gen_onstep_policy_state)) /\
    r_obs row = G (@gen_onstep_obs) /\ r_act row = G (@gen_onstep_act) /\ r_rew row = G (@gen_onstep_rew) /\
    r_done row = G (@gen_onstep_done) /\ r_logp row = G (@gen_onstep_logp) /\ r_val row = G (@gen_onstep_val) /\
    r_pstate row = G (@gen_onstep_pstate) /\ r_mask row = G (@gen_onstep_mask) /\
    (* what the step callback sees *)
    r_env_rew row = G (@gen_onstep_cb_reward) /\ r_done row = G (@gen_onstep_cb_done) /\ G (@gen_onstep_cb_key) = ks k 9 8.
  Proof.
    cbv zeta.
    unfold op_step, gen_onstep_env_state, gen_onstep_policy_state, gen_onstep_obs, gen_onstep_act, gen_onstep_rew, gen_onstep_done,
      gen_onstep_logp, gen_onstep_val, gen_onstep_pstate, gen_onstep_mask, gen_onstep_cb_reward, gen_onstep_cb_done, gen_onstep_cb_key.
    destruct (p_act P ps (e_obs E es (ks k 9 2)) (ks k 9 0) (e_mask E es (ks k 9 2))) as [[[ps1 a] v] lp].
    cbn [fst snd r_obs r_act r_rew r_done r_logp r_val r_pstate r_mask r_env_rew].
    unfold clip_action, sp_is_box, sp_lo, sp_hi.
    destruct (e_asp E); repeat split; reflexivity.
  Qed.
End Link.

Print Assumptions gen_onstep_eq_model.
