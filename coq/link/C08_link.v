(* C08 link: the loss REGENERATED from lerax/algorithm/ppo.py (PPO.ppo_loss) is, for every batch, coefficient and flag,
     total        = policy_loss + value_loss * c_v + entropy_loss * c_e                     (Losses.total_loss)
     policy_loss  = - mean_i surrogateR eps (exp (logp_i - old_logp_i)) A'_i                (the clipped surrogate of Losses.v,
                    A' = A or (A - mean A) / (std A + finfo.eps) when normalising)           about which props/C08.v proves the
     value_loss   = mean_i (v_i - R_i)^2 / 2, or with value clipping                           zero-gradient and ratio-one theorems)
                    mean_i max((v_i - R_i)^2, (old_v_i + clip(v_i - old_v_i, -eps, eps) - R_i)^2) / 2
     entropy_loss = - mean_i entropy_i,     approx_kl = mean_i (r_i - log r_i) - 1
   and the policy is re-evaluated on exactly the stored (states, observations, actions, masks) (checked by the translator). *)
From Coq Require Import Reals List ZArith Bool Lra.
From Lerax Require Import KBase KBaseProofs Losses LossesProofs.
From LeraxGen Require Import GenK_C08.
Import ListNotations.
Open Scope R_scope.

Section Ppo.
  Variable std : list R -> R.
  Variable feps : R.
  Variables (normalize clip_vf : bool) (eps cv ce : R).
  Variables values log_probs entropy old_log_probs advs old_values returns : list R.

  Notation G f := (f std feps normalize clip_vf eps cv ce values log_probs entropy old_log_probs advs old_values returns).

  Definition norm_adv (a : R) : R := if normalize then (a - kmean advs) / (std advs + feps) else a.

  Theorem gen_policy_loss_is_clipped_surrogate :
    G gen_ppo_policy_loss =
    - kmean (kzip3 (fun a lp olp => surrogateR eps (exp (lp - olp)) (norm_adv a)) advs log_probs old_log_probs).
  Proof.
    unfold gen_ppo_policy_loss. rewrite Rminus_0_l. apply f_equal. apply f_equal.
    apply kzip3_ext. intros a lp olp.
    unfold surrogateR, surrogate, clip, Rclip, norm_adv. reflexivity.
  Qed.

  Theorem gen_value_loss_eq :
    G gen_ppo_value_loss =
    if clip_vf
    then kmean (kzip3 (fun v r ov => Rmax ((v - r) * (v - r)) ((ov + Rclip (v - ov) (- eps) eps - r) * (ov + Rclip (v - ov) (- eps) eps - r)))
                      values returns old_values) / 2
    else kmean (kzip2 (fun v r => (v - r) * (v - r)) values returns) / 2.
  Proof.
    unfold gen_ppo_value_loss. destruct clip_vf; [|reflexivity].
    apply (f_equal (fun x => x / 2)). apply f_equal. apply kzip3_ext. intros v r ov. rewrite Rminus_0_l. reflexivity.
  Qed.

  Theorem gen_entropy_loss_eq : G gen_ppo_entropy_loss = - kmean entropy.
  Proof. unfold gen_ppo_entropy_loss. ring. Qed.

  Theorem gen_approx_kl_eq :
    G gen_ppo_approx_kl = kmean (kzip2 (fun lp olp => exp (lp - olp) - (lp - olp)) log_probs old_log_probs) - 1.
  Proof. reflexivity. Qed.

  Theorem gen_total_eq :
    G gen_ppo_total =
    total_loss R Rplus Rmult (G gen_ppo_policy_loss) (G gen_ppo_value_loss) (G gen_ppo_entropy_loss) cv ce.
  Proof. reflexivity. Qed.

  (* on data collected by the current policy (log-probs reproduced exactly) every ratio is 1: each sample contributes A'_i *)
  Theorem gen_policy_loss_on_policy :
    0 <= eps -> log_probs = old_log_probs ->
    G gen_ppo_policy_loss = - kmean (kzip3 (fun a _ _ => norm_adv a) advs old_log_probs old_log_probs).
  Proof.
    intros He Heq. rewrite gen_policy_loss_is_clipped_surrogate, Heq. apply f_equal. apply f_equal.
    clear Heq. generalize advs. induction old_log_probs as [|l ls IH]; intros [|a al]; cbn; auto.
    rewrite IH. f_equal.
    replace (l - l) with 0 by ring. rewrite exp_0.
    unfold surrogateR, surrogate, clip.
    rewrite (Rmax_left 1 (1 - eps)) by lra. rewrite (Rmin_left 1 (1 + eps)) by lra.
    rewrite Rmin_left by lra. ring.
  Qed.
End Ppo.

Print Assumptions gen_policy_loss_is_clipped_surrogate.
Print Assumptions gen_value_loss_eq.
Print Assumptions gen_total_eq.
Print Assumptions gen_policy_loss_on_policy.
