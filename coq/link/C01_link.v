(* C01 link: the Gym-style step / reset REGENERATED from lerax/env/base_env.py (AbstractEnvLike.step, .reset) equal the hand-written
   Env.gym_step / gym_reset for EVERY environment record, state, action and key: same four-way key split, reward and flags of the
   transition taken from the given state, initial(reset_key) selected iff terminal || truncate, observation of the SELECTED state
   with the parent key.  props/C01.v proves the auto-reset contract and the episodic refinement about gym_step / gym_reset. *)
From Coq Require Import List ZArith QArith Bool.
From Lerax Require Import KBase Env.
From LeraxGen Require Import GenK_C01.

Theorem gen_step_eq_model {S A O : Type} (E : env S A O) (s : S) (a : A) (k : kpath) :
  let o := gym_step E s a k in
  gen_step_state E s a k = so_state o /\ gen_step_observation E s a k = so_obs o /\ gen_step_reward E s a k = so_rew o /\
  gen_step_terminal E s a k = so_term o /\ gen_step_truncate E s a k = so_trunc o /\ gen_step_info E s a k = so_info o.
Proof. cbv zeta. repeat split; reflexivity. Qed.

Theorem gen_reset_eq_model {S A O : Type} (E : env S A O) (k : kpath) :
  (gen_reset_state E k, gen_reset_observation E k, gen_reset_info E k) = gym_reset E k.
Proof. reflexivity. Qed.

Print Assumptions gen_step_eq_model.
Print Assumptions gen_reset_eq_model.
