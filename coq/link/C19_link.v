(* C19 link: the definitions REGENERATED from lerax/callback/logging/callback.py (LoggingCallbackStepState.next) equal the
   hand-written model Logging.l_next field by field, for every state, reward, done flag and smoothing factor.  The property
   theorems of props/C19.v (episode statistics blended exactly at episode ends, unchanged otherwise) are about l_next. *)
From Coq Require Import List ZArith QArith Bool Lia.
From Lerax Require Import KBase Logging.
From LeraxGen Require Import GenK_C19.
Open Scope Q_scope.

Theorem gen_lnext_eq_model alpha s r d :
  let n := l_next alpha s r d in
  gen_lnext_step alpha s r d = l_step n /\
  gen_lnext_episode_return alpha s r d == l_ret n /\
  gen_lnext_episode_length alpha s r d = l_len n /\
  gen_lnext_episode_done alpha s r d = l_done n /\
  gen_lnext_average_return alpha s r d == l_avg_ret n /\
  gen_lnext_average_length alpha s r d == l_avg_len n.
Proof.
  cbv zeta.
  unfold gen_lnext_step, gen_lnext_episode_return, gen_lnext_episode_length, gen_lnext_episode_done,
    gen_lnext_average_return, gen_lnext_average_length, l_next; cbn [l_step l_ret l_len l_done l_avg_ret l_avg_len].
  unfold b2Q, bQ, b2Z, bZ.
  destruct d, (l_done s); repeat split; try reflexivity; try ring.
Qed.
Print Assumptions gen_lnext_eq_model.
