(* C19 link: the definitions REGENERATED from lerax/callback/logging/callback.py (LoggingCallbackStepState.next) equal the
   hand-written model Logging.l_next field by field, for every state, reward, done flag and smoothing factor.  The property
   theorems of props/C19.v (episode statistics blended exactly at episode ends, unchanged otherwise) are about l_next. *)
From Coq Require Import List ZArith QArith Bool Lia.
From Lerax Require Import KBase Env OnPolicy Logging.
From LeraxGen Require Import GenK_C19.
Open Scope Q_scope.

Theorem gen_lnext_eq_model alpha s r d :
  let n := l_next alpha s r d in
  gen_lnext_step alpha s r d = l_step n /\
  gen_lnext_episode_return alpha s r d == l_ret n /\
  gen_lnext_episode_length alpha s r d = l_len n /\
  gen_lnext_episode_done alpha s r d = l_done n /\
  gen_lnext_average_return alpha s r d == l_avg_ret n /\
  gen_lnext_average_length alpha s r d == l_avg_len n.
Proof.
  cbv zeta.
  unfold gen_lnext_step, gen_lnext_episode_return, gen_lnext_episode_length, gen_lnext_episode_done,
    gen_lnext_average_return, gen_lnext_average_length, l_next; cbn [l_step l_ret l_len l_done l_avg_ret l_avg_len].
  unfold b2Q, bQ, b2Z, bZ.
  destruct d, (l_done s); repeat split; try reflexivity; try ring.
Qed.
Print Assumptions gen_lnext_eq_model.

(* rollout_scan (benchmark/__init__.py), the evaluation helper, executed symbolically with the scanned step, the cond on `done` and the
   two ways of calling the policy: the episode starts from initial(key) / policy.reset(key); the step is scanned over split(key, max_steps);
   once an episode end (terminal OR truncated successor) has been seen every later step contributes reward 0 and changes nothing; the
   result is the sum of the collected rewards = Logging.rollout_scan, about which props/C19.v proves "the undiscounted return up to and
   including the first terminal or truncated state, or the step cap". *)
Section RolloutScan.
  Context {S PS O : Type}.
  Variable E : env S Q O.
  Variable P : acpol PS Q O.
  Variable det : bool.

  Section Generic.
    Variable F : S * PS * bool -> kpath -> (S * PS * bool) * Q.
    Hypothesis HF : forall s ps d k,
      F (s, ps, d) k =
      if d then ((s, ps, true), 0)
      else let '(st1, r, d') := scan_step E P det (s, ps) k in ((fst st1, snd st1, d'), r).

    Lemma kfoldmap_scan_rewards keys : forall s ps d,
      snd (kfoldmap F (s, ps, d) keys) = scan_rewards E P det (s, ps) d keys.
    Proof.
      induction keys as [|k keys IH]; intros s ps d; [reflexivity|].
      cbn [kfoldmap scan_rewards]. cbv zeta. rewrite HF.
      destruct d.
      - cbn [fst snd]. now rewrite IH.
      - destruct (scan_step E P det (s, ps) k) as [[[s1 ps1] r] d'] eqn:ES. cbn [fst snd]. now rewrite IH.
    Qed.
  End Generic.

  Theorem gen_rscan_eq_model (max_steps : nat) (k : kpath) :
    gen_rscan_value E P det max_steps k = rollout_scan E P det k max_steps.
  Proof.
    unfold gen_rscan_value, rollout_scan. rewrite Nat2Z.id.
    change (ksplit_keys k max_steps) with (split_keys k max_steps).
    unfold kfoldmapi.
    match goal with |- context [kfoldmap ?f _ _] => set (F := f) end.
    assert (HF : forall s ps d k0,
      F (s, ps, d) k0 =
      if d then ((s, ps, true), 0)
      else let '(st1, r, d') := scan_step E P det (s, ps) k0 in ((fst st1, snd st1, d'), r)).
    { intros s ps d k0. subst F. cbv beta iota. destruct d; [reflexivity|].
      unfold scan_step, call_policy. destruct det.
      - destruct (p_act P ps (e_obs E s (ks k0 5 1)) nil None) as [[[ps1 a] v] lp]. reflexivity.
      - destruct (p_act P ps (e_obs E s (ks k0 5 1)) (ks k0 5 2) None) as [[[ps1 a] v] lp]. reflexivity. }
    rewrite (kfoldmap_scan_rewards F HF). reflexivity.
  Qed.
End RolloutScan.

Print Assumptions gen_rscan_eq_model.

(* LoggingCallback.on_iteration (callback.py), with the backend call recorded as an effect by the translator (exactly one record per
   backend, emitted with ordered=True, the observer's own state returned unchanged): the record carries the SUM of the per-environment step
   counters and the MEANS over the environments of the two statistics = Logging.iter_record *)
Theorem gen_oniterlog_eq_model (sts : list lstate) :
  (gen_oniterlog_step sts, gen_oniterlog_episode_return sts, gen_oniterlog_episode_length sts) = iter_record sts.
Proof.
  unfold gen_oniterlog_step, gen_oniterlog_episode_return, gen_oniterlog_episode_length, iter_record, ksumZ, kmeanQ, qmean, qsum.
  rewrite !map_length. reflexivity.
Qed.

Print Assumptions gen_oniterlog_eq_model.
