"""C07 — TD targets bootstrap through truncation, never through termination.
Tie: DQN.dqn_loss on crafted batches (all done/timeout flag combinations) with tabular online/target Q-functions;
the q_loss reported by SAC.sac_train on constant batches with a deterministic stub policy and tabular critics;
SAC.actor_loss; all exact, compared in Coq. Gradient support: the value-and-grad wrappers return gradients for the
first argument only; target critics and (after the actor step) the critics are bit-identical."""
from __future__ import annotations

from typing import Any, ClassVar

import numpy as np

from harness.common import Violation, bl, listl, ql, run_main, setup_jax

jax = setup_jax(x64=True)
import equinox as eqx  # noqa: E402
import jax.numpy as jnp  # noqa: E402
import jax.random as jr  # noqa: E402
from jaxtyping import Array  # noqa: E402

from lerax.algorithm import DQN, SAC  # noqa: E402
from lerax.buffer import ReplayBuffer  # noqa: E402
from lerax.policy import AbstractQPolicy  # noqa: E402
from lerax.policy.sac import AbstractSACPolicy  # noqa: E402
from lerax.space import Box, Discrete  # noqa: E402


class StubQ(AbstractQPolicy):
    """tabular, STATEFUL Q-function: Q(state h, obs) = QT[obs] + HB[h] (HB = 0 when the policy state is None)"""
    name: ClassVar[str] = "StubQ"
    action_space: Discrete
    observation_space: Discrete
    epsilon: float
    QT: Array
    HB: Array

    def __init__(self, qt, hb=(0.0,)):
        self.QT = jnp.asarray(qt, dtype=float); self.HB = jnp.asarray(hb, dtype=float)
        self.action_space = Discrete(self.QT.shape[1]); self.observation_space = Discrete(self.QT.shape[0]); self.epsilon = 0.0

    def reset(self, *, key):
        return None

    def q_values(self, state, observation):
        if state is None:
            return state, self.QT[observation]
        return state, self.QT[observation] + self.HB[state.h]


class StubSAC(AbstractSACPolicy):
    name: ClassVar[str] = "StubSAC"
    action_space: Any
    observation_space: Any
    A: Array
    LP: Array

    def __init__(self, a, lp):
        self.A = jnp.asarray(a, dtype=float); self.LP = jnp.asarray(lp, dtype=float)
        self.action_space = Box(-1.0, 1.0, shape=()); self.observation_space = Discrete(self.A.shape[0])

    def reset(self, *, key):
        return None

    def __call__(self, state, observation, *, key=None, action_mask=None):
        return state, self.A[observation]

    def action_distribution(self, state, observation):
        raise NotImplementedError

    def action_and_log_prob(self, state, observation, *, key):
        return state, self.A[observation], self.LP[observation]


class StubCritic(eqx.Module):
    W: Array
    C: Array

    def __call__(self, observation, action):
        return self.W[observation] + self.C * action


def fill(obs_space, act_space, rows, hs=None):
    """hs: per row (policy state before, policy state after) for stateful Q-functions"""
    from harness.stubs import TabPState
    if hs is None:
        b = ReplayBuffer(len(rows), obs_space, act_space, None)
        for (o, no, a, r, d, t) in rows:
            b = b.add(jnp.asarray(o), jnp.asarray(no), jnp.asarray(a), r, d, t, None, None)
        return b
    b = ReplayBuffer(len(rows), obs_space, act_space, TabPState(jnp.asarray(0)))
    for (o, no, a, r, d, t), (h, h2) in zip(rows, hs):
        b = b.add(jnp.asarray(o), jnp.asarray(no), jnp.asarray(a), r, d, t, TabPState(jnp.asarray(h)), TabPState(jnp.asarray(h2)))
    return b


def body(ck):
    ck.rule = ("batches of 1..8 transitions covering all four (done, timeout) combinations incl. the pair the collector never stores, dyadic rewards / Q-tables / gamma / alpha; "
               "non-trivial = the batch contains a terminated AND a timed-out transition; distinct by case index")
    ck.assumptions = ["exact float64 arithmetic on dyadic data", "sac_train's minibatch equals the whole buffer when batch_size = stored count (the loss is permutation invariant)"]
    ck.not_proved = ["'no gradient reaches the target networks' and 'the actor loss does not move the critics' are facts about eqx.filter_value_and_grad / the optimiser plumbing: confirmed numerically on every case, modelled as data flow only"]
    ck.build_coq(); ck.compile_props()
    ck.kernel_link()   # dqn_loss / SAC compute_target regenerated from the source = Losses kernels (coq/link/C07_link.v)
    quick = ck.tier == "quick"
    rng = ck.rng
    dy = lambda lo, hi, den: float(rng.integers(lo, hi + 1)) / den
    cases, cj = [], []
    n_cases = 60 if quick else 500
    flagsets = [(False, False), (True, False), (True, True), (False, True)]
    for idx in range(n_cases):
        B = int(rng.integers(1, 9)); NO = int(rng.integers(2, 6)); NA = int(rng.integers(2, 5))
        gamma = float(rng.choice([0.5, 1.0, 0.75, 0.25]))
        flags = [flagsets[int(rng.integers(0, 4))] for _ in range(B)]
        if B >= 2:
            flags[0] = (True, False); flags[1] = (True, True)
        rows = [(int(rng.integers(0, NO)), int(rng.integers(0, NO)), int(rng.integers(0, NA)), dy(-8, 8, 4), d, t) for d, t in flags]
        ck.current_case = {"kind": "dqn", "rows": rows, "gamma": gamma}
        qt_on = [[dy(-8, 8, 2) for _ in range(NA)] for _ in range(NO)]; qt_tg = [[dy(-8, 8, 2) for _ in range(NA)] for _ in range(NO)]
        # every other case uses a stateful Q-function: the policy state stored with s and the one stored with s' differ
        NH = 3
        stateful = idx % 2 == 0
        hb_on = [dy(-4, 4, 2) for _ in range(NH)] if stateful else [0.0] * NH
        hb_tg = [dy(-4, 4, 2) for _ in range(NH)] if stateful else [0.0] * NH
        hs = [(int(rng.integers(0, NH)), int(rng.integers(0, NH))) for _ in rows]
        online, target = StubQ(qt_on, hb_on), StubQ(qt_tg, hb_tg)
        batch = fill(Discrete(NO), Discrete(NA), rows, hs if stateful else None)
        if not stateful:
            hs = [(0, 0) for _ in rows]
        loss = float(DQN.dqn_loss(online, batch, target, gamma))
        lval, grads = DQN.dqn_loss_grad(online, batch, target, gamma)
        if jax.tree.structure(grads) != jax.tree.structure(eqx.filter(online, eqx.is_inexact_array)):
            ck.violations.append(Violation("impl-violates-property", "C07/DQN/grad-structure", "dqn_loss_grad does not return gradients for the online policy only", case=ck.current_case))
        lit = (f"CDqn {ql(gamma)} {listl(ql(qt_on[o][a] + hb_on[h]) for (o, _, a, _, _, _), (h, _) in zip(rows, hs))} {listl(ql(r) for _, _, _, r, _, _ in rows)} "
               f"{listl(listl(ql(x + hb_on[h2]) for x in qt_on[no]) for (_, no, _, _, _, _), (_, h2) in zip(rows, hs))} "
               f"{listl(listl(ql(x + hb_tg[h2]) for x in qt_tg[no]) for (_, no, _, _, _, _), (_, h2) in zip(rows, hs))} "
               f"{listl(bl(d) for *_, d, _ in rows)} {listl(bl(t) for *_, t in rows)} {ql(loss)}")
        j = {"kind": "DQN.dqn_loss", "gamma": gamma, "rows[obs,next_obs,action,reward,done,timeout]": rows, "q_online": qt_on, "q_target": qt_tg,
             "stateful_q": stateful, "state_bias_online": hb_on, "state_bias_target": hb_tg, "policy_states[before,after]": hs, "impl_loss": loss}
        cases.append(lit); cj.append(j)
        ck.case_seen(("dqn", idx) if B >= 2 else None, sample=j); ck.count("dqn_batches"); ck.count("dqn_stateful_q" if stateful else "dqn_stateless_q")
        # ---- SAC
        alpha = float(rng.choice([0.25, 0.5, 1.0]))
        A = [dy(-4, 4, 4) for _ in range(NO)]; LPt = [dy(-8, 0, 4) for _ in range(NO)]
        pol = StubSAC(A, LPt)
        mk = lambda: StubCritic(jnp.asarray([dy(-8, 8, 2) for _ in range(NO)]), jnp.asarray(dy(-2, 2, 2)))
        q1, q2, t1, t2 = mk(), mk(), mk(), mk()
        srows = [(o, no, dy(-4, 4, 4), r, d, t) for (o, no, _, r, d, t) in rows]
        ck.current_case = {"kind": "sac", "rows": srows, "gamma": gamma, "alpha": alpha}
        sbuf = fill(Discrete(NO), Box(-1.0, 1.0, shape=()), srows)
        algo = SAC(buffer_size=B, gamma=gamma, learning_starts=0, num_envs=1, num_steps=1, batch_size=B, policy_frequency=1, autotune=True, initial_alpha=alpha)
        log_alpha = jnp.log(jnp.asarray(alpha))
        out = algo.sac_train(pol, algo.optimizer.init(eqx.filter(pol, eqx.is_inexact_array)), sbuf, q1, q2, t1, t2,
                             algo.q_optimizer.init((eqx.filter(q1, eqx.is_inexact_array), eqx.filter(q2, eqx.is_inexact_array))),
                             log_alpha, algo.alpha_optimizer.init(log_alpha), jnp.asarray(-1.0), jnp.asarray(0), key=jr.key(idx))
        q_loss = float(out[7]["q_loss"])
        # exp(log(alpha)) must be exact for the comparison: alpha is a power of two
        cf = lambda c, o, a: float(c.W[o]) + float(c.C) * a
        lit = (f"CSacQ {ql(gamma)} {ql(alpha)} {listl(ql(cf(q1, o, a)) for o, _, a, *_ in srows)} {listl(ql(cf(q2, o, a)) for o, _, a, *_ in srows)} "
               f"{listl(ql(r) for _, _, _, r, _, _ in srows)} {listl(ql(cf(t1, no, A[no])) for _, no, *_ in srows)} {listl(ql(cf(t2, no, A[no])) for _, no, *_ in srows)} "
               f"{listl(ql(LPt[no]) for _, no, *_ in srows)} {listl(bl(d) for *_, d, _ in srows)} {listl(bl(t) for *_, t in srows)} {ql(q_loss)}")
        j = {"kind": "SAC.sac_train q_loss", "gamma": gamma, "alpha": alpha, "rows[obs,next_obs,action,reward,done,timeout]": srows, "policy_actions": A, "policy_log_probs": LPt,
             "q1": [np.asarray(q1.W).tolist(), float(q1.C)], "q2": [np.asarray(q2.W).tolist(), float(q2.C)], "t1": [np.asarray(t1.W).tolist(), float(t1.C)], "t2": [np.asarray(t2.W).tolist(), float(t2.C)], "impl_q_loss": q_loss}
        cases.append(lit); cj.append(j)
        ck.case_seen(("sacq", idx) if B >= 2 else None); ck.count("sac_train_batches")
        # actor loss (static) and its gradient support
        aloss = float(SAC.actor_loss(pol, sbuf, q1, q2, jnp.asarray(alpha), jr.split(jr.key(1), B)))
        lit = (f"CSacActor {ql(alpha)} {listl(ql(LPt[o]) for o, *_ in srows)} {listl(ql(cf(q1, o, A[o])) for o, *_ in srows)} {listl(ql(cf(q2, o, A[o])) for o, *_ in srows)} {ql(aloss)}")
        cases.append(lit); cj.append({"kind": "SAC.actor_loss", "alpha": alpha, "rows": srows, "impl_loss": aloss})
        ck.case_seen(("saca", idx) if B >= 2 else None); ck.count("sac_actor_batches")
        (_, g) = SAC.actor_loss_grad(pol, sbuf, q1, q2, jnp.asarray(alpha), jr.split(jr.key(1), B))
        if jax.tree.structure(g) != jax.tree.structure(eqx.filter(pol, eqx.is_inexact_array)):
            ck.violations.append(Violation("impl-violates-property", "C07/SAC/actor-grad-structure", "actor_loss_grad returns gradients for more than the policy", case=ck.current_case))
        (_, gq) = SAC.q_loss_grad((q1, q2), sbuf, jnp.zeros(B))
        if len(jax.tree.leaves(gq)) != len(jax.tree.leaves(eqx.filter((q1, q2), eqx.is_inexact_array))):
            ck.violations.append(Violation("impl-violates-property", "C07/SAC/q-grad-structure", "q_loss_grad does not differentiate exactly the online critic pair", case=ck.current_case))
    # ---- targets are constants for optimisation, through EVERY public update entry point of DQN (train() of the off-policy API,
    #      dqn_train() with an explicit target): with observations acted on in S0 and successor observations in a disjoint set S1,
    #      the entries Q(S1, .) occur only inside the bootstrap term, so a parameter update must leave them bit-identical
    for idx in range(6 if quick else 40):
        m = int(rng.integers(1, 4)); NO = m + int(rng.integers(1, 4)); NA = int(rng.integers(2, 5)); B = int(rng.integers(2, 7))
        gamma = float(rng.choice([0.5, 1.0, 0.75]))
        rows = [(int(rng.integers(0, m)), int(rng.integers(m, NO)), int(rng.integers(0, NA)), dy(-8, 8, 4), False, False) for _ in range(B)]
        qt = [[dy(-8, 8, 2) for _ in range(NA)] for _ in range(NO)]
        online = StubQ(qt)
        buf = fill(Discrete(NO), Discrete(NA), rows, None)
        algo = DQN(buffer_size=B, learning_starts=B, num_envs=1, num_steps=1, batch_size=B, gamma=gamma, learning_rate=0.125)
        ck.current_case = {"kind": "dqn-update", "rows": rows, "gamma": gamma, "q": qt}
        opt0 = algo.optimizer.init(eqx.filter(online, eqx.is_inexact_array))
        for entry, call in (("DQN.train", lambda: algo.train(online, opt0, buf, key=jr.key(idx))),
                            ("DQN.dqn_train(target=online)", lambda: algo.dqn_train(online, opt0, buf, online, key=jr.key(idx))),
                            ("DQN.dqn_train(target=other)", lambda: algo.dqn_train(online, opt0, buf, StubQ([[x + 1.0 for x in r] for r in qt]), key=jr.key(idx)))):
            new_pol = call()[0]
            before, after = np.asarray(online.QT), np.asarray(new_pol.QT)
            moved_bootstrap = bool(np.any(before[m:] != after[m:]))
            moved_taken = bool(np.any(before[:m] != after[:m]))
            ck.count("dqn_update_probes"); ck.evaluations += 1
            ck.case_seen(("upd", idx, entry) if moved_taken else None)
            if moved_bootstrap:
                ck.violations.append(Violation("impl-violates-property", "C07/DQN/update-moves-bootstrap-values",
                                               f"{entry}: a parameter update changed Q-values that occur only inside the bootstrap term of the target (gradient reaches the target)",
                                               case={"entry": entry, "rows[obs,next_obs,action,reward,done,timeout]": rows, "gamma": gamma, "q_before": before.tolist(), "q_after": after.tolist(),
                                                     "successor_only_observations": list(range(m, NO))}))
    # ---- end to end: what the real collector stores feeds the real loss (the two sites that must cooperate)
    from lerax.callback import CallbackList
    from harness.stubs import TabEnv, TabPolicy, build_stack, chain_tab, path_lit, ptab_lit, random_ptab, tab_lit, wd_lit
    from harness.common import zl
    cb = CallbackList(callbacks=[])
    for idx in range(12 if quick else 80):
        K = int(rng.integers(2, 5)); lim = int(K + (idx % 3) - 1)       # pure truncation / coincidence / pure termination
        spec = chain_tab(rng, K)
        stack = [["TimeLimit", lim]]
        env = build_stack(TabEnv(spec), stack)
        pspec = random_ptab(rng, spec, spec["asp"], K + 1, det=True)
        behaviour = TabPolicy(pspec, env.action_space, env.observation_space)
        L = int(rng.integers(lim + 1, 3 * lim + 4)); gamma = float(rng.choice([0.5, 1.0, 0.75]))
        NA = 2
        qon = [[dy(-8, 8, 2) for _ in range(NA)] for _ in range(K + 1)]; qtg = [[dy(-8, 8, 2) for _ in range(NA)] for _ in range(K + 1)]
        algo = DQN(buffer_size=L, learning_starts=L, num_envs=1, num_steps=1, batch_size=1, gamma=gamma)
        ck.current_case = {"kind": "dqn-e2e", "K": K, "time_limit": lim, "L": L, "gamma": gamma}
        st = algo.reset(env, behaviour, key=jr.key(idx), callback=cb)
        loss = float(DQN.dqn_loss(StubQ(qon), st.step_state.buffer, StubQ(qtg), gamma))
        lit = (f"CDqnE2E {tab_lit(spec)} {listl(wd_lit(d) for d in stack)} {ptab_lit(pspec)} {L}%nat {ql(0.0)} {path_lit(((0, 0),))} {ql(gamma)} "
               f"{listl(listl(ql(x) for x in r) for r in qon)} {listl(listl(ql(x) for x in r) for r in qtg)} {ql(loss)}")
        b = st.step_state.buffer
        j = {"kind": "DQN.dqn_loss on the buffer stored by DQN.reset warm-up", "chain_length": K, "time_limit": lim, "learning_starts": L, "gamma": gamma,
             "q_online": qon, "q_target": qtg, "stored[done,timeout]": [[bool(d), bool(t)] for d, t in zip(np.asarray(b.dones), np.asarray(b.timeouts))], "impl_loss": loss}
        cases.append(lit); cj.append(j)
        ck.case_seen(("e2e", idx) if lim == K else None); ck.count("dqn_end_to_end"); ck.count("e2e_coincidence" if lim == K else "e2e_other")
    # ---- the same end to end for SAC: real warm-up of SAC.reset on the chain MDP (bounded Box actions), then the q_loss that the
    #      real sac_train reports on exactly that buffer with tabular critics and a deterministic policy
    for idx in range(9 if quick else 60):
        K = int(rng.integers(2, 5)); lim = int(K + (idx % 3) - 1)
        spec = chain_tab(rng, K, box_action=True)
        stack = [["TimeLimit", lim]]
        env = build_stack(TabEnv(spec), stack)
        NO = K + 1
        A = [dy(-4, 4, 4) for _ in range(NO)]; LPt = [dy(-8, 0, 4) for _ in range(NO)]
        pol = StubSAC(A, LPt)
        pspec = {"box": True, "NH": 1, "NHR": 1, "NA": 1, "ACT": [[[a]] for a in A], "V": [[0.0]] * NO, "LP": [[0.0]] * NO, "MU": [0.0] * NO}
        L = int(2 ** int(rng.integers(1, 4))); gamma = float(rng.choice([0.5, 1.0, 0.75])); alpha = float(rng.choice([0.25, 0.5, 1.0]))
        algo = SAC(buffer_size=L, gamma=gamma, learning_starts=L, num_envs=1, num_steps=1, batch_size=L, policy_frequency=1, autotune=True, initial_alpha=alpha,
                   q_width_size=4, q_depth=1)
        ck.current_case = {"kind": "sac-e2e", "K": K, "time_limit": lim, "L": L, "gamma": gamma, "alpha": alpha}
        st = algo.reset(env, pol, key=jr.key(1000 + idx), callback=cb)
        mk = lambda: StubCritic(jnp.asarray([dy(-8, 8, 2) for _ in range(NO)]), jnp.asarray(dy(-2, 2, 2)))
        q1, q2, t1, t2 = mk(), mk(), mk(), mk()
        log_alpha = jnp.log(jnp.asarray(alpha))
        out = algo.sac_train(pol, algo.optimizer.init(eqx.filter(pol, eqx.is_inexact_array)), st.step_state.buffer, q1, q2, t1, t2,
                             algo.q_optimizer.init((eqx.filter(q1, eqx.is_inexact_array), eqx.filter(q2, eqx.is_inexact_array))),
                             log_alpha, algo.alpha_optimizer.init(log_alpha), jnp.asarray(-1.0), jnp.asarray(0), key=jr.key(idx))
        q_loss = float(out[7]["q_loss"])
        wl = lambda c: listl(ql(float(x)) for x in np.asarray(c.W))
        lit = (f"CSacE2E {tab_lit(spec)} {listl(wd_lit(d) for d in stack)} {ptab_lit(pspec)} {L}%nat {ql(0.0)} {path_lit(((0, 0), (3, 0)))} {ql(gamma)} {ql(alpha)} "
               f"{wl(q1)} {ql(float(q1.C))} {wl(q2)} {ql(float(q2.C))} {wl(t1)} {ql(float(t1.C))} {wl(t2)} {ql(float(t2.C))} "
               f"{listl(ql(a) for a in A)} {listl(ql(x) for x in LPt)} {ql(q_loss)}")
        b = st.step_state.buffer
        j = {"kind": "SAC.sac_train q_loss on the buffer stored by SAC.reset warm-up", "chain_length": K, "time_limit": lim, "learning_starts": L, "gamma": gamma, "alpha": alpha,
             "policy_actions": A, "policy_log_probs": LPt, "stored[done,timeout]": [[bool(d), bool(t)] for d, t in zip(np.asarray(b.dones), np.asarray(b.timeouts))], "impl_q_loss": q_loss}
        cases.append(lit); cj.append(j)
        ck.case_seen(("sac-e2e", idx) if lim == K else None); ck.count("sac_end_to_end"); ck.count("sac_e2e_coincidence" if lim == K else "sac_e2e_other")
    ck.current_case = None
    res = ck.run_coq_cases("C07Check", cases, shard=60, preamble="From Lerax Require Import Losses C08Check Env Tab OnPolicy.\nImport C07Check.")
    ck.classify(res, cj, sig_of=lambda i: "C07/" + cj[i]["kind"].split(".")[0].split(" ")[0], relation="Losses.dqn_loss / sac targets (dqn.py:216-241, sac.py:383-469) vs static losses / sac_train",
                what="TD target / loss differs from r + gamma*(1-terminated)*V'(s') with the documented V'")


if __name__ == "__main__":
    run_main("C07", body)
