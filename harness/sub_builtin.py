"""Exercises the built-in environments (classic control, MuJoCo, Unitree G1) in default float32 mode
and reports raw observations for three properties:
  C01  env.step / env.reset vs the composition of the functional components under the same key schedule
  C02  observations inside the declared space, well-typed signals, sampled actions accepted
  C12  eager vs jit vs vmap transparency of the functional components
Run as a subprocess: python -m harness.sub_builtin <tier> <seed> <out.json>.
"""
from __future__ import annotations

import json
import sys
import time
import warnings

warnings.filterwarnings("ignore")
import numpy as np

from harness.common import setup_jax

jax = setup_jax(x64=False)
import equinox as eqx  # noqa: E402
import jax.numpy as jnp  # noqa: E402
import jax.random as jr  # noqa: E402


def registry(tier):
    from lerax.env.classic_control import Acrobot, CartPole, ContinuousMountainCar, MountainCar, Pendulum
    from lerax.wrapper import ClipAction, ClipObservation, FlattenObservation, Identity, RescaleAction, RescaleObservation, TimeLimit, TransformReward

    envs = [
        ("CartPole", lambda: CartPole()),
        ("CartPole/TimeLimit(5)", lambda: TimeLimit(CartPole(), 5)),
        ("MountainCar/TimeLimit(7)", lambda: TimeLimit(MountainCar(), 7)),
        ("ContinuousMountainCar/RescaleAction/TimeLimit(6)", lambda: TimeLimit(RescaleAction(ContinuousMountainCar()), 6)),
        ("Acrobot/TimeLimit(6)", lambda: TimeLimit(Acrobot(), 6)),
        ("Pendulum/ClipAction/TimeLimit(6)", lambda: TimeLimit(ClipAction(Pendulum()), 6)),
        ("Pendulum(max_speed=4,dt=0.1)/Identity", lambda: Identity(Pendulum(max_speed=4.0, dt=0.1))),
        ("CartPole(x_threshold=1.0)/FlattenObservation/TransformReward", lambda: TransformReward(FlattenObservation(CartPole(x_threshold=1.0)), lambda r: 2.0 * r)),
        # a finite target for unbounded components must either be rejected at construction or be honoured
        ("CartPole/RescaleObservation(-1,1) [may reject]", lambda: RescaleObservation(CartPole())),
        # bounded components rescaled, components unbounded on both sides passed through (the only targets rescale_box accepts for them)
        ("CartPole/RescaleObservation(bounded dims->[-1,1], unbounded dims unchanged)",
         lambda: RescaleObservation(CartPole(), jnp.array([-1.0, -jnp.inf, -1.0, -jnp.inf]), jnp.array([1.0, jnp.inf, 1.0, jnp.inf]))),
        ("Pendulum/RescaleObservation(0,1)/ClipObservation", lambda: ClipObservation(RescaleObservation(Pendulum(), jnp.array(0.0), jnp.array(1.0)))),
    ]
    from lerax.env import mujoco as M
    small = [("InvertedPendulum/TimeLimit(4)", lambda: TimeLimit(M.InvertedPendulum(), 4)),
             # an action wrapper over an environment whose reward has an action cost and does not clip the action itself
             ("Swimmer/ClipAction/TimeLimit(4)", lambda: TimeLimit(ClipAction(M.Swimmer()), 4))]
    rest = [
        ("InvertedDoublePendulum", lambda: TimeLimit(M.InvertedDoublePendulum(), 4)),
        ("Hopper", lambda: TimeLimit(M.Hopper(), 4)), ("Hopper(no-exclude)", lambda: TimeLimit(M.Hopper(exclude_current_positions_from_observation=False), 4)),
        ("HalfCheetah", lambda: TimeLimit(M.HalfCheetah(), 4)), ("Walker2d", lambda: TimeLimit(M.Walker2d(), 4)),
        ("Swimmer", lambda: TimeLimit(M.Swimmer(), 4)), ("Reacher", lambda: TimeLimit(M.Reacher(), 4)), ("Pusher", lambda: TimeLimit(M.Pusher(), 4)),
        ("Ant", lambda: TimeLimit(M.Ant(), 4)), ("Humanoid", lambda: TimeLimit(M.Humanoid(), 4)), ("HumanoidStandup", lambda: TimeLimit(M.HumanoidStandup(), 4)),
    ]
    if tier == "quick":
        return envs + small
    from lerax.env.unitree import g1 as G
    g1 = [("G1Locomotion", lambda: TimeLimit(G.G1Locomotion(), 3)), ("G1Standing", lambda: TimeLimit(G.G1Standing(), 3)), ("G1Standup", lambda: TimeLimit(G.G1Standup(), 3))]
    return envs + small + rest + g1


def leaves_close(a, b, rtol, atol, leaf_scale=False, extra=None):
    """elementwise |x-y| <= atol + rtol*|y|; with leaf_scale the relative part refers to the largest magnitude of the leaf
    (physics vectors: accelerations / constraint forces of magnitude 1e3 carry float32 noise of 1e-3 in every component)"""
    la, lb = jax.tree.leaves(a), jax.tree.leaves(b)
    if len(la) != len(lb):
        return False, "leaf-count"
    for li, (x, y) in enumerate(zip(la, lb)):
        x = np.asarray(x); y = np.asarray(y)
        if x.shape != y.shape:
            return False, f"shape {x.shape} vs {y.shape}"
        if extra is not None and li < len(extra):
            atol_l = atol + extra[li]       # measured sensitivity of this leaf to a 1-ulp change of the input (see the C12 comparison)
        else:
            atol_l = atol
        if x.dtype.kind in "biu" or y.dtype.kind in "biu":
            if not np.array_equal(x, y):
                return False, "int/bool leaf differs"
        elif leaf_scale and x.size:
            fin = np.isfinite(y)
            scale = float(np.max(np.abs(y[fin]))) if np.any(fin) else 0.0
            if not (np.array_equal(np.isnan(x), np.isnan(y)) and np.all(np.abs(np.where(fin, x - y, 0.0)) <= atol_l + rtol * max(1.0, scale))
                    and np.array_equal(x[~fin & ~np.isnan(y)], y[~fin & ~np.isnan(y)])):
                return False, f"max abs diff {float(np.nanmax(np.abs(x - y))):.3g} (leaf scale {scale:.3g})"
        elif not np.allclose(x, y, rtol=rtol, atol=atol_l, equal_nan=True):
            return False, f"max abs diff {float(np.nanmax(np.abs(x - y))):.3g}"
    return True, ""


class Registry:
    """names pytrees by integer ids; float leaves are matched within tolerance, int/bool leaves exactly"""

    def __init__(self, physics=False):
        self.items = []
        self.physics = physics      # MuJoCo / G1 states: float32 noise is relative to the magnitude of each physics vector

    def id(self, x):
        for i, y in enumerate(self.items):
            if (leaves_close(x, y, 2e-4, 2e-4, leaf_scale=True) if self.physics else leaves_close(x, y, 1e-4, 1e-5))[0]:
                return i
        self.items.append(x)
        return len(self.items) - 1


def corner_action(space, rng, i):
    from lerax.space import Box, Discrete
    if isinstance(space, Discrete):
        return jnp.asarray(int(rng.integers(0, space.n)))
    lo = np.asarray(space.low); hi = np.asarray(space.high)
    if i % 3 == 0:
        # corners of the DECLARED space: an unbounded component has the members -inf / +inf (ClipAction advertises Box(-inf, inf))
        a = np.where(rng.random(lo.shape) < 0.5, lo, hi)
    elif i % 3 == 1 and not (np.all(np.isfinite(lo)) and np.all(np.isfinite(hi))):
        # huge finite members of an unbounded space (their square overflows float32)
        flo = np.where(np.isfinite(lo), lo, -1e20); fhi = np.where(np.isfinite(hi), hi, 1e20)
        a = np.where(rng.random(lo.shape) < 0.5, flo, fhi)
    else:
        flo = np.where(np.isfinite(lo), lo, -3.0); fhi = np.where(np.isfinite(hi), hi, 3.0)
        a = flo + (fhi - flo) * rng.random(lo.shape)
    return jnp.asarray(a, dtype=jnp.float32)


def exercise(name, ctor, rng, horizon, seed):
    out = {"env": name, "c01": [], "c02": [], "c12": [], "steps": 0, "dones": 0, "errors": []}
    t0 = time.time()
    try:
        env = ctor()
    except (AssertionError, ValueError) as e:
        if "may reject" in name:
            out["rejected"] = f"{type(e).__name__}"
            out["wall_s"] = 0.0
            return out
        raise
    obs_space, act_space = env.observation_space, env.action_space
    # MuJoCo / G1: the jitted env.step / env.reset and the separately jitted composition of the same components are different XLA programs;
    # their float32 results differ by reassociation noise that is relative to the magnitude of each physics vector (measured for C12: the
    # effect of a 1-ulp perturbation of the input state), so the comparison there is relative to the largest magnitude of each leaf
    physics = name.split("/")[0].split("(")[0] not in ("CartPole", "MountainCar", "ContinuousMountainCar", "Acrobot", "Pendulum")

    # reference composition of base_env.py:240-286 (the Coq model Env.gym_step / gym_reset transliterated)
    # the environment is passed as an ARGUMENT of every jitted reference function, as lerax's own jitted env.step / env.reset receive it
    # (`self`): closing over it turns the model parameters into XLA constants, and constant folding changes the numerics of the MJX
    # contact solver enough to move constraint forces of the G1 reset states by tens of percent (measured: closure vs argument differ,
    # argument vs env.reset are bit-identical)
    @eqx.filter_jit
    def _ref_step(env, state, action, key):
        tk, rk, ek, xk = jr.split(key, 4)
        nxt = env.transition(state, action, key=tk)
        rew = env.reward(state, action, nxt, key=rk)
        term = env.terminal(nxt, key=ek)
        trunc = env.truncate(nxt)
        new = jax.lax.cond(term | trunc, lambda: env.initial(key=xk), lambda: nxt)
        return new, env.observation(new, key=key), rew, term, trunc, nxt

    @eqx.filter_jit
    def _ref_reset(env, key):
        ik, ok = jr.split(key, 2)
        s = env.initial(key=ik)
        return s, env.observation(s, key=ok)

    ref_step = lambda state, action, key: _ref_step(env, state, action, key)      # noqa: E731
    ref_reset = lambda key: _ref_reset(env, key)                                  # noqa: E731
    _jt = eqx.filter_jit(lambda e, s, a, k: e.transition(s, a, key=k)); _jo = eqx.filter_jit(lambda e, s, k: e.observation(s, key=k))
    _jr = eqx.filter_jit(lambda e, s, a, n, k: e.reward(s, a, n, key=k)); _je = eqx.filter_jit(lambda e, s, k: e.terminal(s, key=k))
    comps_j = {"transition": lambda s, a, k: _jt(env, s, a, k), "observation": lambda s, k: _jo(env, s, k),
               "reward": lambda s, a, n, k: _jr(env, s, a, n, k), "terminal": lambda s, k: _je(env, s, k)}
    # ---- recorded environment for the Coq model (Lerax.Rec): component results as finite tables over state/observation ids
    sreg, oreg = Registry(physics), Registry(physics)
    rec = {"init": [], "trans": [], "obs": [], "rew": [], "term": [], "trunc": [], "steps": [], "outs": []}
    _ji = eqx.filter_jit(lambda e, k: e.initial(key=k)); _ju = eqx.filter_jit(lambda e, s: e.truncate(s))
    j_init = lambda k: _ji(env, k)       # noqa: E731
    j_trunc = lambda s: _ju(env, s)      # noqa: E731

    k0 = jr.key(seed)
    ik0, ok0 = jr.split(k0, 2)
    s0 = j_init(ik0)
    rec["init"].append([[[0, 0], [2, 0]], sreg.id(s0)])
    rec["obs"].append([sreg.id(s0), [[0, 0], [2, 1]], oreg.id(comps_j["observation"](s0, ok0))])
    state, obs, info = env.reset(key=k0)
    rec["reset_key"] = [[0, 0]]; rec["reset_state"] = sreg.id(state); rec["reset_obs"] = oreg.id(obs)
    rs, ro = ref_reset(k0)
    ok, why = leaves_close((state, obs), (rs, ro), 2e-4, 2e-4, leaf_scale=True) if physics else leaves_close((state, obs), (rs, ro), 1e-5, 1e-6)
    if not ok:
        out["c01"].append({"what": "reset differs from initial/observation composition: " + why, "t": 0})
    states_seen, actions_seen = [], []
    for t in range(1, horizon + 1):
        a = corner_action(act_space, rng, t) if t % 2 else act_space.sample(key=jr.key(seed * 1000 + t))
        k = jr.key(seed * 7919 + t)
        # C02: sampled actions are members and accepted
        smp = act_space.sample(key=jr.key(seed + 31 * t))
        if not bool(act_space.contains(smp)):
            out["c02"].append({"what": "sampled action not a member of the action space", "t": t, "action": np.asarray(smp).tolist()})
        prev = state
        # components, separately, with the keys the Gym-style step prescribes
        tk, rk, ek, xk = jr.split(k, 4)
        root = [[0, t]]
        sp = sreg.id(prev)
        c_nxt = comps_j["transition"](prev, a, tk); sn = sreg.id(c_nxt)
        c_ini = j_init(xk); si = sreg.id(c_ini)
        rec["trans"].append([sp, t, root + [[4, 0]], sn])
        rec["rew"].append([sp, t, sn, root + [[4, 1]], float(comps_j["reward"](prev, a, c_nxt, rk))])
        rec["term"].append([sn, root + [[4, 2]], bool(comps_j["terminal"](c_nxt, ek))])
        rec["trunc"].append([sn, bool(j_trunc(c_nxt))])
        rec["init"].append([root + [[4, 3]], si])
        rec["obs"].append([sn, root, oreg.id(comps_j["observation"](c_nxt, k))])
        rec["obs"].append([si, root, oreg.id(comps_j["observation"](c_ini, k))])
        state, obs, rew, term, trunc, info = env.step(prev, a, key=k)
        rec["steps"].append([t, root])
        rec["outs"].append([sreg.id(state), oreg.id(obs), float(rew), bool(term), bool(trunc)])
        r_state, r_obs, r_rew, r_term, r_trunc, nxt = ref_step(prev, a, k)
        out["steps"] += 1; out["dones"] += int(bool(term) or bool(trunc))
        ok, why = (leaves_close((state, obs, rew, term, trunc), (r_state, r_obs, r_rew, r_term, r_trunc), 2e-4, 2e-4, leaf_scale=True) if physics
                   else leaves_close((state, obs, rew, term, trunc), (r_state, r_obs, r_rew, r_term, r_trunc), 1e-4, 1e-5))
        if not ok:
            out["c01"].append({"what": "step differs from the composition of transition/reward/terminal/truncate/initial/observation: " + why, "t": t,
                               "flags": [bool(term), bool(trunc), bool(r_term), bool(r_trunc)], "action": np.asarray(a).tolist()})
        # C02
        o = np.asarray(obs)
        probs = []
        if not bool(obs_space.contains(obs)):
            probs.append("observation not in observation_space")
        if np.any(np.isnan(o)):
            probs.append("NaN in observation")
        if tuple(o.shape) != tuple(obs_space.shape):
            probs.append(f"observation shape {o.shape} != {obs_space.shape}")
        rw = np.asarray(rew)
        if rw.shape != () or rw.dtype.kind != "f" or not np.isfinite(rw):
            probs.append(f"reward not a finite float scalar ({rw.dtype}, {rw.shape}, {rw})")
        for nm, fl in (("terminal", term), ("truncated", trunc)):
            f = np.asarray(fl)
            if f.shape != () or f.dtype != np.bool_:
                probs.append(f"{nm} not a boolean scalar ({f.dtype}, {f.shape})")
        if probs:
            out["c02"].append({"what": "; ".join(probs), "t": t, "obs": o.tolist()[:12], "low": np.asarray(getattr(obs_space, 'low', 0)).tolist()[:12] if hasattr(obs_space, 'low') else None,
                               "high": np.asarray(obs_space.high).tolist()[:12] if hasattr(obs_space, 'high') else None, "action": np.asarray(a).tolist()})
        if len(states_seen) < 3:
            states_seen.append(prev); actions_seen.append(a)
    # C12: eager vs jit vs vmap on a few states
    if states_seen:
        S = jax.tree.map(lambda *xs: jnp.stack(xs), *states_seen); A = jnp.stack([jnp.asarray(x) for x in actions_seen])
        K = jr.split(jr.key(seed + 5), len(states_seen))
        # (the environment is an argument here too, shared by the batch: in_axes None)
        vm_tr = eqx.filter_jit(lambda e, S_, A_, K_: eqx.filter_vmap(lambda s, a, k: e.transition(s, a, key=k))(S_, A_, K_))(env, S, A, K)
        vm_ob = eqx.filter_jit(lambda e, S_, K_: eqx.filter_vmap(lambda s, k: e.observation(s, key=k))(S_, K_))(env, S, K)
        for i, (s, a) in enumerate(zip(states_seen, actions_seen)):
            k = K[i]
            n_j = comps_j["transition"](s, a, k)
            # eager (op-by-op) evaluation is done for the classic-control environments and their wrappers; MuJoCo / G1 physics
            # is far too slow eagerly (minutes per step) and is compared jit vs vmap only
            classic = name.split("/")[0].split("(")[0] in ("CartPole", "MountainCar", "ContinuousMountainCar", "Acrobot", "Pendulum")
            res = {"transition": (env.transition(s, a, key=k) if classic else n_j, n_j, jax.tree.map(lambda x: x[i], vm_tr)),
                   "observation": (env.observation(s, key=k) if classic else comps_j["observation"](s, k), comps_j["observation"](s, k), jax.tree.map(lambda x: x[i], vm_ob)),
                   "reward": (env.reward(s, a, n_j, key=k) if classic else comps_j["reward"](s, a, n_j, k), comps_j["reward"](s, a, n_j, k), None),
                   "terminal": (env.terminal(n_j, key=k) if classic else comps_j["terminal"](n_j, k), comps_j["terminal"](n_j, k), None)}
            # MuJoCo / G1 transitions integrate several stiff, contact-rich substeps: float32 reassociation noise (which jit vs vmap may
            # legitimately differ by, C12 says "up to floating-point reassociation") is amplified by the dynamics. The amplification is
            # MEASURED per leaf: the same jitted transition is run on the state with every float leaf moved by one ulp, and 30 times the
            # resulting change is allowed on top of the fixed tolerance
            sens = None
            if not classic:
                s_ulp = jax.tree.map(lambda x: jnp.nextafter(x, jnp.full_like(x, jnp.inf)) if jnp.issubdtype(jnp.asarray(x).dtype, jnp.floating) else x, s)
                n_p = comps_j["transition"](s_ulp, a, k)
                sens = [30.0 * float(np.nanmax(np.abs(np.asarray(p, dtype=np.float64) - np.asarray(q, dtype=np.float64)))) if np.asarray(p).dtype.kind == "f" and np.asarray(p).size else 0.0
                        for p, q in zip(jax.tree.leaves(n_p), jax.tree.leaves(n_j))]
                sens = [x if np.isfinite(x) else 0.0 for x in sens]
            for comp, (eager, jit_, vm) in res.items():
                ok, why = leaves_close(eager, jit_, 2e-4, 2e-5 if classic else 2e-4, leaf_scale=not classic)
                if not ok:
                    out["c12"].append({"what": f"{comp}: eager vs jit differ: {why}", "i": i})
                if vm is not None:
                    # MuJoCo / G1: float32 reassociation under vmap shows up at 1e-6..1e-5 of the magnitude of each physics
                    # vector (measured: the same as the effect of a 1-ulp perturbation of the input state)
                    # (physics transitions: 5e-3 of the leaf magnitude; the largest jit-vs-vmap difference seen on the unchanged tree is
                    # 1.3e-3 for G1Standup, above 30x the measured 1-ulp sensitivity: batched linear algebra takes other code paths. An
                    # empirical bound: mixing environments would show as O(1))
                    ok, why = leaves_close(jit_, vm, 2e-4 if (classic or comp != "transition") else 5e-3, 2e-5 if classic else 2e-4, leaf_scale=not classic,
                                           extra=sens if comp == "transition" else None)
                    if not ok:
                        out["c12"].append({"what": f"{comp}: jit vs vmap differ: {why}", "i": i})
    out["c01_rec"] = rec
    out["wall_s"] = round(time.time() - t0, 1)
    return out


def main():
    tier, seed, dest = sys.argv[1], int(sys.argv[2]), sys.argv[3]
    rng = np.random.default_rng(seed)
    res = []
    for name, ctor in registry(tier):
        try:
            res.append(exercise(name, ctor, rng, 14 if tier == "quick" else 40, seed + 1))
        except Exception as e:  # noqa: BLE001
            import traceback
            res.append({"env": name, "c01": [], "c02": [], "c12": [], "steps": 0, "dones": 0, "errors": [f"{type(e).__name__}: {e}"[:500], traceback.format_exc()[-1500:]]})
        print(name, res[-1].get("wall_s"), {k: len(res[-1][k]) for k in ("c01", "c02", "c12", "errors")}, flush=True)
        import gc
        jax.clear_caches(); gc.collect()
        json.dump(res, open(dest + ".partial", "w"))
    json.dump(res, open(dest, "w"))


if __name__ == "__main__":
    main()
