"""C06 — replay buffer keeps the most recent transitions and samples only stored ones.
Tie: real ReplayBuffer.add histories (wrap-around many times; several per-environment
buffers with different fill levels stacked as the vmapped learner holds them) and
ReplayBuffer.sample for all batch sizes <= stored, vs Lerax.Replay, compared in Coq."""
from __future__ import annotations

import numpy as np

from harness.common import bl, listl, ql, release_jit, run_main, setup_jax, zl

jax = setup_jax(x64=True)
import equinox as eqx  # noqa: E402
import jax.numpy as jnp  # noqa: E402
import jax.random as jr  # noqa: E402

from lerax.buffer import ReplayBuffer  # noqa: E402
from lerax.space import Box, Discrete  # noqa: E402

from harness.stubs import TabPState  # noqa: E402


def row_lit(r):
    return (f"(Build_trow {listl(ql(x) for x in r['obs'])} {listl(ql(x) for x in r['next'])} {ql(r['act'])} {ql(r['rew'])} "
            f"{bl(r['done'])} {bl(r['timeout'])} {zl(r['ps'])} {zl(r['nps'])})")


BIG = 2 ** 60 if jax.config.jax_enable_x64 else 2 ** 24


def mk_row(uid, rng, obs_dim):
    # every field carries the unique id so that a row mixing two insertions is detected
    return {"obs": [float(uid + 0.25 * k) for k in range(obs_dim)], "next": [float(uid + 0.5 + 0.25 * k) for k in range(obs_dim)],
            "act": float(uid % 7), "rew": float(uid) / 4, "done": bool(rng.random() < 0.3), "timeout": bool(rng.random() < 0.2),
            # integer leaves far beyond the exact range of the float type of the same width: a buffer whose storage does not keep
            # the dtype of what is inserted rounds them
            "ps": int(BIG + uid), "nps": int(BIG + uid + 1)}


def read_rows(buf, n, obs_dim):
    rows = []
    for i in range(n):
        rows.append({"obs": [float(x) for x in np.asarray(buf.observations[i]).reshape(-1)], "next": [float(x) for x in np.asarray(buf.next_observations[i]).reshape(-1)],
                     "act": float(np.asarray(buf.actions[i]).reshape(())), "rew": float(buf.rewards[i]), "done": bool(buf.dones[i]), "timeout": bool(buf.timeouts[i]),
                     "ps": int(buf.states.h[i]), "nps": int(buf.next_states.h[i])})
    return rows


_add = None


def body(ck):
    global _add
    ck.rule = ("capacity C in 1..8, N in 1..4 per-environment buffers with independent insertion counts n in 0..5C (wrap-around up to 5 times), "
               "rows with unique ids in every field; sample() for every batch size <= stored and several keys; "
               "non-trivial = some buffer wrapped around and (for N>1) fill levels differ; distinct by (C, counts)")
    ck.assumptions = ["jr.choice(replace=False, p) returns distinct indices of non-zero probability (interface assumed by the sampling theorem; checked on every generated batch)"]
    ck.not_proved = ["uniformity of sampling (PRNG)"]
    ck.build_coq(); ck.compile_props()
    ck.kernel_link()   # ReplayBuffer.add / current_size regenerated from the source = Replay.soa_add (coq/link/C06_link.v)
    quick = ck.tier == "quick"
    rng = ck.rng
    n_cases = 45 if quick else 500
    cases, cj = [], []
    add_jit = {}
    for idx in range(n_cases):
        C = int(rng.integers(1, 9)); N = int(rng.integers(1, 5)) if rng.random() < 0.7 else 1
        obs_dim = int(rng.integers(1, 3))
        obs_space = Box(-jnp.inf, jnp.inf, shape=(obs_dim,)); act_space = Discrete(7)
        counts = [int(rng.integers(0, 5 * C + 1)) for _ in range(N)]
        if N > 1 and rng.random() < 0.5:
            counts[0] = int(rng.integers(0, C))  # a partially filled buffer next to full ones
        if sum(min(c, C) for c in counts) == 0:
            counts[0] = 1
        hists, bufs = [], []
        uid = 1
        key = (C, obs_dim)
        if key not in add_jit:
            add_jit[key] = eqx.filter_jit(lambda b, o, no, a, r, d, t, s, ns: b.add(o, no, a, r, d, t, s, ns))
        for e in range(N):
            b = ReplayBuffer(C, obs_space, act_space, TabPState(jnp.asarray(0)))
            h = []
            for _ in range(counts[e]):
                r = mk_row(uid, rng, obs_dim); uid += 1
                h.append(r)
                b = add_jit[key](b, jnp.asarray(r["obs"]), jnp.asarray(r["next"]), jnp.asarray(int(r["act"])), r["rew"], r["done"], r["timeout"],
                                 TabPState(jnp.asarray(r["ps"])), TabPState(jnp.asarray(r["nps"])))
            hists.append(h); bufs.append(b)
        ck.current_case = {"C": C, "counts": counts}
        pos = [int(b.position) for b in bufs]
        rows = [read_rows(b, min(p, C), obs_dim) for b, p in zip(bufs, pos)]
        stacked = bufs[0] if N == 1 else jax.tree.map(lambda *xs: jnp.stack(xs), *bufs)
        stored = sum(min(c, C) for c in counts)
        batches = []
        sizes = sorted(set([1, stored] + [int(rng.integers(1, stored + 1)) for _ in range(3)]))
        for bs in sizes:
            for kk in range(2 if quick else 4):
                smp = stacked.sample(bs, key=jr.key(int(rng.integers(0, 2**31))))
                batches.append(read_rows(smp, bs, obs_dim))
        lit = (f"Build_case {C}%nat {listl(listl(row_lit(r) for r in h) for h in hists)} {listl(zl(p) for p in pos)} "
               f"{listl(listl(row_lit(r) for r in rs) for rs in rows)} {listl(listl(row_lit(r) for r in b) for b in batches)}")
        j = {"capacity": C, "num_envs": N, "insert_counts": counts, "histories": hists, "impl_positions": pos, "impl_valid_rows": rows, "impl_sample_batches": batches}
        cases.append(lit); cj.append(j)
        wrapped = any(c > C for c in counts); mixed = N > 1 and len(set(min(c, C) for c in counts)) > 1
        ck.case_seen((C, tuple(counts)) if (wrapped and (N == 1 or mixed)) else None, sample=j)
        ck.count(f"N={N}"); ck.count("wrapped" if wrapped else "not_wrapped"); ck.count("sample_batches", len(batches))
        if mixed:
            ck.count("mixed_fill_levels")
        if idx % 40 == 39:
            add_jit.clear(); release_jit(39)
    ck.current_case = None
    ck.log(f"{len(cases)} cases")
    res = ck.run_coq_cases("C06Check", cases, shard=15, preamble="From Lerax Require Import Replay.\nImport C06Check.")
    ck.classify(res, cj, sig_of=lambda i: "C06/ring" , relation="Replay.soa_run / valid_mask (replay.py:67-163) vs ReplayBuffer.add/sample",
                what="buffer contents are not the most recent min(n,C) intact transitions, or sample() returned an unwritten / duplicated row")


if __name__ == "__main__":
    run_main("C06", body)
