"""C08 — on-policy losses equal the published objectives.
Tie: the static loss functions PPO.ppo_loss / A2C.a2c_loss / REINFORCE.reinforce_loss (value, stats) on generated
buffers with a tabular policy vs Lerax.Losses (exp / std enter as oracle inputs), compared in Coq; gradients of
out-of-clip samples are exactly 0; the optimiser chain clips by global norm."""
from __future__ import annotations

import numpy as np

from harness.common import Violation, bl, listl, ql, run_main, setup_jax

jax = setup_jax(x64=True)
import equinox as eqx  # noqa: E402
import jax.numpy as jnp  # noqa: E402
import jax.random as jr  # noqa: E402

from lerax.algorithm import A2C, PPO, REINFORCE  # noqa: E402
from lerax.buffer import RolloutBuffer  # noqa: E402
from lerax.space import Discrete  # noqa: E402

from harness.stubs import TabPolicy, TabPState  # noqa: E402


def on_policy_data(ck, quick):
    """'On data collected by the current policy every ratio is 1 and the approximate KL is 0', end to end: the buffer a REAL
    collect_rollout produces (stock MLPActorCriticPolicy; discrete, masked and bounded-Box actions with a wide Gaussian so that
    proposals leave the bounds) is handed unchanged to the real loss functions with the unchanged policy."""
    from lerax.callback import CallbackList
    from lerax.policy import MLPActorCriticPolicy
    from harness.stubs import TabEnv, build_stack, random_tab
    cb = CallbackList(callbacks=[])
    rng = ck.rng
    for idx in range(6 if quick else 36):
        kind = ["box", "masked", "box", "unmasked"][idx % 4]
        spec = random_tab(rng, box_obs=False, box_action=(kind == "box"), mask=(kind == "masked"), trunc_rate=0.05, term_rate=0.15)
        env = build_stack(TabEnv(spec), [["TimeLimit", 5]])
        pol = MLPActorCriticPolicy(env=env, key=jr.key(7 * idx + ck.seed), feature_size=4, feature_width=8, feature_depth=1, value_width=8, value_depth=1,
                                   action_width=8, action_depth=1, log_std_init=1.0)
        N = 1 + idx % 2; T = 12
        name = ["PPO", "A2C"][(idx // 2) % 2]
        algo = PPO(num_envs=N, num_steps=T, num_epochs=1, num_batches=1) if name == "PPO" else A2C(num_envs=N, num_steps=T)
        ck.current_case = {"algo": name, "policy": "MLPActorCriticPolicy", "kind": kind, "spec": spec, "N": N, "T": T}
        st = algo.reset(env, pol, key=jr.key(100 + idx), callback=cb)
        if N == 1:
            _, buf = eqx.filter_jit(lambda s, k: algo.collect_rollout(env, pol, s, cb, k))(st.step_state, jr.key(200 + idx))
        else:
            _, buf = eqx.filter_jit(lambda s, k: eqx.filter_vmap(algo.collect_rollout, in_axes=(None, None, eqx.if_array(0), None, 0))(env, pol, s, cb, jr.split(k, N)))(st.step_state, jr.key(200 + idx))
            buf = buf.flatten_axes((0, 1))
        advs = np.asarray(buf.advantages, dtype=np.float64)
        oob = 0
        if kind == "box":
            lo, hi = np.asarray(env.action_space.low), np.asarray(env.action_space.high)
            a = np.asarray(buf.actions)
            oob = int(np.sum((a < lo) | (a > hi)))
        if name == "PPO":
            loss, stt = PPO.ppo_loss(pol, buf, False, 0.2, False, 0.5, 0.0)
            kl, pl, expect = float(stt.approx_kl), float(stt.policy_loss), float(-np.mean(advs))
        else:
            loss, stt = A2C.a2c_loss(pol, buf, False, 0.5, 0.0)
            kl, pl, expect = 0.0, float(stt.policy_loss), float(-np.mean(np.asarray(buf.log_probs, dtype=np.float64) * advs))
        ck.case_seen(("on-policy-data", name, kind, idx) if (kind != "box" or oob) else None); ck.count("on_policy_data:" + name + ":" + kind)
        ck.count("on_policy_data_proposals_outside_bounds", oob)
        scale = max(1.0, abs(expect))
        if not (abs(kl) <= 1e-9 and abs(pl - expect) <= 1e-9 * scale):
            ck.violations.append(Violation("impl-violates-property", f"C08/{name}/on-policy-data-{kind}",
                                           "on the data just collected by the unchanged policy the loss is not the objective at ratio 1 (approx KL != 0, or the policy loss is not "
                                           "-mean(advantage) [PPO] / -mean(stored log-prob * advantage) [A2C])",
                                           case={**ck.current_case, "approx_kl": kl, "policy_loss": pl, "expected_policy_loss": expect, "stored_actions_outside_bounds": oob}))
    ck.current_case = None


def body(ck):
    ck.rule = ("buffers of 1..12 samples with dyadic advantages/returns/values/stored log-probs; new log-probs chosen so that ratios lie inside, above and below the clip interval with both advantage signs; "
               "all flag combinations (normalize_advantages, clip_value_loss) and dyadic coefficients; non-trivial = at least one sample outside the clip interval (PPO) / n >= 2 (A2C, REINFORCE)")
    ck.assumptions = ["exp(log_ratio) and std(advantages) are supplied to the Q model as float64 oracle values; comparison tolerance 1e-9 relative",
                      "Adam internals are not modelled; only the global-norm clipping stage of the optimiser chain is observed"]
    ck.not_proved = ["Adam update rule (optax)"]
    ck.build_coq(); ck.compile_props()
    ck.kernel_link()   # PPO.ppo_loss regenerated from the source = clipped surrogate / value / entropy kernels (coq/link/C08_link.v)
    quick = ck.tier == "quick"
    rng = ck.rng
    cases, cj = [], []
    dy = lambda lo, hi, den: float(rng.integers(lo, hi + 1)) / den
    n_cases = 120 if quick else 1200
    for idx in range(n_cases):
        n = int(rng.integers(1, 13)); NA = 3
        algo = int(rng.choice([0, 0, 1, 2]))
        eps = float(rng.choice([0.125, 0.25, 0.5])); cv = dy(0, 4, 2); ce = dy(0, 4, 4)
        clipv = bool(rng.random() < 0.5) and algo == 0
        norm = bool(rng.random() < 0.4) and n >= 2
        acts = [int(rng.integers(0, NA)) for _ in range(n)]
        old_lp = [dy(-12, 0, 4) for _ in range(n)]
        logr = [float(rng.choice([0.0, 0.0625, -0.0625, 0.5, -0.5, 1.0, -1.0, 0.25, -0.25])) for _ in range(n)]
        new_lp = [o + d for o, d in zip(old_lp, logr)]
        advs = [dy(-8, 8, 4) for _ in range(n)]
        if norm and len(set(advs)) == 1:
            advs[0] += 1.0
        vals = [dy(-8, 8, 2) for _ in range(n)]; oldv = [v + dy(-4, 4, 4) for v in vals]; rets = [dy(-8, 8, 2) for _ in range(n)]
        ents = [dy(0, 8, 4) for _ in range(n)]
        LP = [[0.0] * NA for _ in range(n)]
        for i in range(n):
            LP[i][acts[i]] = new_lp[i]
        pspec = {"box": False, "NH": 1, "NHR": 1, "NA": NA, "ACT": [[[0]] for _ in range(n)], "V": [[v] for v in vals], "LP": LP, "MU": [0.0] * n, "ENT": ents}
        policy = TabPolicy(pspec, Discrete(NA), Discrete(n))
        buf = RolloutBuffer(observations=jnp.arange(n), actions=jnp.asarray(acts), rewards=jnp.zeros(n), dones=jnp.zeros(n, dtype=bool),
                            log_probs=jnp.asarray(old_lp), values=jnp.asarray(oldv), states=TabPState(jnp.zeros(n, dtype=int)),
                            returns=jnp.asarray(rets), advantages=jnp.asarray(advs))
        ck.current_case = {"algo": ["PPO", "A2C", "REINFORCE"][algo], "n": n, "eps": eps, "norm": norm, "clipv": clipv}
        if algo == 0:
            (loss, st), grads = PPO.ppo_loss_grad(policy, buf, norm, eps, clipv, cv, ce)
            imp = [float(loss), float(st.policy_loss), float(st.value_loss), float(st.entropy_loss), float(st.approx_kl)]
            if not norm:
                g = np.asarray(grads.LP)
                for i in range(n):
                    r = float(np.exp(logr[i]))
                    if (r > 1 + eps and advs[i] > 0) or (r < 1 - eps and advs[i] < 0):
                        ck.count("out_of_clip_samples")
                        if g[i, acts[i]] != 0.0:
                            ck.violations.append(Violation("impl-violates-property", "C08/PPO/gradient-outside-clip",
                                                           "a sample outside the clip interval in the favoured direction received a non-zero policy gradient",
                                                           case={**ck.current_case, "sample": i, "ratio": r, "advantage": advs[i], "grad": float(g[i, acts[i]])}))
        elif algo == 1:
            loss, st = A2C.a2c_loss(policy, buf, norm, cv, ce)
            imp = [float(loss), float(st.policy_loss), float(st.value_loss), float(st.entropy_loss)]
        else:
            loss, st = REINFORCE.reinforce_loss(policy, buf, norm, cv)
            imp = [float(loss), float(st.policy_loss), float(st.value_loss)]
        ratios = [float(np.exp(np.float64(d))) for d in logr]
        normlit = f"(Some ({ql(float(np.std(np.asarray(advs, dtype=np.float64))))}, {ql(float(np.finfo(np.float64).eps))}))" if norm else "None"
        lit = (f"Build_case {algo}%nat {ql(eps)} {ql(cv)} {ql(ce)} {bl(clipv)} {normlit} {listl(ql(x) for x in ratios)} {listl(ql(x) for x in logr)} "
               f"{listl(ql(x) for x in new_lp)} {listl(ql(x) for x in advs)} {listl(ql(x) for x in vals)} {listl(ql(x) for x in oldv)} {listl(ql(x) for x in rets)} "
               f"{listl(ql(x) for x in ents)} {listl(ql(x) for x in imp)}")
        j = {"algo": ["PPO", "A2C", "REINFORCE"][algo], "clip_coefficient": eps, "value_coef": cv, "entropy_coef": ce, "clip_value_loss": clipv, "normalize_advantages": norm,
             "new_log_probs": new_lp, "stored_log_probs": old_lp, "advantages": advs, "values": vals, "stored_values": oldv, "returns": rets, "entropies": ents, "impl[loss,policy,value,(entropy),(approx_kl)]": imp}
        cases.append(lit); cj.append(j)
        outside = any(abs(d) > np.log1p(eps) for d in logr)
        ck.case_seen((idx, algo, n) if (outside if algo == 0 else n >= 2) else None, sample=j); ck.count("algo:" + j["algo"])
        if clipv:
            ck.count("value_clipping_on")
    ck.current_case = None
    res = ck.run_coq_cases("C08Check", cases, shard=100, preamble="From Lerax Require Import Losses.\nImport C08Check.")
    ck.classify(res, cj, sig_of=lambda i: "C08/" + cj[i]["algo"], relation="Losses (ppo.py:143-210, a2c.py:124-152, reinforce.py:113-137) vs static loss functions",
                what="loss / statistics differ from the published objective")
    on_policy_data(ck, quick)
    # optimiser chain: gradient updates are applied through global-norm clipping FOLLOWED BY the configured optimiser.
    # Two consecutive updates (carrying the optimiser state) are compared with a reference chain built from optax directly:
    # clipping after Adam, or no clipping, changes Adam's moments and hence the second update.
    import optax
    lr = 1e-3
    for name, algo in (("PPO", PPO(num_envs=1, num_steps=4, max_grad_norm=0.5, learning_rate=lr)), ("A2C", A2C(num_envs=1, num_steps=4, learning_rate=lr)),
                       ("REINFORCE", REINFORCE(num_envs=1, num_steps=4, learning_rate=lr))):
        params = {"w": jnp.asarray([0.5, -1.0, 2.0, 0.25])}
        mg = float(getattr(algo, "max_grad_norm", 0.5))
        ref = optax.chain(optax.clip_by_global_norm(mg), optax.inject_hyperparams(optax.adam)(lr))
        g_big = {"w": jnp.asarray([3.0, -4.0, 0.001, 12.0]) * (20 * mg / 13.0)}      # norm 20 x max_grad_norm
        g_small = {"w": jnp.asarray([0.3, 0.1, -0.2, 0.05]) * mg}                    # norm below max_grad_norm
        st_a, st_r = algo.optimizer.init(params), ref.init(params)
        worst = 0.0
        ups = []
        for g in (g_big, g_small, g_big):
            ua, st_a = algo.optimizer.update(g, st_a, params)
            ur, st_r = ref.update(g, st_r, params)
            worst = max(worst, float(np.max(np.abs(np.asarray(ua["w"]) - np.asarray(ur["w"])))))
            ups.append([np.asarray(ua["w"]).tolist(), np.asarray(ur["w"]).tolist()])
        ck.count("optimizer_chain_checks")
        ck.case_seen(("optimizer-chain", name))
        if worst > 1e-9:
            ck.violations.append(Violation("impl-violates-property", f"C08/{name}/grad-norm-clipping",
                                           "the optimiser does not apply global-norm clipping to the gradient before the Adam step (updates differ from clip_by_global_norm -> adam)",
                                           case={"algo": name, "max_grad_norm": mg, "learning_rate": lr, "max_abs_deviation": worst, "updates[impl,reference] for (big, small, big) gradients": ups}))


if __name__ == "__main__":
    run_main("C08", body)
