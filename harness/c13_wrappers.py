"""C13 — wrappers and adapters change only what they declare; TimeLimit is exact.
Tie: functional components of wrapped finite MDPs (all 11 wrappers, random
stacks) vs Lerax.Tab.wrap_d; TimeLimit truncation along episode histories;
constructibility of every documented wrapper; LeraxToGymEnv / LeraxToGymnaxEnv
vs the Gym-API model under the adapter key schedule; GymToLeraxEnv /
GymnaxToLeraxEnv vs a twin of the adapted environment."""
from __future__ import annotations

import numpy as np

from harness.common import Violation, bl, listl, optl, ql, release_jit, run_main, setup_jax, zl

jax = setup_jax(x64=True)
import jax.numpy as jnp  # noqa: E402
import jax.random as jr  # noqa: E402

from harness.c01_step_reset import imp_out_lit  # noqa: E402
from harness.stubs import (KeyTree, TabEnv, build_stack, canon_state, obs_list, path_lit, random_stack, random_tab,  # noqa: E402
                           rawtbl_lit, rebuild_state, sp_lit, space_desc, subtree, tab_lit, wd_lit)


def st_lit(cnt, s):
    return f"({listl(zl(c) for c in cnt)}, {zl(s)})"


def rand_action(rng, asp, oob=False):
    if asp[0] == "disc":
        return int(rng.integers(0, asp[1]))
    lo = asp[2] if asp[2] is not None else -4.0
    hi = asp[3] if asp[3] is not None else 4.0
    if oob:
        lo -= 1.0; hi += 1.0
    return float(rng.integers(int(lo * 4), int(hi * 4) + 1)) / 4


def component_case(ck, rng, idx):
    spec = random_tab(rng)
    stack, asp, osp = random_stack(rng, spec, depth=int(rng.integers(1, 5)))
    inner = TabEnv(spec)
    env = build_stack(inner, stack)
    nlim = sum(1 for d in stack if d[0] == "TimeLimit")
    S = len(spec["P"])
    cnt = [int(rng.integers(0, 6)) for _ in range(nlim)]
    s = int(rng.integers(0, S))
    a = rand_action(rng, asp, oob=True)
    H = int(rng.integers(0, 8))
    roots = [jr.key(int(50_000 * (ck.seed + 1) + 100 * idx + t)) for t in range(H + 1)]
    tree = KeyTree(roots)
    paths = [((0, t),) for t in range(H + 1)]
    raw_lit, raw_json = rawtbl_lit(tree, paths)
    ck.current_case = {"spec": spec, "stack": stack, "state": [cnt, s], "action": a}
    a_in = jnp.asarray(a) if asp[0] == "disc" else jnp.asarray(a, dtype=float).reshape(env.action_space.shape)
    state = rebuild_state(env, cnt, s)
    k = roots[0]
    nxt = env.transition(state, a_in, key=k)
    obs = env.observation(state, key=k)
    rew = env.reward(state, a_in, nxt, key=k)
    term = env.terminal(state, key=k)
    trunc = env.truncate(state)
    mask = env.action_mask(state, key=k)
    sinfo = env.state_info(state)["x"]
    tinfo = env.transition_info(state, a_in, nxt)["x"]
    init = env.initial(key=k)
    unwrapped_ok = env.unwrapped is inner
    uw = int(state.unwrapped.s)
    # TimeLimit history from initial(k)
    hist = []
    st = init
    truncs = [bool(env.truncate(st))]
    for t in range(1, H + 1):
        ah = rand_action(rng, asp)
        ah_in = jnp.asarray(ah) if asp[0] == "disc" else jnp.asarray(ah, dtype=float).reshape(env.action_space.shape)
        st = env.transition(st, ah_in, key=roots[t])
        hist.append((ah, ((0, t),)))
        truncs.append(bool(env.truncate(st)))
    ncnt, ns = canon_state(nxt)
    icnt, is_ = canon_state(init)
    mask_l = None if mask is None else [bool(x) for x in np.asarray(mask)]
    comp = (f"(Build_comp {st_lit(ncnt, ns)} {listl(ql(x) for x in obs_list(obs))} {ql(float(rew))} {bl(bool(term))} {bl(bool(trunc))} "
            f"{optl(mask_l, lambda m: listl(bl(x) for x in m))} {ql(float(sinfo))} {ql(float(tinfo))} "
            f"{sp_lit(space_desc(env.action_space))} {sp_lit(space_desc(env.observation_space))} {zl(uw)} {st_lit(icnt, is_)})")
    lit = (f"Build_case {tab_lit(spec)} {raw_lit} {listl(wd_lit(d) for d in stack)} {st_lit(cnt, s)} {ql(a)} {path_lit(((0, 0),))} {comp} "
           f"{listl('(' + ql(x) + ', ' + path_lit(p) + ')' for x, p in hist)} {listl(bl(x) for x in truncs)}")
    j = {"spec": spec, "stack(outermost first)": stack, "state[counters,s]": [cnt, s], "action": a, "raw_draws": raw_json,
         "impl": {"transition": [ncnt, ns], "observation": obs_list(obs), "reward": float(rew), "terminal": bool(term), "truncate": bool(trunc),
                  "mask": mask_l, "state_info": float(sinfo), "transition_info": float(tinfo), "initial": [icnt, is_],
                  "action_space": space_desc(env.action_space), "observation_space": space_desc(env.observation_space)},
         "history_actions": [x for x, _ in hist], "impl_truncate_along_history": truncs}
    for d in stack:
        ck.count("w:" + d[0])
    ck.count(f"depth={len(stack)}")
    ck.case_seen((idx, tuple(d[0] for d in stack)), sample=j)
    if not unwrapped_ok or env.name != inner.name:
        ck.violations.append(Violation("impl-violates-property", "C13/unwrapped-passthrough", "env.unwrapped / name does not pass through the stack", case=j))
    return lit, j


def constructible(ck):
    """every documented wrapper can be constructed"""
    import lerax.wrapper as W
    from lerax.space import Box

    rng = np.random.default_rng(0)
    disc = TabEnv(random_tab(rng, box_action=False, box_obs=False))
    box = TabEnv(random_tab(rng, box_action=True, box_obs=True))
    ctors = {
        "Identity": lambda: W.Identity(disc),
        "TimeLimit": lambda: W.TimeLimit(disc, 5),
        "TransformAction": lambda: W.TransformAction(disc, lambda a: a, disc.action_space),
        "ClipAction": lambda: W.ClipAction(box),
        "RescaleAction": lambda: W.RescaleAction(box),
        "ClipObservation": lambda: W.ClipObservation(box),
        "FlattenObservation": lambda: W.FlattenObservation(disc),
        "RescaleObservation": lambda: W.RescaleObservation(box),
        "TransformObservation": lambda: W.TransformObservation(box, lambda o: o, box.observation_space),
        "ClipReward": lambda: W.ClipReward(disc),
        "TransformReward": lambda: W.TransformReward(disc, lambda r: r),
    }
    for name in W.__all__:
        if name.startswith("Abstract"):
            continue
        ck.count("constructed")
        if name not in ctors:
            ck.violations.append(Violation("correspondence-broken", f"C13/constructible/{name}/unknown", f"wrapper {name} is documented but unknown to the model"))
            continue
        try:
            e = ctors[name]()
            st, ob, info = e.reset(key=jr.key(0))
            e.step(st, e.action_space.sample(key=jr.key(1)), key=jr.key(2))
        except Exception as ex:  # noqa: BLE001
            ck.violations.append(Violation("impl-violates-property", f"C13/constructible/{name}",
                                           f"documented wrapper {name} cannot be constructed/used: {type(ex).__name__}: {str(ex)[:200]}",
                                           case={"wrapper": name}))


def adapter_cases(ck, rng, n):
    """LeraxToGymEnv and LeraxToGymnaxEnv over stub MDPs with wrapper stacks"""
    from lerax.compatibility.gym import LeraxToGymEnv
    from lerax.compatibility.gymnax import LeraxToGymnaxEnv

    gym_cases, gym_j, x_cases, x_j = [], [], [], []
    for idx in range(n):
        spec = random_tab(rng)
        stack, asp, osp = random_stack(rng, spec, depth=int(rng.integers(0, 3)), allow=["Identity", "TimeLimit", "ClipReward", "TransformReward", "ClipAction", "RescaleAction"])
        env = build_stack(TabEnv(spec), stack)
        T = int(rng.integers(1, 10))
        seed = int(rng.choice([0, 0, 1, int(rng.integers(0, 2**30)), int(rng.integers(0, 2**30))]))
        # ---- Gymnasium adapter: root = jr.key(seed); key_t = root.(2,0)^t.(2,1).  The recorded episode starts either on a
        # fresh adapter, or on a USED one (an earlier episode under another seed, then reset(seed=seed): the earlier use must
        # not matter), or by reset() WITHOUT a seed after m steps (the key chain of the earlier seed continues).
        variant = ["fresh", "used-reseed", "used-continue"][int(rng.integers(0, 3))]
        m_pre = int(rng.integers(0, 4))
        tree = KeyTree([jr.key(seed)])
        root = ((0, 0),) + (((2, 0),) * (m_pre + 1) if variant == "used-continue" else ())
        paths = []
        cur = root
        keys_t = []
        for t in range(T + 1):
            sub = cur + ((2, 1),)
            keys_t.append(sub)
            paths += subtree(sub, [2] if t == 0 else [4])
            cur = cur + ((2, 0),)
        raw_lit, raw_json = rawtbl_lit(tree, paths)
        ck.current_case = {"spec": spec, "stack": stack, "adapter": "LeraxToGymEnv", "seed": seed, "variant": variant, "steps_before": m_pre}
        g = LeraxToGymEnv(env)

        def a_in_of(a):
            return np.asarray(a) if asp[0] == "disc" else np.asarray(a, dtype=float).reshape(env.action_space.shape)

        if variant == "fresh":
            obs, info = g.reset(seed=seed)
        else:
            g.reset(seed=(seed if variant == "used-continue" else int(rng.integers(1, 2**30))))
            for _ in range(m_pre):
                g.step(a_in_of(rand_action(rng, asp)))
            obs, info = g.reset(seed=seed) if variant == "used-reseed" else g.reset()
        ck.count("l2g:" + variant + (":seed0" if seed == 0 else ""))
        cnt, s = canon_state(g.state)
        reset = (cnt, s, obs_list(obs), 0.0, False, False, float(info["x"]))
        steps, outs = [], []
        for t in range(1, T + 1):
            a = rand_action(rng, asp)
            a_in = np.asarray(a) if asp[0] == "disc" else np.asarray(a, dtype=float).reshape(env.action_space.shape)
            obs, rew, term, trunc, info = g.step(a_in)
            cnt, s = canon_state(g.state)
            steps.append((a, keys_t[t])); outs.append((cnt, s, obs_list(obs), float(rew), bool(term), bool(trunc), float(info["x"])))
        lit = (f"C01Check.Build_case {tab_lit(spec)} {raw_lit} {listl(wd_lit(d) for d in stack)} {path_lit(root)} "
               f"{listl('(' + ql(a) + ', ' + path_lit(p) + ')' for a, p in steps)} {imp_out_lit(*reset)} "
               f"{listl(imp_out_lit(*o) for o in outs)} {sp_lit(space_desc(env.action_space))} {sp_lit(space_desc(env.observation_space))}")
        gym_cases.append(lit)
        gym_j.append({"adapter": "LeraxToGymEnv", "spec": spec, "stack": stack, "seed": seed, "start": variant, "steps_before_the_recorded_reset": m_pre, "actions": [a for a, _ in steps], "impl_reset": reset, "impl_steps": outs})
        ck.case_seen(("l2g", idx, T), sample=None); ck.count("adapter:LeraxToGymEnv")
        # ---- Gymnax adapter: explicit keys
        roots = [jr.key(int(seed + 17 + t)) for t in range(T + 1)]
        tree = KeyTree(roots)
        paths = subtree(((0, 0),), [2])
        for t in range(1, T + 1):
            paths += subtree(((0, t),), [4])
        raw_lit, raw_json = rawtbl_lit(tree, paths)
        ck.current_case = {"spec": spec, "stack": stack, "adapter": "LeraxToGymnaxEnv", "seed": seed}
        x = LeraxToGymnaxEnv(env)
        params = x.default_params
        obs, st = x.reset_env(roots[0], params)
        cnt, s = canon_state(st.env_state)
        reset = (cnt, s, obs_list(obs), 0.0, False, False, 0.0)
        steps, outs = [], []
        for t in range(1, T + 1):
            a = rand_action(rng, asp)
            a_in = jnp.asarray(a) if asp[0] == "disc" else jnp.asarray(a, dtype=float).reshape(env.action_space.shape)
            obs, st, rew, done, info = x.step_env(roots[t], st, a_in, params)
            cnt, s = canon_state(st.env_state)
            steps.append((a, ((0, t),))); outs.append((cnt, s, obs_list(obs), float(rew), bool(done), False, float(info["x"])))
            if int(st.time) != t:
                ck.violations.append(Violation("impl-violates-property", "C13/gymnax/time", "LeraxToGymnaxEnv time counter is not the number of steps", case=ck.current_case))
        lit = (f"C01Check.Build_case {tab_lit(spec)} {raw_lit} {listl(wd_lit(d) for d in stack)} {path_lit(((0, 0),))} "
               f"{listl('(' + ql(a) + ', ' + path_lit(p) + ')' for a, p in steps)} {imp_out_lit(*reset)} "
               f"{listl(imp_out_lit(*o) for o in outs)} {sp_lit(space_desc(env.action_space))} {sp_lit(space_desc(env.observation_space))}")
        x_cases.append(lit)
        x_j.append({"adapter": "LeraxToGymnaxEnv", "spec": spec, "stack": stack, "seed": seed, "actions": [a for a, _ in steps], "impl_reset": reset, "impl_steps[.., done, _, info]": outs})
        ck.case_seen(("l2x", idx, T)); ck.count("adapter:LeraxToGymnaxEnv")
    # ---- LeraxToGymEnv as an object: whole operation histories on ONE adapter vs the state machine Lerax.AdapterSM
    sm_cases, sm_j = [], []
    for idx in range(n):
        spec = random_tab(rng)
        stack, asp, osp = random_stack(rng, spec, depth=int(rng.integers(0, 3)), allow=["Identity", "TimeLimit", "ClipReward", "TransformReward", "ClipAction", "RescaleAction"])
        env = build_stack(TabEnv(spec), stack)
        seeds = [0] + [int(x) for x in rng.integers(1, 2**30, size=2)]          # root i = jr.key(seeds[i]); root 0 is also the key of a new adapter
        tree = KeyTree([jr.key(sd) for sd in seeds])
        g = LeraxToGymEnv(env)
        cur = ((0, 0),)
        ops_lit, ops_j, outs, paths = [], [], [], []
        n_ops = int(rng.integers(4, 11))
        ck.current_case = {"spec": spec, "stack": stack, "adapter": "LeraxToGymEnv (operation history)", "seeds": seeds}
        for t in range(n_ops):
            u = rng.random()
            if t == 0 or u < 0.25:
                i = int(rng.integers(0, len(seeds))) if rng.random() < 0.7 else None
                if i is not None:
                    cur = ((0, i),)
                sub, cur = cur + ((2, 1),), cur + ((2, 0),)
                paths += subtree(sub, [2])
                obs, info = g.reset(seed=seeds[i]) if i is not None else g.reset()
                cnt, st = canon_state(g.state)
                outs.append((cnt, st, obs_list(obs), 0.0, False, False, float(info["x"])))
                ops_lit.append(f"(@OReset Q {'None' if i is None else '(Some ' + path_lit(((0, i),)) + ')'})")
                ops_j.append(["reset", None if i is None else seeds[i]])
                ck.count("sm:reset(seed=0)" if i == 0 else "sm:reset(seed)" if i is not None else "sm:reset()")
            else:
                a = rand_action(rng, asp)
                a_in = np.asarray(a) if asp[0] == "disc" else np.asarray(a, dtype=float).reshape(env.action_space.shape)
                sub, cur = cur + ((2, 1),), cur + ((2, 0),)
                paths += subtree(sub, [4])
                obs, rew, term, trunc, info = g.step(a_in)
                cnt, st = canon_state(g.state)
                outs.append((cnt, st, obs_list(obs), float(rew), bool(term), bool(trunc), float(info["x"])))
                ops_lit.append(f"(@OStep Q {ql(a)})")
                ops_j.append(["step", a])
                ck.count("sm:step")
        raw_lit, raw_json = rawtbl_lit(tree, paths)
        sm_cases.append(f"Build_smcase {tab_lit(spec)} {raw_lit} {listl(wd_lit(d) for d in stack)} {path_lit(((0, 0),))} {listl(ops_lit)} {listl(imp_out_lit(*o) for o in outs)}")
        sm_j.append({"adapter": "LeraxToGymEnv, one object", "spec": spec, "stack": stack, "operations": ops_j, "impl_outputs": outs})
        n_resets = sum(1 for o in ops_j if o[0] == "reset")
        ck.case_seen(("l2g-sm", idx, n_ops) if n_resets >= 2 else None)
    ck.current_case = None
    pre = "From Lerax Require Import Env Tab C01Check."
    res = ck.run_coq_cases("C13Adapt", sm_cases, funcs=("agree_sm",), shard=25, case_type="smcase", preamble=pre + "\nFrom Lerax Require Import AdapterSM.")
    if res is not None:
        ck.classify({"agree": [], "holds": res["agree_sm"]}, sm_j, sig_of=lambda i: "C13/LeraxToGymEnv/object",
                    relation="AdapterSM.l2g_trace (compatibility/gym.py:375-410)",
                    what="a history of reset(seed)/reset()/step operations on one LeraxToGymEnv is not the native trajectory under the documented key chain "
                         "(reset(seed=s) must re-key with jr.key(s) for every integer s, reset() must continue the chain)")
    res = ck.run_coq_cases("C13Adapt", gym_cases, funcs=("agree_gym", "holds_gym"), shard=25, case_type="C01Check.case", preamble=pre)
    if res is not None:
        ck.classify({"agree": res["agree_gym"], "holds": res["holds_gym"]}, gym_j, sig_of=lambda i: "C13/LeraxToGymEnv",
                    relation="l2g_run (compatibility/gym.py:378-398)", what="LeraxToGymEnv does not reproduce the adapted environment's trajectory under its key schedule")
    res = ck.run_coq_cases("C13Adapt", x_cases, funcs=("holds_gymnax",), shard=25, case_type="C01Check.case", preamble=pre)
    if res is not None:
        ck.classify({"agree": [], "holds": res["holds_gymnax"]}, x_j, sig_of=lambda i: "C13/LeraxToGymnaxEnv",
                    relation="l2x_step (compatibility/gymnax.py:215-250)", what="LeraxToGymnaxEnv does not reproduce the adapted environment's trajectory")


def foreign_adapters(ck, quick):
    """runs in a float32 subprocess (Gymnasium observations are float32): harness.sub_c13_foreign.py"""
    import json, os, subprocess, sys
    env = dict(os.environ); env["VERIF_QUICK"] = "1" if quick else "0"; env["VERIF_SEED"] = str(ck.seed)
    p = subprocess.run([sys.executable, "-m", "harness.sub_c13_foreign"], env=env, capture_output=True, text=True, timeout=1500)
    line = [l for l in p.stdout.splitlines() if l.startswith("RESULT ")]
    if p.returncode != 0 or not line:
        ck.violations.append(Violation("impl-violates-property", "C13/foreign-adapters/exception", "GymToLeraxEnv/GymnaxToLeraxEnv twin run raised",
                                       extra={"stderr": p.stderr[-3000:], "stdout": p.stdout[-1000:]}))
        return
    r = json.loads(line[0][7:])
    for k, v in r["counts"].items():
        ck.count(k, v)
    ck.evaluations += r["evaluations"]
    for k in r["nontrivial"]:
        ck.nontrivial_keys.add(tuple(k))
    ck.notes += r["notes"]
    for v in r["violations"]:
        ck.violations.append(Violation("impl-violates-property", v["sig"], v["what"], case=v["case"]))


def body(ck):
    ck.rule = ("finite MDPs x random wrapper stacks (depth 1-4, all 11 wrappers) x arbitrary well-formed wrapper state (random TimeLimit counters) x action (incl. out-of-bounds for Box) x key: "
               "every functional component + spaces + unwrapped + initial; truncate() along random histories of 0-7 transitions from initial(); "
               "adapters: reset + 1..9 steps; distinct by (case index, wrapper kinds)")
    ck.assumptions = ["stub MDP draws tabulated per key path; float64 exact on dyadic tables",
                      "GymToLeraxEnv/GymnaxToLeraxEnv are compared with a twin of the foreign environment (search, not modelled in Coq)"]
    ck.not_proved = ["float rounding of the affine rescale map (the real-number statement is proved; floats are compared exactly on dyadic data only)",
                     "GymToLeraxEnv / GymnaxToLeraxEnv (foreign environments run through io_callback): explored by twin runs"]
    ck.build_coq(); ck.compile_props()
    ck.kernel_link()   # wrapper methods regenerated from the source = Env.wrap1 layers (coq/link/C13_link.v)
    quick = ck.tier == "quick"
    constructible(ck)
    n = 120 if quick else 1000
    cases, cj = [], []
    for i in range(n):
        lit, j = component_case(ck, ck.rng, i)
        cases.append(lit); cj.append(j)
        release_jit(i, 100)
    ck.current_case = None
    ck.log(f"{len(cases)} component cases")
    res = ck.run_coq_cases("C13Check", cases, shard=30, preamble="From Lerax Require Import Env Tab.\nImport C13Check.")
    ck.classify(res, cj, sig_of=lambda i: "C13/components",
                relation="components of wrap_d (wrapper/*.py) vs wrapped env", what="a wrapped environment's component differs from the inner environment with only the declared change applied")
    adapter_cases(ck, ck.rng, 12 if quick else 80)
    foreign_adapters(ck, quick)


if __name__ == "__main__":
    run_main("C13", body)
