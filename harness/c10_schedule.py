"""C10 — training schedule: step budget, iteration counter, target-network updates.
Tie: real DQN and SAC learners (small real networks, real environments): state after each iteration()
(counter; bitwise target-vs-online pattern; Polyak identity recomputed with the same float32 expression;
changed/unchanged pattern of actor and temperature) and the records a recording backend receives from
learn() for a grid of (total_timesteps, num_envs, num_steps); decided in Coq (Lerax.C10Check)."""
from __future__ import annotations

import numpy as np

from harness.common import bl, listl, run_main, setup_jax, zl

jax = setup_jax(x64=False)
import equinox as eqx  # noqa: E402
import jax.numpy as jnp  # noqa: E402
import jax.random as jr  # noqa: E402


def leaves(t):
    return [np.asarray(x) for x in jax.tree.leaves(eqx.filter(t, eqx.is_inexact_array))]


def same(a, b):
    la, lb = leaves(a), leaves(b)
    return len(la) == len(lb) and all(np.array_equal(x, y) for x, y in zip(la, lb))


def body(ck):
    from lerax.algorithm import DQN, PPO, SAC
    from lerax.callback import CallbackList, LoggingCallback
    from lerax.callback.logging import AbstractLoggingBackend
    from lerax.env.classic_control import CartPole, Pendulum
    from lerax.policy import MLPActorCriticPolicy, MLPQPolicy
    from lerax.policy.sac import MLPSACPolicy
    from lerax.wrapper import TimeLimit

    class Rec(AbstractLoggingBackend):
        rows: list = eqx.field(static=True)

        def __init__(self):
            self.rows = []

        def open(self, name): pass
        def log_scalars(self, scalars, step): self.rows.append(int(step))
        def log_hparams(self, h): pass
        def log_video(self, *a, **k): pass
        def close(self): pass

    ck.rule = ("DQN: target_update_interval in {1,2,3,4,7} x num_envs {1,2} x 6-9 iterations; SAC: policy_frequency {1,2,3,4} x autotune {on,off} x tau {0.005,0.25,1.0} x initial_alpha {1e-9..150} x 5-7 iterations; "
               "learn(): (total_timesteps, num_envs, num_steps) grid incl. non-divisible budgets; non-trivial = at least one target copy AND one non-copy iteration (DQN) / one gated and one ungated iteration (SAC)")
    ck.assumptions = ["bitwise equality of parameter leaves is used to observe 'copied' / 'unchanged'; 'changed' is only ever required to imply the gate, never asserted",
                      "the Polyak identity is recomputed from the observed online and previous target leaves with the same float32 expression tau*o + (1-tau)*t"]
    ck.build_coq(); ck.compile_props()
    ck.kernel_link()   # num_iterations / DQN.per_iteration / SAC Polyak regenerated from the source = Schedule.v (coq/link/C10_link.v)
    quick = ck.tier == "quick"
    rng = ck.rng
    cases, cj = [], []
    cb = CallbackList(callbacks=[])
    env = TimeLimit(CartPole(), 20)
    # (interval, num_envs, learning_starts, batch_size): the last configurations start training on a replay buffer that holds FEWER
    # transitions than one batch (tiny warm-up, large batch): every iteration still counts
    dq_cfgs = ([(2, 1, 8, 4), (3, 2, 8, 4), (2, 1, 1, 32)] if quick else
               [(1, 1, 8, 4), (2, 1, 8, 4), (3, 2, 8, 4), (4, 1, 8, 4), (7, 2, 8, 4), (2, 2, 8, 4), (2, 1, 1, 32), (3, 2, 0, 48)])
    for interval, N, L, BS in dq_cfgs:
        K = int(rng.integers(6, 10))
        algo = DQN(buffer_size=64 * N, learning_starts=L, num_envs=N, num_steps=2, batch_size=BS, target_update_interval=interval, learning_rate=1e-2)
        pol = MLPQPolicy(env=env, key=jr.key(int(rng.integers(0, 1000))), width_size=8, depth=1)
        ck.current_case = {"algo": "DQN", "interval": interval, "N": N, "K": K, "learning_starts": L, "batch_size": BS}
        st = algo.reset(env, pol, key=jr.key(1), callback=cb)
        it = eqx.filter_jit(lambda s, k: algo.iteration(s, key=k, callback=cb))
        obs = []
        for k in range(1, K + 1):
            prev_target = st.target_policy
            st = it(st, jr.key(100 + k))
            obs.append((int(st.iteration_count), same(st.target_policy, st.policy), same(st.target_policy, prev_target)))
        lit = f"CDqn {interval}%nat {listl('(' + zl(c) + ', ' + bl(a) + ', ' + bl(b) + ')' for c, a, b in obs)}"
        j = {"algo": "DQN", "target_update_interval": interval, "num_envs": N, "learning_starts": L, "batch_size": BS, "iterations": K, "impl[count,target==online,target==previous target]": obs}
        cases.append(lit); cj.append(j)
        ck.case_seen(("dqn", interval, N, K, L, BS) if (interval > 1 and K >= interval) else None, sample=j); ck.count("dqn_runs"); ck.count("dqn_iterations", K)
    penv = TimeLimit(Pendulum(), 20)
    # num_steps > 1 with a common factor with policy_frequency matters: the gate must count iterations, not environment steps
    # fixed temperatures far from the default (1e-6, 20): with autotuning off the stored temperature must not move at all
    sac_cfgs = ([(2, True, 0.25, 2, 0.2), (3, False, 0.005, 1, 1e-6), (4, True, 0.25, 2, 5.0), (2, False, 0.25, 2, 20.0)] if quick else
                [(1, True, 0.005, 1, 0.2), (2, True, 0.25, 2, 1e-3), (3, True, 1.0, 3, 0.2), (2, False, 0.005, 4, 20.0), (3, False, 0.25, 1, 1e-6),
                 (4, True, 0.25, 2, 5.0), (2, True, 0.5, 3, 0.2), (1, False, 0.25, 1, 1e-9), (2, False, 0.25, 2, 0.2), (3, False, 0.5, 2, 150.0)])
    for freq, autotune, tau, nsteps, alpha0 in sac_cfgs:
        K = int(rng.integers(5, 8))
        algo = SAC(buffer_size=128, learning_starts=8, num_envs=2, num_steps=nsteps, batch_size=4, tau=tau, policy_frequency=freq, autotune=autotune,
                   initial_alpha=alpha0, q_width_size=8, q_depth=1, policy_lr=1e-2, q_lr=1e-2)
        pol = MLPSACPolicy(env=penv, key=jr.key(int(rng.integers(0, 1000))), feature_size=8, width_size=8, depth=1)
        ck.current_case = {"algo": "SAC", "policy_frequency": freq, "autotune": autotune, "tau": tau, "num_steps": nsteps, "K": K, "initial_alpha": alpha0}
        st = algo.reset(penv, pol, key=jr.key(2), callback=cb)
        it = eqx.filter_jit(lambda s, k: algo.iteration(s, key=k, callback=cb))
        obs = []
        t32 = np.float32(tau)
        for k in range(1, K + 1):
            prev = st
            st = it(st, jr.key(200 + k))
            pol_ok = True
            for q, tq_prev, tq in ((st.qf1, prev.qf1_target, st.qf1_target), (st.qf2, prev.qf2_target, st.qf2_target)):
                for o, tp, tn in zip(leaves(q), leaves(tq_prev), leaves(tq)):
                    expect = t32 * o + (np.float32(1) - t32) * tp
                    if not np.allclose(tn, expect, rtol=2e-6, atol=1e-7):
                        pol_ok = False
            obs.append((int(st.iteration_count), pol_ok, not same(st.policy, prev.policy), not np.array_equal(np.asarray(st.log_alpha), np.asarray(prev.log_alpha))))
        lit = f"CSac {freq}%nat {bl(autotune)} {listl('(' + zl(c) + ', ' + bl(a) + ', ' + bl(b) + ', ' + bl(d) + ')' for c, a, b, d in obs)}"
        j = {"algo": "SAC", "policy_frequency": freq, "autotune": autotune, "tau": tau, "num_steps": nsteps, "initial_alpha": alpha0, "iterations": K, "impl[count,polyak_ok,actor_changed,alpha_changed]": obs}
        cases.append(lit); cj.append(j)
        ck.case_seen(("sac", freq, autotune, tau, alpha0) if (freq > 1 and K > freq) else None, sample=j); ck.count("sac_runs"); ck.count("sac_iterations", K)
    # learn(): number of records and cumulative steps
    grid = [(40, 2, 4), (37, 1, 5), (7, 2, 4)] if quick else [(40, 2, 4), (37, 1, 5), (7, 2, 4), (64, 4, 4), (50, 3, 4), (9, 1, 3)]
    for total, N, T in grid:
        for name in (["PPO", "DQN"] if quick else ["PPO", "DQN", "SAC"]):
            rec = Rec(); lcb = LoggingCallback(rec, name="verif")
            ck.current_case = {"algo": name, "total_timesteps": total, "N": N, "T": T}
            if name == "PPO":
                algo = PPO(num_envs=N, num_steps=T, num_epochs=1, num_batches=1)
                pol = MLPActorCriticPolicy(env=env, key=jr.key(3), feature_size=4, feature_width=8, feature_depth=1, value_width=8, value_depth=1, action_width=8, action_depth=1)
                algo.learn(env, pol, total, key=jr.key(4), callback=lcb)
            elif name == "DQN":
                algo = DQN(buffer_size=64 * N, learning_starts=4, num_envs=N, num_steps=T, batch_size=2)
                algo.learn(env, MLPQPolicy(env=env, key=jr.key(3), width_size=8, depth=1), total, key=jr.key(4), callback=lcb)
            else:
                algo = SAC(buffer_size=64 * N, learning_starts=4, num_envs=N, num_steps=T, batch_size=2, q_width_size=8, q_depth=1)
                algo.learn(penv, MLPSACPolicy(env=penv, key=jr.key(3), feature_size=8, width_size=8, depth=1), total, key=jr.key(4), callback=lcb)
            jax.effects_barrier()
            steps = list(rec.rows)
            if name != "PPO":
                # off-policy learners count the warm-up steps too: subtract the warm-up (learning_starts per env) to get the iteration budget
                steps = [s - 4 * N for s in steps]
            lit = f"CLearn {zl(total)} {zl(N)} {zl(T)} {listl(zl(s) for s in steps)}"
            j = {"algo": name, "total_timesteps": total, "num_envs": N, "num_steps": T, "impl_record_steps(minus warm-up)": steps}
            cases.append(lit); cj.append(j)
            ck.case_seen(("learn", name, total, N, T) if total // (N * T) >= 2 else None); ck.count("learn_runs")
    ck.current_case = None
    res = ck.run_coq_cases("C10Check", cases, shard=50, preamble="From Lerax Require Import Schedule.\nImport C10Check.")
    ck.classify(res, cj, sig_of=lambda i: "C10/" + cj[i]["algo"], relation="Schedule model vs learner state after iteration()",
                what="iteration counter / target-network update / Polyak / actor-temperature gating / number of iterations deviates from the schedule")


if __name__ == "__main__":
    run_main("C10", body)
