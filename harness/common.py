"""Shared machinery of the lerax verification checks.

Every check is `python -m harness.cNN --tier quick|thorough` (see /verif/check).
The flow is always:
  1. build the Coq development (no-op when current) and re-compile props/Cxx.v,
     recording the theorems and their `Print Assumptions`;
  2. run the real lerax code (imported from /repo/src) on generated inputs;
  3. write the inputs *and the implementation's outputs* as Coq terms into
     coq/cases/Cxx/*.v and let Coq (vm_compute) evaluate, per case,
        agree : model output == implementation output     (correspondence)
        holds : property predicate on the implementation output
  4. classify: holds fails -> VIOLATION with that case as replay;
     only agree fails / proof broken -> VIOLATION ... no-failing-input-found.
"""
from __future__ import annotations

import argparse
import concurrent.futures as cf
import hashlib
import json
import os
import re
import subprocess
import sys
import time
from fractions import Fraction
from pathlib import Path

VERIF = Path(__file__).resolve().parent.parent
COQ = VERIF / "coq"
REPO = Path("/repo")

FORBIDDEN = re.compile(
    r"\b(Admitted|admit|Axiom|Axioms|Parameter|Parameters|Conjecture|Conjectures|Admit Obligations)\b"
    r"|Unset\s+Guard|bypass_check|type-in-type|impredicative-set|Unset\s+Universe|Unset\s+Positivity"
)


# ----------------------------------------------------------------------------
# Coq literals
# ----------------------------------------------------------------------------
def zl(n) -> str:
    n = int(n)
    return f"({n})%Z" if n < 0 else f"{n}%Z"


def natl(n) -> str:
    n = int(n)
    assert 0 <= n < 5000, n
    return f"{n}%nat"


def bl(b) -> str:
    return "true" if bool(b) else "false"


def to_frac(x) -> Fraction:
    """exact rational value of a Python/NumPy/JAX float (or int, or Fraction)"""
    if isinstance(x, Fraction):
        return x
    if isinstance(x, int):
        return Fraction(x)
    import numpy as np

    v = np.asarray(x)
    if v.dtype.kind in "iub":
        return Fraction(int(v))
    f = float(v)
    if f != f or f in (float("inf"), float("-inf")):
        raise NonFinite(f)
    return Fraction(f)


class NonFinite(ValueError):
    pass


def ql(x) -> str:
    f = to_frac(x)
    n, d = f.numerator, f.denominator
    return f"(Qmake ({n}) {d})" if n < 0 else f"(Qmake {n} {d})"


def listl(items) -> str:
    items = list(items)
    return "[" + "; ".join(items) + "]" if items else "[]"


def optl(x, f) -> str:
    return "None" if x is None else f"(Some {f(x)})"


def pairl(*xs) -> str:
    return "(" + ", ".join(xs) + ")"


def ql_list(xs) -> str:
    return listl(ql(x) for x in xs)


def zl_list(xs) -> str:
    return listl(zl(x) for x in xs)


def bl_list(xs) -> str:
    return listl(bl(x) for x in xs)


def jsonable(x):
    import numpy as np

    if isinstance(x, Fraction):
        return str(x)
    if isinstance(x, (np.generic,)):
        return x.item()
    if isinstance(x, np.ndarray):
        return x.tolist()
    if hasattr(x, "tolist") and hasattr(x, "dtype"):
        return np.asarray(x).tolist()
    if isinstance(x, dict):
        return {str(k): jsonable(v) for k, v in x.items()}
    if isinstance(x, (list, tuple)):
        return [jsonable(v) for v in x]
    if isinstance(x, (str, int, float, bool)) or x is None:
        return x
    return repr(x)


# ----------------------------------------------------------------------------
def sh(cmd, timeout, cwd=None, env=None):
    p = subprocess.run(
        cmd, cwd=cwd, env=env, timeout=timeout, stdout=subprocess.PIPE, stderr=subprocess.STDOUT, text=True
    )
    return p.returncode, p.stdout


class Violation:
    def __init__(self, kind, sig, what, case=None, extra=None):
        self.kind = kind  # impl-violates-property | correspondence-broken | proof-broken
        self.sig = sig  # signature matched against known_findings.json
        self.what = what
        self.case = case
        self.extra = extra or {}


class CheckRun:
    def __init__(self, pid: str, title: str = ""):
        ap = argparse.ArgumentParser()
        ap.add_argument("--tier", default=os.environ.get("VERIF_TIER", "quick"), choices=["quick", "thorough"])
        ap.add_argument("--replay", default=None)
        a = ap.parse_args()
        self.pid = pid
        self.title = title
        self.tier = a.tier
        self.replay_path = a.replay
        self.seed = int(os.environ.get("VERIF_SEED", "0") or 0)
        if self.replay_path:
            # a replay re-runs the deterministic check with the recorded seed and tier:
            # every random choice derives from the seed, so the recorded case is regenerated
            rp = json.loads(Path(self.replay_path).read_text())
            self.seed = int(rp.get("seed", self.seed))
            self.tier = rp.get("tier", self.tier)
            print(f"replaying {self.replay_path}: kind={rp.get('kind')} sig={rp.get('sig')}\n  {rp.get('what')}")
        self.t0 = time.time()
        self.violations: list[Violation] = []
        self.evaluations = 0
        self.nontrivial_keys: set = set()
        self.samples: list = []
        self.dist: dict = {}
        self.rule = ""
        self.not_proved: list[str] = []
        self.assumptions: list[str] = []
        self.obligations = 0
        self.discharged = 0
        self.theorems: list[str] = []
        self.axioms: list[str] = []
        self.traces_validated = 0
        self.coq_case_files = 0
        self.notes: list[str] = []
        self.extra_cov: dict = {}
        self.exhaustive = None
        kf = VERIF / "known_findings.json"
        self.known = json.loads(kf.read_text()) if kf.exists() else {"known": [], "fixed": []}
        self.known_hit: dict[str, int] = {}
        import numpy as np

        self.rng = np.random.default_rng(self.seed + 7919 * int(pid[1:]))

    # ------------------------------------------------------------------
    def log(self, *a):
        print(f"[{self.pid} {time.time() - self.t0:6.1f}s]", *a, flush=True, file=sys.__stdout__)

    def count(self, key, n=1):
        self.dist[key] = self.dist.get(key, 0) + n

    def case_seen(self, nontrivial_key=None, sample=None):
        self.evaluations += 1
        if nontrivial_key is not None:
            self.nontrivial_keys.add(nontrivial_key)
        if sample is not None and len(self.samples) < 3:
            self.samples.append(jsonable(sample))

    # ------------------------------------------------------------------
    def build_coq(self):
        """make the whole development (full .vo); grep the sources for forbidden vernacular"""
        bad = []
        for f in list((COQ / "theories").glob("*.v")) + list((COQ / "props").glob("*.v")):
            for i, line in enumerate(f.read_text().splitlines(), 1):
                code = re.sub(r"\(\*.*?\*\)", "", line)
                if FORBIDDEN.search(code):
                    bad.append(f"{f.name}:{i}: {line.strip()}")
        if bad:
            self.violations.append(
                Violation("proof-broken", f"{self.pid}/forbidden-vernacular", "forbidden vernacular: " + "; ".join(bad[:5]))
            )
            return False
        rc, out = sh(["bash", str(COQ / "build.sh")], timeout=3000)
        if rc != 0:
            tail = "\n".join(out.splitlines()[-15:])
            self.log("coq build failed:\n" + tail)
            self.violations.append(Violation("proof-broken", f"{self.pid}/coq-build", "Coq development does not build", extra={"log": tail}))
            return False
        return True

    def compile_props(self, extra_files=()):
        """re-compile props/Cxx.v now; record theorems and Print Assumptions"""
        f = COQ / "props" / f"{self.pid}.v"
        src = f.read_text()
        names = re.findall(r"^\s*Theorem\s+(\w+)", src, re.M)
        self.theorems = names
        self.obligations = len(names)
        cmd = ["coqc", "-R", str(COQ / "theories"), "Lerax", "-Q", str(COQ / "props"), "LeraxProps",
               "-w", "-notation-overridden,-deprecated-hint-without-locality,-deprecated-instance-without-locality", str(f)]
        self.checker_cmd = "bash coq/build.sh && " + " ".join(cmd[:1] + ["-R coq/theories Lerax -Q coq/props LeraxProps", f"coq/props/{self.pid}.v"])
        try:
            rc, out = sh(cmd, timeout=900, cwd=str(COQ))
        except subprocess.TimeoutExpired:
            rc, out = 124, "timeout"
        if rc != 0:
            tail = "\n".join(out.splitlines()[-15:])
            self.log("props failed:\n" + tail)
            self.discharged = 0
            self.violations.append(Violation("proof-broken", f"{self.pid}/props", f"coq/props/{self.pid}.v no longer checks", extra={"log": tail}))
            return False
        # count Print Assumptions answers: one per theorem
        answers = len(re.findall(r"^(Axioms:|Closed under the global context)", out, re.M))
        axioms = sorted(set(re.findall(r"^([A-Za-z_][\w']*(?:\.[\w']+)+)\s*(?::|$)", out, re.M)))
        self.axioms = axioms
        self.discharged = len(names)
        if answers < len(names):
            self.notes.append(f"Print Assumptions answers {answers} < theorems {len(names)}")
        return True

    # ------------------------------------------------------------------
    def kernel_link(self):
        """Regenerate coq/gen/<pid>/GenK_<pid>.v from the lerax source under test (harness/translate/kernels.py) and re-check
        coq/link/<pid>_link.v: theorems stating that the generated definitions equal the hand-written models / specifications
        the property theorems are about.  A source that no longer translates, or a link theorem that no longer checks, is a
        broken proof obligation (reported through a concrete failing input when the numeric search finds one)."""
        from harness.translate import kernels
        from harness.translate.ir import TranslateError
        link = COQ / "link" / f"{self.pid}_link.v"
        names = re.findall(r"^\s*Theorem\s+(\w+)", link.read_text(), re.M)
        self.link_theorems = names
        self.obligations += len(names)
        self.theorems = list(self.theorems) + [f"link:{n}" for n in names]
        try:
            import lerax as _lerax
            src = Path(_lerax.__file__).resolve().parent.parent
            if "LERAX_SRC" not in os.environ:
                os.environ["LERAX_SRC"] = str(src)
            gen = kernels.generate(self.pid, COQ)
        except TranslateError as e:
            self.log(f"kernel translator failed closed: {e}")
            self.violations.append(Violation("proof-broken", f"{self.pid}/kernel-translator",
                                             f"the lerax source no longer translates into the generated Coq definitions: {e}"))
            self.extra_cov["kernel_link"] = {"generated": False, "error": str(e)[:500]}
            return False
        base = ["coqc", "-R", str(COQ / "theories"), "Lerax", "-Q", str(gen.parent), "LeraxGen", "-Q", str(COQ / "link"), "LeraxLink",
                "-w", "-notation-overridden,-deprecated-hint-without-locality,-deprecated-instance-without-locality"]
        out_all = ""
        for f, tmo in ((gen, 300), (link, 900)):
            try:
                rc, out = sh(base + [str(f)], timeout=tmo, cwd=str(COQ))
            except subprocess.TimeoutExpired:
                rc, out = 124, "timeout"
            out_all += out
            if rc != 0:
                tail = "\n".join(out.splitlines()[-15:])
                self.log(f"kernel link failed ({f.name}):\n" + tail)
                self.violations.append(Violation("proof-broken", f"{self.pid}/kernel-link",
                                                 f"coq/link/{self.pid}_link.v no longer checks against the definitions regenerated from "
                                                 f"the lerax source ({', '.join(str(k.file) + ':' + k.func for k in kernels.KERNELS[self.pid])})",
                                                 extra={"log": tail, "theorems": names}))
                self.extra_cov["kernel_link"] = {"generated": True, "checked": False, "file": str(gen)}
                return False
        axioms = set(re.findall(r"^([A-Za-z_][\w']*(?:\.[\w']+)+)\s*(?::|$)", out_all, re.M))
        self.axioms = sorted(set(self.axioms) | axioms)
        self.discharged += len(names)
        self.extra_cov["kernel_link"] = {
            "generated": True, "checked": True, "file": f"coq/gen/{self.pid}/GenK_{self.pid}.v", "link": f"coq/link/{self.pid}_link.v",
            "theorems": names, "sources": [f"{k.file}::{k.cls}.{k.func}" for k in kernels.KERNELS[self.pid]],
            "sha256_16": hashlib.sha256(gen.read_bytes()).hexdigest()[:16]}
        self.log(f"kernel link ok: {len(names)} theorems re-checked against definitions regenerated from the source")
        return True

    # ------------------------------------------------------------------
    def run_coq_cases(self, module: str, cases: list[str], funcs=("agree", "holds"), shard=300,
                      case_type=None, preamble="", timeout=1500):
        """Evaluate boolean check functions of `module` on Coq-literal cases.
        Returns {func: sorted list of failing global case indices} or None on Coq failure."""
        d = COQ / "cases" / self.pid
        d.mkdir(parents=True, exist_ok=True)
        for old in d.glob(f"{module}_*"):
            old.unlink()
        case_type = case_type or f"{module}.case"
        jobs = []
        for s, lo in enumerate(range(0, len(cases), shard)):
            chunk = cases[lo:lo + shard]
            name = f"{module}_{s}"
            body = [
                "From Coq Require Import List ZArith QArith Bool String.",
                f"From Lerax Require Import Common {module}.",
                "Import ListNotations.",
                "Open Scope Z_scope.",
                preamble,
                f"Definition cases : list ({case_type}) := [",
                ";\n".join(chunk),
                "].",
            ]
            for fn in funcs:
                body.append(f"Eval vm_compute in (failing {module}.{fn} cases).")
            (d / f"{name}.v").write_text("\n".join(body) + "\n")
            jobs.append((lo, name))
        self.coq_case_files += len(jobs)

        def run(job):
            lo, name = job
            cmd = ["coqc", "-R", str(COQ / "theories"), "Lerax", "-w", "-notation-overridden", f"{name}.v"]
            try:
                rc, out = sh(cmd, timeout=timeout, cwd=str(d))
            except subprocess.TimeoutExpired:
                return lo, 124, "timeout"
            return lo, rc, out

        res = {fn: [] for fn in funcs}
        with cf.ThreadPoolExecutor(max_workers=12) as ex:
            for lo, rc, out in ex.map(run, jobs):
                if rc != 0:
                    tail = "\n".join(out.splitlines()[-12:])
                    self.log("coq case evaluation failed:\n" + tail)
                    self.violations.append(Violation("correspondence-broken", f"{self.pid}/coq-cases",
                                                     "model could not be evaluated on the generated cases", extra={"log": tail}))
                    return None
                lists = re.findall(r"=\s*(\[[^\]]*\])\s*:\s*list nat", out, re.S)
                if len(lists) != len(funcs):
                    self.violations.append(Violation("correspondence-broken", f"{self.pid}/coq-cases", "unparsable Coq output", extra={"log": out[-2000:]}))
                    return None
                for fn, l in zip(funcs, lists):
                    idx = [int(x) for x in re.findall(r"\d+", l)]
                    res[fn].extend(lo + i for i in idx)
        for fn in funcs:
            res[fn].sort()
        return res

    # ------------------------------------------------------------------
    def classify(self, res, cases_json, sig_of=None, what="", relation=""):
        """Standard classification of agree/holds results.
        cases_json[i] is the JSON replay for case i; sig_of(i) gives the finding signature."""
        if res is None:
            return
        bad_holds = res.get("holds", [])
        bad_agree = res.get("agree", [])
        self.traces_validated += len(cases_json) - len(set(bad_agree) | set(bad_holds))
        sig_of = sig_of or (lambda i: f"{self.pid}/{relation or 'model'}")
        seen = set()
        size = lambda i: len(json.dumps(jsonable(cases_json[i]), default=str))
        for i in sorted(bad_holds, key=size):  # smallest failing case first
            s = sig_of(i)
            if s in seen:
                continue
            seen.add(s)
            self.violations.append(Violation("impl-violates-property", s, what or "property predicate false on implementation output", case=cases_json[i]))
        only = [i for i in bad_agree if i not in set(bad_holds)]
        if only and not bad_holds:
            i = only[0]
            self.violations.append(Violation("correspondence-broken", sig_of(i) + "/correspondence",
                                             f"model and implementation differ ({relation}); property predicate holds on every explored input",
                                             case=cases_json[i], extra={"count": len(only)}))

    # ------------------------------------------------------------------
    def _match_known(self, v: Violation):
        for k in self.known.get("known", []):
            if k["property"] == self.pid and k["sig"] == v.sig:
                return k
        return None

    def write_replay(self, v: Violation) -> Path:
        d = VERIF / "replays" / self.pid
        d.mkdir(parents=True, exist_ok=True)
        body = {"property": self.pid, "kind": v.kind, "sig": v.sig, "what": v.what, "seed": self.seed,
                "tier": self.tier, "case": jsonable(v.case), "extra": jsonable(v.extra),
                "theorems": self.theorems}
        h = hashlib.sha1(json.dumps(body, sort_keys=True, default=str).encode()).hexdigest()[:12]
        p = d / f"{h}.json"
        p.write_text(json.dumps(body, indent=1, default=str))
        return p

    def finish(self):
        wall = time.time() - self.t0
        real = []
        for v in self.violations:
            k = self._match_known(v)
            if k is not None:
                if v.sig not in self.known_hit:
                    print(f"KNOWN-FINDING: property={self.pid} {k['what']}", file=sys.__stdout__, flush=True)
                self.known_hit[v.sig] = self.known_hit.get(v.sig, 0) + 1
            else:
                real.append(v)
        # a broken proof obligation for which the search produced a concrete failing input is reported through that input
        # (the replay names the obligation); it is reported on its own, with no-failing-input-found, only when the search was clean
        concrete = [v for v in real if v.kind == "impl-violates-property"]
        broken = [v for v in real if v.kind == "proof-broken"]
        if concrete and broken:
            for v in concrete:
                v.extra = dict(v.extra or {}, broken_proof_obligations=[{"sig": b.sig, "what": b.what, "log": str((b.extra or {}).get("log", ""))[-1500:]} for b in broken])
            for b in broken:
                self.log(f"{b.kind}: {b.sig}: {b.what} (reported through the concrete failing input found by the search)")
                self.notes.append(f"proof obligation broken: {b.sig}: {b.what}; failing input found: {concrete[0].sig}")
            real = [v for v in real if v.kind != "proof-broken"]
        # one VIOLATION line per signature (the first case found; the number of further cases is recorded in its replay)
        first, dup = {}, {}
        for v in real:
            if v.sig in first:
                dup[v.sig] = dup.get(v.sig, 0) + 1
            else:
                first[v.sig] = v
        for sig, n in dup.items():
            first[sig].extra = dict(first[sig].extra or {}, further_cases_with_this_signature=n)
        real = list(first.values())
        lines = []
        for v in real:
            p = self.write_replay(v)
            tail = "" if v.kind == "impl-violates-property" else " no-failing-input-found"
            lines.append(f"VIOLATION property={self.pid} replay={p}{tail}")
            self.log(f"{v.kind}: {v.sig}: {v.what}")
        trusted = [
            "Coq 8.16.1 kernel (coqc, full .vo build; vm_compute used for case evaluation and finite lemmas; no native_compute)",
            "axioms reported by Print Assumptions: " + (", ".join(self.axioms) if self.axioms else "none (closed under the global context)"),
            "correspondence harness /verif/harness (generators, stubs, float->rational conversion, Coq literal printer)",
            "hand-written Gallina model of the anchored lerax code (tied by the correspondence check, not by translation)" ,
        ] + (["kernel translator harness/translate/kernel.py + kernels.py (symbolic execution of the lerax source into coq/gen/%s/GenK_%s.v, trusted as a printer; "
              "its specification of what each parameter stands for is a modelling decision); link theorems coq/link/%s_link.v re-checked this run: %s"
              % (self.pid, self.pid, self.pid, ", ".join(self.extra_cov["kernel_link"].get("theorems", [])))]
             if self.extra_cov.get("kernel_link", {}).get("checked") else []) + self.assumptions
        cov = {
            "obligations": self.obligations,
            "discharged": self.discharged,
            "checker_cmd": getattr(self, "checker_cmd", "bash coq/build.sh"),
            "trusted_base": trusted,
            "theorems": self.theorems,
            "evaluations": self.evaluations,
            "distinct_nontrivial": len(self.nontrivial_keys),
            "rule": self.rule,
            "samples": self.samples if self.samples else ["(no cases generated)"],
            "traces_validated_against_impl": self.traces_validated,
            "coq_case_files": self.coq_case_files,
            "input_distribution": self.dist,
            "not_proved": self.not_proved,
            "known_findings_seen": self.known_hit,
            "notes": self.notes,
        }
        if self.exhaustive is not None:
            cov["exhaustive"] = self.exhaustive
        cov.update(self.extra_cov)
        ev = {
            "property_id": self.pid,
            "tier": self.tier,
            "seed": self.seed,
            "level": "proof",
            "coverage": cov,
            "assumptions": self.assumptions + [f"not proved (explored only): {x}" for x in self.not_proved],
            "wall_s": round(wall, 2),
            "violations": len(real),
        }
        (VERIF / "evidence").mkdir(exist_ok=True)
        (VERIF / "evidence" / f"{self.pid}.json").write_text(json.dumps(jsonable(ev), indent=1))
        for l in lines:
            print(l, file=sys.__stdout__, flush=True)
        self.log(f"done: theorems {self.discharged}/{self.obligations}, cases {self.evaluations}, "
                 f"nontrivial {len(self.nontrivial_keys)}, violations {len(real)}, known {sum(self.known_hit.values())}")
        sys.__stdout__.flush()
        sys.exit(1 if real else 0)


def run_main(pid, body):
    """Run a check body; an exception escaping from the implementation under test
    (or from the harness) is reported as a violation with the traceback as replay."""
    import traceback

    ck = CheckRun(pid)
    try:
        body(ck)
    except SystemExit:
        raise
    except BaseException as e:  # noqa: BLE001
        tb = traceback.format_exc()
        ck.log("exception while exercising the implementation:\n" + tb[-3000:])
        ck.violations.append(Violation("impl-violates-property", f"{pid}/exception/{type(e).__name__}",
                                       f"lerax raised {type(e).__name__} on a generated valid input: {str(e)[:300]}",
                                       case=getattr(ck, "current_case", None), extra={"traceback": tb[-6000:]}))
    ck.finish()


def setup_jax(x64=True):
    os.environ.setdefault("JAX_PLATFORMS", "cpu")
    import jax

    if x64:
        jax.config.update("jax_enable_x64", True)
    cache = VERIF / ".cache" / "jax"
    try:
        cache.mkdir(parents=True, exist_ok=True)
        jax.config.update("jax_compilation_cache_dir", str(cache))
        jax.config.update("jax_persistent_cache_min_compile_time_secs", 0.5)
    except Exception:
        pass
    return jax


def release_jit(i, every=40):
    """every case builds a structurally new environment / policy and therefore new XLA programs; drop them regularly so that
    long (thorough) runs do not accumulate thousands of compiled executables (the CPU client eventually crashes)"""
    if i % every == every - 1:
        import gc
        import jax
        jax.clear_caches()
        gc.collect()


def dyadic(rng, lo=-16, hi=16, den=4):
    """a dyadic rational k/den with k in [lo, hi] as a Python float"""
    return float(rng.integers(lo, hi + 1)) / den
