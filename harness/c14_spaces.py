"""C14 — Spaces: exact membership, member samples, coherent equality.

Tie (differential, exact): random nested lerax spaces (depth <= 3) are exercised
through the real `contains`, `sample`, `canonical`, `flatten_sample`,
`flat_size`, `==`, `hash`, `lerax_to_gym_space` / `gym_space_to_lerax_space`;
every answer is written as a Coq term next to the space and the candidate and
compared by Coq (vm_compute) with the model of Lerax.Spaces
(`contains`, `flatten`, `flat_size`, `space_eqb`, `gym_roundtrip`), for which
props/C14.v proves contains <-> member, sample/canonical members, flatten
size/injectivity, eq <-> structural equality, eq -> equal hash key, Gymnasium
round trip.  Numbers are exact rationals (float -> Fraction), +-inf and NaN are
symbols."""
from __future__ import annotations

import copy
import json
import warnings
from collections import OrderedDict
from fractions import Fraction

import numpy as np

from harness.common import Violation, bl, listl, natl, optl, run_main, setup_jax, zl

jax = setup_jax(x64=True)
import jax.numpy as jnp  # noqa: E402
import jax.random as jr  # noqa: E402

from lerax.compatibility.gym import gym_space_to_lerax_space, lerax_to_gym_space  # noqa: E402
from lerax.space import Box, Dict, Discrete, MultiBinary, MultiDiscrete, Tuple  # noqa: E402

warnings.filterwarnings("ignore")
INF = float("inf")
NAN = float("nan")

# ---------------------------------------------------------------------------
# space descriptions (harness-side AST):
#   ("D", n) ("B", shape, lo, hi) ("MB", shape) ("MD", nvec) ("T", [children]) ("Di", [(key, child)])
# ---------------------------------------------------------------------------
KIND = {"D": "Discrete", "B": "Box", "MB": "MultiBinary", "MD": "MultiDiscrete", "T": "Tuple", "Di": "Dict"}


def build(a):
    k = a[0]
    if k == "D":
        return Discrete(a[1])
    if k == "B":
        sh = tuple(a[1])
        return Box(np.asarray(a[2], dtype=np.float64).reshape(sh), np.asarray(a[3], dtype=np.float64).reshape(sh))
    if k == "MB":
        sh = tuple(a[1])
        return MultiBinary(sh[0] if len(sh) == 1 and sh[0] % 2 == 0 else sh)
    if k == "MD":
        return MultiDiscrete(tuple(a[1]))
    if k == "T":
        return Tuple(tuple(build(c) for c in a[1]))
    if k == "Di":
        return Dict(OrderedDict((key, build(c)) for key, c in a[1]))
    raise ValueError(k)


def from_lerax(s):
    """read a real lerax space back structurally"""
    if isinstance(s, Discrete):
        return ("D", int(s.n))
    if isinstance(s, Box):
        lo = np.asarray(s.low, dtype=np.float64); hi = np.asarray(s.high, dtype=np.float64)
        return ("B", tuple(int(d) for d in lo.shape), lo.ravel().tolist(), hi.ravel().tolist())
    if isinstance(s, MultiBinary):
        return ("MB", tuple(int(d) for d in s.n))
    if isinstance(s, MultiDiscrete):
        return ("MD", tuple(int(n) for n in s.nvec))
    if isinstance(s, Tuple):
        return ("T", [from_lerax(c) for c in s.spaces])
    if isinstance(s, Dict):
        return ("Di", [(str(k), from_lerax(c)) for k, c in s.spaces.items()])
    raise TypeError(type(s))


def fnum(f):
    f = float(f)
    if f != f:
        return "nan"
    if f in (INF, -INF):
        return "inf" if f > 0 else "-inf"
    return repr(f)


def src(a):
    """python expression constructing the space (for replays)"""
    k = a[0]
    if k == "D":
        return f"Discrete({a[1]})"
    if k == "B":
        lo = "[" + ", ".join(fnum(x) for x in a[2]) + "]"; hi = "[" + ", ".join(fnum(x) for x in a[3]) + "]"
        return f"Box(low=np.array({lo}).reshape({tuple(a[1])}), high=np.array({hi}).reshape({tuple(a[1])}))".replace("inf", "np.inf").replace("nan", "np.nan")
    if k == "MB":
        return f"MultiBinary({tuple(a[1])})"
    if k == "MD":
        return f"MultiDiscrete({tuple(a[1])})"
    if k == "T":
        return "Tuple((" + ", ".join(src(c) for c in a[1]) + ",))"
    return "Dict({" + ", ".join(f"{key!r}: {src(c)}" for key, c in a[1]) + "})"


def xl(f):
    f = float(f)
    if f != f:
        return "NaN"
    if f == INF:
        return "PInf"
    if f == -INF:
        return "NInf"
    fr = Fraction(f)
    n, d = fr.numerator, fr.denominator
    return f"(Fin (Qmake ({n}) {d}))" if n < 0 else f"(Fin (Qmake {n} {d}))"


def strl(s):
    assert all(c.isalnum() or c == "_" for c in s), s
    return f'"{s}"%string'


def shl(sh):
    return listl(natl(d) for d in sh)


def sp_lit(a):
    k = a[0]
    if k == "D":
        return f"(Discrete {zl(a[1])})"
    if k == "B":
        return f"(Box {shl(a[1])} {listl(xl(x) for x in a[2])} {listl(xl(x) for x in a[3])})"
    if k == "MB":
        return f"(MultiBinary {shl(a[1])})"
    if k == "MD":
        return f"(MultiDiscrete {listl(zl(n) for n in a[1])})"
    if k == "T":
        return f"(Tuple {listl(sp_lit(c) for c in a[1])})"
    return "(Dict " + listl(f"({strl(key)}, {sp_lit(c)})" for key, c in a[1]) + ")"


# ---------------------------------------------------------------------------
# candidate values: what Python hands to contains()
# ---------------------------------------------------------------------------
def val_lit(x):
    """Coq `value` for an arbitrary Python object (independent of any space):
    OrderedDict/dict/tuple structurally; anything NumPy can view as a bool/int/float
    array as (shape, data, dtype); everything else is foreign."""
    if isinstance(x, OrderedDict) or isinstance(x, dict):
        if not all(isinstance(k, str) for k in x.keys()):
            return "VForeign"
        ordered = isinstance(x, OrderedDict)
        return f"(VDict {bl(ordered)} " + listl(f"({strl(k)}, {val_lit(v)})" for k, v in x.items()) + ")"
    if isinstance(x, tuple):
        return f"(VTuple {listl(val_lit(v) for v in x)})"
    if x is None or isinstance(x, (str, bytes)):
        return "VForeign"
    try:
        arr = np.asarray(x)
    except Exception:  # noqa: BLE001  ragged lists etc.
        return "VForeign"
    kind = arr.dtype.kind
    if kind == "b":
        dt = "DBool"
    elif kind in "iu":
        dt = "DInt"
    elif kind == "f":
        dt = "DFloat"
    else:
        return "VForeign"
    return f"(VArr {shl(arr.shape)} {listl(xl(v) for v in arr.ravel().tolist())} {dt})"


def vsrc(x):
    if isinstance(x, OrderedDict):
        return "OrderedDict([" + ", ".join(f"({k!r}, {vsrc(v)})" for k, v in x.items()) + "])"
    if isinstance(x, dict):
        return "{" + ", ".join(f"{k!r}: {vsrc(v)}" for k, v in x.items()) + "}"
    if isinstance(x, tuple):
        return "(" + ", ".join(vsrc(v) for v in x) + ("," if len(x) == 1 else "") + ")"
    if isinstance(x, list):
        return "[" + ", ".join(vsrc(v) for v in x) + "]"
    if isinstance(x, jax.Array):
        return f"jnp.array({vsrc(np.asarray(x).tolist())}, dtype=jnp.{x.dtype})"
    if isinstance(x, np.ndarray):
        return f"np.array({vsrc(x.tolist())}, dtype=np.{x.dtype})"
    if isinstance(x, np.generic):
        return f"np.{x.dtype}({vsrc(x.item())})"
    if isinstance(x, float):
        return {"nan": "np.nan", "inf": "np.inf", "-inf": "-np.inf"}.get(fnum(x), repr(x))
    return repr(x)


def has(a, pred):
    if pred(a):
        return True
    if a[0] == "T":
        return any(has(c, pred) for c in a[1])
    if a[0] == "Di":
        return any(has(c, pred) for _, c in a[1])
    return False


def nd_mb(a):
    return a[0] == "MB" and len(a[1]) > 1


def depth(a):
    if a[0] == "T":
        return 1 + max([depth(c) for c in a[1]] + [0])
    if a[0] == "Di":
        return 1 + max([depth(c) for _, c in a[1]] + [0])
    return 0


# ---------------------------------------------------------------------------
# generators
# ---------------------------------------------------------------------------
KEYS = ["a", "b", "c", "obs", "z", "k1", "x_y", "B", "A0", "act"]
BOX_SHAPES = [(), (1,), (2,), (3,), (2, 2), (1, 2)]
MB_SHAPES = [(1,), (2,), (3,), (4,), (2, 2), (2, 3), (1, 2, 2)]


def gen_bounds(rng):
    t = rng.integers(0, 8)
    lo = float(rng.integers(-8, 9)) / 4
    if rng.random() < 0.15:
        lo = 0.0 if rng.random() < 0.5 else -0.0
    w = float(rng.integers(0, 9)) / 4 if rng.random() < 0.85 else 0.0
    if t <= 3:
        return lo, lo + w
    if t == 4:
        return lo, INF
    if t == 5:
        return -INF, lo
    if t == 6:
        return -INF, INF
    return lo, lo  # degenerate interval


def gen_leaf(rng):
    k = rng.integers(0, 10)
    if k < 3:
        return ("D", int(rng.integers(1, 6)))
    if k < 6:
        sh = BOX_SHAPES[rng.integers(0, len(BOX_SHAPES))]
        n = int(np.prod(sh, dtype=int))
        if rng.random() < 0.3:  # same bounds everywhere
            b = [gen_bounds(rng)] * n
        else:
            b = [gen_bounds(rng) for _ in range(n)]
        return ("B", sh, [x[0] for x in b], [x[1] for x in b])
    if k < 8:
        return ("MB", MB_SHAPES[rng.integers(0, len(MB_SHAPES))])
    return ("MD", tuple(int(rng.integers(1, 5)) for _ in range(int(rng.integers(1, 4)))))


def gen_space(rng, d):
    if d == 0 or rng.random() < 0.35:
        return gen_leaf(rng)
    if rng.random() < 0.5:
        return ("T", [gen_space(rng, d - 1) for _ in range(int(rng.integers(1, 4)))])
    n = int(rng.integers(0, 4)) if rng.random() < 0.1 else int(rng.integers(1, 4))
    ks = [str(k) for k in rng.choice(KEYS, size=n, replace=False)]
    return ("Di", [(k, gen_space(rng, d - 1)) for k in ks])


def pick(rng, xs):
    return xs[int(rng.integers(0, len(xs)))]


def box_inside(rng, lo, hi):
    """a boundary or interior point of [lo, hi] (inclusive, possibly infinite)"""
    flo, fhi = np.isfinite(lo), np.isfinite(hi)
    if flo and fhi:
        return pick(rng, [lo, hi, (lo + hi) / 2, lo, hi])
    if flo:
        return pick(rng, [lo, lo + 1.5, INF, lo + 0.125])
    if fhi:
        return pick(rng, [hi, hi - 2.0, -INF])
    return pick(rng, [0.0, -3.25, INF, -INF, 1e6])


def array_form(rng, data, sh, natural):
    """one of several Python representations of the same numbers"""
    arr = np.asarray(data, dtype=np.float64).reshape(sh)
    integral = bool(np.all(np.isfinite(arr)) and np.all(arr == np.floor(arr)))
    binary = bool(integral and np.all((arr == 0) | (arr == 1)))
    forms = ["f64", "f32", "jnp", "list"]
    if integral:
        forms += ["i64", "i32", "jnpi", "ilist"]
    if binary:
        forms += ["bool", "blist"]
    if natural in forms and rng.random() < 0.4:
        f = natural
    else:
        f = pick(rng, forms)
    if f == "f64":
        out = arr
    elif f == "f32":
        out = arr.astype(np.float32)
    elif f == "jnp":
        out = jnp.asarray(arr)
    elif f == "list":
        out = arr.tolist()
    elif f == "i64":
        out = arr.astype(np.int64)
    elif f == "i32":
        out = arr.astype(np.int32)
    elif f == "jnpi":
        out = jnp.asarray(arr.astype(np.int64))
    elif f == "ilist":
        out = arr.astype(np.int64).tolist()
    elif f == "bool":
        out = arr.astype(bool)
    else:
        out = arr.astype(bool).tolist()
    if sh == () and isinstance(out, np.ndarray) and rng.random() < 0.5:
        out = out[()]  # NumPy scalar
    return out


def gen_member(rng, a):
    k = a[0]
    if k == "D":
        return array_form(rng, int(rng.integers(0, a[1])), (), "jnpi")
    if k == "B":
        return array_form(rng, [box_inside(rng, lo, hi) for lo, hi in zip(a[2], a[3])], tuple(a[1]), "jnp")
    if k == "MB":
        n = int(np.prod(a[1], dtype=int))
        return array_form(rng, rng.integers(0, 2, size=n).tolist(), tuple(a[1]), "bool")
    if k == "MD":
        return array_form(rng, [int(rng.integers(0, n)) for n in a[1]], (len(a[1]),), "jnpi")
    if k == "T":
        return tuple(gen_member(rng, c) for c in a[1])
    items = [(key, gen_member(rng, c)) for key, c in a[1]]
    if rng.random() < 0.3:
        items = [items[i] for i in rng.permutation(len(items))]
    return OrderedDict(items)


FOREIGN = {"str": lambda: "abc", "none": lambda: None, "odict": lambda: OrderedDict(), "tuple_str": lambda: ("a",),
           "ragged": lambda: [[1, 2], [3]]}


def as_f64(x):
    return np.array(np.asarray(x), dtype=np.float64)


def mutate_leaf(rng, a, x):
    """-> (value, tag) a malformed / boundary-violating variant of the member x of leaf space a"""
    k = a[0]
    arr = as_f64(x)
    for _ in range(20):
        if k == "D":
            tag = pick(rng, ["neg", "too_large", "frac", "nan", "pinf", "ninf", "shape", "str", "none", "odict", "tuple_str", "ragged", "list2"])
            vals = {"neg": -1, "too_large": a[1], "frac": pick(rng, [0.5, a[1] - 0.5, 1.5]), "nan": NAN, "pinf": INF, "ninf": -INF}
            if tag in vals:
                v = vals[tag]
                return pick(rng, [v, np.asarray(v), jnp.asarray(v)]), tag
            if tag == "shape":
                return pick(rng, [np.array([0]), jnp.zeros((1, 1), dtype=int), [0]]), tag
            if tag == "list2":
                return [0, 0], "shape"
            return FOREIGN[tag](), tag
        tag = pick(rng, ["comp", "comp", "comp", "nan", "shape", "str", "none", "odict", "tuple_str", "ragged"])
        if tag in FOREIGN:
            return FOREIGN[tag](), tag
        if tag == "shape":
            sh = arr.shape
            cands = [arr.reshape(sh + (1,)), arr.reshape((1,) + sh), arr.ravel()[:-1], np.concatenate([arr.ravel(), arr.ravel()[:1]])]
            if len(sh) >= 2:
                cands += [arr.ravel(), arr.T] if sh[0] != sh[1] else [arr.ravel()]
            if sh == ():
                cands = [arr.reshape((1,)), arr.reshape((1, 1))]
            c = pick(rng, cands)
            if c.shape == sh:
                continue
            return pick(rng, [c, c.tolist(), jnp.asarray(c)]), tag
        flat = arr.ravel().copy()
        i = int(rng.integers(0, flat.size))
        if tag == "nan":
            flat[i] = NAN
        elif k == "B":
            lo, hi = a[2][i], a[3][i]
            sub = pick(rng, ["below", "above", "pinf", "ninf"])
            if sub == "below" and np.isfinite(lo):
                flat[i] = lo - pick(rng, [0.25, 2.0 ** -20, 100.0])
            elif sub == "above" and np.isfinite(hi):
                flat[i] = hi + pick(rng, [0.25, 2.0 ** -20, 100.0])
            elif sub == "pinf" and np.isfinite(hi):
                flat[i] = INF
            elif sub == "ninf" and np.isfinite(lo):
                flat[i] = -INF
            else:
                continue
            tag = sub
        elif k == "MB":
            tag = pick(rng, ["two", "neg", "frac", "pinf"])
            flat[i] = {"two": 2, "neg": -1, "frac": 0.5, "pinf": INF}[tag]
        elif k == "MD":
            tag = pick(rng, ["neg", "neg", "ninf", "too_large", "frac", "pinf"])
            flat[i] = {"neg": -pick(rng, [1, 2]), "ninf": -INF, "too_large": a[1][i], "frac": a[1][i] - 0.5, "pinf": INF}[tag]
        out = flat.reshape(arr.shape)
        integral = bool(np.all(np.isfinite(out)) and np.all(out == np.floor(out)))
        forms = [out, jnp.asarray(out), out.tolist()]
        if integral:
            forms += [out.astype(np.int64), out.astype(np.int64).tolist()]
        return pick(rng, forms), tag
    return "abc", "str"


def mutate(rng, a, x):
    """-> (value, tag, leafkind): one malformation somewhere inside the member x of space a"""
    k = a[0]
    if k == "T":
        if rng.random() < 0.3 or not a[1]:
            tag = pick(rng, ["tuple_short", "tuple_long", "tuple_as_list", "tuple_foreign"])
            if tag == "tuple_short":
                return x[:-1], tag, "Tuple"
            if tag == "tuple_long":
                return x + (0,), tag, "Tuple"
            if tag == "tuple_as_list":
                return list(x), tag, "Tuple"
            return pick(rng, ["abc", None, OrderedDict(), 0]), tag, "Tuple"
        i = int(rng.integers(0, len(a[1])))
        v, tag, lk = mutate(rng, a[1][i], x[i])
        return x[:i] + (v,) + x[i + 1:], tag, lk
    if k == "Di":
        if rng.random() < 0.35 or not a[1]:
            tag = pick(rng, ["dict_plain", "dict_missing_key", "dict_extra_key", "dict_renamed_key", "dict_foreign"])
            if tag == "dict_plain":
                return dict(x), tag, "Dict"
            if tag == "dict_missing_key" and len(x) > 0:
                y = OrderedDict(x); y.popitem(); return y, tag, "Dict"
            if tag == "dict_renamed_key" and len(x) > 0:
                items = list(x.items()); items[0] = ("renamed", items[0][1]); return OrderedDict(items), tag, "Dict"
            if tag == "dict_foreign":
                return pick(rng, ["abc", None, tuple(x.values()), 0]), tag, "Dict"
            y = OrderedDict(x); y["extra"] = 0
            return y, "dict_extra_key", "Dict"
        key, sub = a[1][int(rng.integers(0, len(a[1])))]
        v, tag, lk = mutate(rng, sub, x[key])
        y = OrderedDict(x); y[key] = v
        return y, tag, lk
    v, tag = mutate_leaf(rng, a, x)
    return v, tag, KIND[k]


def mutate_space(rng, a):
    """-> (space, tag): a copy (tag 'copy', 'dict_reorder', 'signed_zero': equal) or a slightly different space"""
    k = a[0]
    r = rng.random()
    if k == "T" and r < 0.6:
        if rng.random() < 0.4:
            tag = pick(rng, ["tuple_prefix", "tuple_longer", "tuple_swap"])
            if tag == "tuple_prefix" and len(a[1]) > 1:
                return ("T", a[1][:-1]), tag
            if tag == "tuple_swap" and len(a[1]) > 1:
                return ("T", [a[1][1], a[1][0]] + a[1][2:]), tag
            return ("T", a[1] + [("D", 2)]), "tuple_longer"
        i = int(rng.integers(0, len(a[1])))
        c, tag = mutate_space(rng, a[1][i])
        return ("T", a[1][:i] + [c] + a[1][i + 1:]), tag
    if k == "Di" and r < 0.7:
        if rng.random() < 0.5 or not a[1]:
            tag = pick(rng, ["dict_reorder", "dict_rename", "dict_drop", "dict_add"])
            if tag == "dict_reorder" and len(a[1]) > 1:
                return ("Di", a[1][1:] + a[1][:1]), tag
            if tag == "dict_rename" and a[1]:
                return ("Di", [("renamed", a[1][0][1])] + a[1][1:]), tag
            if tag == "dict_drop" and a[1]:
                return ("Di", a[1][:-1]), tag
            return ("Di", a[1] + [("extra", ("D", 2))]), "dict_add"
        i = int(rng.integers(0, len(a[1])))
        c, tag = mutate_space(rng, a[1][i][1])
        return ("Di", a[1][:i] + [(a[1][i][0], c)] + a[1][i + 1:]), tag
    if r > 0.85 or k in ("T", "Di"):
        return copy.deepcopy(a), "copy"
    if k == "D":
        if rng.random() < 0.3:
            return pick(rng, [("MB", (a[1],)), ("MD", (a[1],))]), "kind_swap"
        return ("D", a[1] + 1), "n_plus_1"
    if k == "MB":
        if rng.random() < 0.3:
            return ("MD", tuple(a[1])), "kind_swap"
        return pick(rng, [("MB", tuple(a[1]) + (1,)), ("MB", (a[1][0] + 1,) + tuple(a[1][1:]))]), "shape"
    if k == "MD":
        nv = list(a[1])
        if rng.random() < 0.4:
            return ("MD", tuple(nv + [nv[-1]])), "nvec_longer"
        nv[int(rng.integers(0, len(nv)))] += 1
        return ("MD", tuple(nv)), "nvec_plus_1"
    # Box
    lo, hi, sh = list(a[2]), list(a[3]), tuple(a[1])
    zeros = [(w, i) for w, l in (("lo", lo), ("hi", hi)) for i, v in enumerate(l) if v == 0.0]
    if zeros and rng.random() < 0.6:
        w, i = pick(rng, zeros)
        tgt = lo if w == "lo" else hi
        tgt[i] = -tgt[i]  # +0.0 <-> -0.0
        return ("B", sh, lo, hi), "signed_zero"
    tag = pick(rng, ["bound_shift", "bound_shift", "reshape", "bound_inf"])
    if tag == "reshape":
        return ("B", pick(rng, [sh + (1,), (1,) + sh]), lo, hi), tag
    i = int(rng.integers(0, len(lo))) if lo else 0
    if not lo:
        return copy.deepcopy(a), "copy"
    if tag == "bound_inf":
        if np.isfinite(hi[i]):
            hi[i] = INF
        elif np.isfinite(lo[i]):
            lo[i] = -INF
        else:
            hi[i] = 0.0; lo[i] = -1.0
        return ("B", sh, lo, hi), tag
    if np.isfinite(hi[i]):
        hi[i] = hi[i] + 0.25
    elif np.isfinite(lo[i]):
        lo[i] = lo[i] - 0.25
    else:
        lo[i] = 0.0
    return ("B", sh, lo, hi), "bound_shift"


# fixed corpus: small spaces that exercise every kind and the historically weak spots; run first
CORPUS = [
    ("D", 3), ("MD", (2, 3)), ("MB", (2,)), ("MB", (2, 3)), ("B", (), [0.0], [1.0]), ("B", (2,), [-1.0, -INF], [1.0, INF]),
    ("B", (1,), [-0.0], [1.0]), ("B", (3,), [-INF, 0.0, -INF], [0.0, INF, INF]),
    ("T", [("D", 2), ("D", 3)]), ("T", [("D", 2)]), ("Di", [("a", ("D", 2))]), ("Di", [("b", ("D", 2)), ("a", ("D", 3))]), ("Di", []),
    ("T", [("Di", [("z", ("D", 2)), ("y", ("B", (), [0.0], [1.0]))]), ("D", 3)]),
    ("Di", [("obs", ("T", [("MD", (2, 2)), ("B", (2,), [0.0, 0.0], [1.0, INF])])), ("act", ("MB", (3,)))]),
    ("T", [("MB", (2, 2)), ("D", 2)]),
    # Dict spaces with same-typed components (flattening must follow the space's key order, not the sample's insertion order)
    ("Di", [("a", ("D", 5)), ("b", ("D", 5))]), ("Di", [("p", ("B", (2,), [-1.0, -1.0], [1.0, 1.0])), ("q", ("B", (2,), [-1.0, -1.0], [1.0, 1.0])), ("n", ("D", 3))]),
    ("T", [("Di", [("x", ("MD", (3, 3))), ("y", ("MD", (3, 3)))]), ("D", 2)]),
]
CORPUS_CANDIDATES = [  # (space index, candidate, tag, leafkind)
    (0, None, "none", "Discrete"), (0, -1, "neg", "Discrete"), (0, 3, "too_large", "Discrete"), (0, 1.5, "frac", "Discrete"),
    (0, True, "valid", "Discrete"), (0, NAN, "nan", "Discrete"), (0, "a", "str", "Discrete"),
    (1, [-1, 0], "neg", "MultiDiscrete"), (1, [0, -INF], "ninf", "MultiDiscrete"), (1, [1, 2], "valid", "MultiDiscrete"), (1, [2, 0], "too_large", "MultiDiscrete"),
    (3, np.zeros((2, 3)), "valid", "MultiBinary"), (3, 2 * np.ones((2, 3)), "two", "MultiBinary"), (2, [0, 1], "valid", "MultiBinary"),
    (5, [1.0, INF], "valid", "Box"), (5, [NAN, 0.0], "nan", "Box"), (5, [[0.0, 0.0]], "shape", "Box"),
    (10, {"a": 0}, "dict_plain", "Dict"), (10, OrderedDict(a=0), "valid", "Dict"), (11, OrderedDict(a=0, b=1), "valid", "Dict"),
    (8, (0, 0, 0), "tuple_long", "Tuple"), (8, [0, 0], "tuple_as_list", "Tuple"), (12, OrderedDict(), "valid", "Dict"),
]
CORPUS_PAIRS = [  # (a, b, tag)
    (("Di", [("a", ("D", 2))]), ("Di", [("a", ("D", 2))]), "copy"),
    (("Di", [("b", ("D", 2)), ("a", ("D", 3))]), ("Di", [("a", ("D", 3)), ("b", ("D", 2))]), "dict_reorder"),
    (("Di", [("a", ("D", 2))]), ("Di", [("a", ("D", 3))]), "n_plus_1"),
    (("T", [("D", 2), ("D", 3)]), ("T", [("D", 2)]), "tuple_prefix"),
    (("T", [("D", 2), ("D", 3)]), ("T", [("D", 2), ("D", 3)]), "copy"),
    (("B", (1,), [0.0], [1.0]), ("B", (1,), [-0.0], [1.0]), "signed_zero"),
    (("B", (2,), [0.0, 0.0], [1.0, 1.0]), ("B", (1, 2), [0.0, 0.0], [1.0, 1.0]), "reshape"),
    (("D", 2), ("MB", (2,)), "kind_swap"), (("D", 2), ("MD", (2,)), "kind_swap"),
    (("B", (1,), [-INF], [INF]), ("B", (1,), [-INF], [INF]), "copy"),
    # bounds that differ by less than any "closeness" tolerance are still different parameters
    (("B", (1,), [0.0], [1.0]), ("B", (1,), [0.0], [1.00000390625]), "near_equal_high"),
    (("B", (2,), [0.0, -1.0], [1.0, 1.0]), ("B", (2,), [9.5367431640625e-07, -1.0], [1.0, 1.0]), "near_equal_low"),
    (("T", [("B", (1,), [0.0], [1.0]), ("D", 2)]), ("T", [("B", (1,), [0.0], [1.00000390625]), ("D", 2)]), "near_equal_nested"),
]


def scalar_bool(r):
    """Some(bool) iff the answer is a scalar boolean (Python bool or 0-d boolean array)"""
    if isinstance(r, (bool, np.bool_)):
        return bool(r)
    if isinstance(r, (jax.Array, np.ndarray)) and r.shape == () and r.dtype == np.bool_:
        return bool(r)
    return None


def typed(a, v):
    """shape/dtype/container of a sample or canonical element (Python level)"""
    k = a[0]
    if k in ("T", "Di"):
        if k == "T":
            return isinstance(v, tuple) and len(v) == len(a[1]) and all(typed(c, x) for c, x in zip(a[1], v))
        return (isinstance(v, OrderedDict) and list(v.keys()) == [key for key, _ in a[1]]
                and all(typed(c, v[key]) for key, c in a[1]))
    if not isinstance(v, (jax.Array, np.ndarray)):
        return False
    kind = v.dtype.kind
    if k == "D":
        return v.shape == () and kind == "i"
    if k == "B":
        return v.shape == tuple(a[1]) and kind == "f"
    if k == "MB":
        return v.shape == tuple(a[1]) and kind == "b"
    return v.shape == (len(a[1]),) and kind == "i"


# ---------------------------------------------------------------------------
def body(ck):
    quick = ck.tier == "quick"
    ck.rule = ("corpus of 16 small spaces + random nested spaces (depth <= 3; Discrete n<=5, Box shapes up to 2x2 with dyadic/infinite/degenerate/signed-zero bounds, "
               "MultiBinary up to 1x2x2, MultiDiscrete up to 3 entries, Tuple/Dict of 1-3 children, rarely an empty Dict); per space: members in several Python "
               "representations (NumPy/JAX arrays, lists, scalars, int/float/bool dtypes, permuted OrderedDict), malformed variants (one mutation at a random position: "
               "-1, n, fractional, NaN, +-inf, just outside a bound, wrong shape, str/None/dict/tuple/ragged list, tuple length, dict keys, plain dict), samples for several keys, "
               "canonical, flattenings, equal/slightly different partner spaces, Gymnasium round trip; a case is non-trivial when the space is nested or the candidate is "
               "malformed/boundary; distinct by (space, candidate, relation)")
    ck.assumptions = [
        "candidates are translated to the model by NumPy's view of them (shape, flat data, dtype kind); tuples/dicts structurally; str/None/ragged lists are foreign; "
        "a tuple of numbers handed to a leaf space is not generated (the property does not say whether it is an array-like or a foreign tuple)",
        "a plain dict handed to a Dict space is treated as a foreign type (samples are OrderedDicts)",
        "Dict spaces are finite maps: equality and hashing do not depend on entry order (Gymnasium sorts the keys, and the round trip must give an equal space)",
        "Gymnasium's float32 cast of Box bounds is the identity on the generated dyadic bounds",
        "float -> rational conversion is exact; +0.0 and -0.0 are the same number",
    ]
    ck.not_proved = [
        "PRNG primitives (jr.uniform/normal/exponential/randint/bernoulli/choice) stay within their interface (uniform in [lo,hi), exponential >= 0, normal finite, randint in [0,n)); explored on sampled keys only",
        "float rounding inside Box.sample / Box.canonical (lo + u*(hi-lo), (lo+hi)/2) — explored on sampled keys and dyadic bounds",
        "transitivity of == (reflexivity and symmetry are proved; both orders of every pair are checked)",
    ]
    if not ck.build_coq() or not ck.compile_props():
        pass
    ck.kernel_link()   # Discrete / Box / MultiDiscrete contains (per-component view) regenerated from the source = in_rangeb / in_boxb (coq/link/C14_link.v)
    rng = ck.rng

    n_spaces = 70 if quick else 700
    n_valid, n_mut = (2, 7) if quick else (3, 12)
    n_keys = 4 if quick else 10
    n_pairs = 4 if quick else 8

    spaces = list(CORPUS)
    for i in range(n_spaces):
        spaces.append(gen_space(rng, int(rng.integers(0, 4))))

    cases, cj, sigs = [], [], []
    pyv = {}  # Python-level findings: sig -> (size, Violation)

    def py_violation(sig, what, case):
        size = len(json.dumps(case, default=str))
        if sig not in pyv or size < pyv[sig][0]:
            pyv[sig] = (size, Violation("impl-violates-property", sig, what, case=case))

    def add(lit, j, sig, key=None):
        cases.append(lit); cj.append(j); sigs.append(sig)
        ck.case_seen(key, sample=j)

    def contains_case(a, sp, sl, x, tag, lk):
        j = {"check": "contains", "space": src(a), "candidate": vsrc(x), "candidate_kind": tag}
        ck.current_case = j
        try:
            r = sp.contains(x)
            impl = scalar_bool(r)
            j["lerax_contains"] = repr(r)[:200]
        except Exception as e:  # noqa: BLE001
            impl = None
            j["lerax_contains"] = f"raised {type(e).__name__}: {str(e)[:120]}"
        j["expect"] = "contains(x) is a scalar boolean, true exactly when x is a member"
        if impl is None and has(a, nd_mb):
            sig = "C14/contains/MultiBinary-nonscalar"
        elif tag in ("none", "ragged"):
            sig = "C14/contains/foreign-raises"
        elif lk == "MultiDiscrete" and tag in ("neg", "ninf"):
            sig = "C14/contains/MultiDiscrete-negative"
        else:
            sig = f"C14/contains/{lk}-{tag}"
        add(f"CContains {sl} {val_lit(x)} {optl(impl, bl)}", j, sig,
            key=(src(a), vsrc(x)) if (tag != "valid" or depth(a) > 0) else None)
        ck.count(f"contains:{tag}")

    built = []
    for idx, a in enumerate(spaces):
        ck.current_case = {"space": src(a)}
        sp = build(a)
        sl = sp_lit(a)
        built.append((a, sp, sl))
        kind = KIND[a[0]]
        ck.count(f"space:{kind}"); ck.count(f"depth:{depth(a)}")
        # ---- contains on members and on malformed variants
        for _ in range(n_valid):
            contains_case(a, sp, sl, gen_member(rng, a), "valid", kind)
        for _ in range(n_mut):
            v, tag, lk = mutate(rng, a, gen_member(rng, a))
            contains_case(a, sp, sl, v, tag, lk)
        # ---- canonical
        j = {"check": "canonical", "space": src(a), "expect": "canonical() is a member"}
        ck.current_case = j
        unb = has(a, lambda b: b[0] == "B" and any(not np.isfinite(l) and not np.isfinite(h) for l, h in zip(b[2], b[3])))
        try:
            c = sp.canonical()
            j["lerax_canonical"] = vsrc(c)
            add(f"CMember {sl} {val_lit(c)}", j, "C14/canonical/Box-unbounded" if unb else f"C14/canonical/{kind}", key=("canon", src(a)))
            if not typed(a, c):
                py_violation(f"C14/canonical/type-{kind}", "canonical() has the wrong container/shape/dtype", j)
        except Exception as e:  # noqa: BLE001
            j["raised"] = f"{type(e).__name__}: {str(e)[:200]}"
            py_violation(f"C14/canonical/raises-{kind}", "canonical() raised", j)
        # ---- flatten on Dict members whose insertion order differs from the space's key order:
        # w swaps the VALUES of two same-typed components and inserts them in swapped ORDER, so v != w as mappings;
        # an implementation that flattens in the sample's insertion order maps both to the same vector
        if a[0] == "Di" and len(a[1]) >= 2:
            dup = [(i, k) for i in range(len(a[1])) for k in range(i + 1, len(a[1])) if src(a[1][i][1]) == src(a[1][k][1])]
            for (i, k) in dup[:2]:
                items = [(key, gen_member(rng, c)) for key, c in a[1]]
                v = OrderedDict(items)
                order = list(range(len(items))); order[i], order[k] = order[k], order[i]
                w = OrderedDict((items[order[t]][0], items[t][1]) if t in (i, k) else items[t] for t in range(len(items)))
                jp = {"check": "flatten determines sample (permuted insertion order)", "space": src(a), "sample1": vsrc(v), "sample2": vsrc(w)}
                ck.current_case = jp
                try:
                    if not (bool(sp.contains(v)) and bool(sp.contains(w))) or vsrc(v) == vsrc(w):
                        continue
                    o1 = np.asarray(sp.flatten_sample(v)).tolist(); o2 = np.asarray(sp.flatten_sample(w)).tolist()
                    jp["flat1"] = o1; jp["flat2"] = o2
                    add(f"CFlatPair {sl} {val_lit(v)} {val_lit(w)} {listl(xl(z) for z in o1)} {listl(xl(z) for z in o2)}", jp, f"C14/flatten-injective/{kind}-permuted",
                        key=("flatperm", src(a), i, k))
                    add(f"CFlatten {sl} {val_lit(w)} {listl(xl(z) for z in o2)} {natl(sp.flat_size)}", jp, f"C14/flatten/{kind}-permuted")
                    ck.count("flatten:permuted-order-pairs")
                except Exception as e:  # noqa: BLE001
                    jp["raised"] = f"{type(e).__name__}: {str(e)[:200]}"
                    py_violation(f"C14/flatten/raises-{kind}-permuted", "flatten_sample raised on a member with permuted insertion order", jp)
        # ---- samples, their flattening, lerax's own contains on them
        prev = None
        for t in range(n_keys):
            seed = int(rng.integers(0, 2 ** 31))
            j = {"check": "sample", "space": src(a), "key": f"jr.key({seed})", "expect": "sample(key) is a member"}
            ck.current_case = j
            try:
                v = sp.sample(key=jr.key(seed))
            except Exception as e:  # noqa: BLE001
                j["raised"] = f"{type(e).__name__}: {str(e)[:200]}"
                py_violation(f"C14/sample/raises-{kind}", "sample() raised", j)
                continue
            j["lerax_sample"] = vsrc(v)
            vl = val_lit(v)
            add(f"CMember {sl} {vl}", j, f"C14/sample/{kind}", key=("sample", src(a), seed))
            ck.count("sample")
            if not typed(a, v):
                py_violation(f"C14/sample/type-{kind}", "sample() has the wrong container/shape/dtype", j)
            if t == 0:
                contains_case(a, sp, sl, v, "valid", kind)
            jf = {"check": "flatten_sample", "space": src(a), "sample": vsrc(v),
                  "expect": "flatten_sample(v) has flat_size entries, in the space's component order"}
            ck.current_case = jf
            try:
                out = np.asarray(sp.flatten_sample(v))
                fs = sp.flat_size
                ok1d = out.ndim == 1 and isinstance(fs, int)
                jf["lerax_flatten"] = out.tolist(); jf["lerax_flat_size"] = fs
                if not ok1d:
                    py_violation(f"C14/flatten/not-1d-{kind}", "flatten_sample is not 1-D or flat_size not an int", jf)
                else:
                    outl = listl(xl(z) for z in out.tolist())
                    add(f"CFlatten {sl} {vl} {outl} {natl(fs)}", jf, f"C14/flatten/{kind}", key=("flat", src(a), seed))
                    if prev is not None:
                        jp = {"check": "flatten determines sample", "space": src(a), "sample1": prev[0], "sample2": vsrc(v),
                              "flat1": prev[2], "flat2": out.tolist()}
                        add(f"CFlatPair {sl} {prev[1]} {vl} {prev[3]} {outl}", jp, f"C14/flatten-injective/{kind}")
                    prev = (vsrc(v), vl, out.tolist(), outl)
            except Exception as e:  # noqa: BLE001
                jf["raised"] = f"{type(e).__name__}: {str(e)[:200]}"
                empty = has(a, lambda b: b[0] == "Di" and not b[1])
                py_violation("C14/flatten/empty-Dict" if empty else f"C14/flatten/raises-{kind}", "flatten_sample raised on a sample", jf)

    for i, x, tag, lk in CORPUS_CANDIDATES:
        a, sp, sl = built[i]
        contains_case(a, sp, sl, x, tag, lk)
    ck.log(f"{len(cases)} membership/sample/flatten cases on {len(spaces)} spaces")

    # ---- Discrete masks
    for t in range(40 if quick else 300):
        n = int(rng.integers(1, 7))
        mask = rng.random(n) < 0.5
        if not mask.any():
            mask[int(rng.integers(0, n))] = True
        form = pick(rng, ["jnp", "np", "list"])
        m = jnp.asarray(mask) if form == "jnp" else (np.asarray(mask) if form == "np" else mask.tolist())
        for _ in range(4):
            seed = int(rng.integers(0, 2 ** 31))
            j = {"check": "masked sample", "space": f"Discrete({n})", "mask": mask.tolist(), "key": f"jr.key({seed})",
                 "expect": "the sample is a member and an index the mask allows"}
            ck.current_case = j
            try:
                v = Discrete(n).sample(key=jr.key(seed), mask=m)
                j["lerax_sample"] = vsrc(v)
                add(f"CMasked {zl(n)} {listl(bl(b) for b in mask.tolist())} {val_lit(v)}", j, "C14/sample/Discrete-mask",
                    key=("mask", n, tuple(mask.tolist()), seed))
                ck.count("masked-sample")
            except Exception as e:  # noqa: BLE001
                j["raised"] = f"{type(e).__name__}: {str(e)[:200]}"
                py_violation("C14/sample/Discrete-mask-raises", "masked sample raised", j)

    # ---- sparse masks on large Discrete spaces: a masked index must have probability exactly zero, not merely a small one
    #      (many draws; with n - k masked indices any leak of relative weight w shows with probability ~ w * (n - k) / k per draw)
    for n, k in ([(50_000, 1), (200_000, 2)] if quick else [(50_000, 1), (200_000, 2), (4_096, 1), (1_000_000, 3), (65_537, 1)]):
        allowed = sorted(int(x) for x in rng.choice(n, size=k, replace=False))
        mask = np.zeros(n, dtype=bool); mask[allowed] = True
        seed = int(rng.integers(0, 2 ** 31)); draws = 512
        j = {"check": "masked sample, sparse mask", "space": f"Discrete({n})", "allowed_indices": allowed, "keys": f"jr.split(jr.key({seed}), {draws})",
             "expect": "every sample is one of the allowed indices"}
        ck.current_case = j
        sp_big = Discrete(n)
        vs = np.asarray(jax.vmap(lambda kk: sp_big.sample(key=kk, mask=jnp.asarray(mask)))(jr.split(jr.key(seed), draws)))
        ck.count("masked-sample-sparse", draws); ck.evaluations += draws
        ck.case_seen(("sparse-mask", n, k))
        bad = [(i, int(v)) for i, v in enumerate(vs) if int(v) not in allowed]
        if bad:
            j["lerax_samples_outside_the_mask[(key index, sample)]"] = bad[:10]; j["count"] = len(bad)
            py_violation("C14/sample/Discrete-mask", f"masked sample returned a masked index ({len(bad)} of {draws} draws)", j)

    # ---- equality and hashing
    pairs = list(CORPUS_PAIRS)
    for a, _, _ in built[len(CORPUS):] + built[:len(CORPUS)]:
        for _ in range(n_pairs):
            b, tag = mutate_space(rng, a)
            pairs.append((a, b, tag))
    for i in range(len(spaces) // 2):
        pairs.append((spaces[int(rng.integers(0, len(spaces)))], spaces[int(rng.integers(0, len(spaces)))], "random"))

    def tuple_len_mismatch(a, b):
        if a[0] == "T" and b[0] == "T":
            return len(a[1]) != len(b[1]) or any(tuple_len_mismatch(x, y) for x, y in zip(a[1], b[1]))
        if a[0] == "Di" and b[0] == "Di":
            db = dict(b[1])
            return any(k in db and tuple_len_mismatch(c, db[k]) for k, c in a[1])
        return False

    isdict = lambda s: s[0] == "Di"  # noqa: E731
    for a0, b0, tag in pairs:
        for a, b in ((a0, b0), (b0, a0)):
            sa, sb = build(a), build(b)
            j = {"check": "==", "a": src(a), "b": src(b), "relation": tag,
                 "expect": "a == b exactly when structure and parameters agree (Dict as a finite map; bounds as numbers)"}
            ck.current_case = j
            try:
                r = sa == sb
                impl = r if isinstance(r, bool) else None
                j["lerax_eq"] = repr(r)
            except Exception as e:  # noqa: BLE001
                impl = None
                j["lerax_eq"] = f"raised {type(e).__name__}: {str(e)[:120]}"
            anyd = has(a, isdict) or has(b, isdict)
            if anyd:
                sig = "C14/eq/Dict"
            elif tuple_len_mismatch(a, b):
                sig = "C14/eq/Tuple-prefix"
            else:
                sig = f"C14/eq/{KIND[a[0]]}-{tag}"
            add(f"CEq {sp_lit(a)} {sp_lit(b)} {optl(impl, bl)}", j, sig, key=("eq", src(a), src(b)))
            ck.count(f"eq:{tag}")
            jh = {"check": "hash", "a": src(a), "b": src(b), "relation": tag, "expect": "hash is defined, and equal spaces have equal hashes"}
            try:
                h = hash(sa) == hash(sb)
                jh["lerax_hash_equal"] = h
            except Exception as e:  # noqa: BLE001
                h = None
                jh["lerax_hash_equal"] = f"raised {type(e).__name__}: {str(e)[:120]}"
            if anyd:
                sig = "C14/hash/Dict"
            elif tag == "signed_zero":
                sig = "C14/hash/Box-signed-zero"
            else:
                sig = f"C14/hash/{KIND[a[0]]}-{tag}"
            add(f"CHash {sp_lit(a)} {sp_lit(b)} {optl(h, bl)}", jh, sig, key=("hash", src(a), src(b)))

    # a space never equals a non-space
    for a, sp, _ in built:
        foreign = [None, 3, "s", (1,)]
        if a[0] == "Di":
            foreign.append(OrderedDict((k, build(c)) for k, c in a[1]))
        if a[0] == "T":
            foreign.append(tuple(build(c) for c in a[1]))
        for f in foreign:
            j = {"check": "== non-space", "a": src(a), "other": repr(f)[:200], "expect": "False"}
            try:
                r = sp == f
            except Exception as e:  # noqa: BLE001
                r = f"raised {type(e).__name__}"
            if r is not False:
                j["lerax_eq"] = repr(r)
                py_violation("C14/eq/Dict" if a[0] == "Di" else f"C14/eq/{KIND[a[0]]}-vs-foreign", "a space compares equal to a non-space", j)
            ck.evaluations += 1

    # ---- Gymnasium round trip
    for a, sp, sl in built:
        j = {"check": "gym round trip", "space": src(a),
             "expect": "gym_space_to_lerax_space(lerax_to_gym_space(s)) == s, Dict keys in Gymnasium's sorted order"}
        ck.current_case = j
        back_l, impl = None, None
        try:
            back = gym_space_to_lerax_space(lerax_to_gym_space(sp))
            back_a = from_lerax(back)
            back_l = sp_lit(back_a)
            j["lerax_back"] = src(back_a)
            r = back == sp
            impl = r if isinstance(r, bool) else None
            j["lerax_eq"] = repr(r)
        except Exception as e:  # noqa: BLE001
            j["raised"] = f"{type(e).__name__}: {str(e)[:200]}"
        sig = "C14/gym-roundtrip/Dict" if has(a, isdict) else f"C14/gym-roundtrip/{KIND[a[0]]}"
        add(f"CGym {sl} {optl(back_l, lambda s: s)} {optl(impl, bl)}", j, sig, key=("gym", src(a)))
        ck.count("gym")

    ck.log(f"{len(cases)} cases generated")
    res = ck.run_coq_cases("C14Check", cases, funcs=("agree", "holds", "case_wf"), shard=250,
                           preamble="From Lerax Require Import Spaces.\nImport C14Check.")
    if res is not None and res.get("case_wf"):
        i = res["case_wf"][0]
        ck.violations.append(Violation("correspondence-broken", "C14/harness/ill-formed-case",
                                       "the harness generated a space outside the well-formed constructions", case=cj[i]))
    ck.classify(res, cj, sig_of=lambda i: sigs[i], relation="Spaces.contains/flatten/space_eqb/gym_roundtrip vs lerax",
                what="lerax's answer differs from the specification of spaces (see 'check', 'expect' and the lerax_* fields of the case)")
    for sig, (_, v) in sorted(pyv.items()):
        if not any(x.sig == sig for x in ck.violations):
            ck.violations.append(v)


if __name__ == "__main__":
    run_main("C14", body)
