"""C18 — Saving and loading a policy restores it exactly or fails loudly.

Tie: the real `Serializable.serialize` / `.deserialize` (src/lerax/utils.py) of every
policy class in `lerax.policy`, on a fresh temporary directory per case, against
Lerax.C18Check:  the saver's leaves (shape, dtype, bit patterns), the leaf shapes of a
policy built with the loader's constructor arguments, the path spellings, the files
`serialize` created or changed, what `deserialize` did, and the bit patterns of the
outputs (actions with key=None and with a key, values / q-values, log-probabilities,
entropies) of the saver and of the loaded policy on the same random observations.
"""
from __future__ import annotations

import hashlib
import os
import shutil
import struct
import tempfile
from pathlib import Path

import numpy as np

from harness.common import listl, run_main, setup_jax, zl

jax = setup_jax(x64=False)  # the default lerax configuration: float32 parameters
import equinox as eqx  # noqa: E402
import jax.numpy as jnp  # noqa: E402
from jax import random as jr  # noqa: E402

from lerax.policy import MLPActorCriticPolicy, MLPQPolicy, MLPSACPolicy  # noqa: E402
from lerax.space import Box, Dict, Discrete, MultiBinary, MultiDiscrete, Tuple  # noqa: E402

CLASSES = {"MLPActorCriticPolicy": MLPActorCriticPolicy, "MLPQPolicy": MLPQPolicy, "MLPSACPolicy": MLPSACPolicy}


class StubEnv(eqx.Module):
    """the constructors only read `.action_space` and `.observation_space`"""
    action_space: object
    observation_space: object


# ----------------------------------------------------------------------------- spaces
def mk_space(d):
    k = d[0]
    if k == "disc":
        return Discrete(int(d[1]))
    if k == "box":
        _, shape, lo, hi = d
        lo = -jnp.inf if lo is None else lo
        hi = jnp.inf if hi is None else hi
        return Box(lo, hi, shape=tuple(shape))
    if k == "mbin":
        return MultiBinary(d[1] if isinstance(d[1], int) else tuple(d[1]))
    if k == "mdisc":
        return MultiDiscrete(tuple(d[1]))
    if k == "dict":
        return Dict({n: mk_space(s) for n, s in d[1]})
    if k == "tuple":
        return Tuple(tuple(mk_space(s) for s in d[1]))
    raise ValueError(d)


OBS_SPACES = [
    ("box", (3,), -1.0, 1.0),
    ("box", (2, 2), -2.0, 0.5),
    ("box", (), 0.0, 1.0),
    ("box", (2,), None, None),
    ("disc", 4),
    ("mdisc", (2, 3)),
    ("mbin", 3),
    ("dict", (("a", ("box", (2,), -1.0, 1.0)), ("b", ("disc", 3)))),
    ("tuple", (("box", (2,), -1.0, 1.0), ("disc", 2))),
]
AC_ACT = [("disc", 3), ("disc", 4), ("box", (2,), -1.0, 1.0), ("box", (), -2.0, 2.0), ("mbin", 3), ("mbin", (2, 2)), ("mdisc", (2, 3))]
Q_ACT = [("disc", 2), ("disc", 5)]
SAC_ACT = [("box", (2,), -1.0, 1.0), ("box", (), -2.0, 2.0), ("box", (1,), -1.0, 3.0)]

AC_ARCH = [
    dict(feature_size=4, feature_width=5, feature_depth=2, value_width=3, value_depth=1, action_width=4, action_depth=2),
    dict(feature_size=3, feature_width=4, feature_depth=1, value_width=4, value_depth=2, action_width=3, action_depth=1),
    dict(feature_size=5, feature_width=3, feature_depth=0, value_width=2, value_depth=0, action_width=5, action_depth=3, log_std_init=-0.5),
    dict(),  # library defaults (16 / 64 / depth 2)
]
Q_ARCH = [dict(width_size=4, depth=2, epsilon=0.1), dict(width_size=6, depth=1, epsilon=0.25), dict(width_size=3, depth=3, epsilon=0.05),
          dict(width_size=5, depth=0, epsilon=0.0), dict()]
SAC_ARCH = [dict(feature_size=4, width_size=5, depth=2), dict(feature_size=3, width_size=4, depth=1), dict(feature_size=6, width_size=3, depth=3), dict()]
ARCH = {"MLPActorCriticPolicy": AC_ARCH, "MLPQPolicy": Q_ARCH, "MLPSACPolicy": SAC_ARCH}
ACTS = {"MLPActorCriticPolicy": AC_ACT, "MLPQPolicy": Q_ACT, "MLPSACPolicy": SAC_ACT}

# spellings: (given to serialize, given to deserialize)
SPELLINGS = ["m", "m.eqx", "sub/dir/m", "m.v1", "a.b/m"]
CROSS = [("m", "m.eqx"), ("m.eqx", "m"), ("sub/dir/m.eqx", "sub/dir/m"), ("m.v1", "m.v1.eqx"), ("m.v1.eqx", "m.v1"),
         ("a.b/m", "a.b/m.eqx"), ("run.2024.best", "run.2024.best"), ("deep/er/still/m.ckpt", "deep/er/still/m.ckpt.eqx")]


def mk_policy(cfg, key):
    cls, asp, osp, kw = cfg
    return CLASSES[cls](StubEnv(mk_space(asp), mk_space(osp)), key=key, **kw)


# ----------------------------------------------------------------------------- leaves
DT = {"float16": 16, "bfloat16": 17, "float32": 32, "float64": 64, "int8": 108, "int16": 116, "int32": 132, "int64": 164,
      "uint8": 208, "uint16": 216, "uint32": 232, "uint64": 264, "bool": 1, "pyfloat": 1064, "pyint": 1164, "pybool": 1001}


BIG = 4096


def leaf_desc(x):
    """(shape, dtype name, bit patterns) of one serialisable leaf"""
    if isinstance(x, bool):
        return (), "pybool", [int(x)]
    if isinstance(x, int):
        return (), "pyint", [x]
    if isinstance(x, float):
        return (), "pyfloat", [struct.unpack("<Q", struct.pack("<d", x))[0]]
    a = np.ascontiguousarray(np.asarray(x))
    if a.dtype == np.bool_:
        bits = a.view(np.uint8)
    else:
        bits = a.view({1: np.uint8, 2: np.uint16, 4: np.uint32, 8: np.uint64}[a.dtype.itemsize])
    shape = tuple(int(d) for d in a.shape)
    assert bits.size == int(np.prod(shape, dtype=np.int64))
    if bits.size > BIG:
        # very large leaves (the 256-wide default SAC layers) go to Coq as the SHA-256 of their bytes, four 64-bit words
        h = hashlib.sha256(a.tobytes()).digest()
        return shape, str(a.dtype), [int.from_bytes(h[i:i + 8], "little") for i in range(0, 32, 8)]
    return shape, str(a.dtype), [int(b) for b in bits.reshape(-1)]


def leaves_of(policy):
    return [leaf_desc(x) for x in jax.tree.leaves(policy) if eqx.is_array_like(x)]


def zlist(bits, chunk=250):
    """a Coq list of Z; long ones as an append of short literals (the list notation is parsed recursively)"""
    bits = list(bits)
    if len(bits) <= chunk:
        return listl(zl(b) for b in bits)
    return "(" + " ++ ".join(listl(zl(b) for b in bits[i:i + chunk]) for i in range(0, len(bits), chunk)) + ")"


def leaf_lit(l):
    sh, dt, bits = l
    return f"(Serial.Build_leaf {listl(zl(d) for d in sh)} {zl(DT[dt])} {zlist(bits)})"


def spec_lit(l):
    sh, dt = l[0], l[1]
    return f"(Serial.Build_spec {listl(zl(d) for d in sh)} {zl(DT[dt])})"


def policy_lit(ls):
    return listl(leaf_lit(l) for l in ls)


def path_lit(rel: str):
    parts = rel.split("/")
    segs = listl(f'"{s}"%string' for s in parts[:-1])
    name = listl(f'"{s}"%string' for s in parts[-1].split("."))
    return f"(Serial.Build_path {segs} {name})"


def specials(policy, rng):
    """overwrite a few parameter entries with values whose bit patterns are easy to lose"""
    vals = np.array([-0.0, np.nan, np.inf, -np.inf, 1e-45, 3.4028235e38, 1.0000001], dtype=np.float32)

    def f(x):
        if isinstance(x, jax.Array) and x.dtype == jnp.float32 and x.size >= 2:
            a = np.array(x).reshape(-1)
            idx = rng.choice(a.size, size=min(2, a.size), replace=False)
            a[idx] = rng.choice(vals, size=len(idx))
            return jnp.asarray(a.reshape(x.shape))
        return x
    return jax.tree.map(f, policy)


# ----------------------------------------------------------------------------- outputs
def outputs(cls, policy, obs, key):
    """bit patterns of everything the policy computes on the observations"""
    out = []
    for i, o in enumerate(obs):
        k = jr.fold_in(key, i)
        if cls == "MLPActorCriticPolicy":
            _, a = policy(None, o)
            _, v = policy.value(None, o)
            _, v2, lp, ent = policy.evaluate_action(None, o, a)
            _, a2, v3, lp2 = policy.action_and_value(None, o, key=k)
            _, a3 = policy(None, o, key=k)
            out += [a, v, v2, lp, ent, a2, v3, lp2, a3]
        elif cls == "MLPQPolicy":
            _, a = policy(None, o)
            _, q = policy.q_values(None, o)
            _, a2 = policy(None, o, key=k)
            out += [a, q, a2]
        else:
            _, a = policy(None, o)
            _, a2, lp = policy.action_and_log_prob(None, o, key=k)
            _, d = policy.action_distribution(None, o)
            out += [a, a2, lp, d.log_prob(a2)]
    bits = []
    for x in out:
        bits += leaf_desc(x)[2]
    return bits


# ----------------------------------------------------------------------------- file system
def snapshot(root):
    snap = {}
    for r, _, fs in os.walk(root):
        for f in fs:
            p = os.path.join(r, f)
            st = os.stat(p)
            snap[os.path.relpath(p, root)] = (st.st_size, st.st_mtime_ns, hashlib.sha1(Path(p).read_bytes()).hexdigest())
    return snap


def resolved(rel):
    parts = rel.split("/")[-1].split(".")
    return rel if (len(parts) >= 2 and parts[-1] == "eqx") else rel + ".eqx"


def has_other_suffix(rel):
    n = rel.split("/")[-1]
    return "." in n and not n.endswith(".eqx")


# ----------------------------------------------------------------------------- one case
def run_case(ck, root_parent, saver_cfg, loader_cfg, save_rel, load_rel, decoys, tag, n_obs=1, spec_vals=False, as_path=False):
    """one serialize + one deserialize in a fresh directory; returns (coq literal, json)"""
    cls = saver_cfg[0]
    rng = ck.rng
    seed = int(rng.integers(0, 2**31 - 1))
    ck.current_case = {"kind": tag, "class": cls, "saver": saver_cfg[1:], "loader": loader_cfg[1:], "serialize_path": save_rel,
                       "deserialize_path": load_rel, "policy_key": seed}
    saver = mk_policy(saver_cfg, jr.key(seed))
    if spec_vals:
        saver = specials(saver, rng)
    like = mk_policy(loader_cfg, jr.key(seed + 1))  # loader's constructor arguments, another key
    s_leaves, k_leaves = leaves_of(saver), leaves_of(like)
    root = tempfile.mkdtemp(dir=root_parent)
    pre = []
    for drel, dpol in decoys:  # files that exist before, written by the harness under their exact names
        p = Path(root) / drel
        p.parent.mkdir(parents=True, exist_ok=True)
        if isinstance(dpol, str) and dpol == "DIR":       # a directory carrying the run's name next to the checkpoint
            p.mkdir(parents=True, exist_ok=True)
            continue
        if isinstance(dpol, str) and dpol == "SAME":      # a stale checkpoint of the SAME architecture under the literal name
            dpol = mk_policy(saver_cfg, jr.key(seed + 77))
        with open(p, "wb") as fh:
            eqx.tree_serialise_leaves(fh, dpol)
        pre.append((drel, leaves_of(dpol)))
    before = snapshot(root)
    j = dict(ck.current_case)
    j["pre_existing_files"] = sorted(before)
    arg = (lambda r: Path(root) / r) if as_path else (lambda r: os.path.join(root, r))
    j["path_type"] = "pathlib.Path" if as_path else "str"
    try:
        saver.serialize(arg(save_rel))
        jax.effects_barrier()
        j["serialize"] = "ok"
    except Exception as e:  # noqa: BLE001
        j["serialize"] = f"raised {type(e).__name__}: {str(e)[:200]}"
    after = snapshot(root)
    written = sorted(p for p in after if before.get(p) != after[p])
    j["files_written_or_changed"] = written
    j["expected_file"] = resolved(save_rel)
    loaded = None
    try:
        loaded = CLASSES[cls].deserialize(arg(load_rel), StubEnv(mk_space(loader_cfg[1]), mk_space(loader_cfg[2])),
                                          key=jr.key(seed + 2), **loader_cfg[3])
        j["deserialize"] = "returned a policy"
    except Exception as e:  # noqa: BLE001
        j["deserialize"] = f"raised {type(e).__name__}: {str(e)[:200]}"
    j["shapes_match"] = [l[:2] for l in s_leaves] == [l[:2] for l in k_leaves]
    j["saver_leaf_shapes"] = [[list(l[0]), l[1]] for l in s_leaves]
    j["loader_leaf_shapes"] = [[list(l[0]), l[1]] for l in k_leaves]
    out_s, out_l, l_leaves = [], [], None
    if loaded is not None:
        l_leaves = leaves_of(loaded)
        j["loaded_leaf_shapes"] = [[list(l[0]), l[1]] for l in l_leaves]
        diff = [i for i, (a, b) in enumerate(zip(s_leaves, l_leaves)) if a != b]
        if len(s_leaves) != len(l_leaves):
            diff.append(min(len(s_leaves), len(l_leaves)))
        j["leaves_differing_from_saver"] = diff
        j["differing_leaf_kinds"] = sorted({s_leaves[i][1] if i < len(s_leaves) else "missing" for i in diff})
        if diff and diff[0] < len(s_leaves) and diff[0] < len(l_leaves):
            a, b = s_leaves[diff[0]], l_leaves[diff[0]]
            j["first_difference"] = {"leaf": diff[0], "saver": [list(a[0]), a[1], a[2][:4]], "loaded": [list(b[0]), b[1], b[2][:4]]}
        if j["shapes_match"]:
            osp = mk_space(saver_cfg[2])
            obs = [osp.sample(key=jr.key(seed + 10 + i)) for i in range(n_obs)]
            ks = jr.key(seed + 5)

            def outs(pol, who):
                # a policy that cannot evaluate (e.g. NaN parameters tripping a runtime check of a distribution)
                # must fail the same way before and after the round trip
                try:
                    return outputs(cls, pol, obs, ks)
                except Exception as e:  # noqa: BLE001
                    j[f"outputs_{who}_raised"] = type(e).__name__
                    return [-1] + [ord(c) for c in type(e).__name__]
            out_s = outs(saver, "saver")
            out_l = outs(loaded, "loaded")
            j["outputs_equal_bitwise"] = out_s == out_l
            j["n_output_words"] = len(out_s)
    shutil.rmtree(root, ignore_errors=True)
    lit = ("C18Check.Build_case " + policy_lit(s_leaves) + " " + listl(spec_lit(l) for l in k_leaves) + " "
           + listl(f"({path_lit(r)}, {policy_lit(ls)})" for r, ls in pre) + " " + path_lit(save_rel) + " " + path_lit(load_rel) + " "
           + listl(path_lit(w) for w in written) + " " + ("None" if l_leaves is None else f"(Some {policy_lit(l_leaves)})") + " "
           + zlist(out_s) + " " + zlist(out_l))
    return lit, j


def signature(j):
    other = has_other_suffix(j["serialize_path"]) or has_other_suffix(j["deserialize_path"])
    if not j["serialize"].startswith("ok"):
        return "C18/serialize-raised"
    if j["files_written_or_changed"] != [j["expected_file"]]:
        return "C18/path/suffix-replaced" if other else "C18/path/file-name"
    if not j["shapes_match"]:
        return "C18/mismatch/partial-load" if j["deserialize"].startswith("returned") else "C18/mismatch"
    if not j["deserialize"].startswith("returned"):
        return "C18/path/suffix-replaced" if (other and "FileNotFoundError" in j["deserialize"]) else "C18/roundtrip/raised"
    kinds = j.get("differing_leaf_kinds", [])
    if kinds:
        return "C18/roundtrip/python-scalar-leaf" if all(k.startswith("py") for k in kinds) else "C18/roundtrip/array-leaf"
    return "C18/roundtrip/outputs"


# ----------------------------------------------------------------------------- body
def body(ck):
    ck.rule = ("round trips: every policy class in lerax.policy x every action-space kind it accepts x 9 observation spaces "
               "(Box vector/matrix/scalar/unbounded, Discrete, MultiDiscrete, MultiBinary, Dict, Tuple) x architecture presets "
               "(incl. depth 0 and the library defaults) x path spellings m, m.eqx, sub/dir/m, m.v1, a.b/m (+ cross spellings p / p.eqx, "
               "str and pathlib.Path, pre-existing neighbour files), parameters from the initialiser or seeded with -0.0/NaN/inf/denormals; "
               "mismatching pairs: other width, depth, feature size, observation dimension, action count, action kind, including pairs whose "
               "loader leaf shapes are a strict prefix of the saver's; every case in its own fresh temporary directory; "
               "a case is non-trivial when a file was written and the loader either returned a policy or raised; distinct by "
               "(class, spaces, architecture, spellings, loader)")
    ck.assumptions = [
        "the .npy byte format and the per-leaf shape/dtype comparison are equinox's and numpy's: modelled as the interface "
        "(one record per leaf, in jax.tree.leaves order) and exercised, not proved",
        "the temporary directory behaves like a POSIX file system (file identity by path, mkdir -p)",
        "file names are dot-separated non-empty components (no hidden files, no trailing dot)",
        "leaves with more than 4096 elements (only the 256-wide layers of the default MLPSACPolicy) are compared through their SHA-256",
    ]
    ck.not_proved = ["bit-exactness of equinox/numpy/jax array (de)serialisation and of jax.debug.callback argument passing "
                     "(explored on every case: all leaves compared bitwise)",
                     "identical outputs follow from identical leaves only for deterministic XLA execution (explored: outputs compared bitwise)"]
    ck.build_coq()
    ck.compile_props()
    ck.kernel_link()   # where serialize writes, regenerated from the source = Serial.resolve_name (coq/link/C18_link.v)
    rng = ck.rng
    quick = ck.tier == "quick"
    parent = tempfile.mkdtemp(prefix="c18-")
    cases, cj = [], []
    decoy = MLPQPolicy(StubEnv(Discrete(2), Box(-1.0, 1.0, shape=(1,))), width_size=1, depth=0, epsilon=0.5, key=jr.key(99))

    def add(saver_cfg, loader_cfg, save_rel, load_rel, tag, decoys=(), **kw):
        kw.setdefault("n_obs", 1 if quick else 3)
        lit, j = run_case(ck, parent, saver_cfg, loader_cfg, save_rel, load_rel, decoys, tag, **kw)
        cases.append(lit)
        cj.append(j)
        if len(cases) % 300 == 0:
            jax.clear_caches()  # thousands of one-off eager executables otherwise stay mapped for the whole run
        nontriv = j["serialize"] == "ok" and bool(j["files_written_or_changed"])
        key = (saver_cfg[0], str(saver_cfg[1:]), str(loader_cfg[1:]), save_rel, load_rel, kw.get("spec_vals", False), len(decoys))
        ck.case_seen(key if nontriv else None, sample={k: v for k, v in j.items() if not k.endswith("leaf_shapes")})
        ck.count(f"{tag}:{saver_cfg[0]}")
        ck.count(f"spelling:{save_rel}->{load_rel}")
        ck.count(f"act:{saver_cfg[1][0]}")
        ck.count(f"obs:{saver_cfg[2][0]}")
        ck.count("deserialize:" + ("returned" if j["deserialize"].startswith("returned") else "raised"))

    try:
        # ---- which (class, action space) pairs exist at all
        supported = []
        for cls in CLASSES:
            for asp in ACTS[cls]:
                try:
                    mk_policy((cls, asp, OBS_SPACES[0], ARCH[cls][0]), jr.key(0))
                    supported.append((cls, asp))
                except Exception as e:  # noqa: BLE001
                    ck.notes.append(f"{cls} cannot be constructed for action space {asp}: {type(e).__name__}: {str(e)[:80]} "
                                    "(not a C18 matter: no policy to save)")
                    ck.count(f"unsupported:{cls}:{asp[0]}")
        # ---- round trips
        n = 0
        for cls, asp in supported:
            for oi, osp in enumerate(OBS_SPACES):
                archs = ARCH[cls]
                if quick:
                    # two spellings per combination, rotating so that every (class, action kind) sees all five
                    arch = archs[n % (len(archs) - 1)]  # small presets; the defaults are covered below
                    spells = [SPELLINGS[(n + k) % 5] for k in (0, 2)]
                    for sp in spells:
                        add((cls, asp, osp, arch), (cls, asp, osp, arch), sp, sp, "roundtrip", spec_vals=(n % 3 == 0))
                else:
                    for ai, arch in enumerate(archs[:-1]):
                        for sp in SPELLINGS:
                            add((cls, asp, osp, arch), (cls, asp, osp, arch), sp, sp, "roundtrip", spec_vals=((n + ai) % 3 == 0))
                n += 1
        # every class x every spelling (+ cross spellings, Path objects, neighbours, default architecture)
        for cls in CLASSES:
            asp = ACTS[cls][0]
            osp = OBS_SPACES[0]
            for sp in SPELLINGS:
                add((cls, asp, osp, ARCH[cls][0]), (cls, asp, osp, ARCH[cls][0]), sp, sp, "roundtrip", as_path=True)
            for sv, ld in CROSS:
                add((cls, asp, osp, ARCH[cls][1]), (cls, asp, osp, ARCH[cls][1]), sv, ld, "roundtrip")
            # a neighbour file that must survive: "m.eqx" next to "m.v1", "m.v1.eqx" next to "m"
            add((cls, asp, osp, ARCH[cls][0]), (cls, asp, osp, ARCH[cls][0]), "m.v1", "m.v1", "roundtrip", decoys=[("m.eqx", decoy)])
            add((cls, asp, osp, ARCH[cls][0]), (cls, asp, osp, ARCH[cls][0]), "m", "m", "roundtrip", decoys=[("m.v1.eqx", decoy), ("sub/m.eqx", decoy)])
            add((cls, asp, osp, ARCH[cls][0]), (cls, asp, osp, ARCH[cls][0]), "sub/m.v2", "sub/m.v2", "roundtrip", decoys=[("sub/m.v1.eqx", decoy)])
            add((cls, asp, osp, ARCH[cls][-1]), (cls, asp, osp, ARCH[cls][-1]), "m", "m.eqx", "roundtrip")  # library defaults
            # something already lives under the literal (suffix-less) name: a stale same-architecture checkpoint, or a directory
            add((cls, asp, osp, ARCH[cls][0]), (cls, asp, osp, ARCH[cls][0]), "agent.ckpt", "agent.ckpt", "roundtrip", decoys=[("agent.ckpt", "SAME")])
            add((cls, asp, osp, ARCH[cls][0]), (cls, asp, osp, ARCH[cls][0]), "logs/exp1", "logs/exp1", "roundtrip", decoys=[("logs/exp1", "DIR")])
        # ---- mismatching pairs: deserialize must raise
        box3, box4, box22 = ("box", (3,), -1.0, 1.0), ("box", (4,), -1.0, 1.0), ("box", (2, 2), -1.0, 1.0)
        mism = []
        a0 = AC_ARCH[0]
        for asp in [("disc", 3), ("box", (2,), -1.0, 1.0), ("mbin", 3)]:
            s = ("MLPActorCriticPolicy", asp, box3, a0)
            for ch in [dict(feature_size=5), dict(feature_width=6), dict(feature_depth=1), dict(feature_depth=3), dict(value_width=4),
                       dict(value_depth=2), dict(action_width=3), dict(action_depth=3), dict(action_depth=1)]:
                mism.append((s, ("MLPActorCriticPolicy", asp, box3, {**a0, **ch})))
            mism.append((s, ("MLPActorCriticPolicy", asp, box4, a0)))
            mism.append((s, ("MLPActorCriticPolicy", asp, ("disc", 5), a0)))
        s = ("MLPActorCriticPolicy", ("disc", 3), box3, a0)
        for asp2 in [("disc", 4), ("disc", 2), ("box", (3,), -1.0, 1.0), ("mbin", 3), ("box", (), -1.0, 1.0)]:
            mism.append((s, ("MLPActorCriticPolicy", asp2, box3, a0)))
        s = ("MLPActorCriticPolicy", ("box", (2,), -1.0, 1.0), box3, a0)
        for asp2 in [("box", (3,), -1.0, 1.0), ("box", (), -1.0, 1.0), ("disc", 2), ("mbin", 2)]:
            mism.append((s, ("MLPActorCriticPolicy", asp2, box3, a0)))
        q0 = Q_ARCH[0]
        s = ("MLPQPolicy", ("disc", 3), box3, q0)
        for ch in [dict(width_size=5), dict(depth=1), dict(depth=3), dict(depth=0)]:
            mism.append((s, ("MLPQPolicy", ("disc", 3), box3, {**q0, **ch})))
        mism += [(s, ("MLPQPolicy", ("disc", 4), box3, q0)), (s, ("MLPQPolicy", ("disc", 2), box3, q0)),
                 (s, ("MLPQPolicy", ("disc", 3), box4, q0)), (s, ("MLPQPolicy", ("disc", 3), ("disc", 5), q0)),
                 (s, ("MLPQPolicy", ("disc", 3), ("box", (2,), -1.0, 1.0), q0))]
        s0 = SAC_ARCH[0]
        s = ("MLPSACPolicy", ("box", (2,), -1.0, 1.0), box3, s0)
        for ch in [dict(feature_size=5), dict(width_size=4), dict(depth=1), dict(depth=3)]:
            mism.append((s, ("MLPSACPolicy", ("box", (2,), -1.0, 1.0), box3, {**s0, **ch})))
        mism += [(s, ("MLPSACPolicy", ("box", (3,), -1.0, 1.0), box3, s0)), (s, ("MLPSACPolicy", ("box", (), -1.0, 1.0), box3, s0)),
                 (s, ("MLPSACPolicy", ("box", (2,), -1.0, 1.0), box4, s0)), (s, ("MLPSACPolicy", ("box", (2,), -1.0, 1.0), box22, s0))]
        # loaders whose leaf shapes are a strict PREFIX of the saver's (fewer layers, equal sizes): the file holds more
        # leaves than the loader consumes; also the converse (file too short)
        qs = dict(width_size=4, depth=2, epsilon=0.25)
        for d1, d2 in [(2, 1), (3, 1), (3, 2), (2, 0), (1, 2), (0, 1)]:
            mism.append((("MLPQPolicy", ("disc", 4), box3, {**qs, "depth": d1}), ("MLPQPolicy", ("disc", 4), box3, {**qs, "depth": d2})))
        acs = dict(feature_size=4, feature_width=4, feature_depth=1, value_width=4, value_depth=1, action_width=4, action_depth=3)
        for d1, d2 in [(3, 2), (4, 2), (2, 3)]:
            mism.append((("MLPActorCriticPolicy", ("disc", 4), box3, {**acs, "action_depth": d1}),
                         ("MLPActorCriticPolicy", ("disc", 4), box3, {**acs, "action_depth": d2})))
        sacs = dict(feature_size=1, width_size=1, depth=2)
        mism.append((("MLPSACPolicy", ("box", (1,), -1.0, 1.0), box3, sacs), ("MLPSACPolicy", ("box", (1,), -1.0, 1.0), box3, {**sacs, "depth": 1})))
        mism.append((("MLPSACPolicy", ("box", (1,), -1.0, 1.0), box3, {**sacs, "depth": 1}), ("MLPSACPolicy", ("box", (1,), -1.0, 1.0), box3, sacs)))
        if not quick:
            # every architecture argument of every class perturbed by +1, on several space combinations
            for cls, asp in supported:
                for osp in OBS_SPACES[:5]:
                    for arch in ARCH[cls][:3]:
                        for k, v in arch.items():
                            if k in ("epsilon", "log_std_init"):
                                continue
                            mism.append(((cls, asp, osp, arch), (cls, asp, osp, {**arch, k: v + 1})))
        for i, (sc, lc) in enumerate(mism):
            sp = SPELLINGS[i % 3] if SPELLINGS[i % 3] != "m.v1" else "m"
            add(sc, lc, sp, sp, "mismatch")
        trivial = [j for j in cj if j["kind"] == "mismatch" and j["shapes_match"]]
        if trivial:
            # e.g. another hidden width at depth 0: no parameter shape differs, so the property demands a plain round trip
            ck.count("mismatch-pairs-with-equal-leaf-shapes(treated as round trips)", len(trivial))
            for j in trivial[:2]:
                ck.notes.append(f"mismatch pair with equal leaf shapes (treated as round trip): {j['saver']} / {j['loader']}")
    finally:
        shutil.rmtree(parent, ignore_errors=True)

    try:
        with open("/proc/self/maps") as fh:
            ck.extra_cov["process_memory_maps_after_generation"] = sum(1 for _ in fh)
    except OSError:
        pass
    ck.log(f"{len(cases)} cases generated")
    res = ck.run_coq_cases("C18Check", cases, shard=40, preamble="From Lerax Require Import Serial.\nImport C18Check.")
    if res is not None:
        for i in res.get("holds", []):
            ck.count("property-fails:" + signature(cj[i]))
    ck.classify(res, cj, sig_of=lambda i: signature(cj[i]),
                relation="Serial.serialize/deserialize vs Serializable.serialize/deserialize",
                what="save/load does not restore the policy exactly or does not fail loudly")
    # say precisely what each finding is
    texts = {
        "C18/path/suffix-replaced": "serialize(\"<dir>/m.v1\") writes <dir>/m.eqx (Path.with_suffix replaces the existing suffix, silently "
                                    "overwriting any m.eqx) and deserialize(\"<dir>/m.v1\") looks for the literal name and raises FileNotFoundError",
        "C18/mismatch/partial-load": "deserialize into a policy with fewer layers whose leaf shapes are a prefix of the saved ones returns a "
                                     "policy built from the first leaves of the file instead of raising (trailing leaves ignored)",
        "C18/roundtrip/python-scalar-leaf": "a Python float field (MLPQPolicy.epsilon) is not restored bit-identically: serialize runs the policy "
                                            "through jax.debug.callback, which turns the float into a float32 array (0.1 -> 0.10000000149011612)",
    }
    for v in ck.violations:
        if v.sig in texts:
            v.what = texts[v.sig]


if __name__ == "__main__":
    run_main("C18", body)
