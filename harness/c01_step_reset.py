"""C01 — Gym-style step/reset honours episode boundaries.
Tie: real `env.reset` / `env.step` (jitted as shipped) on finite MDPs under
random wrapper stacks vs Lerax.Env.gym_reset/gym_step over Lerax.Tab.wrap_d;
built-in environments: `step` vs their own functional components composed by
the same key schedule (recorded environment, evaluated in Coq)."""
from __future__ import annotations

import numpy as np

from harness.common import bl, listl, ql, release_jit, run_main, setup_jax, zl

jax = setup_jax(x64=True)
import jax.numpy as jnp  # noqa: E402
import jax.random as jr  # noqa: E402

from harness import stubs  # noqa: E402
from harness.stubs import (KeyTree, TabEnv, build_stack, canon_state, obs_list, path_lit, random_stack, random_tab,  # noqa: E402
                           rawtbl_lit, sp_lit, space_desc, subtree, tab_lit, wd_lit)


def imp_out_lit(cnt, s, obs, rew, term, trunc, info):
    return (f"(Build_imp_out {listl(zl(c) for c in cnt)} {zl(s)} {listl(ql(x) for x in obs)} {ql(rew)} "
            f"{bl(term)} {bl(trunc)} {ql(info)})")


def one_case(ck, rng, seed_base, idx, horizon):
    spec = random_tab(rng)
    stack, asp, osp = random_stack(rng, spec)
    env = build_stack(TabEnv(spec), stack)
    T = int(rng.integers(1, horizon + 1))
    roots = [jr.key(int(seed_base + 1000 * idx + t)) for t in range(T + 1)]
    tree = KeyTree(roots)
    paths = subtree(((0, 0),), [2])
    for t in range(1, T + 1):
        paths += subtree(((0, t),), [4])
    raw_lit, raw_json = rawtbl_lit(tree, paths)

    ck.current_case = {"spec": spec, "stack": stack}
    state, obs, info = env.reset(key=roots[0])
    cnt, s = canon_state(state)
    reset = (cnt, s, obs_list(obs), 0.0, False, False, float(info["x"]))
    steps, outs = [], []
    n_done = 0; n_both = 0
    for t in range(1, T + 1):
        aspace = env.action_space
        if asp[0] == "disc":
            a = int(rng.integers(0, asp[1]))
            a_in = jnp.asarray(a)
        else:
            lo = asp[2] if asp[2] is not None else -4.0
            hi = asp[3] if asp[3] is not None else 4.0
            a = float(rng.integers(int(lo * 4), int(hi * 4) + 1)) / 4
            a_in = jnp.asarray(a).reshape(aspace.shape)
        state, obs, rew, term, trunc, info = env.step(state, a_in, key=roots[t])
        cnt, s = canon_state(state)
        steps.append((a, ((0, t),)))
        outs.append((cnt, s, obs_list(obs), float(rew), bool(term), bool(trunc), float(info["x"])))
        n_done += bool(term) or bool(trunc)
        n_both += bool(term) and bool(trunc)
    lit = (f"Build_case {tab_lit(spec)} {raw_lit} {listl(wd_lit(d) for d in stack)} {path_lit(((0, 0),))} "
           f"{listl('(' + ql(a) + ', ' + path_lit(p) + ')' for a, p in steps)} {imp_out_lit(*reset)} "
           f"{listl(imp_out_lit(*o) for o in outs)} {sp_lit(space_desc(env.action_space))} {sp_lit(space_desc(env.observation_space))}")
    j = {"spec": spec, "stack(outermost first)": stack, "root_seeds": [int(seed_base + 1000 * idx + t) for t in range(T + 1)],
         "raw_draws": raw_json, "actions": [a for a, _ in steps],
         "impl_reset[counters,s,obs,_,_,_,info]": reset, "impl_steps[counters,s,obs,reward,term,trunc,info]": outs,
         "impl_action_space": space_desc(env.action_space), "impl_observation_space": space_desc(env.observation_space)}
    ck.count(f"depth={len(stack)}"); ck.count(f"dones={min(n_done, 3)}"); ck.count("term&trunc_same_step", n_both)
    for d in stack:
        ck.count("w:" + d[0])
    nontriv = n_done >= 1 and T >= 2
    ck.case_seen((idx, len(stack), n_done) if nontriv else None, sample=j)
    return lit, j


def body(ck):
    ck.rule = ("random finite MDPs (2-6 states, 2-4 actions, stochastic transitions/observations/rewards/terminals via the draw oracle, inner truncation, "
               "discrete or bounded Box actions/observations) under random wrapper stacks of depth 0-4 over all 11 wrappers; reset + 1..H steps with explicit keys; "
               "non-trivial = at least one episode boundary crossed inside the run; distinct by (case index, depth, #boundaries)")
    ck.assumptions = ["jr.split is modelled by key paths; the stubs draw one jr.randint per key (tabulated for every path of the split tree)",
                      "float64 arithmetic exact on the dyadic tables"]
    ck.build_coq(); ck.compile_props()
    ck.kernel_link()   # AbstractEnvLike.step / reset regenerated from the source = Env.gym_step / gym_reset (coq/link/C01_link.v)
    quick = ck.tier == "quick"
    n = 100 if quick else 800
    H = 16 if quick else 40
    cases, cj = [], []
    for i in range(n):
        lit, j = one_case(ck, ck.rng, 10_000 * (ck.seed + 1), i, H)
        cases.append(lit); cj.append(j)
        release_jit(i)
    ck.current_case = None
    ck.log(f"{len(cases)} stub-MDP cases")
    res = ck.run_coq_cases("C01Check", cases, shard=25, preamble="From Lerax Require Import Env Tab.\nImport C01Check.")
    ck.classify(res, cj, relation="gym_reset/gym_step over wrap_d (base_env.py:240-286, wrapper/*.py) vs env.reset/env.step",
                what="env.step/env.reset output differs from the composition of the functional components with auto-reset")
    try:
        from harness.builtin_step import builtin_step_cases
        builtin_step_cases(ck, quick)
    except ImportError:
        ck.notes.append("built-in environment step-vs-components cases not available")
    # environments whose components have effects of their own (a Gymnasium environment behind GymToLeraxEnv: initial() resets the
    # backing simulator): the Gym-style step must take the transition from the GIVEN state and reset ONLY at an episode end, i.e. it
    # must reproduce the trajectory of a twin of the adapted environment (float32 subprocess shared with C13)
    import json as _json
    import os as _os
    import subprocess as _sp
    import sys as _sys
    from harness.common import VERIF, Violation
    env_ = dict(_os.environ); env_["VERIF_QUICK"] = "1" if quick else "0"; env_["VERIF_SEED"] = str(ck.seed); env_.pop("JAX_ENABLE_X64", None)
    p = _sp.run([_sys.executable, "-m", "harness.sub_c13_foreign"], env=env_, capture_output=True, text=True, timeout=1500, cwd=str(VERIF))
    line = [l for l in p.stdout.splitlines() if l.startswith("RESULT ")]
    if p.returncode != 0 or not line:
        ck.violations.append(Violation("impl-violates-property", "C01/step/GymToLeraxEnv/exception", "stepping a Gymnasium environment behind GymToLeraxEnv raised",
                                       extra={"stderr": p.stderr[-3000:]}))
    else:
        r = _json.loads(line[0][7:])
        n = r["counts"].get("adapter:GymToLeraxEnv", 0)
        ck.count("gym_adapter_steps", n); ck.evaluations += n
        if n:
            ck.case_seen(("gym-adapter-steps",))
        for v in r["violations"]:
            if "GymToLeraxEnv" in v["sig"]:
                ck.violations.append(Violation("impl-violates-property", "C01/step/GymToLeraxEnv",
                                               "env.step on a Gymnasium environment behind GymToLeraxEnv does not report the transition taken from the given state / "
                                               "resets at other times than episode ends (trajectory differs from a twin of the adapted environment)", case=v["case"]))


if __name__ == "__main__":
    run_main("C01", body)
