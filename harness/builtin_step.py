"""Runs harness/sub_builtin.py (float32 subprocess) once per (source tree, tier, seed) and hands the
per-property findings to the C01 / C02 / C12 checks."""
from __future__ import annotations

import hashlib
import json
import os
import subprocess
import sys
from pathlib import Path

from harness.common import VERIF, Violation


def source_hash():
    h = hashlib.sha1()
    for f in sorted(Path("/repo/src/lerax").rglob("*.py")):
        h.update(str(f).encode()); h.update(f.read_bytes())
    h.update(Path(__file__).with_name("sub_builtin.py").read_bytes())
    return h.hexdigest()[:16]


def run_builtin(ck, quick):
    tier = "quick" if quick else "thorough"
    cache = VERIF / ".cache" / "builtin"
    cache.mkdir(parents=True, exist_ok=True)
    dest = cache / f"{source_hash()}_{tier}_{ck.seed}.json"
    if not dest.exists():
        for old in cache.glob("*.json"):
            if old.stat().st_mtime < __import__("time").time() - 6 * 3600:
                old.unlink()
        p = subprocess.run([sys.executable, "-m", "harness.sub_builtin", tier, str(ck.seed), str(dest)], env=dict(os.environ),
                           capture_output=True, text=True, timeout=5400 if not quick else 1500)
        if p.returncode != 0 or not dest.exists():
            ck.violations.append(Violation("impl-violates-property", f"{ck.pid}/builtin/exception", "exercising the built-in environments failed",
                                           extra={"stderr": p.stderr[-3000:], "stdout": p.stdout[-1500:]}))
            return []
    else:
        ck.notes.append(f"built-in environment observations reused from this run's cache for the identical source tree ({dest.name})")
    return json.loads(dest.read_text())


def report(ck, quick, field, what):
    res = run_builtin(ck, quick)
    for r in res:
        if r.get("rejected"):
            ck.count("builtin_rejected_at_construction"); continue
        ck.count("builtin_envs"); ck.count("builtin_steps", r["steps"]); ck.count("builtin_dones", r["dones"])
        ck.evaluations += r["steps"]
        if r["dones"] and r["steps"]:
            ck.nontrivial_keys.add(("builtin", r["env"]))
        for e in r["errors"][:1]:
            ck.violations.append(Violation("impl-violates-property", f"{ck.pid}/builtin/{r['env']}/exception", f"built-in environment raised: {e}", case={"env": r["env"], "trace": r["errors"][-1]}))
        for f in r[field][:1]:
            ck.violations.append(Violation("impl-violates-property", f"{ck.pid}/builtin/{r['env']}", f"{what}: {f['what']}", case={"env": r["env"], **f, "seed": ck.seed}))
    return res


def builtin_step_cases(ck, quick):
    report(ck, quick, "c01", "env.step/env.reset of a built-in environment differs from the composition of its functional components (base_env.py:240-286 key schedule)")
