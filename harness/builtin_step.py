"""Runs harness/sub_builtin.py (float32 subprocess) once per (source tree, tier, seed) and hands the
per-property findings to the C01 / C02 / C12 checks."""
from __future__ import annotations

import hashlib
import json
import os
import subprocess
import sys
from pathlib import Path

from harness.common import VERIF, Violation


def source_hash():
    h = hashlib.sha1()
    import importlib.util
    root = Path(importlib.util.find_spec("lerax").origin).parent     # the lerax that the exerciser will import (PYTHONPATH)
    for f in sorted(root.rglob("*.py")):
        h.update(str(f).encode()); h.update(f.read_bytes())
    h.update(Path(__file__).with_name("sub_builtin.py").read_bytes())
    return h.hexdigest()[:16]


def run_builtin(ck, quick):
    tier = "quick" if quick else "thorough"
    cache = VERIF / ".cache" / "builtin"
    cache.mkdir(parents=True, exist_ok=True)
    dest = cache / f"{source_hash()}_{tier}_{ck.seed}.json"
    if not dest.exists():
        for old in cache.glob("*.json"):
            if old.stat().st_mtime < __import__("time").time() - 6 * 3600:
                old.unlink()
        p = subprocess.run([sys.executable, "-m", "harness.sub_builtin", tier, str(ck.seed), str(dest)], env=dict(os.environ),
                           capture_output=True, text=True, timeout=5400 if not quick else 1500)
        if p.returncode != 0 or not dest.exists():
            ck.violations.append(Violation("impl-violates-property", f"{ck.pid}/builtin/exception", "exercising the built-in environments failed",
                                           extra={"stderr": p.stderr[-3000:], "stdout": p.stdout[-1500:]}))
            return []
    else:
        ck.notes.append(f"built-in environment observations reused from this run's cache for the identical source tree ({dest.name})")
    return json.loads(dest.read_text())


def report(ck, quick, field, what):
    res = run_builtin(ck, quick)
    for r in res:
        if r.get("rejected"):
            ck.count("builtin_rejected_at_construction"); continue
        ck.count("builtin_envs"); ck.count("builtin_steps", r["steps"]); ck.count("builtin_dones", r["dones"])
        ck.evaluations += r["steps"]
        if r["dones"] and r["steps"]:
            ck.nontrivial_keys.add(("builtin", r["env"]))
        for e in r["errors"][:1]:
            ck.violations.append(Violation("impl-violates-property", f"{ck.pid}/builtin/{r['env']}/exception", f"built-in environment raised: {e}", case={"env": r["env"], "trace": r["errors"][-1]}))
        for f in r[field][:1]:
            ck.violations.append(Violation("impl-violates-property", f"{ck.pid}/builtin/{r['env']}", f"{what}: {f['what']}", case={"env": r["env"], **f, "seed": ck.seed}))
    return res


def _pl(p):
    return "[" + "; ".join(f"({n}%nat, {i}%nat)" for n, i in p) + "]"


def rec_case_lit(r):
    from harness.common import bl, listl, ql, zl
    init = listl(f"({_pl(p)}, {zl(i)})" for p, i in r["init"])
    trans = listl(f"(({zl(s)}, {zl(a)}, {_pl(p)}), {zl(n)})" for s, a, p, n in r["trans"])
    obs = listl(f"(({zl(s)}, {_pl(p)}), {zl(o)})" for s, p, o in r["obs"])
    rew = listl(f"(({zl(s)}, {zl(a)}, {zl(n)}, {_pl(p)}), {ql(x)})" for s, a, n, p, x in r["rew"])
    term = listl(f"(({zl(s)}, {_pl(p)}), {bl(b)})" for s, p, b in r["term"])
    trunc = listl(f"({zl(s)}, {bl(b)})" for s, b in r["trunc"])
    steps = listl(f"({zl(a)}, {_pl(p)})" for a, p in r["steps"])
    outs = listl(f"(Build_rout {zl(s)} {zl(o)} {ql(x)} {bl(te)} {bl(tr)})" for s, o, x, te, tr in r["outs"])
    return (f"Build_case (Build_rec {init} {trans} {obs} {rew} {term} {trunc}) {_pl(r['reset_key'])} {zl(r['reset_state'])} {zl(r['reset_obs'])} {steps} {outs}")


def builtin_step_cases(ck, quick):
    """built-in environments: (a) Python transliteration of gym_step inside the exerciser; (b) the recorded component tables are
    handed to Coq, which runs Lerax.Env.gym_step / gym_reset over them (Lerax.Rec) and compares with env.step / env.reset"""
    res = report(ck, quick, "c01", "env.step/env.reset of a built-in environment differs from the composition of its functional components (base_env.py:240-286 key schedule)")
    cases, cj = [], []
    for r in res:
        if r.get("rejected") or "c01_rec" not in r:
            continue
        cases.append(rec_case_lit(r["c01_rec"]))
        cj.append({"env": r["env"], "seed": ck.seed, "recorded_components_and_step_outputs": r["c01_rec"]})
        ck.count("builtin_recorded_envs_in_coq")
    if cases:
        out = ck.run_coq_cases("Rec", cases, shard=4, case_type="Rec.case", preamble="From Lerax Require Import Env.\nImport Rec.")
        ck.classify(out, cj, sig_of=lambda i: "C01/builtin-recorded/" + cj[i]["env"], relation="gym_step over the recorded components (Lerax.Rec) vs env.step",
                    what="env.step/env.reset of a built-in environment is not the composition of its own components with auto-reset")
